package main

// C16 structural rules.
//
//  E2.comparator-subject   the closure given to sort.Slice/SliceStable(xs, less) reads its keys
//                          from xs itself (or from a slice that an assignment in the function
//                          makes the same backing array), never from a different slice
//  E11.schema-key-source   a schema.SchemaKey is only ever built from the bytes returned by
//                          DependencyKeys.MarshalJSON (the canonical, sorted form) — or from
//                          the error text in NewSchemaKey's failure branch
//  E11.lookup-consumers    the set of LookupResult kinds a consumer accepts as "dependent body
//                          in force": whoever accepts LookupSuccessful in a disjunction also
//                          accepts LookupPartiallySuccessful (first-level body in force)

import (
	"go/ast"
	"go/token"
	"go/types"
	"strings"
)

func runCmpSubject(p *Prog, r *Report) {
	n := 0
	for _, fn := range p.Funcs {
		if fn.Body == nil {
			continue
		}
		info := fn.Info()
		ast.Inspect(fn.Body, func(m ast.Node) bool {
			if lit, ok := m.(*ast.FuncLit); ok && lit != fn.Lit {
				return false
			}
			call, ok := m.(*ast.CallExpr)
			if !ok {
				return true
			}
			full := calleeFull(info, call)
			if full != "sort.Slice" && full != "sort.SliceStable" || len(call.Args) != 2 {
				return true
			}
			lit, ok := comparatorLit(fn, call.Args[1])
			if !ok {
				return true
			}
			n++
			subj := pathOf(info, call.Args[0])
			var iv, jv types.Object
			var params []types.Object
			for _, f := range lit.Type.Params.List {
				for _, nm := range f.Names {
					params = append(params, info.ObjectOf(nm))
				}
			}
			if len(params) == 2 {
				iv, jv = params[0], params[1]
			}
			// aliases of the subject: X = subject or subject = X assignments in the enclosing function
			alias := map[string]bool{subj: true}
			root := fn
			for root.Parent != nil {
				root = root.Parent
			}
			ast.Inspect(root.Body, func(k ast.Node) bool {
				as, ok := k.(*ast.AssignStmt)
				if !ok || len(as.Lhs) != len(as.Rhs) {
					return true
				}
				for i := range as.Lhs {
					l, rr := pathOf(info, as.Lhs[i]), pathOf(info, as.Rhs[i])
					if l == "" || rr == "" {
						continue
					}
					if l == subj {
						alias[rr] = true
					}
					if rr == subj {
						alias[l] = true
					}
				}
				return true
			})
			var bad []string
			nIdx := 0
			ast.Inspect(lit.Body, func(k ast.Node) bool {
				ix, ok := k.(*ast.IndexExpr)
				if !ok {
					return true
				}
				id, ok := ast.Unparen(ix.Index).(*ast.Ident)
				if !ok {
					return true
				}
				o := info.ObjectOf(id)
				if o == nil || (o != iv && o != jv) {
					return true
				}
				nIdx++
				if pth := pathOf(info, ix.X); !alias[pth] {
					bad = append(bad, exprStr(ix.X))
				}
				return true
			})
			construct := full + "(" + exprStr(call.Args[0]) + ")"
			name := fn.Name
			switch {
			case len(bad) > 0:
				r.Add("E2.comparator-subject", name, construct, p.Pos(call), Violated,
					"the comparator reads its keys from "+strings.Join(dedup(bad), ", ")+", not from the slice being sorted: after the first swap it compares stale positions and the result is not sorted", true)
			case nIdx == 0:
				r.Add("E2.comparator-subject", name, construct, p.Pos(call), Undecided, "the comparator does not index any slice by its parameters", true)
			default:
				r.Add("E2.comparator-subject", name, construct, p.Pos(call), OK, "keys are read from the sorted slice itself", true)
			}
			return true
		})
	}
	r.Counts["E2.sort-closures"] = n
	r.ExpectMin("E2.sort-closures", n, 5)
	r.Clauses = append(r.Clauses, "E2 every sort.Slice/SliceStable comparator reads its keys from the slice being sorted")
}

func runSchemaKeySource(p *Prog, r *Report) {
	n := 0
	for _, fn := range p.Funcs {
		if fn.Body == nil || fn.Lit != nil {
			continue
		}
		info := fn.Info()
		ast.Inspect(fn.Body, func(m ast.Node) bool {
			call, ok := m.(*ast.CallExpr)
			if !ok || len(call.Args) != 1 {
				return true
			}
			tv, ok := info.Types[call.Fun]
			if !ok || !tv.IsType() || !typeIs(tv.Type, "hcl-lang/schema", "SchemaKey") {
				return true
			}
			if atv, ok := info.Types[call.Args[0]]; ok && atv.Value != nil {
				return true // constant
			}
			n++
			construct := exprStr(call)
			// argument: string(b) / b where b is result 0 of a MarshalJSON call on DependencyKeys
			arg := ast.Unparen(call.Args[0])
			if c, ok := arg.(*ast.CallExpr); ok && len(c.Args) == 1 {
				if ctv, ok := info.Types[c.Fun]; ok && ctv.IsType() {
					arg = ast.Unparen(c.Args[0])
				}
			}
			okSrc, detail := false, ""
			if id, ok := arg.(*ast.Ident); ok {
				o := info.ObjectOf(id)
				as := fn.Assignments(o)
				if len(as) == 1 {
					if s, ok := as[0].(*ast.AssignStmt); ok && len(s.Rhs) == 1 {
						if c, ok := ast.Unparen(s.Rhs[0]).(*ast.CallExpr); ok {
							if f := calleeOf(info, c); f != nil && fname(f) == "MarshalJSON" {
								if sig, ok := f.Type().(*types.Signature); ok && sig.Recv() != nil && typeIs(derefType(sig.Recv().Type()), "hcl-lang/schema", "DependencyKeys") {
									okSrc, detail = true, "bytes come from "+exprStr(c)
								}
							}
							if f := calleeOf(info, c); f != nil && fname(f) == "Sprintf" && strings.HasSuffix(fn.Name, "schema.NewSchemaKey") {
								// failure branch of NewSchemaKey: dominated by err != nil
								for _, fact := range fn.FactsAt(call) {
									if fact.Kind == FactCond && fact.Cond != nil && strings.Contains(exprStr(fact.Cond), "err != nil") && fact.Pol {
										okSrc, detail = true, "error text in the failure branch of NewSchemaKey"
									}
								}
							}
						}
					}
				}
			}
			if id, ok := arg.(*ast.Ident); ok && !okSrc {
				if src := roundTrippedSchemaKeys(fn, info.ObjectOf(id)); src != "" {
					okSrc, detail = true, "an element of "+src+", which only ever holds string(k) of existing schema keys"
				}
			}
			if okSrc {
				r.Add("E11.schema-key-source", fn.Name, construct, p.Pos(call), OK, detail, true)
			} else {
				r.Add("E11.schema-key-source", fn.Name, construct, p.Pos(call), Violated, "a schema key is built from something else than DependencyKeys.MarshalJSON (the canonical sorted form): lookups by NewSchemaKey-registered keys may miss", true)
			}
			return true
		})
	}
	r.Counts["E11.schema-key-conversions"] = n
	r.ExpectMin("E11.schema-key-conversions", n, 2)
	r.Clauses = append(r.Clauses, "E11 schema keys are only built from DependencyKeys.MarshalJSON output")
}

// runLookupConsumers: every boolean condition that accepts LookupSuccessful as one disjunct
// (result == LookupSuccessful || …) also accepts LookupPartiallySuccessful.
func runLookupConsumers(p *Prog, r *Report) {
	n := 0
	for _, fn := range p.Funcs {
		if fn.Body == nil || fn.Lit != nil {
			continue
		}
		info := fn.Info()
		seen := map[ast.Expr]bool{}
		ast.Inspect(fn.Body, func(m ast.Node) bool {
			be, ok := m.(*ast.BinaryExpr)
			if !ok || be.Op != token.LOR || seen[be] {
				return true
			}
			// flatten the disjunction
			var disj []ast.Expr
			var flat func(e ast.Expr)
			flat = func(e ast.Expr) {
				e = ast.Unparen(e)
				if b, ok := e.(*ast.BinaryExpr); ok && b.Op == token.LOR {
					seen[b] = true
					flat(b.X)
					flat(b.Y)
					return
				}
				disj = append(disj, e)
			}
			flat(be)
			kinds := map[string]bool{}
			for _, d := range disj {
				if b, ok := d.(*ast.BinaryExpr); ok && b.Op == token.EQL {
					for _, side := range []ast.Expr{b.X, b.Y} {
						if tv, ok := info.Types[side]; ok && tv.Value != nil && typeIs(tv.Type, "schemahelper", "LookupResult") {
							kinds[lastSel(side)] = true
						}
					}
				}
			}
			if len(kinds) == 0 {
				return true
			}
			n++
			construct := cmpText(be)
			if kinds["LookupSuccessful"] && !kinds["LookupPartiallySuccessful"] {
				r.Add("E11.lookup-consumers", fn.Name, construct, p.Pos(be), Violated,
					"accepts LookupSuccessful but not LookupPartiallySuccessful: with an unresolved second level the first-level dependent body is in force for the other features but not here", true)
			} else {
				r.Add("E11.lookup-consumers", fn.Name, construct, p.Pos(be), OK, "accepts the same result kinds as MergeBlockBodySchemas", true)
			}
			return true
		})
		// stand-alone tests `x == LookupSuccessful` (not part of a disjunction)
		ast.Inspect(fn.Body, func(m ast.Node) bool {
			be, ok := m.(*ast.BinaryExpr)
			if !ok || be.Op != token.EQL {
				return true
			}
			par := p.Parent(be)
			for {
				if pe, ok := par.(*ast.ParenExpr); ok {
					par = p.Parent(pe)
					continue
				}
				break
			}
			if pb, ok := par.(*ast.BinaryExpr); ok && pb.Op == token.LOR {
				return true
			}
			isSucc := false
			for _, side := range []ast.Expr{be.X, be.Y} {
				if tv, ok := info.Types[side]; ok && tv.Value != nil && typeIs(tv.Type, "schemahelper", "LookupResult") && lastSel(side) == "LookupSuccessful" {
					isSucc = true
				}
			}
			if !isSucc {
				return true
			}
			n++
			construct := cmpText(be)
			if why, ok := lookupConsumerExceptions[fn.Name]; ok {
				r.Add("E11.lookup-consumers", fn.Name, construct, p.Pos(be), Excepted, why, true)
				return true
			}
			r.Add("E11.lookup-consumers", fn.Name, construct, p.Pos(be), Violated,
				"accepts only LookupSuccessful: with an unresolved second level (LookupPartiallySuccessful) the first-level dependent body is in force for the other features but not here", true)
			return true
		})
	}
	r.Counts["E11.lookup-disjunctions"] = n
	r.ExpectMin("E11.lookup-disjunctions", n, 4)
	r.Clauses = append(r.Clauses, "E11 every consumer that accepts a successful dependent-body lookup among alternatives also accepts the partially successful one")
}

// runKeyCanonical: in DependencyKeys.MarshalJSON every slice field stored into the value
// that is marshalled is sorted, in the same basic block after the store (so on every path
// on which the field is non-empty the marshalled order is the sorted one).
func runKeyCanonical(p *Prog, r *Report) {
	n := 0
	for _, fn := range p.Funcs {
		if fn.Lit != nil || fn.Body == nil || fn.Name != "schema.DependencyKeys.MarshalJSON" {
			continue
		}
		info := fn.Info()
		// the marshalled value: a local that is filled field by field, or a literal
		var subject string
		var subjectLit *ast.CompositeLit
		var marshal *ast.CallExpr
		ast.Inspect(fn.Body, func(m ast.Node) bool {
			if c, ok := m.(*ast.CallExpr); ok && calleeFull(info, c) == "encoding/json.Marshal" && len(c.Args) == 1 {
				marshal = c
				a := ast.Unparen(c.Args[0])
				if u, ok := a.(*ast.UnaryExpr); ok && u.Op == token.AND {
					a = ast.Unparen(u.X)
				}
				if cl, ok := a.(*ast.CompositeLit); ok {
					subjectLit = cl
				} else {
					subject = pathOf(info, a)
					if id, ok := a.(*ast.Ident); ok {
						if def := fn.SingleDef(info.ObjectOf(id)); def != nil {
							d := ast.Unparen(def)
							if u, ok := d.(*ast.UnaryExpr); ok && u.Op == token.AND {
								d = ast.Unparen(u.X)
							}
							if cl, ok := d.(*ast.CompositeLit); ok {
								subjectLit = cl
							}
						}
					}
				}
			}
			return true
		})
		if subject == "" && subjectLit == nil {
			r.Add("E11.key-canonical", fn.Name, "json.Marshal", p.Pos(fn.Decl), Undecided, "no json.Marshal call found", true)
			continue
		}
		// the struct's slice fields must each be stored+sorted or never stored
		stored := map[string]bool{}
		if subjectLit != nil {
			for _, el := range subjectLit.Elts {
				kv, ok := el.(*ast.KeyValueExpr)
				if !ok {
					continue
				}
				k, ok := kv.Key.(*ast.Ident)
				if !ok {
					continue
				}
				if _, isSlice := info.TypeOf(kv.Value).Underlying().(*types.Slice); !isSlice {
					continue
				}
				n++
				stored[k.Name] = true
				construct := k.Name + ": " + cmpText(kv.Value)
				if sortedValue(fn, kv.Value, marshal, 0) {
					r.Add("E11.key-canonical", fn.Name, construct, p.Pos(kv), OK, "the stored value is sorted before the value is marshalled", true)
				} else {
					r.Add("E11.key-canonical", fn.Name, construct, p.Pos(kv), Violated, "stored into the marshalled value without being sorted: the key depends on the order the dependency keys were listed in", true)
				}
			}
		}
		ast.Inspect(fn.Body, func(m ast.Node) bool {
			as, ok := m.(*ast.AssignStmt)
			if !ok || subject == "" {
				return true
			}
			for i, l := range as.Lhs {
				sel, ok := ast.Unparen(l).(*ast.SelectorExpr)
				if !ok || pathOf(info, sel.X) != subject {
					continue
				}
				if _, isSlice := info.TypeOf(sel).Underlying().(*types.Slice); !isSlice {
					continue
				}
				n++
				stored[sel.Sel.Name] = true
				lp := pathOf(info, sel)
				blk := fn.BlockOf(as)
				sorted := false
				after := false
				if blk != nil {
					for _, nd := range blk.Nodes {
						if nd == fn.CFGNodeOf(as) {
							after = true
							continue
						}
						if !after {
							continue
						}
						ast.Inspect(nd, func(k ast.Node) bool {
							if c, ok := k.(*ast.CallExpr); ok {
								if isSortingCall(info, c) && pathOf(info, c.Args[0]) == lp {
									sorted = true
								}
							}
							return true
						})
					}
				}
				if !sorted && len(as.Lhs) == len(as.Rhs) && sortedValue(fn, as.Rhs[i], as, 0) {
					sorted = true
				}
				construct := exprStr(l) + " = " + cmpText(as.Rhs[0])
				if sorted {
					r.Add("E11.key-canonical", fn.Name, construct, p.Pos(as), OK, "sorted right after it is stored, before the value is marshalled", true)
				} else {
					r.Add("E11.key-canonical", fn.Name, construct, p.Pos(as), Violated, "stored into the marshalled value without being sorted: the key depends on the order the dependency keys were listed in", true)
				}
			}
			return true
		})
		// every slice field of DependencyKeys is handled
		if sig, ok := fn.Obj.Type().(*types.Signature); ok && sig.Recv() != nil {
			if st, ok := sig.Recv().Type().Underlying().(*types.Struct); ok {
				for i := 0; i < st.NumFields(); i++ {
					f := st.Field(i)
					if _, isSlice := f.Type().Underlying().(*types.Slice); isSlice && !stored[f.Name()] {
						r.Add("E11.key-canonical", fn.Name, "field "+f.Name(), p.Pos(fn.Decl), Violated, "slice field "+f.Name()+" of DependencyKeys is not part of the canonical form (never stored into the marshalled value)", true)
					}
				}
			}
		}
	}
	r.Counts["E11.key-fields"] = n
	r.ExpectMin("E11.key-fields", n, 1)
	r.Clauses = append(r.Clauses, "E11 DependencyKeys.MarshalJSON sorts every slice field it marshals")
}

var lookupConsumerExceptions = map[string]string{
	"decoder/internal/schemahelper.blockSchema.DependentBodySchema": "the producer itself: a nested lookup that is not fully successful is what makes the overall result 'partially successful'",
	"decoder.(*PathDecoder).decodeReferenceTargetsForBody":          "the data type of a dependent-body-as-data target is only inferred from a completely resolved dependent body (reviewed: with a partial lookup the target is not typed, the block's nested targets are still collected through the merged schema)",
}

func isSortingCall(info *types.Info, c *ast.CallExpr) bool {
	switch calleeFull(info, c) {
	case "sort.Slice", "sort.SliceStable", "sort.Sort", "sort.Stable", "slices.SortFunc", "slices.SortStableFunc", "sort.Strings", "sort.Ints", "slices.Sort":
		return len(c.Args) >= 1
	}
	return false
}

// sortedValue: e, evaluated at `at`, is a slice that was sorted: a local on which a sorting
// call dominates `at`, or the result of a module function whose every non-nil result is one.
func sortedValue(fn *Func, e ast.Expr, at ast.Node, depth int) bool {
	if depth > 2 {
		return false
	}
	info := fn.Info()
	switch x := ast.Unparen(e).(type) {
	case *ast.Ident:
		o := info.ObjectOf(x)
		if o == nil {
			return false
		}
		found := false
		ast.Inspect(fn.Body, func(k ast.Node) bool {
			if _, isLit := k.(*ast.FuncLit); isLit {
				return false
			}
			if c, ok := k.(*ast.CallExpr); ok && isSortingCall(info, c) && isIdentObj(info, c.Args[0], o) && fn.Dominates(c, at) {
				// no re-assignment of the local between the sort and the use
				stale := false
				for _, asn := range fn.Assignments(o) {
					if fn.Dominates(c, asn) && asn.Pos() > c.Pos() && asn.Pos() < at.Pos() {
						stale = true
					}
				}
				if !stale {
					found = true
				}
			}
			return true
		})
		return found
	case *ast.CallExpr:
		cf := calleeOf(info, x)
		if cf == nil {
			return false
		}
		t := fn.Prog.FuncOf[cf]
		if t == nil || t.Body == nil {
			return false
		}
		n, bad := 0, false
		ast.Inspect(t.Body, func(k ast.Node) bool {
			if _, isLit := k.(*ast.FuncLit); isLit {
				return false
			}
			ret, ok := k.(*ast.ReturnStmt)
			if !ok {
				return true
			}
			if len(ret.Results) != 1 {
				bad = true
				return true
			}
			if isNilIdent(t.Info(), ret.Results[0]) {
				return true
			}
			n++
			if !sortedValue(t, ret.Results[0], ret, depth+1) {
				bad = true
			}
			return true
		})
		return n > 0 && !bad
	}
	return false
}

// roundTrippedSchemaKeys: o is the element variable of `for _, o := range S` where the local
// slice S is only ever filled with string(k) of values k that already are schema keys (the
// usual "collect the keys, sort them as strings, walk them" shape). Returns S's name.
func roundTrippedSchemaKeys(fn *Func, o types.Object) string {
	if o == nil {
		return ""
	}
	info := fn.Info()
	var S types.Object
	ast.Inspect(fn.Body, func(m ast.Node) bool {
		rs, ok := m.(*ast.RangeStmt)
		if !ok || rs.Value == nil {
			return true
		}
		if v, ok := rs.Value.(*ast.Ident); ok && info.ObjectOf(v) == o {
			if sid, ok := ast.Unparen(rs.X).(*ast.Ident); ok {
				S = info.ObjectOf(sid)
			}
		}
		return true
	})
	if v, ok := S.(*types.Var); S == nil || !ok || v.IsField() || v.Parent() == nil || v.Parent() == v.Pkg().Scope() {
		return ""
	}
	good, fills := true, 0
	ast.Inspect(fn.Body, func(m ast.Node) bool {
		switch x := m.(type) {
		case *ast.UnaryExpr:
			if id, ok := ast.Unparen(x.X).(*ast.Ident); ok && x.Op == token.AND && info.ObjectOf(id) == S {
				good = false
			}
		case *ast.AssignStmt:
			for i, l := range x.Lhs {
				var rhs ast.Expr
				if len(x.Lhs) == len(x.Rhs) {
					rhs = x.Rhs[i]
				}
				if ix, ok := ast.Unparen(l).(*ast.IndexExpr); ok {
					if id, ok := ast.Unparen(ix.X).(*ast.Ident); ok && info.ObjectOf(id) == S {
						if rhs == nil || !isStringOfSchemaKey(info, rhs) {
							good = false
						} else {
							fills++
						}
					}
					continue
				}
				id, ok := ast.Unparen(l).(*ast.Ident)
				if !ok || info.ObjectOf(id) != S {
					continue
				}
				if rhs == nil {
					good = false
					continue
				}
				c, ok := ast.Unparen(rhs).(*ast.CallExpr)
				switch {
				case ok && isBuiltinCall(info, c, "make"):
				case ok && isBuiltinCall(info, c, "append") && !c.Ellipsis.IsValid() && len(c.Args) > 0:
					if a0, ok := ast.Unparen(c.Args[0]).(*ast.Ident); !ok || info.ObjectOf(a0) != S {
						good = false
					}
					for _, a := range c.Args[1:] {
						if !isStringOfSchemaKey(info, a) {
							good = false
						} else {
							fills++
						}
					}
				default:
					if cl, ok := ast.Unparen(rhs).(*ast.CompositeLit); ok && len(cl.Elts) == 0 {
						break
					}
					good = false
				}
			}
		}
		return true
	})
	if !good || fills == 0 {
		return ""
	}
	return S.Name()
}

func isStringOfSchemaKey(info *types.Info, e ast.Expr) bool {
	c, ok := ast.Unparen(e).(*ast.CallExpr)
	if !ok || len(c.Args) != 1 {
		return false
	}
	tv, ok := info.Types[c.Fun]
	if !ok || !tv.IsType() {
		return false
	}
	if b, ok := tv.Type.Underlying().(*types.Basic); !ok || b.Kind() != types.String {
		return false
	}
	return typeIs(info.TypeOf(c.Args[0]), "hcl-lang/schema", "SchemaKey")
}
