package main

// E6 — position-arithmetic engine (C02, C18).
//
// Positions are only ever parser positions of the current file, the cursor, or same-line
// shifts of those by one and the same constant for column and byte.

import (
	"fmt"
	"go/ast"
	"go/token"
	"go/types"
	"os"
	"strings"
)

func isHclPos(t types.Type) bool   { return t != nil && typeIs(t, "hcl/v2", "Pos") }
func isHclRange(t types.Type) bool { return t != nil && typeIs(t, "hcl/v2", "Range") }

func rootObjs(info *types.Info, e ast.Expr) map[types.Object]bool {
	out := map[types.Object]bool{}
	ast.Inspect(e, func(n ast.Node) bool {
		if id, ok := n.(*ast.Ident); ok {
			if v, ok := info.ObjectOf(id).(*types.Var); ok && !v.IsField() {
				out[v] = true
			}
		}
		return true
	})
	return out
}

// rootObjsDeep also follows range variables and single-definition locals to the
// variables they were derived from.
func rootObjsDeep(fn *Func, e ast.Expr) map[types.Object]bool {
	info := fn.Info()
	out := rootObjs(info, e)
	for round := 0; round < 3; round++ {
		for o := range out {
			for _, a := range fn.Assignments(o) {
				switch s := a.(type) {
				case *ast.RangeStmt:
					for k := range rootObjs(info, s.X) {
						out[k] = true
					}
				case *ast.AssignStmt:
					if def := fn.SingleDef(o); def != nil {
						for k := range rootObjs(info, def) {
							out[k] = true
						}
					}
					_ = s
				}
			}
		}
	}
	return out
}

func runE6(p *Prog, r *Report) {
	nPos, nRng, nAsg := 0, 0, 0
	for _, fn := range p.Funcs {
		info := fn.Info()
		ip := &idxProver{p: p, unsigned: map[string]bool{}, visiting: map[string]bool{}, fcName: map[string]string{}}
		ast.Inspect(fn.Body, func(x ast.Node) bool {
			if lit, ok := x.(*ast.FuncLit); ok && lit != fn.Lit {
				return false
			}
			switch e := x.(type) {
			case *ast.CompositeLit:
				t := info.TypeOf(e)
				if isHclPos(t) {
					nPos++
					e6PosLiteral(p, r, fn, ip, e)
				}
				if isHclRange(t) && len(e.Elts) > 0 {
					nRng++
					e6RangeLiteral(p, r, fn, e)
				}
			case *ast.IncDecStmt:
				// P.Column++ beside P.Byte++ is a coherent shift by one; alone it is not
				sel, ok := ast.Unparen(e.X).(*ast.SelectorExpr)
				if !ok || !isHclPos(info.TypeOf(sel.X)) {
					return true
				}
				switch sel.Sel.Name {
				case "Line", "Column", "Byte":
				default:
					return true
				}
				nAsg++
				other := map[string]string{"Column": "Byte", "Byte": "Column"}[sel.Sel.Name]
				paired := false
				if blk, ok := p.Parent(e).(*ast.BlockStmt); ok && other != "" {
					for k, st := range blk.List {
						if st != ast.Stmt(e) {
							continue
						}
						for _, nb := range []int{k - 1, k + 1} {
							if nb < 0 || nb >= len(blk.List) {
								continue
							}
							if s2, ok := blk.List[nb].(*ast.IncDecStmt); ok && s2.Tok == e.Tok {
								if sel2, ok := ast.Unparen(s2.X).(*ast.SelectorExpr); ok && sel2.Sel.Name == other && pathOf(info, sel2.X) == pathOf(info, sel.X) && pathOf(info, sel.X) != "" {
									paired = true
								}
							}
						}
					}
				}
				if paired {
					if sel.Sel.Name == "Column" {
						r.Add("E6.coherent-shift", fn.Name, exprStr(sel.X)+" shifted in place", p.Pos(e), OK, "same-line shift by 1 for both column and byte", true)
					}
				} else {
					r.Add("E6.component-assign", fn.Name, "assignment to "+exprStr(e.X), p.Pos(e), Violated,
						"a single component of a position is stepped separately (line, column and byte can no longer be kept consistent by construction)", true)
				}
			case *ast.AssignStmt:
				for i, l := range e.Lhs {
					sel, ok := ast.Unparen(l).(*ast.SelectorExpr)
					if !ok || i >= len(e.Rhs) {
						continue
					}
					xt := info.TypeOf(sel.X)
					switch sel.Sel.Name {
					case "Line", "Column", "Byte":
						if isHclPos(xt) {
							nAsg++
							if done, ok := e6PairedShift(p, r, fn, ip, e, sel); ok {
								_ = done
							} else if _, isConst := constInt(info, e.Rhs[i]); isConst {
								r.Add("E6.no-absolute", fn.Name, "assignment to "+exprStr(l), p.Pos(e), Violated, "a position component is assigned an absolute constant", true)
							} else {
								r.Add("E6.component-assign", fn.Name, "assignment to "+exprStr(l), p.Pos(e), Violated,
									"a single component of a position is assigned separately (line, column and byte can no longer be kept consistent by construction)", true)
							}
						}
					case "Start", "End":
						if isHclRange(xt) {
							nAsg++
							e6EndpointAssign(p, r, fn, e, sel, e.Rhs[i])
						}
					}
				}
			}
			return true
		})
		e6StaleLen(p, r, fn)
		e6LoopCarried(p, r, fn)
	}
	r.ExpectMin("E6.pos-literals", nPos, 10)
	r.ExpectMin("E6.range-literals", nRng, 30)
	r.ExpectMin("E6.endpoint-assignments", nAsg, 7)
	r.Clauses = append(r.Clauses,
		"E6 every hcl.Pos literal takes Line, Column and Byte from one base position with Line unchanged and Column and Byte shifted by the same term, and that term is a constant (a single-byte delimiter), never a byte length",
		"E6 no integer constant flows into a Line/Column/Byte component; components are never assigned one at a time",
		"E6 a Range literal takes its Filename from the same node as an endpoint, or its endpoints are the cursor",
		"E6 an endpoint of a range that may be returned is reset to the cursor only under a fact ordering it against the other endpoint",
		"E6 a length used in position arithmetic is not stale (the slice it measured is not re-sliced afterwards); path/file state carried across loop iterations is reset in every iteration")
}

func e6PosLiteral(p *Prog, r *Report, fn *Func, ip *idxProver, e *ast.CompositeLit) {
	info := fn.Info()
	line, col, byt := litField(e, "Line"), litField(e, "Column"), litField(e, "Byte")
	construct := "hcl.Pos{" + short(exprStr(orNil(byt)), 50) + "}"
	if line == nil || col == nil || byt == nil {
		r.Add("E6.coherent-shift", fn.Name, construct, p.Pos(e), Violated, "a position literal does not set all of Line, Column and Byte", true)
		return
	}
	for _, f := range []ast.Expr{line, col, byt} {
		if _, isConst := constInt(info, f); isConst {
			r.Add("E6.no-absolute", fn.Name, construct, p.Pos(e), Violated, "a position component is an absolute constant", true)
			return
		}
	}
	// base: Line must be <P>.Line
	ls, ok := ast.Unparen(line).(*ast.SelectorExpr)
	if !ok || ls.Sel.Name != "Line" {
		r.Add("E6.coherent-shift", fn.Name, construct, p.Pos(e), Violated, "Line is not copied unchanged from a base position", true)
		return
	}
	base := fn.Canon(ls.X)
	cl, bl := ip.parse(fn, col, 0), ip.parse(fn, byt, 0)
	if base == "" || cl == nil || bl == nil {
		r.Add("E6.coherent-shift", fn.Name, construct, p.Pos(e), Violated, "Column/Byte are not linear shifts of a base position", true)
		return
	}
	dc := cl.sub(linSym(base + ".Column"))
	db := bl.sub(linSym(base + ".Byte"))
	if dc.mentions(base+".Column") || db.mentions(base+".Byte") || cl.t[base+".Column"] != 1 || bl.t[base+".Byte"] != 1 {
		r.Add("E6.coherent-shift", fn.Name, construct, p.Pos(e), Violated, "Column and Byte are not taken from the same base position as Line ("+exprStr(ls.X)+")", true)
		return
	}
	if dc.key() != db.key() {
		r.Add("E6.coherent-shift", fn.Name, construct, p.Pos(e), Violated,
			fmt.Sprintf("Column is shifted by %s but Byte by %s: the position's column no longer matches its byte offset", dc, db), true)
		return
	}
	r.Add("E6.coherent-shift", fn.Name, construct, p.Pos(e), OK, "same-line shift of "+exprStr(ls.X)+" by "+dc.String()+" for both column and byte", true)
	if !dc.isConst() && e6ShiftIsConstantAtCallers(p, fn, dc) {
		r.Add("E6.byte-length-as-column", fn.Name, "hcl.Pos shifted by "+dc.String(), p.Pos(e), OK, "the shift is a parameter of this unexported helper and every call site passes a constant for it", true)
		return
	}
	if !dc.isConst() {
		key := "hcl.Pos shifted by " + dc.String()
		r.Add("E6.byte-length-as-column", fn.Name, key, p.Pos(e), Violated,
			"the column is shifted by a byte length ("+dc.String()+"): for multi-byte text the column no longer matches the byte offset", true)
	}
}

func e6RangeLiteral(p *Prog, r *Report, fn *Func, e *ast.CompositeLit) {
	info := fn.Info()
	fnm, st, en := litField(e, "Filename"), litField(e, "Start"), litField(e, "End")
	construct := "hcl.Range{Filename: " + short(exprStr(orNil(fnm)), 40) + "}"
	if fnm == nil || st == nil || en == nil {
		r.Add("E6.one-file", fn.Name, construct, p.Pos(e), Violated, "a range literal does not set all of Filename, Start and End", true)
		return
	}
	isCursor := func(x ast.Expr) bool {
		id, ok := ast.Unparen(x).(*ast.Ident)
		if !ok {
			return false
		}
		o := info.ObjectOf(id)
		for f := fn; f != nil; f = f.Parent {
			if f.isParam(o) && isHclPos(o.Type()) {
				return true
			}
		}
		return false
	}
	froots := rootObjsDeep(fn, fnm)
	shared := false
	for _, ep := range []ast.Expr{st, en} {
		// endpoints given as nested Pos literals: use their base
		for o := range rootObjsDeep(fn, ep) {
			if froots[o] {
				shared = true
			}
		}
	}
	// an endpoint built from the cursor (a shifted cursor position) counts as the cursor
	cursorBased := func(x ast.Expr) bool {
		if isCursor(x) {
			return true
		}
		if cl, ok := ast.Unparen(x).(*ast.CompositeLit); ok && isHclPos(info.TypeOf(cl)) {
			if l := litField(cl, "Line"); l != nil {
				if ls, ok := ast.Unparen(l).(*ast.SelectorExpr); ok && isCursor(ls.X) {
					return true
				}
			}
		}
		return false
	}
	if shared || (cursorBased(st) && cursorBased(en)) {
		r.Add("E6.one-file", fn.Name, construct, p.Pos(e), OK, "filename and endpoints come from the same node (or both endpoints are the cursor)", false)
		return
	}
	// one endpoint is the cursor, the other a parser position of the node the filename is from
	if isCursor(st) || isCursor(en) {
		other := st
		if isCursor(st) {
			other = en
		}
		// filename from receiver's expression / same struct: accept when both derive from the
		// same receiver or parameter
		for o := range rootObjs(info, other) {
			if froots[o] {
				r.Add("E6.one-file", fn.Name, construct, p.Pos(e), OK, "filename from the node that provides the other endpoint", false)
				return
			}
		}
	}
	// filename from the expression under analysis (receiver field) and endpoints from a
	// type-asserted view of the same expression (eType := x.expr.(type))
	if e6SameExprView(fn, fnm, st) || e6SameExprView(fn, fnm, en) {
		r.Add("E6.one-file", fn.Name, construct, p.Pos(e), OK, "filename and endpoint are views of the same expression", false)
		return
	}
	r.Add("E6.one-file", fn.Name, construct, p.Pos(e), Violated, "the range's Filename ("+exprStr(fnm)+") and its endpoints come from unrelated nodes: the range may name one file and offsets of another", true)
}

// e6SameExprView: a's root is the receiver (x.expr…) and b's root is a type-switch binding
// of x.expr, or a local defined from it.
func e6SameExprView(fn *Func, a, b ast.Expr) bool {
	info := fn.Info()
	ra := rootObjs(info, a)
	for o := range rootObjs(info, b) {
		// type switch binding: implicit object per clause
		for x := ast.Node(fn.Body); x != nil; x = nil {
			found := false
			ast.Inspect(fn.Body, func(n ast.Node) bool {
				ts, ok := n.(*ast.TypeSwitchStmt)
				if !ok {
					return true
				}
				bind := typeSwitchBinding(ts)
				if bind == nil || bind.Name != o.Name() {
					return true
				}
				if op := typeSwitchOperand(ts); op != nil {
					for ro := range rootObjs(info, op) {
						if ra[ro] {
							found = true
						}
					}
				}
				return true
			})
			if found {
				return true
			}
		}
		if def := fn.SingleDef(o); def != nil {
			for ro := range rootObjs(info, def) {
				if ra[ro] {
					return true
				}
			}
		}
	}
	return false
}

// e6EndpointAssign: r.End = v / r.Start = v.
func e6EndpointAssign(p *Prog, r *Report, fn *Func, as *ast.AssignStmt, sel *ast.SelectorExpr, rhs ast.Expr) {
	info := fn.Info()
	construct := exprStr(sel) + " = " + short(exprStr(rhs), 30)
	// is rhs the cursor?
	cursor := false
	if id, ok := ast.Unparen(rhs).(*ast.Ident); ok {
		o := info.ObjectOf(id)
		for f := fn; f != nil; f = f.Parent {
			if f.isParam(o) && isHclPos(o.Type()) {
				cursor = true
			}
		}
	}
	if !cursor {
		// endpoint taken from another parser range (e.g. widening a list target): out of scope
		r.Add("E6.ordered-endpoints", fn.Name, construct, p.Pos(as), OK, "endpoint taken from another parser range (relies on source order; not judged)", false)
		return
	}
	// only ranges that may be emitted matter: the variable is used as a Range value in a
	// literal / returned / passed on, other than to byte-slicing helpers
	rv := baseObj(info, sel.X)
	emitted := rangeVarEmitted(fn, rv)
	if false {
		ast.Inspect(fn.Body, func(n ast.Node) bool {
			switch x := n.(type) {
			case *ast.KeyValueExpr:
				if id, ok := ast.Unparen(x.Value).(*ast.Ident); ok && info.ObjectOf(id) == rv {
					emitted = true
				}
			case *ast.ReturnStmt:
				for _, res := range x.Results {
					if id, ok := ast.Unparen(res).(*ast.Ident); ok && info.ObjectOf(id) == rv {
						emitted = true
					}
				}
			case *ast.CallExpr:
				name := lastSel(x.Fun)
				if name == "bytesFromRange" || name == "SliceBytes" || name == "bytesInRange" || name == "ContainsPos" {
					return true
				}
				for i, a := range x.Args {
					if id, ok := ast.Unparen(a).(*ast.Ident); ok && info.ObjectOf(id) == rv {
						// parameter role: a parameter whose name starts with "prefix" is only sliced
						if f := calleeOf(info, x); f != nil {
							sig := f.Type().(*types.Signature)
							if i < sig.Params().Len() && strings.HasPrefix(strings.ToLower(sig.Params().At(i).Name()), "prefix") {
								continue
							}
						}
						emitted = true
					}
				}
			}
			return true
		})
	}
	if !emitted {
		r.Add("E6.ordered-endpoints", fn.Name, construct, p.Pos(as), OK, "the range is only used to slice bytes (bounds judged by E4.P3)", false)
		return
	}
	// ordering fact: X.ContainsPos(pos) on the same range, or X.Start.Byte <= pos.Byte, or
	// the variable was defined from a range with a dominating ContainsPos
	rp := fn.Canon(sel.X)
	other := "Start"
	if sel.Sel.Name == "Start" {
		other = "End"
	}
	ok := fn.GuardsAt(as).Holds(func(a *Atom) bool {
		if a.E == nil {
			return false
		}
		if call, isCall := ast.Unparen(a.E).(*ast.CallExpr); isCall && a.Pol {
			if s2, isSel := ast.Unparen(call.Fun).(*ast.SelectorExpr); isSel && s2.Sel.Name == "ContainsPos" {
				if c := fn.Canon(s2.X); c == rp && c != "" {
					return true
				}
				// the variable is a copy of that range
				if def := fn.aliasDef(rv); def != nil && fn.Canon(def) == fn.Canon(s2.X) && fn.Canon(def) != "" {
					return true
				}
			}
		}
		if be, isBe := ast.Unparen(a.E).(*ast.BinaryExpr); isBe {
			txt := exprStr(be)
			if strings.Contains(txt, exprStr(sel.X)+"."+other+".Byte") && strings.Contains(txt, ".Byte") && (be.Op == token.LEQ || be.Op == token.GEQ || be.Op == token.LSS || be.Op == token.GTR) {
				return true
			}
		}
		return false
	})
	if ok {
		r.Add("E6.ordered-endpoints", fn.Name, construct, p.Pos(as), OK, "dominated by a fact ordering the cursor against the range's other endpoint", true)
		return
	}
	r.Add("E6.ordered-endpoints", fn.Name, construct, p.Pos(as), Violated,
		"the "+sel.Sel.Name+" of a range that is handed back is reset to the cursor without any fact ordering the cursor against its "+other+": with the cursor on the other side the range is inverted", true)
}

// e6StaleLen: n := len(x) used in position arithmetic after x was re-sliced.
func e6StaleLen(p *Prog, r *Report, fn *Func) {
	info := fn.Info()
	ast.Inspect(fn.Body, func(n ast.Node) bool {
		cl, ok := n.(*ast.CompositeLit)
		if !ok || !isHclPos(info.TypeOf(cl)) {
			return true
		}
		for _, fld := range []string{"Column", "Byte"} {
			v := litField(cl, fld)
			if v == nil {
				continue
			}
			ast.Inspect(v, func(m ast.Node) bool {
				id, ok := m.(*ast.Ident)
				if !ok {
					return true
				}
				o := info.ObjectOf(id)
				def := fn.SingleDef(o)
				if def == nil {
					return true
				}
				call, ok := ast.Unparen(def).(*ast.CallExpr)
				if !ok || !isLenCall(info, call) {
					return true
				}
				// is the measured slice re-assigned between the definition and this use?
				ip := &idxProver{p: p}
				as := fn.Assignments(o)
				if len(as) == 1 && ip.changedBetween(fn, call.Args[0], as[0], cl) {
					r.Add("E6.stale-length", fn.Name, id.Name+" in hcl.Pos."+fld, p.Pos(cl), Violated,
						id.Name+" was computed as "+exprStr(def)+" before "+exprStr(call.Args[0])+" was re-sliced; the position is shifted by the old length", true)
				}
				return true
			})
		}
		return true
	})
}

// e6LoopCarried: a variable of type lang.Path / *PathContext / string filename declared
// outside a loop, assigned only conditionally inside it and read inside it, carries the
// previous iteration's value into the next one.
func e6LoopCarried(p *Prog, r *Report, fn *Func) {
	info := fn.Info()
	isStateType := func(t types.Type) bool {
		return t != nil && (typeIs(t, "hcl-lang/lang", "Path") || typeIs(t, "hcl-lang/decoder", "PathContext"))
	}
	ast.Inspect(fn.Body, func(n ast.Node) bool {
		var body *ast.BlockStmt
		switch l := n.(type) {
		case *ast.RangeStmt:
			body = l.Body
		case *ast.ForStmt:
			body = l.Body
		}
		if body == nil {
			return true
		}
		// candidate variables: assigned inside body, declared outside
		seen := map[types.Object]bool{}
		ast.Inspect(body, func(m ast.Node) bool {
			as, ok := m.(*ast.AssignStmt)
			if !ok || as.Tok != token.ASSIGN {
				return true
			}
			for _, l := range as.Lhs {
				id, ok := ast.Unparen(l).(*ast.Ident)
				if !ok {
					continue
				}
				o := info.ObjectOf(id)
				if o == nil || seen[o] || !isStateType(o.Type()) {
					continue
				}
				if o.Pos() >= body.Pos() && o.Pos() <= body.End() {
					continue // declared inside the loop: fresh per iteration
				}
				seen[o] = true
				// is there an assignment at the top level of the loop body that precedes every read?
				var firstRead, firstTopAssign token.Pos
				ast.Inspect(body, func(q ast.Node) bool {
					if qi, ok := q.(*ast.Ident); ok && info.ObjectOf(qi) == o {
						if par, ok := p.Parent(qi).(*ast.AssignStmt); ok {
							isLhs := false
							for _, pl := range par.Lhs {
								if ast.Unparen(pl) == ast.Expr(qi) {
									isLhs = true
								}
							}
							if isLhs {
								return true
							}
						}
						if !firstRead.IsValid() || qi.Pos() < firstRead {
							firstRead = qi.Pos()
						}
					}
					return true
				})
				for _, st := range body.List {
					if a2, ok := st.(*ast.AssignStmt); ok {
						for _, l2 := range a2.Lhs {
							if id2, ok := ast.Unparen(l2).(*ast.Ident); ok && info.ObjectOf(id2) == o {
								if !firstTopAssign.IsValid() {
									firstTopAssign = a2.Pos()
								}
							}
						}
					}
				}
				if firstRead.IsValid() && (!firstTopAssign.IsValid() || firstTopAssign > firstRead) {
					r.Add("E6.loop-carried-path", fn.Name, o.Name(), p.PosOf(firstRead), Violated,
						"variable "+o.Name()+" ("+types.TypeString(o.Type(), nil)+") is assigned only conditionally inside the loop and read in it: a value chosen for one element carries over to the next, so a result can name the path of another element", true)
				} else {
					r.Add("E6.loop-carried-path", fn.Name, o.Name(), p.Pos(as), OK, "reset at the top of every iteration before it is read", true)
				}
			}
			return true
		})
		return true
	})
}

// rangeVarEmitted: the range variable may be handed back to the client — it is used as a value
// in a literal, returned, or passed on other than to byte-slicing helpers and prefix parameters.
func rangeVarEmitted(fn *Func, rv types.Object) bool {
	info := fn.Info()
	emitted := false
	ast.Inspect(fn.Body, func(n ast.Node) bool {
		switch x := n.(type) {
		case *ast.KeyValueExpr:
			if id, ok := ast.Unparen(x.Value).(*ast.Ident); ok && info.ObjectOf(id) == rv {
				emitted = true
			}
		case *ast.ReturnStmt:
			for _, res := range x.Results {
				if id, ok := ast.Unparen(res).(*ast.Ident); ok && info.ObjectOf(id) == rv {
					emitted = true
				}
			}
		case *ast.CallExpr:
			name := lastSel(x.Fun)
			if name == "bytesFromRange" || name == "SliceBytes" || name == "bytesInRange" || name == "ContainsPos" {
				return true
			}
			for i, a := range x.Args {
				if id, ok := ast.Unparen(a).(*ast.Ident); ok && info.ObjectOf(id) == rv {
					if f := calleeOf(info, x); f != nil {
						sig := f.Type().(*types.Signature)
						if i < sig.Params().Len() {
							pn := strings.ToLower(sig.Params().At(i).Name())
							if strings.HasPrefix(pn, "prefix") || strings.HasPrefix(pn, "remaining") {
								continue
							}
						}
					}
					emitted = true
				}
			}
		}
		return true
	})
	return emitted
}

// e6PairedShift: `P.Column += d` beside `P.Byte += d` (same position, same operator, same
// term, Line untouched in between) is the statement form of a coherent same-line shift; it is
// judged like a position literal (the term must be a constant, never a byte length). Returns
// ok=false when the assignment is not one half of such a pair.
func e6PairedShift(p *Prog, r *Report, fn *Func, ip *idxProver, as *ast.AssignStmt, sel *ast.SelectorExpr) (bool, bool) {
	if (as.Tok != token.ADD_ASSIGN && as.Tok != token.SUB_ASSIGN) || len(as.Lhs) != 1 || len(as.Rhs) != 1 {
		return false, false
	}
	other := "Byte"
	if sel.Sel.Name == "Byte" {
		other = "Column"
	} else if sel.Sel.Name != "Column" {
		return false, false
	}
	info := fn.Info()
	base := pathOf(info, sel.X)
	blk, ok := p.Parent(as).(*ast.BlockStmt)
	if !ok || base == "" {
		return false, false
	}
	var partner *ast.AssignStmt
	idx, pidx := -1, -1
	for k, st := range blk.List {
		if st == ast.Stmt(as) {
			idx = k
		}
		s2, ok := st.(*ast.AssignStmt)
		if !ok || s2 == as || s2.Tok != as.Tok || len(s2.Lhs) != 1 || len(s2.Rhs) != 1 {
			continue
		}
		if s2sel, ok := ast.Unparen(s2.Lhs[0]).(*ast.SelectorExpr); ok && s2sel.Sel.Name == other && pathOf(info, s2sel.X) == base {
			partner, pidx = s2, k
		}
	}
	if partner == nil || idx < 0 || (pidx-idx != 1 && idx-pidx != 1) {
		return false, false
	}
	if sel.Sel.Name == "Byte" {
		return true, true // judged at the Column half
	}
	dc, db := ip.parse(fn, as.Rhs[0], 0), ip.parse(fn, partner.Rhs[0], 0)
	construct := exprStr(sel.X) + " shifted in place"
	if dc == nil || db == nil {
		r.Add("E6.coherent-shift", fn.Name, construct, p.Pos(as), Violated, "Column/Byte are not shifted by a linear term", true)
		return true, true
	}
	if dc.key() != db.key() {
		r.Add("E6.coherent-shift", fn.Name, construct, p.Pos(as), Violated,
			fmt.Sprintf("Column is shifted by %s but Byte by %s: the position's column no longer matches its byte offset", dc, db), true)
		return true, true
	}
	r.Add("E6.coherent-shift", fn.Name, construct, p.Pos(as), OK, "same-line shift by "+dc.String()+" for both column and byte", true)
	if !dc.isConst() {
		r.Add("E6.byte-length-as-column", fn.Name, "hcl.Pos shifted by "+dc.String(), p.Pos(as), Violated,
			"the column is shifted by a byte length ("+dc.String()+"): for multi-byte text the column no longer matches the byte offset", true)
	}
	return true, true
}

// e6ShiftIsConstantAtCallers: every symbol of the shift term is an (unassigned) integer
// parameter of the unexported, never-escaping function fn, and every call site of fn in the
// module passes an integer constant for it (a delimiter width decided by the caller).
func e6ShiftIsConstantAtCallers(p *Prog, fn *Func, d *lin) bool {
	if fn.Lit != nil || fn.Obj == nil || fn.Obj.Exported() || len(d.t) == 0 {
		return false
	}
	sig, ok := fn.Obj.Type().(*types.Signature)
	if !ok || sig.Variadic() {
		return false
	}
	idx := map[int]bool{}
	for sym := range d.t {
		if os.Getenv("HCLVERIF_E6DEBUG") != "" {
			fmt.Fprintf(os.Stderr, "E6DEBUG %s sym=%q\n", fn.Name, sym)
		}
		found := false
		for k := 0; k < sig.Params().Len(); k++ {
			pv := sig.Params().At(k)
			if (pv.Name() == sym || pathOfObj(pv) == sym || strings.HasPrefix(sym, pv.Name()+"@")) && len(fn.Assignments(pv)) == 0 {
				if bt, ok := pv.Type().Underlying().(*types.Basic); ok && bt.Info()&types.IsInteger != 0 {
					idx[k] = true
					found = true
				}
			}
		}
		if !found {
			return false
		}
	}
	nSites, good := 0, true
	for _, g := range p.Funcs {
		if g.Body == nil {
			continue
		}
		ginfo := g.Info()
		ast.Inspect(g.Body, func(n ast.Node) bool {
			switch y := n.(type) {
			case *ast.CallExpr:
				if calleeOf(ginfo, y) == fn.Obj {
					nSites++
					for k := range idx {
						if k >= len(y.Args) {
							good = false
							continue
						}
						if _, isConst := constInt(ginfo, y.Args[k]); !isConst {
							good = false
						}
					}
				}
			case *ast.Ident:
				if ginfo.Uses[y] == types.Object(fn.Obj) {
					if cs, isCall := p.Parent(y).(*ast.CallExpr); !isCall || cs.Fun != ast.Expr(y) {
						good = false
					}
				}
			}
			return true
		})
	}
	return nSites > 0 && good
}
