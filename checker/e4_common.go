package main

// e4_common.go — guard formulas: the branch facts that hold at a node, decomposed into
// atoms (go/cfg does not split && and ||), with alias-aware canonical access paths.

import (
	"go/ast"
	"go/token"
	"go/types"
	"golang.org/x/tools/go/cfg"
	"strings"
)

type Formula struct {
	Op   int // 0 atom, 1 and, 2 or
	Atom *Atom
	Sub  []*Formula
}

type Atom struct {
	E   ast.Expr // boolean expression (possibly synthesised tag == value)
	Pol bool
	// type-switch atom: X has dynamic type among Types (Pol true)
	TypeX ast.Expr
	Types []ast.Expr
	Fact  *Fact
	// Expanded: a boolean variable whose defining condition is also present (decomposed)
	Expanded bool
	// From: the helper call whose inlined body this atom comes from (outermost)
	From ast.Expr
}

func fAnd(fs ...*Formula) *Formula { return &Formula{Op: 1, Sub: fs} }
func fOr(fs ...*Formula) *Formula  { return &Formula{Op: 2, Sub: fs} }

func decompose(e ast.Expr, pol bool, f *Fact) *Formula {
	e = ast.Unparen(e)
	switch x := e.(type) {
	case *ast.UnaryExpr:
		if x.Op == token.NOT {
			return decompose(x.X, !pol, f)
		}
	case *ast.BinaryExpr:
		if x.Op == token.LAND {
			if pol {
				return fAnd(decompose(x.X, true, f), decompose(x.Y, true, f))
			}
			return fOr(decompose(x.X, false, f), decompose(x.Y, false, f))
		}
		if x.Op == token.LOR {
			if pol {
				return fOr(decompose(x.X, true, f), decompose(x.Y, true, f))
			}
			return fAnd(decompose(x.X, false, f), decompose(x.Y, false, f))
		}
	}
	return &Formula{Atom: &Atom{E: e, Pol: pol, Fact: f}}
}

// GuardsAt returns the conjunction of everything known to hold when control reaches n:
// dominating branch facts plus the short-circuit context of n inside its own condition.
func (fn *Func) GuardsAt(n ast.Node) *Formula {
	var parts []*Formula
	facts := fn.FactsAt(n)
	for i := range facts {
		f := &facts[i]
		switch f.Kind {
		case FactCond:
			parts = append(parts, decompose(f.Cond, f.Pol, f))
		case FactTagNe:
			if sw, ok := f.Switch.(*ast.SwitchStmt); ok && sw.Tag != nil {
				parts = append(parts, &Formula{Atom: &Atom{E: &ast.BinaryExpr{X: sw.Tag, Op: token.EQL, Y: f.Cond}, Pol: false, Fact: f}})
			}
		case FactCase:
			switch sw := f.Switch.(type) {
			case *ast.SwitchStmt:
				if f.Clause.List == nil {
					// default: tag differs from every other case value
					if sw.Tag != nil {
						for _, c := range sw.Body.List {
							for _, v := range c.(*ast.CaseClause).List {
								parts = append(parts, &Formula{Atom: &Atom{E: &ast.BinaryExpr{X: sw.Tag, Op: token.EQL, Y: v}, Pol: false, Fact: f}})
							}
						}
					} else {
						for _, c := range sw.Body.List {
							for _, v := range c.(*ast.CaseClause).List {
								parts = append(parts, decompose(v, false, f))
							}
						}
					}
					continue
				}
				var alts []*Formula
				for _, v := range f.Clause.List {
					if sw.Tag != nil {
						alts = append(alts, &Formula{Atom: &Atom{E: &ast.BinaryExpr{X: sw.Tag, Op: token.EQL, Y: v}, Pol: true, Fact: f}})
					} else {
						alts = append(alts, decompose(v, true, f))
					}
				}
				if len(alts) == 1 {
					parts = append(parts, alts[0])
				} else if len(alts) > 1 {
					parts = append(parts, fOr(alts...))
				}
				// tagless switch: earlier cases were false
				if sw.Tag == nil {
					for _, c := range sw.Body.List {
						cc := c.(*ast.CaseClause)
						if cc == f.Clause {
							break
						}
						for _, v := range cc.List {
							parts = append(parts, decompose(v, false, f))
						}
					}
				}
			case *ast.TypeSwitchStmt:
				x := typeSwitchOperand(sw)
				if x != nil && f.Clause.List != nil {
					parts = append(parts, &Formula{Atom: &Atom{TypeX: x, Types: f.Clause.List, Pol: true, Fact: f}})
				}
			}
		}
	}
	// short-circuit context inside n's own condition / expression
	for c := ast.Node(n); c != nil; c = fn.Prog.parents[c] {
		par := fn.Prog.parents[c]
		if be, ok := par.(*ast.BinaryExpr); ok && be.Y == c {
			if be.Op == token.LAND {
				parts = append(parts, decompose(be.X, true, nil))
			} else if be.Op == token.LOR {
				parts = append(parts, decompose(be.X, false, nil))
			}
		}
		if _, isStmt := par.(ast.Stmt); isStmt {
			break
		}
		if par == nil {
			break
		}
	}
	// counting loops: for i := A; …; i++ { … }  gives  i >= A inside the body
	info := fn.Info()
	for c := ast.Node(n); c != nil; c = fn.Prog.parents[c] {
		fs, ok := fn.Prog.parents[c].(*ast.ForStmt)
		if !ok || fs.Body != c {
			continue
		}
		init, ok := fs.Init.(*ast.AssignStmt)
		if !ok || init.Tok != token.DEFINE || len(init.Lhs) != 1 || len(init.Rhs) != 1 {
			continue
		}
		iv, ok := init.Lhs[0].(*ast.Ident)
		if !ok {
			continue
		}
		io := info.ObjectOf(iv)
		inc := false
		switch ps := fs.Post.(type) {
		case *ast.IncDecStmt:
			if id, ok := ast.Unparen(ps.X).(*ast.Ident); ok && info.ObjectOf(id) == io && ps.Tok == token.INC {
				inc = true
			}
		case *ast.AssignStmt:
			if len(ps.Lhs) == 1 && ps.Tok == token.ADD_ASSIGN {
				if id, ok := ast.Unparen(ps.Lhs[0]).(*ast.Ident); ok && info.ObjectOf(id) == io {
					if v, isC := constInt(info, ps.Rhs[0]); isC && v > 0 {
						inc = true
					}
				}
			}
		}
		if !inc || len(fn.Assignments(io)) != 2 {
			continue
		}
		parts = append(parts, &Formula{Atom: &Atom{E: &ast.BinaryExpr{X: iv, Op: token.GEQ, Y: init.Rhs[0]}, Pol: true, Expanded: true}})
	}
	if root := rootFunc(fn); root.extraGuard != nil {
		if eg := root.extraGuard[n]; eg != nil {
			parts = append(parts, eg)
		}
	}
	if eg := fn.closureEntryGuards(); eg != nil {
		parts = append(parts, eg)
	}
	return fn.expandHelperCalls(fn.expandOkFlags(fn.expandBoolVars(fAnd(parts...), 2), 1), 2)
}

// expandOkFlags: an atom that is the ok flag of `v, ok := search(args…)` (a function of the
// module with a body, every return of which ends in the literal true or false) additionally
// contributes what is known where the helper answers true (false for a negated flag): the
// disjunction, over its `return …, true` (false) statements, of the guards there, with the
// helper's parameters read as the arguments of the call. Only for calls whose arguments are built from variables that
// are assigned at most once (the guards speak about the values at the time of the call).
func (fn *Func) expandOkFlags(f *Formula, depth int) *Formula {
	if f == nil || depth == 0 {
		return f
	}
	if f.Op != 0 {
		out := &Formula{Op: f.Op}
		for _, s := range f.Sub {
			out.Sub = append(out.Sub, fn.expandOkFlags(s, depth))
		}
		return out
	}
	a := f.Atom
	if a == nil || a.E == nil || a.Expanded {
		return f
	}
	wantName := "true"
	if !a.Pol {
		wantName = "false"
	}
	id, ok := ast.Unparen(a.E).(*ast.Ident)
	if !ok {
		return f
	}
	info := fn.Info()
	o, ok := info.ObjectOf(id).(*types.Var)
	if !ok || o.IsField() {
		return f
	}
	root := rootFunc(fn)
	as := root.Assignments(o)
	if len(as) != 1 {
		return f
	}
	st, ok := as[0].(*ast.AssignStmt)
	if !ok || len(st.Rhs) != 1 || len(st.Lhs) < 2 || !isIdentObj(info, st.Lhs[len(st.Lhs)-1], o) {
		return f
	}
	call, ok := ast.Unparen(st.Rhs[0]).(*ast.CallExpr)
	if !ok {
		return f
	}
	cf := calleeOf(info, call)
	if cf == nil || cf.Pkg() == nil || !strings.HasPrefix(cf.Pkg().Path(), modPath) {
		return f
	}
	t := fn.Prog.FuncOf[cf]
	if t == nil || t.Body == nil || t.Decl == nil {
		return f
	}
	sig := cf.Type().(*types.Signature)
	if sig.Variadic() || sig.Params().Len() != len(call.Args) || sig.Results().Len() != len(st.Lhs) {
		return f
	}
	if bt, isB := sig.Results().At(sig.Results().Len() - 1).Type().Underlying().(*types.Basic); !isB || bt.Kind() != types.Bool {
		return f
	}
	// the arguments (and the receiver) speak about stable variables
	stable := func(e ast.Expr) bool {
		okS := true
		ast.Inspect(e, func(n ast.Node) bool {
			if vid, isId := n.(*ast.Ident); isId {
				if v, isVar := info.ObjectOf(vid).(*types.Var); isVar && !v.IsField() && v.Pkg() == fn.Pkg.Types && v.Parent() != fn.Pkg.Types.Scope() {
					k := len(root.Assignments(v))
					if (root.isParam(v) && k > 0) || (!root.isParam(v) && k > 1) {
						okS = false
					}
				}
			}
			return okS
		})
		return okS
	}
	for _, arg := range call.Args {
		if !stable(arg) {
			return f
		}
	}
	var recvObj types.Object
	var recvExpr ast.Expr
	if t.Decl.Recv != nil {
		sel, isSel := ast.Unparen(call.Fun).(*ast.SelectorExpr)
		if !isSel || len(t.Decl.Recv.List) != 1 || len(t.Decl.Recv.List[0].Names) != 1 || !stable(sel.X) {
			return f
		}
		recvObj = t.Info().ObjectOf(t.Decl.Recv.List[0].Names[0])
		recvExpr = sel.X
	}
	tinfo := t.Info()
	var alts []*Formula
	bad := false
	ast.Inspect(t.Body, func(n ast.Node) bool {
		if _, isLit := n.(*ast.FuncLit); isLit {
			return false
		}
		ret, isRet := n.(*ast.ReturnStmt)
		if !isRet {
			return true
		}
		if len(ret.Results) != sig.Results().Len() {
			bad = true
			return true
		}
		last, isId := ast.Unparen(ret.Results[len(ret.Results)-1]).(*ast.Ident)
		if !isId || (last.Name != "true" && last.Name != "false") {
			bad = true
			return true
		}
		if last.Name != wantName {
			return true
		}
		g := t.GuardsAt(ret)
		var conv func(x *Formula) *Formula
		conv = func(x *Formula) *Formula {
			if x == nil {
				return nil
			}
			if x.Op != 0 {
				out := &Formula{Op: x.Op}
				for _, sb := range x.Sub {
					if c := conv(sb); c != nil {
						out.Sub = append(out.Sub, c)
					} else if x.Op == 2 {
						return nil
					}
				}
				if len(out.Sub) == 0 {
					return nil
				}
				return out
			}
			if x.Atom == nil {
				return nil
			}
			c := *x.Atom
			c.Fact = nil
			c.From = a.E
			sub := func(e ast.Expr) ast.Expr {
				if e == nil {
					return nil
				}
				if recvObj != nil {
					e = substExpr(e, recvObj, recvExpr, tinfo)
				}
				for i := 0; i < sig.Params().Len(); i++ {
					e = substExpr(e, sig.Params().At(i), call.Args[i], tinfo)
				}
				return e
			}
			// atoms over the helper's own locals say nothing to the caller
			mentionsLocal := func(e ast.Expr) bool {
				found := false
				ast.Inspect(e, func(z ast.Node) bool {
					if vid, isId := z.(*ast.Ident); isId {
						if v, isVar := tinfo.ObjectOf(vid).(*types.Var); isVar && !v.IsField() && v.Parent() != t.Pkg.Types.Scope() && !t.isParam(v) && v != recvObj {
							if v.Pos() >= t.Body.Pos() && v.Pos() <= t.Body.End() {
								found = true
							}
						}
					}
					return !found
				})
				return found
			}
			if c.E != nil {
				e2 := t.InlineLocals(c.E, 3)
				if mentionsLocal(e2) {
					return nil
				}
				c.E = sub(e2)
			}
			if c.TypeX != nil {
				e2 := t.InlineLocals(c.TypeX, 3)
				if mentionsLocal(e2) {
					return nil
				}
				c.TypeX = sub(e2)
			}
			return &Formula{Atom: &c}
		}
		if c := conv(g); c != nil {
			alts = append(alts, c)
		} else {
			alts = append(alts, nil)
		}
		return true
	})
	if bad || len(alts) == 0 {
		return f
	}
	for _, al := range alts {
		if al == nil {
			return f // one way of answering true carries no knowledge
		}
	}
	mark := &Formula{Atom: &Atom{E: a.E, Pol: a.Pol, Fact: a.Fact, Expanded: true, From: a.From}}
	if len(alts) == 1 {
		return fAnd(mark, alts[0])
	}
	return fAnd(mark, fOr(alts...))
}

func rootFunc(fn *Func) *Func {
	for fn.Parent != nil {
		fn = fn.Parent
	}
	return fn
}

// expandHelperCalls: an atom that calls a boolean helper of the same package whose body is a
// single `return <expr>` additionally contributes that expression with the arguments
// substituted (guard recognition through one level of helper extraction).
func (fn *Func) expandHelperCalls(f *Formula, depth int) *Formula {
	if f == nil || depth == 0 {
		return f
	}
	if f.Op != 0 {
		out := &Formula{Op: f.Op}
		for _, s := range f.Sub {
			out.Sub = append(out.Sub, fn.expandHelperCalls(s, depth))
		}
		return out
	}
	a := f.Atom
	if a == nil || a.E == nil {
		return f
	}
	call, ok := ast.Unparen(a.E).(*ast.CallExpr)
	if !ok {
		return f
	}
	body := fn.inlinePredicateCall(call)
	if body == nil {
		return f
	}
	mark := &Formula{Atom: &Atom{E: a.E, Pol: a.Pol, Fact: a.Fact, Expanded: true, From: a.From}}
	exp := fn.expandHelperCalls(fn.expandBoolVars(decompose(body, a.Pol, a.Fact), 1), depth-1)
	origin := a.From
	if origin == nil {
		origin = a.E
	}
	for _, x := range exp.AllAtoms() {
		if x != nil {
			x.From = origin
		}
	}
	return fAnd(mark, exp)
}

// expandBoolVars: an atom that is a local boolean variable defined exactly once by a pure
// boolean expression (comparisons / && / || / ! over variables that are themselves never
// re-assigned) additionally contributes the decomposition of that expression.
func (fn *Func) expandBoolVars(f *Formula, depth int) *Formula {
	if f == nil || depth == 0 {
		return f
	}
	if f.Op != 0 {
		out := &Formula{Op: f.Op}
		for _, s := range f.Sub {
			out.Sub = append(out.Sub, fn.expandBoolVars(s, depth))
		}
		return out
	}
	a := f.Atom
	if a == nil || a.E == nil {
		return f
	}
	id, ok := ast.Unparen(a.E).(*ast.Ident)
	if !ok {
		return f
	}
	info := fn.Info()
	o, ok := info.ObjectOf(id).(*types.Var)
	if !ok || o.IsField() {
		return f
	}
	root := fn
	def := root.SingleDef(o)
	for def == nil && root.Parent != nil {
		root = root.Parent
		def = root.SingleDef(o)
	}
	if def == nil {
		return f
	}
	pure := true
	switch d := ast.Unparen(def).(type) {
	case *ast.BinaryExpr, *ast.UnaryExpr, *ast.CallExpr:
		if c, isCall := d.(*ast.CallExpr); isCall {
			if bt, isB := info.TypeOf(c).Underlying().(*types.Basic); !isB || bt.Kind() != types.Bool {
				pure = false
			}
		}
		ast.Inspect(d, func(n ast.Node) bool {
			switch n := n.(type) {
			case *ast.CallExpr:
				f := calleeOf(info, n)
				thirdParty := f != nil && f.Pkg() != nil && !strings.HasPrefix(f.Pkg().Path(), modPath)
				if !(f != nil && (pureMethods[f.Name()] || thirdParty)) && !isLenCall(info, n) {
					if tv, ok := info.Types[n.Fun]; !ok || !tv.IsType() {
						pure = false
					}
				}
			case *ast.TypeAssertExpr, *ast.IndexExpr, *ast.FuncLit:
				pure = false
			case *ast.UnaryExpr:
				if n.Op != token.NOT && n.Op != token.SUB {
					pure = false
				}
			case *ast.Ident:
				if v, ok := info.ObjectOf(n).(*types.Var); ok && !v.IsField() && v.Pkg() != nil && v.Parent() != v.Pkg().Scope() {
					if len(root.Assignments(v)) > 1 {
						pure = false
					}
				}
			}
			return pure
		})
	default:
		pure = false
	}
	if !pure {
		return f
	}
	mark := &Formula{Atom: &Atom{E: a.E, Pol: a.Pol, Fact: a.Fact, Expanded: true}}
	return fAnd(mark, fn.expandBoolVars(decompose(def, a.Pol, a.Fact), depth-1))
}

func typeSwitchOperand(sw *ast.TypeSwitchStmt) ast.Expr {
	var e ast.Expr
	switch a := sw.Assign.(type) {
	case *ast.AssignStmt:
		if len(a.Rhs) == 1 {
			e = a.Rhs[0]
		}
	case *ast.ExprStmt:
		e = a.X
	}
	if ta, ok := ast.Unparen(e).(*ast.TypeAssertExpr); ok {
		return ta.X
	}
	return nil
}

// typeSwitchBinding returns the variable bound by `switch v := x.(type)`, if any.
func typeSwitchBinding(sw *ast.TypeSwitchStmt) *ast.Ident {
	if a, ok := sw.Assign.(*ast.AssignStmt); ok && len(a.Lhs) == 1 {
		if id, ok := a.Lhs[0].(*ast.Ident); ok {
			return id
		}
	}
	return nil
}

// Holds: does the formula establish a property? q judges a single atom.
func (f *Formula) Holds(q func(*Atom) bool) bool {
	if f == nil {
		return false
	}
	switch f.Op {
	case 0:
		return q(f.Atom)
	case 1:
		for _, s := range f.Sub {
			if s.Holds(q) {
				return true
			}
		}
		return false
	default:
		if len(f.Sub) == 0 {
			return false
		}
		for _, s := range f.Sub {
			if !s.Holds(q) {
				return false
			}
		}
		return true
	}
}

// Atoms lists the atoms that hold unconditionally (top-level conjunction).
func (f *Formula) Atoms() []*Atom {
	var out []*Atom
	var walk func(x *Formula)
	walk = func(x *Formula) {
		if x == nil {
			return
		}
		switch x.Op {
		case 0:
			out = append(out, x.Atom)
		case 1:
			for _, s := range x.Sub {
				walk(s)
			}
		}
	}
	walk(f)
	return out
}

// AllAtoms returns every atom of the formula, including those inside disjunctions.
func (f *Formula) AllAtoms() []*Atom {
	var out []*Atom
	var walk func(x *Formula)
	walk = func(x *Formula) {
		if x == nil {
			return
		}
		if x.Op == 0 {
			out = append(out, x.Atom)
			return
		}
		for _, s := range x.Sub {
			walk(s)
		}
	}
	walk(f)
	return out
}

// ---------------------------------------------------------------------------------------
// canonical paths with alias expansion

// Canon renders the access path of e, replacing local variables that are defined exactly
// once by a pure path expression with that expression (t := v.Type() makes t an alias of
// v.Type()). Returns "" when e is not a path.
func (fn *Func) Canon(e ast.Expr) string {
	return fn.canon(e, 0)
}

func (fn *Func) canon(e ast.Expr, depth int) string {
	info := fn.Info()
	e = ast.Unparen(e)
	if depth < 4 {
		if id, ok := e.(*ast.Ident); ok {
			if o, ok := info.ObjectOf(id).(*types.Var); ok && !o.IsField() && o.Pkg() != nil && o.Parent() != o.Pkg().Scope() {
				if def := fn.aliasDef(o); def != nil && !fn.isParam(o) {
					if p := fn.canon(def, depth+1); p != "" && fn.stableBases(def) {
						return p
					}
				}
			}
		}
	}
	switch x := e.(type) {
	case *ast.SelectorExpr:
		if id, ok := x.X.(*ast.Ident); ok {
			if _, ok := info.Uses[id].(*types.PkgName); ok {
				return pathOf(info, e)
			}
		}
		if b := fn.canon(x.X, depth); b != "" {
			return b + "." + canonId(x.Sel.Name)
		}
		return ""
	case *ast.StarExpr:
		return fn.canon(x.X, depth)
	case *ast.UnaryExpr:
		if x.Op == token.AND {
			return fn.canon(x.X, depth)
		}
		return ""
	case *ast.CallExpr:
		sel, ok := ast.Unparen(x.Fun).(*ast.SelectorExpr)
		if !ok || len(x.Args) != 0 || !pureMethods[sel.Sel.Name] {
			return ""
		}
		if b := fn.canon(sel.X, depth); b != "" {
			return b + "." + sel.Sel.Name + "()"
		}
		return ""
	case *ast.TypeAssertExpr:
		return fn.canon(x.X, depth)
	case *ast.IndexExpr:
		b := fn.canon(x.X, depth)
		if b == "" {
			return ""
		}
		if c, ok := constInt(info, x.Index); ok {
			return b + "[" + itoa(c) + "]"
		}
		if s, ok := constString(info, x.Index); ok {
			return b + "[\"" + s + "\"]"
		}
		if ip := fn.canon(x.Index, depth); ip != "" {
			return b + "[" + ip + "]"
		}
		return ""
	}
	return pathOf(info, e)
}

// aliasDef returns the defining expression of a local that is an alias: assigned exactly
// once, or assigned again only under the guard `v == cty.DynamicPseudoType` (a branch that
// is dead for the types of known, non-null schema values — stated assumption).
func (fn *Func) aliasDef(o types.Object) ast.Expr {
	if def := fn.SingleDef(o); def != nil {
		return def
	}
	as := fn.Assignments(o)
	if len(as) < 2 {
		return nil
	}
	info := fn.Info()
	var first ast.Expr
	for i, a := range as {
		s, ok := a.(*ast.AssignStmt)
		if !ok || len(s.Lhs) != len(s.Rhs) {
			return nil
		}
		var rhs ast.Expr
		for k, l := range s.Lhs {
			if id, ok := ast.Unparen(l).(*ast.Ident); ok && info.ObjectOf(id) == o {
				rhs = s.Rhs[k]
			}
		}
		if rhs == nil {
			return nil
		}
		if i == 0 {
			first = rhs
			continue
		}
		dyn := fn.GuardsAt(s).Holds(func(at *Atom) bool {
			if at.E == nil || !at.Pol {
				return false
			}
			be, ok := ast.Unparen(at.E).(*ast.BinaryExpr)
			if !ok || be.Op != token.EQL {
				return false
			}
			isO := func(e ast.Expr) bool {
				id, ok := ast.Unparen(e).(*ast.Ident)
				return ok && info.ObjectOf(id) == o
			}
			return (isO(be.X) && isCtyConst(info, be.Y, "DynamicPseudoType")) || (isO(be.Y) && isCtyConst(info, be.X, "DynamicPseudoType"))
		})
		if !dyn {
			return nil
		}
	}
	if first != nil && !typeIs(info.TypeOf(first), "go-cty/cty", "Type") {
		return nil
	}
	return first
}

func itoa(v int64) string {
	if v == 0 {
		return "0"
	}
	neg := v < 0
	if neg {
		v = -v
	}
	var b []byte
	for v > 0 {
		b = append([]byte{byte('0' + v%10)}, b...)
		v /= 10
	}
	if neg {
		return "-" + string(b)
	}
	return string(b)
}

func (fn *Func) isParam(o types.Object) bool {
	if fn.Type.Params != nil {
		for _, f := range fn.Type.Params.List {
			for _, n := range f.Names {
				if fn.Info().ObjectOf(n) == o {
					return true
				}
			}
		}
	}
	if fn.Decl != nil && fn.Decl.Recv != nil {
		for _, f := range fn.Decl.Recv.List {
			for _, n := range f.Names {
				if fn.Info().ObjectOf(n) == o {
					return true
				}
			}
		}
	}
	return false
}

// stableBases: every local variable mentioned in the defining expression is assigned at
// most once (so the alias cannot go stale).
func (fn *Func) stableBases(def ast.Expr) bool {
	ok := true
	info := fn.Info()
	ast.Inspect(def, func(n ast.Node) bool {
		if id, isId := n.(*ast.Ident); isId {
			if v, isVar := info.ObjectOf(id).(*types.Var); isVar && !v.IsField() {
				n := len(fn.Assignments(v))
				if fn.isParam(v) {
					if n > 0 {
						ok = false
					}
				} else if n > 1 {
					ok = false
				}
			}
		}
		return true
	})
	return ok
}

// guardStillValid: no variable of the guard's access path is re-assigned between the
// guard and the use.
func (fn *Func) guardStillValid(a *Atom, guardExpr ast.Expr, use ast.Node) (bool, string) {
	if a.Fact == nil {
		return true, ""
	}
	for _, o := range pathObjects(fn.Info(), guardExpr) {
		if n := fn.ReassignedBetween(o, *a.Fact, use); n != nil {
			return false, o.Name() + " is re-assigned at " + fn.Prog.Pos(n) + " after the guard"
		}
	}
	return true, ""
}

func isCtyConst(info *types.Info, e ast.Expr, name string) bool {
	sel, ok := ast.Unparen(e).(*ast.SelectorExpr)
	if !ok || sel.Sel.Name != name {
		return false
	}
	o := info.ObjectOf(sel.Sel)
	return o != nil && o.Pkg() != nil && strings.HasSuffix(o.Pkg().Path(), "go-cty/cty")
}

// HoldsOnAllPaths: path-sensitive version of GuardsAt(at).Holds(q). Every CFG path from the
// function entry to `at` must cross, after its last assignment to the variables involved, an
// edge whose condition (decomposed, with bool-variable expansion) establishes q. It accepts
// the control-flow shapes that plain dominance cannot see, e.g.
//
//	if a { if !b { return }; x = … }      // at the use: a→b on every path
//
// Used as a fallback when the dominance-based test fails.
func (fn *Func) HoldsOnAllPaths(at ast.Node, q func(*Atom) bool) bool {
	g := fn.CFG()
	start := fn.BlockOf(at)
	if g == nil || start == nil {
		return false
	}
	info := fn.Info()
	preds := map[*cfg.Block][]*cfg.Block{}
	for _, b := range g.Blocks {
		for _, s := range b.Succs {
			preds[s] = append(preds[s], b)
		}
	}
	// the formula established by taking edge p -> s
	edgeFormula := func(p, s *cfg.Block) *Formula {
		if len(p.Succs) != 2 {
			return nil
		}
		k := 1
		if s == p.Succs[0] {
			k = 0
		}
		return fn.edgeCondFormula(p, k)
	}
	// objects assigned in a block (to invalidate atoms that mention them)
	assignedIn := func(b *cfg.Block, upto ast.Node) map[types.Object]bool {
		out := map[types.Object]bool{}
		for _, n := range b.Nodes {
			if upto != nil && n == upto {
				break
			}
			ast.Inspect(n, func(z ast.Node) bool {
				switch s := z.(type) {
				case *ast.AssignStmt:
					for _, l := range s.Lhs {
						if o := baseObj(info, l); o != nil {
							out[o] = true
						}
					}
				case *ast.IncDecStmt:
					if o := baseObj(info, s.X); o != nil {
						out[o] = true
					}
				}
				return true
			})
		}
		return out
	}
	mentionsAny := func(a *Atom, dirty map[types.Object]bool) bool {
		if a == nil || a.E == nil || len(dirty) == 0 {
			return false
		}
		bad := false
		ast.Inspect(a.E, func(z ast.Node) bool {
			if id, ok := z.(*ast.Ident); ok && dirty[info.ObjectOf(id)] {
				bad = true
			}
			return !bad
		})
		return bad
	}
	onPath := map[*cfg.Block]bool{}
	memo := map[*cfg.Block]bool{}
	var visit func(b *cfg.Block, dirty map[types.Object]bool, depth int) bool
	visit = func(b *cfg.Block, dirty map[types.Object]bool, depth int) bool {
		if depth > 200 {
			return false
		}
		ps := preds[b]
		if len(ps) == 0 || b.Index == 0 {
			return false // reached the entry without the fact
		}
		if onPath[b] {
			return true // a cycle: the path entered it from somewhere explored separately
		}
		if len(dirty) == 0 {
			if v, ok := memo[b]; ok {
				return v
			}
		}
		onPath[b] = true
		defer delete(onPath, b)
		res := true
		for _, p := range ps {
			if !p.Live {
				continue // dead code after a return/branch
			}
			okEdge := false
			if f := edgeFormula(p, b); f != nil {
				okEdge = f.Holds(func(a *Atom) bool { return !mentionsAny(a, dirty) && q(a) })
			}
			if okEdge {
				continue
			}
			d2 := dirty
			if as := assignedIn(p, nil); len(as) > 0 {
				d2 = map[types.Object]bool{}
				for k := range dirty {
					d2[k] = true
				}
				for k := range as {
					d2[k] = true
				}
			}
			if !visit(p, d2, depth+1) {
				res = false
				break
			}
		}
		if len(dirty) == 0 {
			memo[b] = res
		}
		return res
	}
	return visit(start, assignedIn(start, fn.CFGNodeOf(at)), 0)
}

// edgeCondFormula: the formula established by leaving block b through successor k (0 = the
// condition held): a boolean condition, or `tag == value` for a case of a tagged switch.
func (fn *Func) edgeCondFormula(b *cfg.Block, k int) *Formula {
	if len(b.Succs) != 2 || b.Succs[0] == b.Succs[1] || len(b.Nodes) == 0 || b.Kind == cfg.KindRangeLoop {
		return nil
	}
	cond, ok := b.Nodes[len(b.Nodes)-1].(ast.Expr)
	if !ok {
		return nil
	}
	if cc, isCase := fn.Prog.parents[cond].(*ast.CaseClause); isCase {
		sw, _ := fn.enclosingSwitch(cc).(*ast.SwitchStmt)
		if sw == nil {
			return nil
		}
		if sw.Tag != nil {
			return &Formula{Atom: &Atom{E: &ast.BinaryExpr{X: sw.Tag, Op: token.EQL, Y: cond}, Pol: k == 0}}
		}
		// tagless switch: the case expression is a boolean condition
	}
	return fn.expandHelperCalls(fn.expandBoolVars(decompose(cond, k == 0, nil), 2), 2)
}

// inlinePredicateCall: the body of a one-line predicate of the same package (a function or
// a method: `return <expr>`), with parameters and receiver replaced by the call's arguments;
// nil if the callee is not of that shape.
func (fn *Func) inlinePredicateCall(call *ast.CallExpr) ast.Expr {
	info := fn.Info()
	var stmts []ast.Stmt
	var params []types.Object
	var recvField *ast.FieldList
	callee := calleeOf(info, call)
	if callee != nil {
		if callee.Pkg() == nil || callee.Pkg() != fn.Pkg.Types {
			return nil
		}
		cf := fn.Prog.FuncOf[callee]
		if cf == nil || cf.Body == nil || cf.Decl == nil {
			return nil
		}
		sig := callee.Type().(*types.Signature)
		if sig.Variadic() || sig.Params().Len() != len(call.Args) || sig.Results().Len() != 1 {
			return nil
		}
		if b, isB := sig.Results().At(0).Type().Underlying().(*types.Basic); len(cf.Body.List) > 1 && (!isB || b.Kind() != types.Bool) {
			return nil
		}
		stmts = cf.Body.List
		for i := 0; i < sig.Params().Len(); i++ {
			params = append(params, sig.Params().At(i))
		}
		recvField = cf.Decl.Recv
	} else {
		// a local closure bound once: pred := func(x T) bool {…}
		id, ok := ast.Unparen(call.Fun).(*ast.Ident)
		if !ok {
			return nil
		}
		o := info.ObjectOf(id)
		if o == nil {
			return nil
		}
		var lit *ast.FuncLit
		for f := fn; f != nil && lit == nil; f = f.Parent {
			if def := f.SingleDef(o); def != nil {
				lit, _ = ast.Unparen(def).(*ast.FuncLit)
			}
		}
		if lit == nil || lit.Type.Results == nil || len(lit.Type.Results.List) != 1 || len(lit.Type.Results.List[0].Names) > 1 {
			return nil
		}
		if b, isB := info.TypeOf(lit.Type.Results.List[0].Type).Underlying().(*types.Basic); !isB || b.Kind() != types.Bool {
			return nil
		}
		for _, f := range lit.Type.Params.List {
			if len(f.Names) == 0 {
				return nil
			}
			if _, variadic := f.Type.(*ast.Ellipsis); variadic {
				return nil
			}
			for _, nm := range f.Names {
				params = append(params, info.ObjectOf(nm))
			}
		}
		if len(params) != len(call.Args) {
			return nil
		}
		stmts = lit.Body.List
	}
	if len(stmts) == 0 || len(stmts) > 4 {
		return nil
	}
	body := predicateBody(info, stmts)
	if body == nil {
		return nil
	}
	if recvField != nil {
		// a one-line predicate method: the receiver reads as the expression it is called on
		sel, isSel := ast.Unparen(call.Fun).(*ast.SelectorExpr)
		if !isSel || len(recvField.List) != 1 || len(recvField.List[0].Names) != 1 || pathOf(info, sel.X) == "" {
			return nil
		}
		ro := info.ObjectOf(recvField.List[0].Names[0])
		if ro == nil {
			return nil
		}
		body = substExpr(body, ro, sel.X, info)
	}
	for i, po := range params {
		if po == nil {
			return nil
		}
		body = substExpr(body, po, call.Args[i], info)
	}
	return body
}

// predicateBody reads a short predicate body as one boolean expression: a final
// `return <expr>` preceded by guard clauses — `if C { return true }` reads C || rest,
// `if C { return false }` reads !C && rest; a tagless switch whose cases each return a
// boolean literal is the same thing written as a ladder (its default, when it is the last
// statement, is the rest).
func predicateBody(info *types.Info, stmts []ast.Stmt) ast.Expr {
	type step struct {
		cond ast.Expr
		val  bool
	}
	boolLit := func(st []ast.Stmt) (bool, bool) {
		if len(st) != 1 {
			return false, false
		}
		r0, ok := st[0].(*ast.ReturnStmt)
		if !ok || len(r0.Results) != 1 {
			return false, false
		}
		id, ok := ast.Unparen(r0.Results[0]).(*ast.Ident)
		if !ok || (id.Name != "true" && id.Name != "false") {
			return false, false
		}
		return id.Name == "true", true
	}
	var steps []step
	var body ast.Expr
	type localDef struct {
		o   types.Object
		def ast.Expr
	}
	var locals []localDef
	for i, st := range stmts {
		last := i == len(stmts)-1
		switch x := st.(type) {
		case *ast.AssignStmt:
			// a local introduced for a sub-expression: read as that expression
			if last || x.Tok != token.DEFINE || len(x.Lhs) != len(x.Rhs) {
				return nil
			}
			for k, l := range x.Lhs {
				id, ok := l.(*ast.Ident)
				if !ok || info.Defs[id] == nil {
					return nil
				}
				locals = append(locals, localDef{info.Defs[id], x.Rhs[k]})
			}
		case *ast.ReturnStmt:
			if !last || len(x.Results) != 1 {
				return nil
			}
			body = x.Results[0]
		case *ast.IfStmt:
			if last || x.Init != nil || x.Else != nil {
				return nil
			}
			v, ok := boolLit(x.Body.List)
			if !ok {
				return nil
			}
			steps = append(steps, step{x.Cond, v})
		case *ast.SwitchStmt:
			if x.Init != nil || x.Tag != nil {
				return nil
			}
			for k, c := range x.Body.List {
				cc := c.(*ast.CaseClause)
				if cc.List == nil {
					// default: only as the very end of the predicate
					if !last || k != len(x.Body.List)-1 || len(cc.Body) != 1 {
						return nil
					}
					r0, ok := cc.Body[0].(*ast.ReturnStmt)
					if !ok || len(r0.Results) != 1 {
						return nil
					}
					body = r0.Results[0]
					continue
				}
				v, ok := boolLit(cc.Body)
				if !ok {
					return nil
				}
				var cond ast.Expr
				for _, e := range cc.List {
					if cond == nil {
						cond = &ast.ParenExpr{X: e}
					} else {
						cond = &ast.BinaryExpr{X: cond, Op: token.LOR, Y: &ast.ParenExpr{X: e}}
					}
				}
				steps = append(steps, step{cond, v})
			}
			if last && body == nil {
				return nil
			}
		default:
			return nil
		}
	}
	if body == nil {
		return nil
	}
	isLit := func(e ast.Expr, name string) bool {
		id, ok := ast.Unparen(e).(*ast.Ident)
		return ok && id.Name == name
	}
	if len(locals) > 0 {
		// later definitions may use earlier ones: substitute from the last backwards
		subst := func(e ast.Expr) ast.Expr {
			for k := len(locals) - 1; k >= 0; k-- {
				e = substExpr(e, locals[k].o, locals[k].def, info)
			}
			return e
		}
		body = subst(body)
		for i := range steps {
			steps[i].cond = subst(steps[i].cond)
		}
	}
	for i := len(steps) - 1; i >= 0; i-- {
		// C || false is C; !C && true is !C
		if steps[i].val && isLit(body, "false") {
			body = &ast.ParenExpr{X: steps[i].cond}
			continue
		}
		if !steps[i].val && isLit(body, "true") {
			body = &ast.UnaryExpr{Op: token.NOT, X: &ast.ParenExpr{X: steps[i].cond}}
			continue
		}
		if steps[i].val {
			body = &ast.BinaryExpr{X: &ast.ParenExpr{X: steps[i].cond}, Op: token.LOR, Y: &ast.ParenExpr{X: body}}
		} else {
			body = &ast.BinaryExpr{X: &ast.UnaryExpr{Op: token.NOT, X: &ast.ParenExpr{X: steps[i].cond}}, Op: token.LAND, Y: &ast.ParenExpr{X: body}}
		}
	}
	return body
}

// closureEntryGuards: what is known to hold whenever the body of a function literal starts
// to run, read off the enclosing function: the guards of the place where the literal is
// written, and, for a local closure that is only ever called by name (name := func…; every
// other use is name(…)), the disjunction of the guards of its call sites. Only atoms over
// variables that are assigned at most once anywhere in the enclosing declaration are kept
// (a captured variable is shared, so a guard over a re-assigned one may no longer hold when
// the literal runs); the kept atoms carry no fact, so no staleness walk is attempted on them.
func (fn *Func) closureEntryGuards() *Formula {
	if fn.Parent == nil || fn.Lit == nil {
		return nil
	}
	if fn.entryGuardsDone {
		return fn.entryGuards
	}
	fn.entryGuardsDone = true
	par := fn.Parent
	root := rootFunc(fn)
	info := fn.Info()
	stable := func(e ast.Expr) bool {
		ok := true
		ast.Inspect(e, func(n ast.Node) bool {
			if id, isId := n.(*ast.Ident); isId {
				if v, isVar := info.ObjectOf(id).(*types.Var); isVar && !v.IsField() && v.Pkg() == fn.Pkg.Types && v.Parent() != fn.Pkg.Types.Scope() {
					n := len(root.Assignments(v))
					if root.isParam(v) {
						if n > 0 {
							ok = false
						}
					} else if n > 1 {
						ok = false
					}
				}
			}
			return ok
		})
		return ok
	}
	var strip func(f *Formula) *Formula // nil: nothing kept (true)
	strip = func(f *Formula) *Formula {
		if f == nil {
			return nil
		}
		switch f.Op {
		case 0:
			a := f.Atom
			if a == nil {
				return nil
			}
			if a.E != nil && !stable(a.E) {
				return nil
			}
			if a.TypeX != nil && !stable(a.TypeX) {
				return nil
			}
			c := *a
			c.Fact = nil
			return &Formula{Atom: &c}
		case 1:
			var sub []*Formula
			for _, s := range f.Sub {
				if k := strip(s); k != nil {
					sub = append(sub, k)
				}
			}
			if len(sub) == 0 {
				return nil
			}
			return fAnd(sub...)
		default:
			var sub []*Formula
			for _, s := range f.Sub {
				k := strip(s)
				if k == nil {
					return nil // one alternative is unknown: the disjunction says nothing
				}
				sub = append(sub, k)
			}
			if len(sub) == 0 {
				return nil
			}
			return fOr(sub...)
		}
	}
	var parts []*Formula
	if at := fn.Prog.parents[fn.Lit]; at != nil && par.BlockOf(at) != nil {
		if k := strip(par.GuardsAt(at)); k != nil {
			parts = append(parts, k)
		}
	}
	// a local closure that is only called by name
	if as, ok := fn.Prog.parents[fn.Lit].(*ast.AssignStmt); ok && as.Tok == token.DEFINE && len(as.Lhs) == 1 && len(as.Rhs) == 1 {
		if id, ok := as.Lhs[0].(*ast.Ident); ok {
			if o := info.ObjectOf(id); o != nil && len(root.Assignments(o)) == 1 {
				var calls []*ast.CallExpr
				only := true
				ast.Inspect(root.Body, func(n ast.Node) bool {
					u, isId := n.(*ast.Ident)
					if !isId || u == id || info.ObjectOf(u) != o {
						return true
					}
					call, isCall := fn.Prog.parents[u].(*ast.CallExpr)
					if !isCall || call.Fun != ast.Expr(u) || par.BlockOf(call) == nil {
						only = false
						return true
					}
					switch fn.Prog.parents[call].(type) {
					case *ast.GoStmt, *ast.DeferStmt:
						only = false
					}
					calls = append(calls, call)
					return true
				})
				if only && len(calls) > 0 {
					var alts []*Formula
					for _, c := range calls {
						k := strip(par.GuardsAt(c))
						if k == nil {
							alts = nil
							break
						}
						alts = append(alts, k)
					}
					if len(alts) == 1 {
						parts = append(parts, alts[0])
					} else if len(alts) > 1 {
						parts = append(parts, fOr(alts...))
					}
				}
			}
		}
	}
	if len(parts) > 0 {
		fn.entryGuards = fAnd(parts...)
	}
	return fn.entryGuards
}
