package main

// E1.skip-row — loops that emit one item per element (an address step per schema step, a
// candidate per label, …) may leave an element out with `continue` before the emission. A
// skip row freezes, per reviewed function, the only conditions under which an element may be
// skipped: every `continue` that is not preceded by the emission in its own iteration is
// guarded by exactly the row's atoms (guard formulas, either branch of if/else, helper
// booleans expanded). A wider skip silently drops elements the schema declares.

import (
	"fmt"
	"go/ast"
	"go/token"
	"go/types"
	"sort"
	"strings"
)

type skipRow struct {
	prop    string
	also    []string
	id      string
	pkg, fn string
	emits   string   // name of the slice the loop appends to ("" = any loop of the function)
	brk     bool     // judge `break` statements (leaving the loop) instead of `continue`
	require []string // atoms (text; leading "!" = must be false) that must guard every skip
	allow   []string // further atoms that may appear (either polarity)
	min     int
	why     string
}

var skipRows = []skipRow{
	{prop: "C20", also: []string{"C06", "C08", "C07"}, id: "scan-ends-only-at-the-callers-match", pkg: "decoder", fn: "recoverLeftBytes", brk: true,
		require: []string{"f(offset, nextRune)"}, min: 0,
		why: "the backward scan for incomplete configuration ends only where the caller's predicate matches (or at the start of the file): what counts as a boundary is the caller's decision"},
	{prop: "C20", also: []string{"C06", "C08", "C07"}, id: "scan-ends-only-at-the-callers-match", pkg: "decoder", fn: "recoverRightBytes", brk: true,
		require: []string{"f(offset, nextRune)"}, min: 0,
		why: "the forward scan for incomplete configuration ends only where the caller's predicate matches (or at the end of the file)"},
	{prop: "C09", also: []string{"C10", "C14"}, id: "optional-step-skipped-only-when-absent", pkg: "decoder", fn: "resolveBlockAddress", emits: "address",
		require: []string{"!ok", "step.IsOptional"}, min: 1,
		why: "an address step is left out only when it is optional and its attribute is not written at all; a written attribute with a null, unknown or non-string value makes the block unaddressable (it must not take the address of the block without that step)"},
}

func runSkipRows(prop string) func(p *Prog, r *Report) {
	return func(p *Prog, r *Report) {
		n := 0
		for _, rw := range skipRows {
			if rw.prop != prop && !containsStr(rw.also, prop) {
				continue
			}
			n++
			sites := 0
			for _, fn := range p.Funcs {
				if fn.Parent != nil || !strings.HasSuffix(fn.Pkg.PkgPath, rw.pkg) || bareFuncName(fn) != rw.fn {
					continue
				}
				info := fn.Info()
				ast.Inspect(fn.Body, func(x ast.Node) bool {
					var br ast.Stmt
					if b, ok := x.(*ast.BranchStmt); ok {
						want := token.CONTINUE
						if rw.brk {
							want = token.BREAK
						}
						if b.Tok != want {
							return true
						}
						br = b
					} else if rs, ok := x.(*ast.ReturnStmt); ok && rw.brk {
						br = rs // a return from inside the loop leaves it as well
					} else {
						return true
					}
					// the loop it continues must append to rw.emits
					var loop ast.Node
					for q := p.Parent(br); q != nil; q = p.Parent(q) {
						switch q.(type) {
						case *ast.RangeStmt, *ast.ForStmt:
							loop = q
						}
						if loop != nil {
							break
						}
					}
					if loop == nil {
						return true
					}
					emitsHere, emittedBefore := false, false
					ast.Inspect(loop, func(y ast.Node) bool {
						as, ok := y.(*ast.AssignStmt)
						if !ok || len(as.Lhs) != 1 || len(as.Rhs) != 1 {
							return true
						}
						c, ok := as.Rhs[0].(*ast.CallExpr)
						if !ok || !isBuiltinCall(info, c, "append") {
							return true
						}
						if id, ok := ast.Unparen(as.Lhs[0]).(*ast.Ident); ok && identIs(fn, id, rw.emits) {
							emitsHere = true
							// emitted earlier in the very block of the continue
							if blk, ok := p.Parent(br).(*ast.BlockStmt); ok && nodeContains(blk, as) && as.Pos() < br.Pos() {
								emittedBefore = true
							}
						}
						return true
					})
					if rw.emits == "" {
						emitsHere, emittedBefore = true, false
					}
					if _, isBranch := br.(*ast.BranchStmt); rw.brk && isBranch {
						// a break inside a switch / select leaves that statement, not the loop
						for q := p.Parent(br); q != nil && q != loop; q = p.Parent(q) {
							switch q.(type) {
							case *ast.SwitchStmt, *ast.TypeSwitchStmt, *ast.SelectStmt:
								return true
							}
						}
					}
					if !emitsHere || emittedBefore {
						return true
					}
					sites++
					var f *Formula
					if _, isRet := br.(*ast.ReturnStmt); isRet {
						f = fn.GuardsAt(br)
					} else {
						f = guardsAtBranch(p, fn, br)
					}
					var extra, missing []string
					seen := map[string]bool{}
					for _, a := range f.AllAtoms() {
						if a == nil || a.E == nil || (a.Expanded && okFlagHelper(fn, a) == nil) {
							continue
						}
						if a.From != nil {
							continue // spelled-out content of a helper's verdict: the verdict itself is judged
						}
						if a.E.Pos().IsValid() && (a.E.Pos() < loop.Pos() || a.E.Pos() >= loop.End()) {
							continue // established before the loop: not a per-element condition
						}
						if fs, ok := loop.(*ast.ForStmt); ok && fs.Cond != nil && nodeContains(fs.Cond, a.E) {
							continue // the loop's own condition
						}
						txt := cmpText(fn.viewExpr(a.E))
						pol := a.Pol
						// normalise !x
						for {
							u, ok := ast.Unparen(a.E).(*ast.UnaryExpr)
							if !ok || u.Op != token.NOT {
								break
							}
							a = &Atom{E: u.X, Pol: !pol}
							pol = !pol
							txt = cmpText(fn.viewExpr(a.E))
						}
						okAtom := false
						for _, rq := range rw.require {
							want := true
							t := rq
							if strings.HasPrefix(rq, "!") {
								want, t = false, rq[1:]
							}
							// "the lookup missed", answered by a helper in any of its boolean results:
							// the helper gives that answer exactly under its own map lookup's miss
							if t == "ok" && pol == want {
								if h, idx := flagResultOf(fn, a); h != nil && answersOnlyOnLookupAt(h, idx, pol) {
									seen[rq] = true
									okAtom = true
									continue
								}
							}
							if sameText(fn, txt, t) {
								if pol == want {
									// the flag of a search helper stands for the lookup's own ok only if
									// the helper gives this answer exactly under the lookup's outcome
									if h := okFlagHelper(fn, a); h != nil && isIdentTok(t) && !answersOnlyOnLookup(h, pol) {
										continue
									}
									seen[rq] = true
									okAtom = true
								}
							}
						}
						for _, al := range rw.allow {
							if sameText(fn, txt, al) {
								okAtom = true
							}
						}
						if !okAtom && !onlySelectsLoopElement(fn, loop, a) {
							ps := ""
							if !pol {
								ps = "not "
							}
							extra = append(extra, ps+txt)
						}
					}
					for _, rq := range rw.require {
						if !seen[rq] {
							missing = append(missing, rq)
						}
					}
					sort.Strings(extra)
					switch {
					case len(missing) > 0:
						r.Add("E1.skip-row", fn.Name, rw.id, p.Pos(br), Violated, rw.why+" — this skip is not guarded by: "+strings.Join(missing, ", "), true)
					case len(extra) > 0:
						r.Add("E1.skip-row", fn.Name, rw.id, p.Pos(br), Violated, rw.why+" — this skip is also taken under: "+strings.Join(dedup(extra), "; "), true)
					default:
						r.Add("E1.skip-row", fn.Name, rw.id, p.Pos(br), OK, rw.why+" ⇐ "+strings.Join(rw.require, " ∧ "), true)
					}
					return true
				})
			}
			if sites < rw.min {
				r.Add("E1.row-anchor", rw.pkg+"."+rw.fn, rw.id, "-", Violated,
					fmt.Sprintf("skip row %q matched %d skip site(s), fewer than the %d confirmed by hand: the anchored construct moved or disappeared", rw.id, sites, rw.min), false)
			}
		}
		r.Counts["E1.skip-rows"] = n
		r.Clauses = append(r.Clauses, fmt.Sprintf("E1 %d reviewed skip rows for %s: every continue that leaves an element of an emitting loop out is guarded by exactly the row's conditions", n, prop))
	}
}

// onlySelectsLoopElement: a type-switch / case atom over the loop element (which case of the
// element we are in) is a selector, not a data filter.
func onlySelectsLoopElement(fn *Func, loop ast.Node, a *Atom) bool {
	return a.E == nil
}

// answersOnlyOnLookup: every `return …, <answer>` of helper t is reached only under the
// same outcome of a comma-ok map lookup made in t (answer false: the lookup missed).
func answersOnlyOnLookup(t *Func, answer bool) bool {
	return answersOnlyOnLookupAt(t, -1, answer)
}

// flagResultOf: the atom is a local bool defined (once) as result idx of a call to a module
// function with a body: that function and idx.
func flagResultOf(fn *Func, a *Atom) (*Func, int) {
	id, ok := ast.Unparen(a.E).(*ast.Ident)
	if !ok {
		return nil, 0
	}
	info := fn.Info()
	o := info.ObjectOf(id)
	if o == nil {
		return nil, 0
	}
	as := rootFunc(fn).Assignments(o)
	if len(as) != 1 {
		return nil, 0
	}
	st, ok := as[0].(*ast.AssignStmt)
	if !ok || len(st.Rhs) != 1 || len(st.Lhs) < 2 {
		return nil, 0
	}
	call, ok := ast.Unparen(st.Rhs[0]).(*ast.CallExpr)
	if !ok {
		return nil, 0
	}
	cf := calleeOf(info, call)
	if cf == nil {
		return nil, 0
	}
	t := fn.Prog.FuncOf[cf]
	if t == nil || t.Body == nil {
		return nil, 0
	}
	for i, l := range st.Lhs {
		if isIdentObj(info, l, o) {
			return t, i
		}
	}
	return nil, 0
}

// answersOnlyOnLookupAt: like answersOnlyOnLookup for the boolean result at position idx
// (-1: the last one).
func answersOnlyOnLookupAt(t *Func, idx int, answer bool) bool {
	info := t.Info()
	name := "false"
	if answer {
		name = "true"
	}
	isLookupFlag := func(e ast.Expr) bool {
		id, ok := ast.Unparen(e).(*ast.Ident)
		if !ok {
			return false
		}
		o := info.ObjectOf(id)
		if o == nil {
			return false
		}
		as := t.Assignments(o)
		if len(as) != 1 {
			return false
		}
		st, ok := as[0].(*ast.AssignStmt)
		if !ok || len(st.Lhs) != 2 || len(st.Rhs) != 1 || !isIdentObj(info, st.Lhs[1], o) {
			return false
		}
		ix, ok := ast.Unparen(st.Rhs[0]).(*ast.IndexExpr)
		if !ok {
			return false
		}
		_, isMap := info.TypeOf(ix.X).Underlying().(*types.Map)
		return isMap
	}
	n, good := 0, true
	ast.Inspect(t.Body, func(k ast.Node) bool {
		if _, isLit := k.(*ast.FuncLit); isLit {
			return false
		}
		ret, ok := k.(*ast.ReturnStmt)
		if !ok || len(ret.Results) == 0 {
			return true
		}
		ri := idx
		if ri < 0 {
			ri = len(ret.Results) - 1
		}
		if ri >= len(ret.Results) {
			good = false
			return true
		}
		last, ok := ast.Unparen(ret.Results[ri]).(*ast.Ident)
		if !ok || (last.Name != "true" && last.Name != "false") {
			good = false
			return true
		}
		if last.Name != name {
			return true
		}
		n++
		if !t.GuardsAt(ret).Holds(func(a *Atom) bool { return a.E != nil && a.Pol == answer && isLookupFlag(a.E) }) {
			good = false
		}
		return true
	})
	return n > 0 && good
}
