package main

// E2 comparators: every Less method of a sort.Interface implementation and every closure
// passed to sort.Slice/SliceStable must be a strict weak order. The keys are touched only
// through comparisons, so the comparator is determined by the relative order of each key
// on each pair; all weak orderings of three abstract elements are enumerated per key.

import (
	"fmt"
	"go/ast"
	"go/token"
	"go/types"
	"strings"
)

type cmpFn struct {
	name string
	pos  ast.Node
	body *ast.BlockStmt
	i, j types.Object
	fn   *Func
}

func collectComparators(p *Prog) []cmpFn {
	var out []cmpFn
	for _, fn := range p.Funcs {
		info := fn.Info()
		if fn.Decl != nil && fn.Decl.Recv != nil && fn.Decl.Name.Name == "Less" && fn.Decl.Type.Params.NumFields() == 2 {
			var objs []types.Object
			for _, f := range fn.Decl.Type.Params.List {
				for _, n := range f.Names {
					objs = append(objs, info.ObjectOf(n))
				}
			}
			if len(objs) == 2 {
				out = append(out, cmpFn{fn.Name, fn.Decl, fn.Body, objs[0], objs[1], fn})
			}
		}
		ast.Inspect(fn.Body, func(n ast.Node) bool {
			if lit, ok := n.(*ast.FuncLit); ok && lit != fn.Lit {
				return false
			}
			call, ok := n.(*ast.CallExpr)
			if !ok {
				return true
			}
			full := calleeFull(info, call)
			if full != "sort.Slice" && full != "sort.SliceStable" || len(call.Args) != 2 {
				return true
			}
			lit, ok := comparatorLit(fn, call.Args[1])
			if !ok {
				out = append(out, cmpFn{fn.Name + " " + full + "(" + exprStr(call.Args[0]) + ")", call, nil, nil, nil, fn})
				return true
			}
			var objs []types.Object
			for _, f := range lit.Type.Params.List {
				for _, nm := range f.Names {
					objs = append(objs, info.ObjectOf(nm))
				}
			}
			if len(objs) == 2 {
				lf := p.LitOf[lit]
				out = append(out, cmpFn{fn.Name + " " + full + "(" + exprStr(call.Args[0]) + ")", call, lit.Body, objs[0], objs[1], lf})
			}
			return true
		})
	}
	return out
}

type cmpEval struct {
	c      cmpFn
	info   *types.Info
	keys   []string // normalised key expressions
	err    string
	prefix string // key namespace of an inlined predicate
}

// keyOf normalises an expression over exactly one of the index variables: returns key
// string and which side (0=i, 1=j), or "", -1.
func (e *cmpEval) keyOf(x ast.Expr) (string, int) {
	x = e.expandDeep(e.expand(x), 3)
	side := -1
	ok := true
	ast.Inspect(x, func(n ast.Node) bool {
		if id, isId := n.(*ast.Ident); isId {
			o := e.info.ObjectOf(id)
			if o == e.c.i {
				if side == 1 {
					ok = false
				}
				side = 0
			} else if o == e.c.j {
				if side == 0 {
					ok = false
				}
				side = 1
			}
		}
		return true
	})
	if !ok || side < 0 {
		return "", -1
	}
	// string(x) of a string-kinded value is that value
	if call, ok := ast.Unparen(x).(*ast.CallExpr); ok && len(call.Args) == 1 {
		if tv, ok := e.info.Types[call.Fun]; ok && tv.IsType() {
			if bt, ok := tv.Type.Underlying().(*types.Basic); ok && bt.Info()&types.IsString != 0 {
				if at := e.info.TypeOf(call.Args[0]); at != nil {
					if ab, ok := at.Underlying().(*types.Basic); ok && ab.Info()&types.IsString != 0 {
						x = call.Args[0]
					}
				}
			}
		}
	}
	s := exprStr(x)
	// replace the index identifier by '#'
	name := e.c.i.Name()
	if side == 1 {
		name = e.c.j.Name()
	}
	s = replaceIdent(s, name, "#")
	return s, side
}

func replaceIdent(s, name, by string) string {
	var sb strings.Builder
	isIdC := func(c byte) bool {
		return c == '_' || c >= 'a' && c <= 'z' || c >= 'A' && c <= 'Z' || c >= '0' && c <= '9'
	}
	for k := 0; k < len(s); {
		if strings.HasPrefix(s[k:], name) && (k == 0 || !isIdC(s[k-1]) && s[k-1] != '.') && (k+len(name) == len(s) || !isIdC(s[k+len(name)])) {
			sb.WriteString(by)
			k += len(name)
			continue
		}
		sb.WriteByte(s[k])
		k++
	}
	return sb.String()
}

// expand substitutes single-definition locals of the comparator body.
func (e *cmpEval) expand(x ast.Expr) ast.Expr {
	x = ast.Unparen(x)
	if id, ok := x.(*ast.Ident); ok && e.c.fn != nil {
		o := e.info.ObjectOf(id)
		if o != nil && o != e.c.i && o != e.c.j && o.Pos() >= e.c.body.Pos() && o.Pos() <= e.c.body.End() {
			if def := e.c.fn.SingleDef(o); def != nil {
				return e.expand(def)
			}
		}
	}
	return x
}

// expandDeep substitutes single-definition locals of the comparator body anywhere inside x
// (`iRng := xs[i].Range(); … iRng.Filename` reads `xs[i].Range().Filename`).
func (e *cmpEval) expandDeep(x ast.Expr, depth int) ast.Expr {
	if depth <= 0 || e.c.fn == nil || e.c.body == nil {
		return x
	}
	for round := 0; round < 4; round++ {
		var target types.Object
		var def ast.Expr
		ast.Inspect(x, func(n ast.Node) bool {
			if target != nil {
				return false
			}
			id, ok := n.(*ast.Ident)
			if !ok {
				return true
			}
			o := e.info.ObjectOf(id)
			if o == nil || o == e.c.i || o == e.c.j || o.Pos() < e.c.body.Pos() || o.Pos() > e.c.body.End() {
				return true
			}
			if _, isVar := o.(*types.Var); !isVar {
				return true
			}
			if d := e.c.fn.SingleDef(o); d != nil {
				target, def = o, d
			}
			return true
		})
		if target == nil {
			return x
		}
		x = substExpr(x, target, def, e.info)
	}
	return x
}

func (e *cmpEval) keyIndex(k string) int {
	for i, s := range e.keys {
		if s == k {
			return i
		}
	}
	e.keys = append(e.keys, k)
	return len(e.keys) - 1
}

// env: rank[key][element]
type cmpEnv struct {
	rank [][]int
	a, b int // elements bound to i and j
}

// evalBool evaluates a boolean expression; ok=false if outside the fragment.
func (e *cmpEval) evalBool(x ast.Expr, env *cmpEnv) (bool, bool) {
	x = e.expand(x)
	switch v := x.(type) {
	case *ast.Ident:
		if v.Name == "true" {
			return true, true
		}
		if v.Name == "false" {
			return false, true
		}
	case *ast.UnaryExpr:
		if v.Op == token.NOT {
			r, ok := e.evalBool(v.X, env)
			return !r, ok
		}
	case *ast.CallExpr:
		// a module predicate over the two elements (`xs[i].sortsBefore(xs[j])`,
		// `less(xs[i], xs[j])`): evaluated as a comparator of its own two parameters
		if r, ok, handled := e.evalPredicateCall(v, env); handled {
			return r, ok
		}
	case *ast.BinaryExpr:
		switch v.Op {
		case token.LAND:
			l, ok := e.evalBool(v.X, env)
			if !ok {
				return false, false
			}
			if !l {
				return false, true
			}
			return e.evalBool(v.Y, env)
		case token.LOR:
			l, ok := e.evalBool(v.X, env)
			if !ok {
				return false, false
			}
			if l {
				return true, true
			}
			return e.evalBool(v.Y, env)
		case token.LSS, token.GTR, token.LEQ, token.GEQ, token.EQL, token.NEQ:
			kl, sl := e.keyOf(v.X)
			kr, sr := e.keyOf(v.Y)
			if sl < 0 || sr < 0 || kl != kr || sl == sr {
				e.err = "comparison outside the fragment key(i) op key(j): " + exprStr(v)
				return false, false
			}
			k := e.keyIndex(e.prefix + kl)
			if k >= len(env.rank) {
				// key discovered late: signal re-run
				e.err = "rerun"
				return false, false
			}
			el := [2]int{env.a, env.b}
			l, r := env.rank[k][el[sl]], env.rank[k][el[sr]]
			switch v.Op {
			case token.LSS:
				return l < r, true
			case token.GTR:
				return l > r, true
			case token.LEQ:
				return l <= r, true
			case token.GEQ:
				return l >= r, true
			case token.EQL:
				return l == r, true
			default:
				return l != r, true
			}
		}
	}
	if e.err == "" {
		e.err = "expression outside the fragment: " + exprStr(x)
	}
	return false, false
}

// evalStmts interprets the comparator body; returns (result, returned, ok).
func (e *cmpEval) evalStmts(list []ast.Stmt, env *cmpEnv) (bool, bool, bool) {
	for _, s := range list {
		switch st := s.(type) {
		case *ast.ReturnStmt:
			if len(st.Results) != 1 {
				e.err = "return without a single result"
				return false, false, false
			}
			r, ok := e.evalBool(st.Results[0], env)
			return r, true, ok
		case *ast.IfStmt:
			if st.Init != nil {
				if _, isAssign := st.Init.(*ast.AssignStmt); !isAssign {
					e.err = "if with unsupported init"
					return false, false, false
				}
			}
			c, ok := e.evalBool(st.Cond, env)
			if !ok {
				return false, false, false
			}
			if c {
				r, ret, ok := e.evalStmts(st.Body.List, env)
				if !ok || ret {
					return r, ret, ok
				}
			} else if st.Else != nil {
				var r, ret, ok bool
				switch el := st.Else.(type) {
				case *ast.BlockStmt:
					r, ret, ok = e.evalStmts(el.List, env)
				case *ast.IfStmt:
					r, ret, ok = e.evalStmts([]ast.Stmt{el}, env)
				}
				if !ok || ret {
					return r, ret, ok
				}
			}
		case *ast.SwitchStmt:
			if st.Tag != nil || st.Init != nil {
				e.err = "switch with a tag inside comparator"
				return false, false, false
			}
			var deflt *ast.CaseClause
			taken := false
			for _, cs := range st.Body.List {
				cc := cs.(*ast.CaseClause)
				if cc.List == nil {
					deflt = cc
					continue
				}
				hit := false
				for _, ce := range cc.List {
					c, ok := e.evalBool(ce, env)
					if !ok {
						return false, false, false
					}
					if c {
						hit = true
						break
					}
				}
				if hit {
					taken = true
					r, ret, ok := e.evalStmts(cc.Body, env)
					if !ok || ret {
						return r, ret, ok
					}
					break
				}
			}
			if !taken && deflt != nil {
				r, ret, ok := e.evalStmts(deflt.Body, env)
				if !ok || ret {
					return r, ret, ok
				}
			}
		case *ast.AssignStmt:
			// local definitions are expanded on use; they must be single-definition
			if st.Tok != token.DEFINE {
				e.err = "re-assignment inside comparator"
				return false, false, false
			}
		case *ast.DeclStmt:
		default:
			e.err = fmt.Sprintf("statement outside the fragment: %T", s)
			return false, false, false
		}
	}
	return false, false, true
}

// weakOrderings of 3 elements: all rank vectors (values 0..2) normalised.
func weakOrderings3() [][]int {
	seen := map[string]bool{}
	var out [][]int
	for a := 0; a < 3; a++ {
		for b := 0; b < 3; b++ {
			for c := 0; c < 3; c++ {
				// normalise: dense ranks
				v := []int{a, b, c}
				uniq := map[int]bool{a: true, b: true, c: true}
				dense := map[int]int{}
				r := 0
				for x := 0; x < 3; x++ {
					if uniq[x] {
						dense[x] = r
						r++
					}
				}
				n := []int{dense[v[0]], dense[v[1]], dense[v[2]]}
				k := fmt.Sprint(n)
				if !seen[k] {
					seen[k] = true
					out = append(out, n)
				}
			}
		}
	}
	return out
}

func runE2Comparators(p *Prog, r *Report) {
	cmps := collectComparators(p)
	wos := weakOrderings3()
	for _, c := range cmps {
		if c.body == nil {
			r.Add("E2.comparator", c.name, "less", p.Pos(c.pos), Undecided, "comparator is not a function literal; cannot be abstracted", true)
			continue
		}
		e := &cmpEval{c: c, info: c.fn.Info()}
		verdict, detail := checkStrictWeak(e, wos)
		switch verdict {
		case OK:
			r.Add("E2.comparator", c.name, "less", p.Pos(c.pos), OK, detail, true)
		case Violated:
			r.Add("E2.comparator", c.name, "less", p.Pos(c.pos), Violated, detail, true)
		default:
			r.Add("E2.comparator", c.name, "less", p.Pos(c.pos), Undecided, detail, true)
		}
	}
	r.ExpectMin("E2.comparators", len(cmps), 6)
	r.Clauses = append(r.Clauses, "E2 every Less method and every sort.Slice/SliceStable closure is a strict weak order (irreflexive, asymmetric, transitive, incomparability transitive), decided by enumerating all weak orderings of three abstract elements per key")
}

func checkStrictWeak(e *cmpEval, wos [][]int) (Status, string) {
	// discover keys with a dry run
	for attempt := 0; attempt < 6; attempt++ {
		e.err = ""
		m := len(e.keys)
		// enumerate assignments
		total := 1
		for k := 0; k < m; k++ {
			total *= len(wos)
		}
		if m == 0 {
			total = 1
		}
		rerun := false
		for idx := 0; idx < total && !rerun; idx++ {
			env := &cmpEnv{rank: make([][]int, m)}
			x := idx
			for k := 0; k < m; k++ {
				env.rank[k] = wos[x%len(wos)]
				x /= len(wos)
			}
			var less [3][3]bool
			for a := 0; a < 3 && !rerun; a++ {
				for b := 0; b < 3; b++ {
					env.a, env.b = a, b
					res, ret, ok := e.evalStmts(e.c.body.List, env)
					if !ok {
						if e.err == "rerun" {
							rerun = true
							break
						}
						return Undecided, e.err
					}
					if !ret {
						return Undecided, "comparator may fall off the end"
					}
					less[a][b] = res
				}
			}
			if rerun {
				break
			}
			desc := func() string {
				var parts []string
				for k := 0; k < m; k++ {
					parts = append(parts, fmt.Sprintf("%s ranks %v", e.keys[k], env.rank[k]))
				}
				return strings.Join(parts, "; ")
			}
			for a := 0; a < 3; a++ {
				if less[a][a] {
					return Violated, "not irreflexive: less(x,x) is true"
				}
				for b := 0; b < 3; b++ {
					if a != b && less[a][b] && less[b][a] {
						return Violated, fmt.Sprintf("not asymmetric: with %s both less(e%d,e%d) and less(e%d,e%d) hold, so the sorted order depends on the input order", desc(), a, b, b, a)
					}
					for c := 0; c < 3; c++ {
						if less[a][b] && less[b][c] && !less[a][c] {
							return Violated, fmt.Sprintf("not transitive: with %s", desc())
						}
						incomp := func(x, y int) bool { return !less[x][y] && !less[y][x] }
						if incomp(a, b) && incomp(b, c) && !incomp(a, c) {
							return Violated, fmt.Sprintf("incomparability not transitive: with %s", desc())
						}
					}
				}
			}
		}
		if !rerun {
			return OK, fmt.Sprintf("strict weak order over keys [%s] (%d key orderings × 9 pairs enumerated)", strings.Join(e.keys, ", "), total)
		}
	}
	return Undecided, "key discovery did not converge"
}

// sideOf: which of the two index variables x mentions (0 = i, 1 = j, -1 = none or both).
func (e *cmpEval) sideOf(x ast.Expr) int {
	side, ok := -1, true
	ast.Inspect(e.expandDeep(e.expand(x), 3), func(n ast.Node) bool {
		if id, isId := n.(*ast.Ident); isId {
			switch e.info.ObjectOf(id) {
			case e.c.i:
				if side == 1 {
					ok = false
				}
				side = 0
			case e.c.j:
				if side == 0 {
					ok = false
				}
				side = 1
			}
		}
		return true
	})
	if !ok {
		return -1
	}
	return side
}

// evalPredicateCall: call of a module function/method with exactly two element operands
// (receiver + one argument, or two arguments), one per side.
func (e *cmpEval) evalPredicateCall(call *ast.CallExpr, env *cmpEnv) (res, ok, handled bool) {
	if e.c.fn == nil {
		return false, false, false
	}
	f := calleeOf(e.info, call)
	if f == nil {
		return false, false, false
	}
	tgt := e.c.fn.Prog.FuncOf[f]
	if tgt == nil || tgt.Body == nil || tgt.Decl == nil {
		return false, false, false
	}
	var operands []ast.Expr
	var formals []types.Object
	ti := tgt.Info()
	if tgt.Decl.Recv != nil && len(tgt.Decl.Recv.List) == 1 && len(tgt.Decl.Recv.List[0].Names) == 1 {
		sel, isSel := ast.Unparen(call.Fun).(*ast.SelectorExpr)
		if !isSel {
			return false, false, false
		}
		operands = append(operands, sel.X)
		formals = append(formals, ti.ObjectOf(tgt.Decl.Recv.List[0].Names[0]))
	}
	for _, fl := range tgt.Decl.Type.Params.List {
		for _, nm := range fl.Names {
			formals = append(formals, ti.ObjectOf(nm))
		}
	}
	operands = append(operands, call.Args...)
	if len(operands) != 2 || len(formals) != 2 {
		return false, false, false
	}
	s0, s1 := e.sideOf(operands[0]), e.sideOf(operands[1])
	if s0 < 0 || s1 < 0 || s0 == s1 {
		return false, false, false
	}
	// the two operands must be the same key of their elements (xs[i] and xs[j])
	k0, _ := e.keyOf(operands[0])
	k1, _ := e.keyOf(operands[1])
	if k0 == "" || k0 != k1 {
		return false, false, false
	}
	sub := &cmpEval{c: cmpFn{name: tgt.Name, pos: tgt.Decl, body: tgt.Body, i: formals[0], j: formals[1], fn: tgt}, info: ti, keys: e.keys, prefix: e.prefix + fname(f) + ":" + k0 + ":"}
	el := [2]int{env.a, env.b}
	subEnv := &cmpEnv{rank: env.rank, a: el[s0], b: el[s1]}
	r, ret, okk := sub.evalStmts(tgt.Body.List, subEnv)
	e.keys = sub.keys
	if !okk {
		e.err = sub.err
		return false, false, true
	}
	if !ret {
		e.err = "predicate " + fname(f) + " may fall off the end"
		return false, false, true
	}
	return r, true, true
}

// comparatorLit: the function literal given as a comparator, written in place or bound
// once to a local (less := func(i, j int) bool {…}; sort.Slice(xs, less)).
func comparatorLit(fn *Func, arg ast.Expr) (*ast.FuncLit, bool) {
	a := ast.Unparen(arg)
	if lit, ok := a.(*ast.FuncLit); ok {
		return lit, true
	}
	if id, ok := a.(*ast.Ident); ok {
		if o := fn.Info().ObjectOf(id); o != nil {
			for f := fn; f != nil; f = f.Parent {
				if def := f.SingleDef(o); def != nil {
					if lit, ok := ast.Unparen(def).(*ast.FuncLit); ok {
						return lit, true
					}
				}
			}
		}
	}
	return nil, false
}
