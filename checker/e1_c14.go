package main

// C14 structural rules (symbols), plus two rules shared with other properties:
//
//  E2.position-key       a sort comparator that orders by a component of an hcl.Pos uses Byte,
//                        or Line together with Column (Line or Column alone is not a total
//                        order on items of one file)
//  E10.fault-isolation   inside a loop over pathReader.Paths, a failing per-path operation is
//                        skipped with continue: no break / return / goto leaves the loop
//  E10.symbol-fields     each Symbol literal takes name, range, kind and nested symbols from
//                        the syntax item of its own loop iteration (reviewed field table)
//  E10.getters           Name/Range/NestedSymbols/Path return the field they are named after
//  E10.json-remainder    ast.DecodeBody takes AnyAttribute attributes from the remainder of
//                        PartialContent (or filters out already-decoded names)

import (
	"fmt"
	"go/ast"
	"go/token"
	"go/types"
	"regexp"
	"sort"
	"strings"
)

func runPosKeys(p *Prog, r *Report) {
	n := 0
	for _, c := range collectComparators(p) {
		if c.body == nil {
			continue
		}
		info := c.fn.Info()
		comps := map[string]map[string]bool{}
		ast.Inspect(c.body, func(m ast.Node) bool {
			sel, ok := m.(*ast.SelectorExpr)
			if !ok {
				return true
			}
			tv, ok := info.Types[sel.X]
			if !ok || !isHclPos(tv.Type) {
				return true
			}
			base := exprStr(sel.X)
			if c.i != nil {
				base = replaceIdent(base, c.i.Name(), "#")
			}
			if c.j != nil {
				base = replaceIdent(base, c.j.Name(), "#")
			}
			if comps[base] == nil {
				comps[base] = map[string]bool{}
			}
			comps[base][sel.Sel.Name] = true
			return true
		})
		var bases []string
		for b := range comps {
			bases = append(bases, b)
		}
		sort.Strings(bases)
		for _, b := range bases {
			n++
			cs := comps[b]
			var names []string
			for k := range cs {
				names = append(names, k)
			}
			sort.Strings(names)
			construct := "position key " + b + ".{" + strings.Join(names, ",") + "}"
			if cs["Byte"] || (cs["Line"] && cs["Column"]) {
				r.Add("E2.position-key", c.name, construct, p.Pos(c.pos), OK, "orders by the byte offset (or by line and column): a total order on the items of one file", true)
			} else {
				r.Add("E2.position-key", c.name, construct, p.Pos(c.pos), Violated,
					"orders positions by "+strings.Join(names, ",")+" only: items that share it keep their (map-iteration / collection) order, so the result is not in source order", true)
			}
		}
	}
	// E2.filename-before-byte: byte offsets of two ranges are comparable only within one file:
	// a comparator that orders by X.Start.Byte and also looks at X.Filename must decide the
	// filename first.
	for _, c := range collectComparators(p) {
		if c.body == nil {
			continue
		}
		info := c.fn.Info()
		var firstByte, firstFile ast.Node
		ast.Inspect(c.body, func(m ast.Node) bool {
			sel, ok := m.(*ast.SelectorExpr)
			if !ok {
				return true
			}
			if sel.Sel.Name == "Filename" {
				if tv := info.TypeOf(sel.X); tv != nil && isHclRange(tv) && firstFile == nil {
					firstFile = sel
				}
			}
			if sel.Sel.Name == "Byte" {
				if tv := info.TypeOf(sel.X); tv != nil && isHclPos(tv) && firstByte == nil {
					firstByte = sel
				}
			}
			return true
		})
		if firstByte == nil || firstFile == nil {
			continue
		}
		n++
		if firstFile.Pos() < firstByte.Pos() {
			r.Add("E2.filename-before-byte", c.name, "key order", p.Pos(c.pos), OK, "the file name is compared before the byte offset", true)
		} else {
			r.Add("E2.filename-before-byte", c.name, "key order", p.Pos(c.pos), Violated, "the byte offset is compared before the file name: offsets of different files decide the order, so inserting text into one file reorders items of another", true)
		}
	}
	r.Counts["E2.position-keys"] = n
	r.ExpectMin("E2.position-keys", n, 4)
	r.Clauses = append(r.Clauses, "E2 every comparator that orders by source position uses the byte offset (or line and column together)")
}

// runFaultIsolation(fnNames): loops over the result of PathReader.Paths in the named
// functions: errors of per-path operations are skipped with continue.
func runFaultIsolation(fnNames ...string) func(p *Prog, r *Report) {
	return func(p *Prog, r *Report) {
		nLoops := 0
		for _, fn := range p.Funcs {
			if fn.Body == nil || fn.Lit != nil {
				continue
			}
			want := false
			for _, nm := range fnNames {
				if strings.HasSuffix(fn.Name, "."+nm) {
					want = true
				}
			}
			if !want {
				continue
			}
			info := fn.Info()
			ast.Inspect(fn.Body, func(n ast.Node) bool {
				rs, ok := n.(*ast.RangeStmt)
				if !ok {
					return true
				}
				// X is a call of Paths, or a single-def local defined by such a call
				x := ast.Unparen(rs.X)
				if id, ok := x.(*ast.Ident); ok {
					if d := fn.SingleDef(info.ObjectOf(id)); d != nil {
						x = ast.Unparen(d)
					}
				}
				call, ok := x.(*ast.CallExpr)
				if !ok {
					return true
				}
				f := calleeOf(info, call)
				if f == nil || fname(f) != "Paths" {
					return true
				}
				nLoops++
				// every statement that leaves the loop early
				nExit := 0
				var walk func(s ast.Node, inner bool)
				walk = func(s ast.Node, inner bool) {
					ast.Inspect(s, func(m ast.Node) bool {
						switch m := m.(type) {
						case *ast.FuncLit:
							return false
						case *ast.ForStmt, *ast.RangeStmt, *ast.SwitchStmt, *ast.TypeSwitchStmt, *ast.SelectStmt:
							if m != s {
								// break inside a nested breakable statement binds to it; returns still leave
								ast.Inspect(m, func(k ast.Node) bool {
									switch k := k.(type) {
									case *ast.FuncLit:
										return false
									case *ast.ReturnStmt:
										nExit++
										r.Add("E10.fault-isolation", fn.Name, "return in loop over Paths#"+fmt.Sprint(nExit), p.Pos(k), Violated,
											"a return inside the loop over all paths ends the whole query: the remaining paths are never visited", true)
									case *ast.BranchStmt:
										if k.Tok == token.GOTO || (k.Label != nil && k.Tok == token.BREAK) {
											nExit++
											r.Add("E10.fault-isolation", fn.Name, k.Tok.String()+" in loop over Paths#"+fmt.Sprint(nExit), p.Pos(k), Violated,
												"leaves the loop over all paths", true)
										}
									}
									return true
								})
								return false
							}
						case *ast.ReturnStmt:
							nExit++
							r.Add("E10.fault-isolation", fn.Name, "return in loop over Paths#"+fmt.Sprint(nExit), p.Pos(m), Violated,
								"a return inside the loop over all paths ends the whole query: the remaining paths are never visited", true)
						case *ast.BranchStmt:
							if m.Tok == token.BREAK || m.Tok == token.GOTO {
								nExit++
								r.Add("E10.fault-isolation", fn.Name, m.Tok.String()+" in loop over Paths#"+fmt.Sprint(nExit), p.Pos(m), Violated,
									"leaves the loop over all paths: one unreadable path hides every path listed after it", true)
							}
						}
						return true
					})
				}
				walk(rs.Body, false)
				// the error tests present must continue
				nErr := 0
				ast.Inspect(rs.Body, func(m ast.Node) bool {
					ifs, ok := m.(*ast.IfStmt)
					if !ok {
						return true
					}
					be, ok := ast.Unparen(ifs.Cond).(*ast.BinaryExpr)
					if !ok || be.Op != token.NEQ || !isNilIdent(info, be.Y) {
						return true
					}
					tv, ok := info.Types[be.X]
					if !ok || tv.Type.String() != "error" {
						return true
					}
					nErr++
					last := ifs.Body.List
					okc := false
					if len(last) > 0 {
						if b, ok := last[len(last)-1].(*ast.BranchStmt); ok && b.Tok == token.CONTINUE && b.Label == nil {
							okc = true
						}
					}
					construct := fmt.Sprintf("if %s in loop over Paths#%d", exprStr(ifs.Cond), nErr)
					if okc && p.Parent(p.Parent(ifs)) == ast.Node(rs) {
						r.Add("E10.fault-isolation", fn.Name, construct, p.Pos(ifs), OK, "the failing path is skipped with continue", true)
					} else if okc {
						r.Add("E10.fault-isolation", fn.Name, construct, p.Pos(ifs), OK, "skipped with continue (nested)", true)
					} else {
						r.Add("E10.fault-isolation", fn.Name, construct, p.Pos(ifs), Violated, "an error of a per-path operation does not continue with the next path", true)
					}
					return true
				})
				if nErr == 0 {
					// errors are tested in another form (err == nil { use }, a predicate helper):
					// nothing leaves the loop; that a failed result is not used is E17.unchecked-result's part
					r.Add("E10.fault-isolation", fn.Name, "loop over Paths", p.Pos(rs), OK, "nothing leaves the loop over all paths", true)
				}
				return true
			})
		}
		r.Counts["E10.path-loops"] = nLoops
		r.ExpectMin("E10.path-loops", nLoops, len(fnNames))
		r.Clauses = append(r.Clauses, "E10 in the loops over all paths an unreadable path is skipped (continue) and nothing else leaves the loop")
	}
}

// ---- symbol field table -----------------------------------------------------------------

// strconv.Itoa(x) and fmt.Sprintf("%d", x) render an int identically
var itoaRe = regexp.MustCompile(`strconv\.Itoa\(([A-Za-z_][A-Za-z0-9_]*)\)`)

type symRow struct {
	typ    string            // literal type (decoder.X)
	when   string            // discriminator: text that the literal's ExprName/AttrName/Type value must contain ("" = any)
	fields map[string]string // field -> normalised source (K = range key, V = range value, R = receiver)
}

var symbolFieldTable = []symRow{
	{"AttributeSymbol", "", map[string]string{
		"AttrName": "K", "ExprKind": "symbolExprKind(V.Expr)", "path": "R.path", "rng": "V.Range", "nestedSymbols": "R.nestedSymbolsForExpr(V.Expr)"}},
	{"BlockSymbol", "", map[string]string{
		"Type": "V.Type", "Labels": "V.Labels", "path": "R.path", "rng": "V.Range", "nestedSymbols": "R.symbolsForBody(V.Body, *)"}},
	{"ExprSymbol", "Sprintf", map[string]string{
		"ExprName": `fmt.Sprintf("%d", K)`, "ExprKind": "symbolExprKind(V)", "path": "R.path", "rng": "V.Range()", "nestedSymbols": "R.nestedSymbolsForExpr(V)"}},
	{"ExprSymbol", "AsString", map[string]string{
		"ExprName": "V.KeyExpr.Value(nil)#0.AsString()", "ExprKind": "symbolExprKind(V.ValueExpr)", "path": "R.path",
		"rng": "hcl.RangeBetween(V.KeyExpr.Range(), V.ValueExpr.Range())", "nestedSymbols": "R.nestedSymbolsForExpr(V.ValueExpr)"}},
}

// normSym renders e with loop variables / receiver replaced by K, V, R and single-definition
// locals inlined (x, _ := f() becomes f()#0).
func normSym(fn *Func, e ast.Expr, k, v, recv types.Object, depth int) string {
	info := fn.Info()
	var rec func(e ast.Expr, d int) string
	rec = func(e ast.Expr, d int) string {
		switch e := ast.Unparen(e).(type) {
		case *ast.Ident:
			o := info.ObjectOf(e)
			switch {
			case o != nil && o == k:
				return "K"
			case o != nil && o == v:
				return "V"
			case o != nil && o == recv:
				return "R"
			}
			if vv, ok := o.(*types.Var); ok && !vv.IsField() && d > 0 && vv.Pkg() != nil && vv.Parent() != vv.Pkg().Scope() {
				if def := fn.SingleDef(o); def != nil {
					return rec(def, d-1)
				}
				if as := fn.Assignments(o); len(as) == 1 {
					if s, ok := as[0].(*ast.AssignStmt); ok && len(s.Rhs) == 1 {
						for i, l := range s.Lhs {
							if id, ok := l.(*ast.Ident); ok && info.ObjectOf(id) == o {
								return rec(s.Rhs[0], d-1) + fmt.Sprintf("#%d", i)
							}
						}
					}
				}
			}
			if f, ok := o.(*types.Func); ok {
				return fname(f)
			}
			// a named numeric/string constant of the package stands for its value
			if c, ok := o.(*types.Const); ok && c.Pkg() != nil && c.Pkg() == fn.Pkg.Types {
				if b, ok := c.Type().Underlying().(*types.Basic); ok && b.Info()&(types.IsNumeric|types.IsString) != 0 && b.Info()&types.IsUntyped != 0 {
					return c.Val().ExactString()
				}
			}
			return e.Name
		case *ast.SelectorExpr:
			if id, ok := e.X.(*ast.Ident); ok {
				if _, isPkg := info.ObjectOf(id).(*types.PkgName); isPkg {
					return id.Name + "." + e.Sel.Name
				}
			}
			if f, ok := info.Uses[e.Sel].(*types.Func); ok {
				return rec(e.X, d) + "." + fname(f)
			}
			return rec(e.X, d) + "." + e.Sel.Name
		case *ast.CallExpr:
			var args []string
			for _, a := range e.Args {
				args = append(args, rec(a, d))
			}
			return rec(e.Fun, d) + "(" + strings.Join(args, ", ") + ")"
		case *ast.BasicLit:
			return e.Value
		case *ast.CompositeLit:
			var parts []string
			for _, el := range e.Elts {
				if kv, ok := el.(*ast.KeyValueExpr); ok {
					parts = append(parts, exprStr(kv.Key)+": "+rec(kv.Value, d))
				} else {
					parts = append(parts, rec(el, d))
				}
			}
			t := ""
			if e.Type != nil {
				t = exprStr(e.Type)
			}
			return t + "{" + strings.Join(parts, ", ") + "}"
		case *ast.UnaryExpr:
			return e.Op.String() + rec(e.X, d)
		case *ast.IndexExpr:
			return rec(e.X, d) + "[" + rec(e.Index, d) + "]"
		case *ast.BinaryExpr:
			return rec(e.X, d) + " " + e.Op.String() + " " + rec(e.Y, d)
		}
		return exprStr(e)
	}
	return rec(e, depth)
}

func symMatch(got, want string) bool {
	if want == got {
		return true
	}
	if i := strings.Index(want, "*"); i >= 0 {
		return strings.HasPrefix(got, want[:i]) && strings.HasSuffix(got, want[i+1:])
	}
	return false
}

func runSymbolFields(p *Prog, r *Report) {
	n := 0
	for _, fn := range p.Funcs {
		if fn.Body == nil || fn.Lit != nil || !strings.HasSuffix(fn.Pkg.PkgPath, "hcl-lang/decoder") {
			continue
		}
		info := fn.Info()
		var recv types.Object
		if fn.Decl != nil && fn.Decl.Recv != nil && len(fn.Decl.Recv.List) == 1 && len(fn.Decl.Recv.List[0].Names) == 1 {
			recv = info.ObjectOf(fn.Decl.Recv.List[0].Names[0])
		}
		ast.Inspect(fn.Body, func(m ast.Node) bool {
			cl, ok := m.(*ast.CompositeLit)
			if !ok {
				return true
			}
			tv, ok := info.Types[cl]
			if !ok {
				return true
			}
			tname := ""
			for _, t := range []string{"AttributeSymbol", "BlockSymbol", "ExprSymbol"} {
				if typeIs(tv.Type, "hcl-lang/decoder", t) {
					tname = t
				}
			}
			if tname == "" {
				return true
			}
			n++
			construct := "decoder." + tname + "{…}#" + litOrdinal(fn, cl)
			rss := enclosingRanges(p, cl, fn.Body)
			if len(rss) == 0 {
				r.Add("E10.symbol-fields", fn.Name, construct, p.Pos(cl), Violated, "symbol built outside a loop over the written items", true)
				return true
			}
			rs := rss[0]
			var k, v types.Object
			if id, ok := rs.Key.(*ast.Ident); ok && id.Name != "_" {
				k = info.ObjectOf(id)
			}
			if id, ok := rs.Value.(*ast.Ident); ok && id.Name != "_" {
				v = info.ObjectOf(id)
			}
			fields := map[string]string{}
			for _, el := range cl.Elts {
				if kv, ok := el.(*ast.KeyValueExpr); ok {
					if id, ok := kv.Key.(*ast.Ident); ok {
						fields[id.Name] = itoaRe.ReplaceAllString(normSym(fn, kv.Value, k, v, recv, 3), `fmt.Sprintf("%d", $1)`)
					}
				}
			}
			var row *symRow
			for i := range symbolFieldTable {
				t := &symbolFieldTable[i]
				if t.typ != tname {
					continue
				}
				if t.when == "" {
					row = t
					break
				}
				for _, fv := range fields {
					if strings.Contains(fv, t.when) {
						row = t
					}
				}
				if row != nil {
					break
				}
			}
			if row == nil {
				r.Add("E10.symbol-fields", fn.Name, construct, p.Pos(cl), Violated, "no row of the symbol field table describes this literal", true)
				return true
			}
			var probs []string
			var names []string
			for f := range row.fields {
				names = append(names, f)
			}
			sort.Strings(names)
			for _, f := range names {
				got, ok := fields[f]
				if !ok {
					probs = append(probs, f+" not set (want "+row.fields[f]+")")
				} else if !symMatch(got, row.fields[f]) {
					probs = append(probs, fmt.Sprintf("%s ← %s (want %s)", f, got, row.fields[f]))
				}
			}
			if len(probs) > 0 {
				r.Add("E10.symbol-fields", fn.Name, construct, p.Pos(cl), Violated, strings.Join(probs, "; "), true)
			} else {
				r.Add("E10.symbol-fields", fn.Name, construct, p.Pos(cl), OK, "name, kind, range and nested symbols come from the item of this iteration (range over "+cmpText(rs.X)+")", true)
			}
			return true
		})
	}
	r.Counts["E10.symbol-literals"] = n
	r.ExpectMin("E10.symbol-literals", n, 3)

	// getters
	ng := 0
	getters := map[string]map[string]string{
		"BlockSymbol":     {"Range": "rng", "NestedSymbols": "nestedSymbols", "Path": "path"},
		"AttributeSymbol": {"Name": "AttrName", "Range": "rng", "NestedSymbols": "nestedSymbols", "Path": "path"},
		"ExprSymbol":      {"Name": "ExprName", "Range": "rng", "NestedSymbols": "nestedSymbols", "Path": "path"},
	}
	for _, fn := range p.Funcs {
		if fn.Decl == nil || fn.Decl.Recv == nil || !strings.HasSuffix(fn.Pkg.PkgPath, "hcl-lang/decoder") || fn.Body == nil {
			continue
		}
		info := fn.Info()
		rt := info.TypeOf(fn.Decl.Recv.List[0].Type)
		for tn, gs := range getters {
			if !typeIs(derefType(rt), "hcl-lang/decoder", tn) {
				continue
			}
			field, ok := gs[fn.Decl.Name.Name]
			if !ok {
				continue
			}
			ng++
			okg := false
			if len(fn.Body.List) == 1 {
				if ret, ok := fn.Body.List[0].(*ast.ReturnStmt); ok && len(ret.Results) == 1 {
					if sel, ok := ast.Unparen(ret.Results[0]).(*ast.SelectorExpr); ok && sel.Sel.Name == field {
						if id, ok := sel.X.(*ast.Ident); ok && len(fn.Decl.Recv.List[0].Names) == 1 && info.ObjectOf(id) == info.ObjectOf(fn.Decl.Recv.List[0].Names[0]) {
							okg = true
						}
					}
				}
			}
			if okg {
				r.Add("E10.getters", fn.Name, "return ."+field, p.Pos(fn.Decl), OK, "returns the field filled from the syntax item", true)
			} else {
				r.Add("E10.getters", fn.Name, "return ."+field, p.Pos(fn.Decl), Violated, "does not simply return the receiver's "+field, true)
			}
		}
	}
	// BlockSymbol.Name: block type followed by every label, each written the way the user
	// wrote it (Go-quoted, printable text kept): the workspace query matches against it
	for _, fn := range p.Funcs {
		if fn.Decl == nil || fn.Decl.Recv == nil || !strings.HasSuffix(fn.Pkg.PkgPath, "hcl-lang/decoder") || fn.Body == nil || bareFuncName(fn) != "Name" {
			continue
		}
		info := fn.Info()
		rt := info.TypeOf(fn.Decl.Recv.List[0].Type)
		if !typeIs(derefType(rt), "hcl-lang/decoder", "BlockSymbol") || len(fn.Decl.Recv.List[0].Names) != 1 {
			continue
		}
		ng++
		recv := info.ObjectOf(fn.Decl.Recv.List[0].Names[0])
		usesType := false
		var labelVars, labelKeys []types.Object
		fullRange := false
		ast.Inspect(fn.Body, func(m ast.Node) bool {
			switch x := m.(type) {
			case *ast.SelectorExpr:
				if id, ok := x.X.(*ast.Ident); ok && info.ObjectOf(id) == recv && canonId(x.Sel.Name) == "Type" {
					usesType = true
				}
			case *ast.RangeStmt, *ast.ForStmt:
				rs, _ := x.(*ast.RangeStmt)
				if fs, isFor := x.(*ast.ForStmt); isFor {
					rs = countingAsRange(fs)
				}
				if rs == nil {
					return true
				}
				if sel, ok := ast.Unparen(rs.X).(*ast.SelectorExpr); ok && canonId(sel.Sel.Name) == "Labels" {
					if id, ok := sel.X.(*ast.Ident); ok && info.ObjectOf(id) == recv {
						fullRange = true
						if vid, ok := rs.Value.(*ast.Ident); ok && vid.Name != "_" {
							labelVars = append(labelVars, info.ObjectOf(vid))
						}
						if kid, ok := rs.Key.(*ast.Ident); ok && kid.Name != "_" {
							labelKeys = append(labelKeys, info.ObjectOf(kid))
						}
					}
				}
			}
			return true
		})
		// recv.Labels[k] with k the key of such a loop is the label of the iteration
		isLabelExpr := func(e ast.Expr) bool {
			switch y := ast.Unparen(e).(type) {
			case *ast.Ident:
				for _, lv := range labelVars {
					if info.ObjectOf(y) == lv {
						return true
					}
				}
			case *ast.IndexExpr:
				sel, ok := ast.Unparen(y.X).(*ast.SelectorExpr)
				if !ok || canonId(sel.Sel.Name) != "Labels" {
					return false
				}
				if id, ok := sel.X.(*ast.Ident); !ok || info.ObjectOf(id) != recv {
					return false
				}
				if kid, ok := ast.Unparen(y.Index).(*ast.Ident); ok {
					for _, lk := range labelKeys {
						if info.ObjectOf(kid) == lk {
							return true
						}
					}
				}
			}
			return false
		}
		if fullRange && len(labelVars) == 0 && len(labelKeys) > 0 {
			ast.Inspect(fn.Body, func(m ast.Node) bool {
				if ix, ok := m.(*ast.IndexExpr); ok && isLabelExpr(ix) {
					labelVars = append(labelVars, nil) // the label is reached by index
					return false
				}
				return true
			})
		}
		var probs []string
		if !usesType {
			probs = append(probs, "the block type is not part of the name")
		}
		if !fullRange || len(labelVars) == 0 {
			probs = append(probs, "the name is not built from a loop over all of the block's labels")
		}
		var scan func(in *Func, isLabel func(ast.Expr) bool, depth int)
		scan = func(in *Func, isLabel func(ast.Expr) bool, depth int) {
			info := in.Info()
			ast.Inspect(in.Body, func(m ast.Node) bool {
				call, ok := m.(*ast.CallExpr)
				if !ok {
					return true
				}
				takes := false
				takesAt := -1
				for ai, a := range call.Args {
					if isLabel(a) {
						takes = true
						takesAt = ai
					}
				}
				if !takes {
					return true
				}
				full := calleeFull(info, call)
				// a helper of the module that writes the label: judged by what it does with it
				if hf := calleeOf(info, call); hf != nil && depth < 2 {
					if ht := p.FuncOf[hf]; ht != nil && ht.Body != nil && ht != in {
						if sig, ok := hf.Type().(*types.Signature); ok && !sig.Variadic() && takesAt < sig.Params().Len() {
							po := sig.Params().At(takesAt)
							hinfo := ht.Info()
							scan(ht, func(e ast.Expr) bool {
								id, ok := ast.Unparen(e).(*ast.Ident)
								return ok && hinfo.ObjectOf(id) == types.Object(po)
							}, depth+1)
							return true
						}
					}
				}
				switch full {
				case "strconv.Quote":
					return true
				case "fmt.Sprintf", "fmt.Fprintf":
					fi := 0
					if full == "fmt.Fprintf" {
						fi = 1
					}
					if fi < len(call.Args) {
						if f, ok := constString(info, call.Args[fi]); ok {
							bad := ""
							for i := 0; i+1 < len(f); i++ {
								if f[i] == '%' {
									j := i + 1
									for j < len(f) && strings.ContainsRune("+-# 0123456789.", rune(f[j])) {
										j++
									}
									if j < len(f) && f[j] != 'q' && f[j] != '%' || j-i > 1 {
										bad = f[i : j+1]
									}
									i = j
								}
							}
							if bad == "" {
								return true
							}
							probs = append(probs, "a label is formatted with "+bad+" (labels are Go-quoted with %q)")
							return true
						}
					}
					probs = append(probs, "a label is formatted with a non-constant format")
				default:
					if f := calleeOf(info, call); f != nil {
						if sig, ok := f.Type().(*types.Signature); ok && sig.Recv() != nil {
							if rn := namedOf(derefType(sig.Recv().Type())); rn != nil && rn.Obj().Pkg() != nil && rn.Obj().Pkg().Path() == "strings" && rn.Obj().Name() == "Builder" {
								probs = append(probs, "a label is written without Go-quoting (the reviewed name quotes every label with %q)")
								return true
							}
						}
					}
					probs = append(probs, "a label passes through "+full+", which does not keep the text as written (the reviewed name quotes labels with %q / strconv.Quote only)")
				}
				return true
			})
		}
		scan(fn, isLabelExpr, 0)
		if len(probs) == 0 {
			r.Add("E10.getters", fn.Name, "block type and quoted labels", p.Pos(fn.Decl), OK, "the name is the block type followed by every label, Go-quoted", true)
		} else {
			r.Add("E10.getters", fn.Name, "block type and quoted labels", p.Pos(fn.Decl), Violated, strings.Join(dedup(probs), "; "), true)
		}
	}
	r.Counts["E10.getters"] = ng
	r.ExpectMin("E10.getters", ng, 7)
	r.Clauses = append(r.Clauses, "E10 every symbol literal takes name, kind, range and nested symbols from the syntax item of its own loop iteration, and the accessors return those fields")
}

func derefType(t types.Type) types.Type {
	if pt, ok := t.(*types.Pointer); ok {
		return pt.Elem()
	}
	return t
}

// runJSONRemainder: in ast.DecodeBody the attributes added for AnyAttribute come from the
// remainder of PartialContent, or each insertion is guarded by a lookup miss.
func runJSONRemainder(p *Prog, r *Report) {
	n := 0
	for _, fn := range p.Funcs {
		if fn.Lit != nil || fn.Body == nil || !strings.HasSuffix(fn.Name, "ast.DecodeBody") {
			continue
		}
		info := fn.Info()
		// is e, evaluated in DecodeBody, the remainder returned by PartialContent?
		isRemainder := func(e ast.Expr) (bool, string) {
			id, ok := ast.Unparen(e).(*ast.Ident)
			if !ok {
				return false, ""
			}
			o := info.ObjectOf(id)
			as := fn.Assignments(o)
			if len(as) != 1 {
				return false, ""
			}
			s, ok := as[0].(*ast.AssignStmt)
			if !ok || len(s.Rhs) != 1 || len(s.Lhs) != 3 {
				return false, ""
			}
			c, ok := ast.Unparen(s.Rhs[0]).(*ast.CallExpr)
			if !ok {
				return false, ""
			}
			if cf := calleeOf(info, c); cf == nil || fname(cf) != "PartialContent" {
				return false, ""
			}
			if lid, ok := s.Lhs[1].(*ast.Ident); ok && info.ObjectOf(lid) == o {
				return true, "receiver is the remainder returned by " + exprStr(c)
			}
			return false, ""
		}
		judge := func(in *Func, call *ast.CallExpr, recv ast.Expr, via *ast.CallExpr) {
			n++
			construct := exprStr(call)
			okr, detail := false, ""
			if via == nil {
				okr, detail = isRemainder(recv)
			} else if id, ok := ast.Unparen(recv).(*ast.Ident); ok {
				// inside a helper: the receiver is a parameter; what DecodeBody passes for it
				po := in.Info().ObjectOf(id)
				idx := -1
				k := 0
				for _, f := range in.Type.Params.List {
					for _, nm := range f.Names {
						if in.Info().ObjectOf(nm) == po {
							idx = k
						}
						k++
					}
				}
				if idx >= 0 && idx < len(via.Args) && len(in.Assignments(po)) == 0 {
					okr, detail = isRemainder(via.Args[idx])
					construct += " in " + bareFuncName(in) + ", called with " + exprStr(via.Args[idx])
				}
			}
			if okr {
				r.Add("E10.json-remainder", fn.Name, construct, p.Pos(call), OK, detail, true)
			} else {
				r.Add("E10.json-remainder", fn.Name, construct, p.Pos(call), Violated,
					"JustAttributes is not called on the remainder of PartialContent: items already decoded as blocks or attributes are returned again", true)
			}
		}
		scan := func(in *Func, via *ast.CallExpr) {
			ast.Inspect(in.Body, func(m ast.Node) bool {
				call, ok := m.(*ast.CallExpr)
				if !ok {
					return true
				}
				f := calleeOf(in.Info(), call)
				if f == nil || fname(f) != "JustAttributes" {
					return true
				}
				if sel, ok := ast.Unparen(call.Fun).(*ast.SelectorExpr); ok {
					judge(in, call, sel.X, via)
				}
				return true
			})
		}
		scan(fn, nil)
		// helpers of the same package that DecodeBody hands a body to
		ast.Inspect(fn.Body, func(m ast.Node) bool {
			call, ok := m.(*ast.CallExpr)
			if !ok {
				return true
			}
			cf := calleeOf(info, call)
			if cf == nil || cf.Pkg() != fn.Pkg.Types {
				return true
			}
			if t := p.FuncOf[cf]; t != nil && t.Body != nil && t != fn {
				scan(t, call)
			}
			return true
		})
	}
	r.Counts["E10.json-remainder"] = n
	r.ExpectMin("E10.json-remainder", n, 1)
	r.Clauses = append(r.Clauses, "E10 JSON bodies: attributes not named by the schema are taken from the remainder of PartialContent, so no written item is decoded twice")
}
