package main

// E6.lex-origin   — a lexer/parser started at hcl.InitialPos must be given the whole file:
//                   token and node ranges are computed from the start position, so lexing a
//                   sub-slice from InitialPos yields ranges relative to the slice, which are
//                   then compared with absolute cursor positions.
// E6.shrunk-range — a range built from another range X by moving Start forward and End
//                   backward (stripping delimiters) is inverted when X is shorter than the
//                   stripped delimiters; X must come from a syntax element whose source text
//                   always contains them.

import (
	"fmt"
	"go/ast"
	"go/token"
	"go/types"
	"strings"
)

// syntax elements whose SourceRange()/Range() is known to span at least two bytes of delimiters
var shrinkableSources = map[string]string{
	"hcl/v2.TraverseIndex": "the source range of an index step is `[key]` or the legacy `.N`: at least the two bytes being stripped",
}

// literalEndpointExceptions: reviewed, keyed function|side of the non-cursor endpoint.
var literalEndpointExceptions = map[string]string{}

func runE6More(p *Prog, r *Report) {
	nLex, nShrink := 0, 0
	for _, fn := range p.Funcs {
		if fn.Body == nil {
			continue
		}
		info := fn.Info()
		ast.Inspect(fn.Body, func(n ast.Node) bool {
			if lit, ok := n.(*ast.FuncLit); ok && lit != fn.Lit {
				return false
			}
			switch x := n.(type) {
			case *ast.CallExpr:
				f := calleeOf(info, x)
				if f == nil || f.Pkg() == nil || !strings.HasSuffix(f.Pkg().Path(), "hcl/v2/hclsyntax") {
					return true
				}
				if !(strings.HasPrefix(f.Name(), "Lex") || strings.HasPrefix(f.Name(), "Parse")) {
					return true
				}
				sig := f.Type().(*types.Signature)
				srcIdx, posIdx := -1, -1
				for i := 0; i < sig.Params().Len(); i++ {
					t := sig.Params().At(i).Type()
					if sl, ok := t.(*types.Slice); ok {
						if b, ok := sl.Elem().(*types.Basic); ok && b.Kind() == types.Byte && srcIdx < 0 {
							srcIdx = i
						}
					}
					if isHclPos(t) {
						posIdx = i
					}
				}
				if srcIdx < 0 || posIdx < 0 || posIdx >= len(x.Args) {
					return true
				}
				nLex++
				key := "call " + f.Name()
				start := ast.Unparen(x.Args[posIdx])
				isInitial := false
				if sel, ok := start.(*ast.SelectorExpr); ok && sel.Sel.Name == "InitialPos" {
					isInitial = true
				}
				if cl, ok := start.(*ast.CompositeLit); ok {
					isInitial = true
					_ = cl
				}
				if !isInitial {
					// started inside the file: the ranges the parser computes are positions of the
					// file only if the bytes it is given are the file's bytes at that position. A
					// decoded value (X.AsString() of an evaluated expression) differs from the
					// source wherever the source has an escape sequence.
					decoded := ""
					ast.Inspect(fn.InlineLocals(x.Args[srcIdx], 3), func(z ast.Node) bool {
						if c, ok := z.(*ast.CallExpr); ok && lastSel(c.Fun) == "AsString" {
							decoded = exprStr(c)
						}
						return true
					})
					if !e6WithDecoded {
						decoded = ""
					}
					if decoded != "" && !lengthAgreementGuard(fn, x, decoded) {
						r.Add("E6.decoded-text-positions", fn.Name, key+" on "+decoded, p.Pos(x), Violated,
							"the parser is started at a position inside the file but is given the decoded value "+decoded+", not the source bytes: when the quoted source contains an escape sequence (\\\", \\n, \\u…) the decoded text is shorter than the source, so every range the parser reports ends too early or on a line that does not exist", true)
						return true
					}
					if decoded != "" {
						r.Add("E6.decoded-text-positions", fn.Name, key+" on "+decoded, p.Pos(x), OK, "reached only when the decoded text is as long as the quoted source (no escape sequences)", true)
					}
					r.Add("E6.lex-origin", fn.Name, key, p.Pos(x), OK, "started at a computed position (not judged here: the position arithmetic is E6.coherent-shift)", false)
					return true
				}
				src := ast.Unparen(x.Args[srcIdx])
				whole := false
				why := ""
				var judgeSrc func(e ast.Expr, depth int) bool
				judgeSrc = func(e ast.Expr, depth int) bool {
					e = ast.Unparen(e)
					switch s := e.(type) {
					case *ast.SelectorExpr:
						// <file>.Bytes
						if s.Sel.Name == "Bytes" {
							if t := info.TypeOf(s.X); t != nil && typeIs(t, "hcl/v2", "File") {
								return true
							}
						}
					case *ast.Ident:
						o := info.ObjectOf(s)
						if v, ok := o.(*types.Var); ok && depth > 0 {
							if rootOf(fn).isParam(v) || fn.isParam(v) {
								return true // the caller's whole source
							}
							if def := fn.SingleDef(v); def != nil {
								return judgeSrc(def, depth-1)
							}
						}
					}
					why = exprStr(e)
					return false
				}
				whole = judgeSrc(src, 3)
				if whole {
					r.Add("E6.lex-origin", fn.Name, key, p.Pos(x), OK, "lexes the whole file from its initial position", true)
				} else {
					r.Add("E6.lex-origin", fn.Name, key, p.Pos(x), Violated,
						fmt.Sprintf("%s is started at the initial position on %s, which is not a whole file's bytes: the ranges it produces are relative to that slice while cursor positions are absolute", f.Name(), why), true)
				}
			case *ast.CompositeLit:
				if t := info.TypeOf(x); t == nil || !typeIs(t, "hcl/v2", "Range") {
					return true
				}
				st, en := litField(x, "Start"), litField(x, "End")
				if st == nil || en == nil {
					return true
				}
				sb, eb := posByteShift(info, st), posByteShift(info, en)
				if sb == nil || eb == nil || sb.field != "Start" || eb.field != "End" || sb.delta <= 0 || eb.delta >= 0 {
					return true
				}
				if pathOf(info, sb.base) == "" || pathOf(info, sb.base) != pathOf(info, eb.base) {
					return true
				}
				nShrink++
				key := fmt.Sprintf("hcl.Range{%s shrunk by %d/%d}", exprStr(sb.base), sb.delta, -eb.delta)
				// where does the base range come from?
				src := sb.base
				if id, ok := ast.Unparen(src).(*ast.Ident); ok {
					if def := fn.SingleDef(info.ObjectOf(id)); def != nil {
						src = def
					}
				}
				okWhy := ""
				if c, ok := ast.Unparen(src).(*ast.CallExpr); ok {
					if sel, ok := ast.Unparen(c.Fun).(*ast.SelectorExpr); ok && (sel.Sel.Name == "SourceRange" || sel.Sel.Name == "Range") {
						t := info.TypeOf(sel.X)
						// an interface value inside the case of a type switch over it has that case's type
						if t != nil {
							if _, isI := t.Underlying().(*types.Interface); isI {
								for c := p.Parent(ast.Unparen(src)); c != nil; c = p.Parent(c) {
									cc, ok := c.(*ast.CaseClause)
									if !ok || len(cc.List) != 1 {
										continue
									}
									ts, ok := fn.enclosingSwitch(cc).(*ast.TypeSwitchStmt)
									if !ok {
										continue
									}
									if op := typeSwitchOperand(ts); op != nil && pathOf(info, op) == pathOf(info, sel.X) && pathOf(info, op) != "" {
										if ct := info.TypeOf(cc.List[0]); ct != nil {
											t = ct
										}
									}
									break
								}
							}
						}
						if t != nil {
							if n := namedOf(t); n != nil && n.Obj().Pkg() != nil {
								for k, w := range shrinkableSources {
									i := strings.LastIndex(k, ".")
									if strings.HasSuffix(n.Obj().Pkg().Path(), k[:i]) && n.Obj().Name() == k[i+1:] && sb.delta-eb.delta <= 2 {
										okWhy = w
									}
								}
							}
						}
					}
				}
				if okWhy != "" {
					r.Add("E6.shrunk-range", fn.Name, key, p.Pos(x), OK, okWhy+" (stated syntax assumption)", true)
				} else {
					r.Add("E6.shrunk-range", fn.Name, key, p.Pos(x), Violated,
						fmt.Sprintf("both ends of %s are moved inwards (%d and %d bytes) without anything showing that the range is that long: for a shorter element the resulting range ends before it starts", exprStr(sb.base), sb.delta, -eb.delta), true)
				}
			}
			return true
		})
	}
	// E6.token-after-cursor / E6.literal-endpoints
	nTok, nLitEnd := 0, 0
	for _, fn := range p.Funcs {
		if fn.Body == nil {
			continue
		}
		info := fn.Info()
		root := rootOf(fn)
		isCursor := func(e ast.Expr) bool {
			id, ok := ast.Unparen(e).(*ast.Ident)
			if !ok {
				return false
			}
			v, ok := info.ObjectOf(id).(*types.Var)
			return ok && isHclPos(v.Type()) && (root.isParam(v) || fn.isParam(v))
		}
		ast.Inspect(fn.Body, func(n ast.Node) bool {
			if lit, ok := n.(*ast.FuncLit); ok && lit != fn.Lit {
				return false
			}
			switch x := n.(type) {
			case *ast.ReturnStmt:
				// return tokens[i+k].Range with k >= 1 in a scan for the token under the cursor
				for _, res := range x.Results {
					sel, ok := ast.Unparen(res).(*ast.SelectorExpr)
					if !ok || sel.Sel.Name != "Range" {
						continue
					}
					ix, ok := ast.Unparen(sel.X).(*ast.IndexExpr)
					if !ok {
						continue
					}
					if t := info.TypeOf(ix.X); t == nil || !typeIs(t, "hclsyntax", "Tokens") {
						continue
					}
					nTok++
					be, ok := ast.Unparen(ix.Index).(*ast.BinaryExpr)
					if !ok || be.Op != token.ADD {
						continue
					}
					if c, isC := constInt(info, be.Y); isC && c >= 1 {
						r.Add("E6.token-after-cursor", fn.Name, "return "+exprStr(res), p.Pos(x), Violated,
							"the range handed back for the cursor is that of a token *after* the one found under the cursor: it starts past the cursor, so the edit/prefix range built from it does not reach back to what was typed", true)
					}
				}
			case *ast.CompositeLit:
				if t := info.TypeOf(x); t == nil || !typeIs(t, "hcl/v2", "Range") {
					return true
				}
				st, en := litField(x, "Start"), litField(x, "End")
				if st == nil || en == nil || isCursor(st) == isCursor(en) {
					return true
				}
				// only ranges that may be handed back matter (slicing ranges: bounds are E4.P3's)
				var holder types.Object
				switch par := p.Parent(x).(type) {
				case *ast.AssignStmt:
					for i, rhs := range par.Rhs {
						if ast.Unparen(rhs) == ast.Expr(x) && i < len(par.Lhs) {
							holder = baseObj(info, par.Lhs[i])
						}
					}
				case *ast.ValueSpec:
					for i, v := range par.Values {
						if ast.Unparen(v) == ast.Expr(x) && i < len(par.Names) {
							holder = info.ObjectOf(par.Names[i])
						}
					}
				}
				if holder != nil && !rangeVarEmitted(fn, holder) {
					return true
				}
				nLitEnd++
				other, side := st, "Start"
				if isCursor(st) {
					other, side = en, "End"
				}
				key := "hcl.Range{" + side + ": " + short(exprStr(other), 40) + ", cursor at the other end}"
				// the other endpoint is X.Start (for Start) / X.End (for End) of a range X with a
				// dominating X.ContainsPos(cursor), or an explicit byte comparison orders them
				osel, _ := ast.Unparen(other).(*ast.SelectorExpr)
				ok := fn.GuardsAt(x).Holds(func(a *Atom) bool {
					if a.E == nil {
						return false
					}
					if call, isCall := ast.Unparen(a.E).(*ast.CallExpr); isCall && a.Pol {
						if s2, isSel := ast.Unparen(call.Fun).(*ast.SelectorExpr); isSel && s2.Sel.Name == "ContainsPos" && osel != nil && osel.Sel.Name == side {
							if c := fn.Canon(s2.X); c != "" && c == fn.Canon(osel.X) {
								return true
							}
						}
					}
					if be, isBe := ast.Unparen(a.E).(*ast.BinaryExpr); isBe {
						txt := exprStr(be)
						if strings.Contains(txt, exprStr(other)+".Byte") && strings.Contains(txt, ".Byte") && (be.Op == token.LEQ || be.Op == token.GEQ || be.Op == token.LSS || be.Op == token.GTR) {
							return true
						}
					}
					return false
				})
				if ok {
					r.Add("E6.literal-endpoints", fn.Name, key, p.Pos(x), OK, "a dominating fact orders the cursor against the literal's other endpoint", true)
				} else if ex := literalEndpointExceptions[fn.Name+"|"+side]; ex != "" {
					r.Add("E6.literal-endpoints", fn.Name, key, p.Pos(x), Excepted, ex, true)
				} else {
					r.Add("E6.literal-endpoints", fn.Name, key, p.Pos(x), Violated,
						"a range is built with the cursor at one end and "+exprStr(other)+" at the other without any fact ordering the two: with the cursor on the far side of that endpoint the range is inverted", true)
				}
			}
			return true
		})
	}
	r.Counts["E6.token-range-returns"] = nTok
	r.Counts["E6.literals-with-one-cursor-endpoint"] = nLitEnd
	r.ExpectMin("E6.token-range-returns", nTok, 1)
	r.Counts["E6.lexer-calls"] = nLex
	r.Counts["E6.shrunk-ranges"] = nShrink
	r.ExpectMin("E6.lexer-calls", nLex, 2)
	r.Clauses = append(r.Clauses, "E6.lex-origin: hclsyntax lexers/parsers started at the initial position are given whole-file bytes; E6.shrunk-range: a range stripped of delimiters at both ends comes from a syntax element that always has them")
}

type byteShift struct {
	base  ast.Expr // the range expression X in X.Start.Byte ± c
	field string   // Start | End
	delta int64
}

// posByteShift: e is hcl.Pos{…, Byte: X.<Start|End>.Byte ± c}.
func posByteShift(info *types.Info, e ast.Expr) *byteShift {
	cl, ok := ast.Unparen(e).(*ast.CompositeLit)
	if !ok {
		return nil
	}
	bv := litField(cl, "Byte")
	if bv == nil {
		return nil
	}
	be, ok := ast.Unparen(bv).(*ast.BinaryExpr)
	if !ok || (be.Op != token.ADD && be.Op != token.SUB) {
		return nil
	}
	c, isC := constInt(info, be.Y)
	if !isC {
		return nil
	}
	if be.Op == token.SUB {
		c = -c
	}
	s1, ok := ast.Unparen(be.X).(*ast.SelectorExpr)
	if !ok || s1.Sel.Name != "Byte" {
		return nil
	}
	s2, ok := ast.Unparen(s1.X).(*ast.SelectorExpr)
	if !ok || (s2.Sel.Name != "Start" && s2.Sel.Name != "End") {
		return nil
	}
	return &byteShift{base: s2.X, field: s2.Sel.Name, delta: int64(c)}
}

// e6ForFiles: the position-literal / range-literal / endpoint rules of E6, reported for the
// constructs in the named files only (the producers of one feature's ranges).
func e6ForFiles(patterns ...string) func(p *Prog, r *Report) {
	return func(p *Prog, r *Report) {
		tmp := newReport(r.Prop)
		runE6(p, tmp)
		kept := 0
		for _, o := range tmp.Obligs {
			file := o.Pos
			if i := strings.Index(file, ":"); i > 0 {
				file = file[:i]
			}
			parts := strings.SplitN(o.Key, "|", 3)
			if len(parts) != 3 {
				continue
			}
			match := false
			for _, pat := range patterns {
				if strings.HasPrefix(pat, "fn:") {
					if strings.Contains(parts[1], pat[3:]) {
						match = true
					}
				} else if strings.Contains(file, pat) {
					match = true
				}
			}
			if !match {
				continue
			}
			kept++
			construct := parts[2]
			if i := strings.LastIndex(construct, "#"); i > 0 && strings.Trim(construct[i+1:], "0123456789") == "" {
				construct = construct[:i]
			}
			r.Add(o.Rule, parts[1], construct, o.Pos, o.Status, o.Detail, o.NonTrivial)
		}
		r.Counts["E6.position-constructs-in-feature-files"] = kept
		r.Clauses = append(r.Clauses, "E6 (feature files "+strings.Join(patterns, ", ")+"): every hcl.Pos literal shifts Column and Byte of one base position by the same constant; no component is assigned alone; a Range literal takes Filename and endpoints from one node")
	}
}

// onlyFns runs a rule and keeps the obligations of the functions whose name contains one of
// the patterns (a property that depends on one part of what a module-wide rule covers).
func onlyFns(run func(p *Prog, r *Report), countName string, pats ...string) func(p *Prog, r *Report) {
	return func(p *Prog, r *Report) {
		tmp := newReport(r.Prop)
		run(p, tmp)
		kept := 0
		for _, o := range tmp.Obligs {
			parts := strings.SplitN(o.Key, "|", 3)
			if len(parts) != 3 {
				continue
			}
			match := false
			for _, pat := range pats {
				if strings.Contains(parts[1], pat) {
					match = true
				}
			}
			if !match {
				continue
			}
			kept++
			construct := parts[2]
			if i := strings.LastIndex(construct, "#"); i > 0 && strings.Trim(construct[i+1:], "0123456789") == "" {
				construct = construct[:i]
			}
			r.Add(o.Rule, parts[1], construct, o.Pos, o.Status, o.Detail, o.NonTrivial)
		}
		r.ExpectMin(countName, kept, 1)
		r.Clauses = append(r.Clauses, tmp.Clauses...)
	}
}

// lengthAgreementGuard: the call is reached only under a comparison of len(<decoded>) with a
// byte distance of a range (…End.Byte - …Start.Byte …), i.e. the decoded text was checked to
// be as long as its source.
func lengthAgreementGuard(fn *Func, at ast.Node, decoded string) bool {
	found := false
	for _, a := range fn.GuardsAt(at).AllAtoms() {
		if a == nil || a.E == nil {
			continue
		}
		be, ok := ast.Unparen(a.E).(*ast.BinaryExpr)
		if !ok || (be.Op != token.EQL && be.Op != token.NEQ) {
			continue
		}
		if (be.Op == token.EQL) != a.Pol {
			continue // we need equality to hold on the way to the call
		}
		txt := exprStr(fn.InlineLocals(be, 3))
		if strings.Contains(txt, "len("+decoded+")") && strings.Contains(txt, ".End.Byte") && strings.Contains(txt, ".Start.Byte") {
			found = true
		}
	}
	return found
}

// e6WithDecoded: E6.decoded-text-positions is part of the run (C02, C18, C09, C10: the
// properties that promise real ranges for reference origins / targets); the completion
// properties that share runE6More do not depend on it.
var e6WithDecoded bool

func runE6MoreWithDecoded(p *Prog, r *Report) {
	e6WithDecoded = true
	defer func() { e6WithDecoded = false }()
	runE6More(p, r)
}

// runDecodedTextPositions: only that rule (for properties that do not take the rest of E6.more).
func runDecodedTextPositions(p *Prog, r *Report) {
	tmp := newReport(r.Prop)
	runE6MoreWithDecoded(p, tmp)
	n := 0
	for _, o := range tmp.Obligs {
		if o.Rule != "E6.decoded-text-positions" {
			continue
		}
		parts := strings.SplitN(o.Key, "|", 3)
		if len(parts) != 3 {
			continue
		}
		n++
		r.Add(o.Rule, parts[1], parts[2], o.Pos, o.Status, o.Detail, o.NonTrivial)
	}
	r.Counts["E6.parsers-given-decoded-text"] = n
	r.Clauses = append(r.Clauses, "E6.decoded-text-positions: a parser started at a position inside the file is given the file's bytes, or a decoded value only under a guard that its length equals the byte length of the quoted source")
}
