package main

// E4.P2/P3 — index and slice expressions need dominating bounds facts.
//
// Integer expressions are parsed into linear forms over symbols (canonical access paths of
// int-valued expressions, len(path), local variables). Dominating comparisons, range-loop
// facts, definitions of locals, value-range summaries of re-assigned locals and a few
// stated axioms become linear constraints; each goal (0 <= i, i < len(x), a <= b <= len(s))
// is decided by Fourier–Motzkin elimination (sound over the rationals, hence over ints).

import (
	"fmt"
	"go/ast"
	"go/token"
	"go/types"
	cfgpkg "golang.org/x/tools/go/cfg"
	"sort"
	"strconv"
	"strings"
)

const symFileLen = "len(<file bytes>)"

type lin struct {
	t map[string]int64
	c int64
}

func newLin() *lin { return &lin{t: map[string]int64{}} }

func (l *lin) add(o *lin, k int64) *lin {
	r := &lin{t: map[string]int64{}, c: l.c + k*o.c}
	for s, v := range l.t {
		r.t[s] += v
	}
	for s, v := range o.t {
		r.t[s] += k * v
	}
	for s, v := range r.t {
		if v == 0 {
			delete(r.t, s)
		}
	}
	return r
}
func (l *lin) neg() *lin              { return newLin().add(l, -1) }
func (l *lin) plus(c int64) *lin      { r := l.add(newLin(), 1); r.c += c; return r }
func linConst(c int64) *lin           { return &lin{t: map[string]int64{}, c: c} }
func linSym(s string) *lin            { return &lin{t: map[string]int64{s: 1}} }
func (l *lin) sub(o *lin) *lin        { return l.add(o, -1) }
func (l *lin) isConst() bool          { return len(l.t) == 0 }
func (l *lin) nsyms() int             { return len(l.t) }
func (l *lin) mentions(s string) bool { return l.t[s] != 0 }

func (l *lin) String() string {
	var parts []string
	for s, v := range l.t {
		if v == 1 {
			parts = append(parts, pathName(s))
		} else {
			parts = append(parts, fmt.Sprintf("%d*%s", v, pathName(s)))
		}
	}
	sort.Strings(parts)
	if l.c != 0 || len(parts) == 0 {
		parts = append(parts, fmt.Sprint(l.c))
	}
	return strings.Join(parts, " + ")
}

func gcd(a, b int64) int64 {
	if a < 0 {
		a = -a
	}
	if b < 0 {
		b = -b
	}
	for b != 0 {
		a, b = b, a%b
	}
	return a
}

func (l *lin) normalise() *lin {
	var g int64
	for _, v := range l.t {
		g = gcd(g, v)
	}
	if g > 1 {
		r := newLin()
		for s, v := range l.t {
			r.t[s] = v / g
		}
		// floor division of the constant keeps l <= 0 equivalent over the integers:
		// g*x + c <= 0  ⇔  x <= floor(-c/g)  ⇔ x + ceil(c/g) <= 0
		c := l.c
		q := c / g
		if c%g != 0 && c > 0 {
			q++
		}
		r.c = q
		return r
	}
	return l
}

func (l *lin) key() string {
	var ks []string
	for s := range l.t {
		ks = append(ks, s)
	}
	sort.Strings(ks)
	var sb strings.Builder
	for _, s := range ks {
		fmt.Fprintf(&sb, "%d*%s;", l.t[s], s)
	}
	fmt.Fprintf(&sb, "%d", l.c)
	return sb.String()
}

// infeasible: is the system {c <= 0 for c in cons} unsatisfiable over the rationals?
func infeasible(cons []*lin) bool {
	cur := make([]*lin, 0, len(cons))
	seen := map[string]bool{}
	for _, c := range cons {
		n := c.normalise()
		if !seen[n.key()] {
			seen[n.key()] = true
			cur = append(cur, n)
		}
	}
	for iter := 0; iter < 40; iter++ {
		// constant contradictions
		for _, c := range cur {
			if c.isConst() && c.c > 0 {
				return true
			}
		}
		// pick the variable with the fewest pos*neg combinations
		occ := map[string][2]int{}
		for _, c := range cur {
			for s, v := range c.t {
				o := occ[s]
				if v > 0 {
					o[0]++
				} else {
					o[1]++
				}
				occ[s] = o
			}
		}
		if len(occ) == 0 {
			return false
		}
		best, bestCost := "", 1<<30
		var names []string
		for s := range occ {
			names = append(names, s)
		}
		sort.Strings(names)
		for _, s := range names {
			o := occ[s]
			cost := o[0]*o[1] - o[0] - o[1]
			if cost < bestCost {
				best, bestCost = s, cost
			}
		}
		var pos, neg, rest []*lin
		for _, c := range cur {
			v := c.t[best]
			switch {
			case v > 0:
				pos = append(pos, c)
			case v < 0:
				neg = append(neg, c)
			default:
				rest = append(rest, c)
			}
		}
		if len(pos)*len(neg) > 4000 {
			return false // give up (not proven)
		}
		seen = map[string]bool{}
		next := rest[:0:0]
		for _, c := range rest {
			if !seen[c.key()] {
				seen[c.key()] = true
				next = append(next, c)
			}
		}
		for _, pc := range pos {
			for _, nc := range neg {
				a, b := pc.t[best], -nc.t[best]
				comb := newLin().add(pc, b).add(nc, a).normalise()
				if comb.isConst() && comb.c <= 0 {
					continue
				}
				if !seen[comb.key()] {
					seen[comb.key()] = true
					next = append(next, comb)
				}
			}
		}
		cur = next
	}
	return false
}

// ---------------------------------------------------------------------------------------

type idxProver struct {
	p        *Prog
	callers  map[*types.Func][]callSite
	unsigned map[string]bool
	visiting map[string]bool
	seeds    []*lin
	fcName   map[string]string // len(P.Name) symbol -> P (hclsyntax.FunctionCallExpr path)
	// count#pos symbol -> the lengths that bound the result of a counting helper called there
	callBounds map[string][]*lin
}

type factSet struct {
	cons []*lin // each <= 0
	why  []string
	ne   []*lin // each != 0
}

func (fs *factSet) le0(l *lin, why string) {
	if l == nil {
		return
	}
	if l.isConst() && l.c <= 0 {
		return
	}
	fs.cons = append(fs.cons, l)
	fs.why = append(fs.why, why)
}
func (fs *factSet) eq0(l *lin, why string) { fs.le0(l, why); fs.le0(l.neg(), why) }

// entails l <= 0 ?
func (fs *factSet) entails(l *lin) bool {
	if l.isConst() {
		return l.c <= 0
	}
	// relevant constraints: connected to the goal's symbols
	rel := map[string]bool{}
	for s := range l.t {
		rel[s] = true
	}
	for changed := true; changed; {
		changed = false
		for _, c := range fs.cons {
			touch := false
			for s := range c.t {
				if rel[s] {
					touch = true
				}
			}
			if touch {
				for s := range c.t {
					if !rel[s] {
						rel[s] = true
						changed = true
					}
				}
			}
		}
	}
	var sys []*lin
	for _, c := range fs.cons {
		for s := range c.t {
			if rel[s] {
				sys = append(sys, c)
				break
			}
		}
	}
	// negated goal: l >= 1  ⇔  -l + 1 <= 0
	base := append(append([]*lin{}, sys...), l.neg().plus(1))
	if infeasible(base) {
		return true
	}
	// strengthen with disequalities d != 0: if d >= 0 is entailed then d >= 1, and vice versa
	// (iterated: len != 0, len != 1, len != 2 with len >= 0 give len >= 3)
	extra := []*lin{}
	used := map[int]bool{}
	for round := 0; round <= len(fs.ne); round++ {
		cur := append(append([]*lin{}, sys...), extra...)
		grew := false
		for i, d := range fs.ne {
			if used[i] {
				continue
			}
			if infeasible(append(append([]*lin{}, cur...), d.plus(1))) { // d <= -1 impossible → d >= 0 → d >= 1
				extra = append(extra, d.neg().plus(1))
				used[i], grew = true, true
			} else if infeasible(append(append([]*lin{}, cur...), d.neg().plus(1))) { // d >= 1 impossible → d <= -1
				extra = append(extra, d.plus(1))
				used[i], grew = true, true
			}
		}
		if !grew {
			break
		}
	}
	if len(extra) > 0 {
		return infeasible(append(base, extra...))
	}
	return false
}

// upper bound of l under the facts: smallest c among candidates with l <= c entailed.
func (fs *factSet) upperBound(l *lin) (int64, bool) {
	if l.isConst() {
		return l.c, true
	}
	// try a small set of candidate constants (exact bound search by probing)
	if !fs.entails(l.plus(-1 << 20)) {
		return 0, false
	}
	lo, hi := int64(-1<<20), int64(1<<20)
	// find minimal c with l - c <= 0 entailed; monotone in c
	if fs.entails(l.plus(-lo)) {
		return lo, true
	}
	for hi-lo > 1 {
		mid := lo + (hi-lo)/2
		if fs.entails(l.plus(-mid)) {
			hi = mid
		} else {
			lo = mid
		}
	}
	return hi, true
}

// isLenCall recognises len(x), also on synthesised syntax.
func isLenCall(info *types.Info, call *ast.CallExpr) bool {
	id, ok := ast.Unparen(call.Fun).(*ast.Ident)
	if !ok || id.Name != "len" || len(call.Args) != 1 {
		return false
	}
	if o, ok := info.Uses[id]; ok {
		_, isB := o.(*types.Builtin)
		return isB
	}
	return true // synthesised
}

func (ip *idxProver) isFileBytes(fn *Func, e ast.Expr, depth int) bool {
	info := fn.Info()
	e = ast.Unparen(e)
	if sel, ok := e.(*ast.SelectorExpr); ok && sel.Sel.Name == "Bytes" {
		if t := info.TypeOf(sel.X); t != nil && typeIs(t, "hcl/v2", "File") {
			return true
		}
	}
	if id, ok := e.(*ast.Ident); ok && depth < 3 {
		o := info.ObjectOf(id)
		if o == nil {
			return false
		}
		if def := fn.aliasDef(o); def != nil && !fn.isParam(o) {
			return ip.isFileBytes(fn, def, depth+1)
		}
		if fn.isParam(o) && len(fn.Assignments(o)) == 0 && fn.Obj != nil {
			sites := ip.callers[fn.Obj]
			if len(sites) == 0 {
				return false
			}
			for _, cs := range sites {
				arg := actualFor(fn, o, cs)
				if arg == nil || !ip.isFileBytes(cs.fn, arg, depth+1) {
					return false
				}
			}
			return true
		}
	}
	return false
}

func (ip *idxProver) lenOf(fn *Func, e ast.Expr, depth int) *lin {
	info := fn.Info()
	e = ast.Unparen(e)
	if s, ok := constString(info, e); ok {
		return linConst(int64(len(s)))
	}
	if t := info.TypeOf(e); t != nil {
		if arr, ok := t.Underlying().(*types.Array); ok {
			return linConst(arr.Len())
		}
		if sl, ok := t.Underlying().(*types.Slice); ok {
			if b, ok := sl.Elem().Underlying().(*types.Basic); ok && b.Kind() == types.Uint8 && ip.isFileBytes(fn, e, 0) {
				return linSym(symFileLen)
			}
		}
	}
	if se, ok := e.(*ast.SliceExpr); ok && !se.Slice3 {
		lo := linConst(0)
		if se.Low != nil {
			lo = ip.parse(fn, se.Low, depth)
		}
		var hi *lin
		if se.High != nil {
			hi = ip.parse(fn, se.High, depth)
		} else {
			hi = ip.lenOf(fn, se.X, depth)
		}
		if lo != nil && hi != nil {
			return hi.sub(lo)
		}
		return nil
	}
	if l := ip.madeLen(fn, e, depth); l != nil {
		return l
	}
	// conversion string(x) / []byte(x)
	if call, ok := e.(*ast.CallExpr); ok && len(call.Args) == 1 {
		if tv, ok := info.Types[call.Fun]; ok && tv.IsType() {
			if _, isStr := info.TypeOf(call.Args[0]).Underlying().(*types.Basic); isStr || true {
				at := info.TypeOf(call.Args[0])
				if at != nil {
					switch u := at.Underlying().(type) {
					case *types.Slice:
						if b, ok := u.Elem().Underlying().(*types.Basic); ok && b.Kind() == types.Uint8 {
							return ip.lenOf(fn, call.Args[0], depth)
						}
					case *types.Basic:
						if u.Info()&types.IsString != 0 {
							return ip.lenOf(fn, call.Args[0], depth)
						}
					}
				}
			}
		}
	}
	c := fn.Canon(e)
	if c == "" {
		return nil
	}
	if sel, ok := e.(*ast.SelectorExpr); ok && sel.Sel.Name == "Name" {
		if t := info.TypeOf(sel.X); t != nil && typeIs(t, "hclsyntax", "FunctionCallExpr") {
			ip.fcName["len("+c+")"] = fn.Canon(sel.X)
		}
	}
	return linSym("len(" + c + ")")
}

// madeLen: the length of a slice that is made / written as a literal in this function:
//
//	x := make(T, n)          x := T{a, b}
//	v := S{F: make(T, n)}    → len(v.F) = n
//	p.F = make(T, n)         (the only assignment to p.F, dominating)
func (ip *idxProver) madeLen(fn *Func, e ast.Expr, depth int) *lin {
	info := fn.Info()
	lenOfDef := func(def ast.Expr) *lin {
		switch d := ast.Unparen(def).(type) {
		case *ast.CallExpr:
			if isBuiltinCall(info, d, "make") && len(d.Args) >= 2 && fn.stableBases(d.Args[1]) {
				return ip.parse(fn, d.Args[1], depth+1)
			}
		case *ast.CompositeLit:
			if t := info.TypeOf(d); t != nil {
				if _, ok := t.Underlying().(*types.Slice); ok {
					for _, el := range d.Elts {
						if _, isKV := el.(*ast.KeyValueExpr); isKV {
							return nil
						}
					}
					return linConst(int64(len(d.Elts)))
				}
			}
		}
		return nil
	}
	switch x := ast.Unparen(e).(type) {
	case *ast.Ident:
		o := info.ObjectOf(x)
		if o == nil || fn.isParam(o) {
			return nil
		}
		if def := fn.SingleDef(o); def != nil {
			return lenOfDef(def)
		}
	case *ast.SelectorExpr:
		path := fn.Canon(x)
		if path == "" {
			return nil
		}
		// field assignments p.F = make(...)
		var defs []ast.Expr
		var nodes []ast.Node
		ast.Inspect(fn.Body, func(n ast.Node) bool {
			if as, ok := n.(*ast.AssignStmt); ok && len(as.Lhs) == len(as.Rhs) {
				for i, l := range as.Lhs {
					if fn.Canon(l) == path {
						defs = append(defs, as.Rhs[i])
						nodes = append(nodes, as)
					}
				}
			}
			return true
		})
		if len(defs) == 1 && fn.Dominates(nodes[0], e) {
			return lenOfDef(defs[0])
		}
		if len(defs) == 0 {
			// literal field of a single-definition struct variable
			if id, ok := ast.Unparen(x.X).(*ast.Ident); ok {
				o := info.ObjectOf(id)
				if o != nil && !fn.isParam(o) {
					if def := fn.SingleDef(o); def != nil {
						d := ast.Unparen(def)
						if u, ok := d.(*ast.UnaryExpr); ok && u.Op == token.AND {
							d = ast.Unparen(u.X)
						}
						if cl, ok := d.(*ast.CompositeLit); ok {
							for _, el := range cl.Elts {
								if kv, ok := el.(*ast.KeyValueExpr); ok {
									if k, ok := kv.Key.(*ast.Ident); ok && k.Name == x.Sel.Name {
										return lenOfDef(kv.Value)
									}
								}
							}
						}
					}
				}
			}
		}
	}
	return nil
}

func (ip *idxProver) parse(fn *Func, e ast.Expr, depth int) *lin {
	info := fn.Info()
	e = ast.Unparen(e)
	if c, ok := constInt(info, e); ok {
		return linConst(c)
	}
	switch x := e.(type) {
	case *ast.BasicLit:
		if x.Kind == token.INT {
			if v, err := strconv.ParseInt(x.Value, 0, 64); err == nil {
				return linConst(v)
			}
		}
	case *ast.BinaryExpr:
		if x.Op == token.ADD || x.Op == token.SUB {
			a, b := ip.parse(fn, x.X, depth), ip.parse(fn, x.Y, depth)
			if a == nil || b == nil {
				return nil
			}
			if x.Op == token.ADD {
				return a.add(b, 1)
			}
			return a.add(b, -1)
		}
	case *ast.CallExpr:
		if isLenCall(info, x) {
			return ip.lenOf(fn, x.Args[0], depth)
		}
		if tv, ok := info.Types[x.Fun]; ok && tv.IsType() && len(x.Args) == 1 {
			return ip.parse(fn, x.Args[0], depth) // int(x), uint(x)
		}
		if f := calleeOf(info, x); f != nil && ip.p.FuncOf[f] != nil {
			// n := a.commonPrefixLen(b): a helper that counts up to the length of its operands
			if idxs := countingBounds(ip.p.FuncOf[f]); len(idxs) > 0 {
				var bounds []*lin
				for _, pi := range idxs {
					var arg ast.Expr
					if pi < 0 {
						if sel, ok := ast.Unparen(x.Fun).(*ast.SelectorExpr); ok {
							arg = sel.X
						}
					} else if pi < len(x.Args) && !x.Ellipsis.IsValid() {
						arg = x.Args[pi]
					}
					if arg == nil {
						continue
					}
					if ln := ip.lenOf(fn, arg, depth); ln != nil {
						bounds = append(bounds, ln)
					}
				}
				if len(bounds) > 0 {
					sym := fmt.Sprintf("count#%d", x.Pos())
					if ip.callBounds == nil {
						ip.callBounds = map[string][]*lin{}
					}
					ip.callBounds[sym] = bounds
					return linSym(sym)
				}
			}
		}
	case *ast.Ident:
		o := info.ObjectOf(x)
		if o == nil {
			return nil
		}
		if depth < 4 {
			if v, ok := o.(*types.Var); ok && !v.IsField() && !fn.isParam(o) {
				if def := fn.SingleDef(o); def != nil && fn.stableBases(def) {
					if l := ip.parse(fn, def, depth+1); l != nil && l.nsyms() <= 1 {
						return l
					}
				}
			}
		}
		if c := fn.Canon(x); c != "" {
			ip.noteType(c, info.TypeOf(x))
			return linSym(c)
		}
	case *ast.SelectorExpr:
		if c := fn.Canon(x); c != "" {
			ip.noteType(c, info.TypeOf(x))
			return linSym(c)
		}
	}
	return nil
}

func (ip *idxProver) noteType(sym string, t types.Type) {
	if t == nil {
		return
	}
	if b, ok := t.Underlying().(*types.Basic); ok && b.Info()&types.IsUnsigned != 0 {
		ip.unsigned[sym] = true
	}
}

func parserByteSym(s string) string {
	for _, suf := range []string{".Start.Byte", ".End.Byte"} {
		if strings.HasSuffix(s, suf) {
			base := strings.TrimSuffix(s, suf)
			if strings.HasSuffix(base, "Range()") || strings.HasSuffix(base, "Range") {
				return base
			}
		}
	}
	return ""
}

var equalLenFields = [][2]string{{"Labels", "LabelRanges"}}

// localVar finds the local variable object whose canonical symbol is s.
func (ip *idxProver) localVar(fn *Func, s string) types.Object {
	if strings.ContainsAny(s, ".([") {
		return nil
	}
	info := fn.Info()
	var obj types.Object
	for id, o := range info.Defs {
		if o != nil && id.Pos() >= fn.Body.Pos() && id.End() <= fn.Body.End() && pathOf(info, id) == s {
			obj = o
		}
	}
	if obj == nil && fn.Type.Params != nil {
		for _, f := range fn.Type.Params.List {
			for _, n := range f.Names {
				if pathOf(info, n) == s {
					obj = info.ObjectOf(n)
				}
			}
		}
	}
	if obj == nil && fn.Decl != nil && fn.Decl.Recv != nil {
		for _, f := range fn.Decl.Recv.List {
			for _, n := range f.Names {
				if pathOf(info, n) == s {
					obj = info.ObjectOf(n)
				}
			}
		}
	}
	return obj
}

// atomFacts adds the linear facts of the guards at `at`.
func (ip *idxProver) atomFacts(fn *Func, at ast.Node, fs *factSet) {
	info := fn.Info()
	for _, a := range fn.GuardsAt(at).Atoms() {
		if a.E == nil {
			continue
		}
		e := ast.Unparen(a.E)
		if id, ok := e.(*ast.Ident); ok && a.Pol {
			ip.okImpliesNonEmpty(fn, id, a, at, fs)
			continue
		}
		if call, ok := e.(*ast.CallExpr); ok {
			if sel, ok := ast.Unparen(call.Fun).(*ast.SelectorExpr); ok && a.Pol && sel.Sel.Name == "IsStringLiteral" && len(call.Args) == 0 {
				if t := info.TypeOf(sel.X); t != nil && typeIs(t, "hclsyntax", "TemplateExpr") {
					if c := fn.Canon(sel.X); c != "" {
						if ok, _ := fn.guardStillValid(a, call, at); ok {
							fs.eq0(linSym("len("+c+".Parts)").sub(linConst(1)), "hclsyntax: IsStringLiteral() ⇒ exactly one part")
						}
					}
				}
			}
			if sel, ok := ast.Unparen(call.Fun).(*ast.SelectorExpr); ok && a.Pol && sel.Sel.Name == "ContainsPos" && len(call.Args) == 1 {
				if t := info.TypeOf(sel.X); t != nil && typeIs(t, "hcl/v2", "Range") {
					r, pp := fn.Canon(sel.X), fn.Canon(call.Args[0])
					if r != "" && pp != "" {
						if ok, _ := fn.guardStillValid(a, call, at); ok {
							fs.le0(linSym(r+".Start.Byte").sub(linSym(pp+".Byte")), "ContainsPos")
							fs.le0(linSym(pp+".Byte").sub(linSym(r+".End.Byte")).plus(1), "ContainsPos")
						}
					}
				}
			}
			continue
		}
		be, ok := e.(*ast.BinaryExpr)
		if !ok {
			continue
		}
		op := be.Op
		if !a.Pol {
			switch op {
			case token.LSS:
				op = token.GEQ
			case token.LEQ:
				op = token.GTR
			case token.GTR:
				op = token.LEQ
			case token.GEQ:
				op = token.LSS
			case token.EQL:
				op = token.NEQ
			case token.NEQ:
				op = token.EQL
			default:
				continue
			}
		}
		switch op {
		case token.LSS, token.LEQ, token.GTR, token.GEQ, token.EQL, token.NEQ:
		default:
			continue
		}
		if t := info.TypeOf(be.X); t != nil {
			if b, ok := t.Underlying().(*types.Basic); !ok || b.Info()&types.IsInteger == 0 {
				// string(trimmedBytes) == "," gives a length fact
				if op == token.EQL {
					ip.stringEqFact(fn, be, fs)
				}
				continue
			}
		}
		l, r := ip.parse(fn, be.X, 0), ip.parse(fn, be.Y, 0)
		if l == nil || r == nil {
			continue
		}
		if ok, _ := fn.guardStillValid(a, be, at); !ok {
			continue
		}
		d := l.sub(r)
		why := exprStr(a.E)
		if !a.Pol {
			why = "!(" + why + ")"
		}
		switch op {
		case token.LSS:
			fs.le0(d.plus(1), why)
		case token.LEQ:
			fs.le0(d, why)
		case token.GTR:
			fs.le0(d.neg().plus(1), why)
		case token.GEQ:
			fs.le0(d.neg(), why)
		case token.EQL:
			fs.eq0(d, why)
		case token.NEQ:
			fs.ne = append(fs.ne, d)
		}
	}
}

// okImpliesNonEmpty: `xs, ok := f(...)` where every return of module function f has the
// shape `return v, len(v) > 0`; a dominating `ok` then gives len(xs) >= 1.
func (ip *idxProver) okImpliesNonEmpty(fn *Func, id *ast.Ident, a *Atom, at ast.Node, fs *factSet) {
	info := fn.Info()
	o := info.ObjectOf(id)
	if o == nil {
		return
	}
	// the assignment that defines ok and reaches `at`
	for _, asn := range fn.Assignments(o) {
		st, isAs := asn.(*ast.AssignStmt)
		if !isAs || len(st.Rhs) != 1 || len(st.Lhs) != 2 || !fn.Dominates(st, at) {
			continue
		}
		call, isCall := ast.Unparen(st.Rhs[0]).(*ast.CallExpr)
		if !isCall {
			continue
		}
		callee := calleeOf(info, call)
		cf := ip.p.FuncOf[callee]
		if cf == nil {
			continue
		}
		good, n := true, 0
		ast.Inspect(cf.Body, func(x ast.Node) bool {
			if _, isLit := x.(*ast.FuncLit); isLit {
				return false
			}
			rs, isRet := x.(*ast.ReturnStmt)
			if !isRet {
				return true
			}
			n++
			if len(rs.Results) != 2 {
				good = false
				return true
			}
			if isFalse(rs.Results[1]) {
				return true
			}
			be, isBe := ast.Unparen(rs.Results[1]).(*ast.BinaryExpr)
			if !isBe || be.Op != token.GTR {
				good = false
				return true
			}
			lc, isC := ast.Unparen(be.X).(*ast.CallExpr)
			z, isZ := constInt(cf.Info(), be.Y)
			if !isC || !isLenCall(cf.Info(), lc) || !isZ || z != 0 || pathOf(cf.Info(), lc.Args[0]) == "" || pathOf(cf.Info(), lc.Args[0]) != pathOf(cf.Info(), rs.Results[0]) {
				good = false
			}
			return true
		})
		if !good || n == 0 {
			continue
		}
		// ok and xs must be the ones from this statement, not re-assigned since
		lhs0 := fn.Canon(st.Lhs[0])
		if lhs0 == "" || ip.changedBetween(fn, st.Lhs[0], st, at) {
			continue
		}
		if !ip.onlyDefReaching(fn, o, st, at) {
			continue
		}
		fs.le0(linConst(1).sub(linSym("len("+lhs0+")")), "ok result of "+funcName(callee)+" ⇒ non-empty")
	}
}

func isFalse(e ast.Expr) bool {
	id, ok := ast.Unparen(e).(*ast.Ident)
	return ok && id.Name == "false"
}

// string(x) == "lit"  →  len(x) == len(lit)
func (ip *idxProver) stringEqFact(fn *Func, be *ast.BinaryExpr, fs *factSet) {
	info := fn.Info()
	for _, pair := range [][2]ast.Expr{{be.X, be.Y}, {be.Y, be.X}} {
		if s, ok := constString(info, pair[1]); ok {
			if l := ip.lenOf(fn, pair[0], 0); l != nil {
				fs.eq0(l.sub(linConst(int64(len(s)))), exprStr(be))
			}
		}
	}
}

// gather builds the fact set valid at node `at` for the symbols reachable from seeds.
func (ip *idxProver) gather(fn *Func, at ast.Node, seeds []*lin, depth int) *factSet {
	info := fn.Info()
	fs := &factSet{}
	ip.atomFacts(fn, at, fs)
	// range facts
	for _, f := range fn.FactsAt(at) {
		if f.Kind != FactRange || f.Range.Key == nil {
			continue
		}
		kid, ok := f.Range.Key.(*ast.Ident)
		if !ok || kid.Name == "_" {
			continue
		}
		ko := info.ObjectOf(kid)
		if ko == nil || len(fn.Assignments(ko)) != 1 {
			continue
		}
		ks := fn.Canon(kid)
		xt := info.TypeOf(f.Range.X)
		if xt == nil || ks == "" {
			continue
		}
		if _, isMap := xt.Underlying().(*types.Map); isMap {
			continue
		}
		fs.le0(linSym(ks).neg(), "range index >= 0")
		var n *lin
		if b, isB := xt.Underlying().(*types.Basic); isB && b.Info()&types.IsInteger != 0 {
			n = ip.parse(fn, f.Range.X, 0)
		} else {
			n = ip.lenOf(fn, f.Range.X, 0)
		}
		stable := true
		for _, o := range pathObjects(info, f.Range.X) {
			if fn.ReassignedBetween(o, f, at) != nil {
				stable = false
			}
		}
		if n != nil && stable {
			fs.le0(linSym(ks).sub(n).plus(1), "range index < len("+exprStr(f.Range.X)+")")
		}
	}
	// closure over symbols: axioms, definitions, summaries
	done := map[string]bool{}
	for round := 0; round < 4; round++ {
		syms := map[string]bool{}
		for _, c := range fs.cons {
			for s := range c.t {
				syms[s] = true
			}
		}
		for _, c := range fs.ne {
			for s := range c.t {
				syms[s] = true
			}
		}
		for _, m := range seeds {
			if m != nil {
				for s := range m.t {
					syms[s] = true
				}
			}
		}
		var names []string
		for s := range syms {
			if !done[s] {
				names = append(names, s)
			}
		}
		if len(names) == 0 {
			break
		}
		sort.Strings(names)
		for _, s := range names {
			done[s] = true
			ip.symbolFacts(fn, at, s, fs, depth)
		}
	}
	return fs
}

func (ip *idxProver) symbolFacts(fn *Func, at ast.Node, s string, fs *factSet, depth int) {
	info := fn.Info()
	if strings.HasPrefix(s, "len(") {
		fs.le0(linSym(s).neg(), "len >= 0")
		for _, pair := range equalLenFields {
			for _, ab := range [][2]string{{pair[0], pair[1]}, {pair[1], pair[0]}} {
				if strings.HasSuffix(s, "."+ab[0]+")") {
					o := strings.TrimSuffix(s, "."+ab[0]+")") + "." + ab[1] + ")"
					fs.eq0(linSym(s).sub(linSym(o)), "hclsyntax: len("+ab[0]+") == len("+ab[1]+")")
				}
			}
		}
	}
	if ip.unsigned[s] {
		fs.le0(linSym(s).neg(), "unsigned")
	}
	if bs := ip.callBounds[s]; len(bs) > 0 {
		fs.le0(linSym(s).neg(), "counting helper: result >= 0")
		for _, b := range bs {
			fs.le0(linSym(s).sub(b), "counting helper: the count stops below the length of its operand")
		}
		return
	}
	if fc := ip.fcName[s]; fc != "" {
		// hclsyntax: FunctionCallExpr.Name is exactly the text of NameRange
		fs.eq0(linSym(s).sub(linSym(fc+".NameRange.End.Byte")).add(linSym(fc+".NameRange.Start.Byte"), 1), "hclsyntax: len(Name) == NameRange length")
	}
	if rng := parserByteSym(s); rng != "" {
		fs.le0(linSym(s).neg(), "parser offset >= 0")
		fs.le0(linSym(s).sub(linSym(symFileLen)), "parser offset <= file length")
		fs.le0(linSym(rng+".Start.Byte").sub(linSym(rng+".End.Byte")), "parser range is ordered")
	}
	if strings.HasSuffix(s, ".Byte") && ip.isCursorParam(fn, strings.TrimSuffix(s, ".Byte")) {
		fs.le0(linSym(s).neg(), "cursor >= 0")
		fs.le0(linSym(s).sub(linSym(symFileLen)), "cursor <= file length (entry-point check)")
	}
	obj := ip.localVar(fn, s)
	if obj == nil || fn.isParam(obj) {
		return
	}
	if _, ok := obj.Type().Underlying().(*types.Basic); !ok {
		return
	}
	as := fn.Assignments(obj)
	// rune-size results: _, size := utf8.DecodeRune(S)  → 0 <= size <= len(S)
	for _, a := range as {
		if st, ok := a.(*ast.AssignStmt); ok && len(st.Rhs) == 1 && len(st.Lhs) == 2 {
			if call, ok := ast.Unparen(st.Rhs[0]).(*ast.CallExpr); ok {
				full := calleeFull(info, call)
				if strings.HasPrefix(full, "unicode/utf8.Decode") && len(call.Args) == 1 {
					if id, ok := st.Lhs[1].(*ast.Ident); ok && info.ObjectOf(id) == obj {
						if len(as) == 1 || fn.Dominates(st, at) {
							fs.le0(linSym(s).neg(), "rune size >= 0")
							if ln := ip.lenOf(fn, call.Args[0], 0); ln != nil && !ip.changedBetween(fn, call.Args[0], st, at) && ip.onlyDefReaching(fn, obj, st, at) {
								fs.le0(linSym(s).sub(ln), "rune size <= len("+exprStr(call.Args[0])+")")
							}
						}
						return
					}
				}
			}
		}
	}
	if def := fn.SingleDef(obj); def != nil {
		// r := bytes.IndexFunc(S, f) and friends: -1 <= r <= len(S)-1
		if call, ok := ast.Unparen(def).(*ast.CallExpr); ok && len(call.Args) >= 1 {
			full := calleeFull(info, call)
			if (strings.HasPrefix(full, "bytes.Index") || strings.HasPrefix(full, "strings.Index") ||
				strings.HasPrefix(full, "bytes.LastIndex") || strings.HasPrefix(full, "strings.LastIndex")) && !ip.changedBetween(fn, call.Args[0], as[0], at) {
				fs.le0(linConst(-1).sub(linSym(s)), "index result >= -1")
				if ln := ip.lenOf(fn, call.Args[0], 1); ln != nil {
					fs.le0(linSym(s).sub(ln).plus(1), "index result < len("+exprStr(call.Args[0])+")")
				}
				return
			}
		}
		if !fn.stableBases(def) {
			// the operands may change later: valid only if unchanged between def and use
			if ip.changedBetween(fn, def, as[0], at) {
				return
			}
		}
		if l := ip.parse(fn, def, 1); l != nil && !l.mentions(s) {
			fs.eq0(linSym(s).sub(l), pathName(s)+" := "+exprStr(def))
		}
		return
	}
	// re-assigned local: value-range summary relative to 0 and to the stable symbols in play
	if depth >= 2 || ip.visiting[s] || len(as) == 0 {
		return
	}
	ip.visiting[s] = true
	defer delete(ip.visiting, s)
	cands := []*lin{linConst(0)}
	seenC := map[string]bool{}
	for _, c := range append(append([]*lin{}, ip.seeds...), fs.cons...) {
		if c == nil {
			continue
		}
		for t := range c.t {
			if t != s && !seenC[t] && ip.stableSym(fn, t) {
				seenC[t] = true
				cands = append(cands, linSym(t))
			}
		}
	}
	type bnd struct {
		ok bool
		v  int64
	}
	for _, S := range cands {
		ub, lb := bnd{true, -1 << 40}, bnd{true, 1 << 40} // ub of (x - S), lb of (x - S)
		for _, a := range as {
			var rhs *lin
			var node ast.Node = a
			keepUB, keepLB := false, false
			switch st := a.(type) {
			case *ast.IncDecStmt:
				if st.Tok == token.INC {
					keepLB = true
				} else {
					keepUB = true
				}
			case *ast.AssignStmt:
				if len(st.Lhs) != len(st.Rhs) {
					ub.ok, lb.ok = false, false
					continue
				}
				for i, l := range st.Lhs {
					if id, ok := ast.Unparen(l).(*ast.Ident); ok && info.ObjectOf(id) == obj {
						switch st.Tok {
						case token.ASSIGN, token.DEFINE:
							rhs = ip.parse(fn, st.Rhs[i], 1)
							if rhs == nil {
								ub.ok, lb.ok = false, false
							}
						case token.ADD_ASSIGN, token.SUB_ASSIGN:
							d := ip.parse(fn, st.Rhs[i], 1)
							if d == nil {
								ub.ok, lb.ok = false, false
								continue
							}
							sub := ip.gather(fn, st, []*lin{d, linSym(s)}, depth+1)
							nonneg := sub.entails(d.neg())
							if st.Tok == token.ADD_ASSIGN {
								if nonneg {
									keepLB = true
								} else {
									lb.ok = false
								}
								// x + d - S <= c ?
								if b, ok := sub.upperBound(linSym(s).add(d, 1).sub(S)); ok {
									if b > ub.v {
										ub.v = b
									}
								} else {
									ub.ok = false
								}
							} else {
								if nonneg {
									keepUB = true
								} else {
									ub.ok = false
								}
								if b, ok := sub.upperBound(S.sub(linSym(s)).add(d, 1)); ok { // S - (x - d) <= b → x-d-S >= -b
									if -b < lb.v {
										lb.v = -b
									}
								} else {
									lb.ok = false
								}
							}
							rhs = nil
							keepUB, keepLB = keepUB || st.Tok == token.ADD_ASSIGN, keepLB || st.Tok == token.SUB_ASSIGN
						default:
							ub.ok, lb.ok = false, false
						}
					}
				}
			case *ast.ValueSpec:
				for i, id := range st.Names {
					if info.ObjectOf(id) == obj {
						if i < len(st.Values) {
							rhs = ip.parse(fn, st.Values[i], 1)
						} else {
							rhs = linConst(0)
						}
					}
				}
			case *ast.RangeStmt:
				// x used as range key elsewhere: treat as unknown
				ub.ok, lb.ok = false, false
				continue
			default:
				ub.ok, lb.ok = false, false
				continue
			}
			if rhs == nil {
				if !keepUB && !keepLB {
					// IncDec handled via keep flags
					if _, isInc := a.(*ast.IncDecStmt); !isInc {
						continue
					}
				}
				if _, isInc := a.(*ast.IncDecStmt); isInc {
					if !keepUB {
						ub.ok = false
					}
					if !keepLB {
						lb.ok = false
					}
				}
				continue
			}
			if rhs.mentions(s) {
				ub.ok, lb.ok = false, false
				continue
			}
			sub := ip.gather(fn, node, []*lin{rhs, S}, depth+1)
			if b, ok := sub.upperBound(rhs.sub(S)); ok {
				if b > ub.v {
					ub.v = b
				}
			} else {
				ub.ok = false
			}
			if b, ok := sub.upperBound(S.sub(rhs)); ok {
				if -b < lb.v {
					lb.v = -b
				}
			} else {
				lb.ok = false
			}
		}
		name := "0"
		if !S.isConst() {
			name = S.String()
		}
		if ub.ok && ub.v > -1<<39 {
			fs.le0(linSym(s).sub(S).plus(-ub.v), fmt.Sprintf("every assignment to %s keeps it <= %s%+d", pathName(s), name, ub.v))
		}
		if lb.ok && lb.v < 1<<39 {
			fs.le0(S.sub(linSym(s)).plus(lb.v), fmt.Sprintf("every assignment to %s keeps it >= %s%+d", pathName(s), name, lb.v))
		}
	}
}

// stableSym: the symbol's underlying variables are never re-assigned in fn.
func (ip *idxProver) stableSym(fn *Func, s string) bool {
	if s == symFileLen {
		return true
	}
	inner := strings.TrimSuffix(strings.TrimPrefix(s, "len("), ")")
	base := inner
	if i := strings.IndexAny(base, ".(["); i >= 0 {
		base = base[:i]
	}
	o := ip.localVar(fn, base)
	if o == nil {
		return false
	}
	n := len(fn.Assignments(o))
	if fn.isParam(o) {
		return n == 0
	}
	return n <= 1
}

// changedBetween: may a variable of expr be re-assigned on a path from node a to node b?
func (ip *idxProver) changedBetween(fn *Func, expr ast.Expr, a, b ast.Node) bool {
	info := fn.Info()
	ba := fn.BlockOf(a)
	if ba == nil {
		return true
	}
	pseudo := Fact{Kind: FactCase, Src: ba}
	for _, o := range pathObjects(info, expr) {
		for _, asg := range fn.Assignments(o) {
			if asg == a {
				continue
			}
			// assignment located after a and able to reach b
			bb := fn.BlockOf(asg)
			if bb == nil {
				return true
			}
			if bb == ba {
				// same block: after a?
				ia, ix := -1, -1
				for i, n := range ba.Nodes {
					if n == fn.CFGNodeOf(a) {
						ia = i
					}
					if n == fn.CFGNodeOf(asg) {
						ix = i
					}
				}
				if ix <= ia {
					// before a in the block: only reachable again through a loop, which passes a again
					continue
				}
			}
			_ = pseudo
			fwd := fn.reachFrom(ba.Succs, nil)
			if bb != ba && !fwd[bb] {
				continue
			}
			// can asg reach b without passing a's block again?
			r := fn.reachFrom([]*cfgBlock{bb}, ba)
			tb := fn.BlockOf(b)
			if tb == nil {
				return true
			}
			if bb == tb {
				// same block as the use: before the use?
				iu, ix := -1, -1
				for i, n := range tb.Nodes {
					if n == fn.CFGNodeOf(b) {
						iu = i
					}
					if n == fn.CFGNodeOf(asg) {
						ix = i
					}
				}
				if ix < iu {
					return true
				}
				continue
			}
			if r[tb] {
				return true
			}
		}
	}
	return false
}

// onlyDefReaching: def is the assignment of obj that reaches `at` (no other assignment of
// obj between def and at).
func (ip *idxProver) onlyDefReaching(fn *Func, obj types.Object, def ast.Node, at ast.Node) bool {
	if !fn.Dominates(def, at) {
		return false
	}
	id := &ast.Ident{Name: obj.Name()}
	_ = id
	for _, a := range fn.Assignments(obj) {
		if a == def {
			continue
		}
		// another assignment between def and at?
		if fn.Dominates(def, a) && ip.reaches(fn, a, at, def) {
			return false
		}
	}
	return true
}

func (ip *idxProver) reaches(fn *Func, from, to, avoid ast.Node) bool {
	bf, bt, ba := fn.BlockOf(from), fn.BlockOf(to), fn.BlockOf(avoid)
	if bf == nil || bt == nil {
		return true
	}
	if bf == bt {
		return from.Pos() < to.Pos()
	}
	r := fn.reachFrom([]*cfgBlock{bf}, ba)
	return r[bt]
}

func (ip *idxProver) isCursorParam(fn *Func, p string) bool {
	for f := fn; f != nil; f = f.Parent {
		info := f.Info()
		if f.Type.Params == nil {
			continue
		}
		for _, fl := range f.Type.Params.List {
			for _, n := range fl.Names {
				o := info.ObjectOf(n)
				if o != nil && pathOf(info, n) == p && typeIs(o.Type(), "hcl/v2", "Pos") && len(f.Assignments(o)) == 0 {
					return true
				}
			}
		}
	}
	return false
}

// ---------------------------------------------------------------------------------------

func isGeneratedFile(p *Prog, fn *Func) bool {
	for _, f := range fn.Pkg.Syntax {
		if f.Pos() <= fn.Body.Pos() && fn.Body.End() <= f.End() {
			for _, cg := range f.Comments {
				if strings.Contains(cg.Text(), "Code generated") {
					return true
				}
			}
		}
	}
	return false
}

func isSortContractFunc(p *Prog, fn *Func) bool {
	if fn.Decl != nil && fn.Decl.Recv != nil && (fn.Decl.Name.Name == "Less" || fn.Decl.Name.Name == "Swap") {
		return true
	}
	if fn.Lit != nil {
		if call, ok := p.Parent(fn.Lit).(*ast.CallExpr); ok && fn.Parent != nil {
			full := calleeFull(fn.Parent.Info(), call)
			return full == "sort.Slice" || full == "sort.SliceStable"
		}
		// bound to a local first: less := func(i, j int) bool {…}; sort.Slice(xs, less)
		if as, ok := p.Parent(fn.Lit).(*ast.AssignStmt); ok && fn.Parent != nil && len(as.Lhs) == 1 && len(as.Rhs) == 1 {
			pinfo := fn.Parent.Info()
			id, ok := as.Lhs[0].(*ast.Ident)
			if !ok {
				return false
			}
			o := pinfo.ObjectOf(id)
			if o == nil || len(fn.Parent.Assignments(o)) != 1 {
				return false
			}
			uses, sortUses := 0, 0
			ast.Inspect(fn.Parent.Body, func(n ast.Node) bool {
				if u, ok := n.(*ast.Ident); ok && pinfo.Uses[u] == o {
					uses++
					if call, ok := p.Parent(u).(*ast.CallExpr); ok && len(call.Args) == 2 && call.Args[1] == ast.Expr(u) {
						if full := calleeFull(pinfo, call); full == "sort.Slice" || full == "sort.SliceStable" {
							sortUses++
						}
					}
				}
				return true
			})
			return uses > 0 && uses == sortUses
		}
	}
	return false
}

// a goal is a synthesised comparison A <= B / A < B over the function's expressions
type goal struct {
	e    *ast.BinaryExpr
	text string
}

func mkLen(e ast.Expr) ast.Expr {
	return &ast.CallExpr{Fun: ast.NewIdent("len"), Args: []ast.Expr{e}}
}
func mkInt(v int) ast.Expr { return &ast.BasicLit{Kind: token.INT, Value: strconv.Itoa(v)} }

func (ip *idxProver) goalLin(fn *Func, g goal) *lin {
	a, b := ip.parse(fn, g.e.X, 0), ip.parse(fn, g.e.Y, 0)
	if a == nil || b == nil {
		return nil
	}
	d := a.sub(b)
	if g.e.Op == token.LSS {
		return d.plus(1)
	}
	return d
}

// prove establishes the goals at node `at`, pushing goals over parameters to every
// in-module call site (depth <= 2).
func (ip *idxProver) prove(fn *Func, at ast.Node, goals []goal, depth int) (bool, string) {
	var ls []*lin
	for _, g := range goals {
		l := ip.goalLin(fn, g)
		if l == nil {
			return false, "cannot express " + g.text + " in the linear fragment"
		}
		ls = append(ls, l)
	}
	ip.seeds = ls
	fs := ip.gather(fn, at, ls, 0)
	var failed []goal
	for i, g := range goals {
		if !fs.entails(ls[i]) {
			failed = append(failed, g)
		}
	}
	if len(failed) == 0 {
		return true, ""
	}
	// caller-side preconditions
	if depth < 2 && fn.Obj != nil {
		allParams := true
		params := map[types.Object]bool{}
		info := fn.Info()
		for _, g := range failed {
			ast.Inspect(g.e, func(n ast.Node) bool {
				if id, ok := n.(*ast.Ident); ok {
					o := info.ObjectOf(id)
					if o == nil {
						return true // synthesised len
					}
					if v, ok := o.(*types.Var); ok && !v.IsField() {
						if fn.isParam(o) && len(fn.Assignments(o)) == 0 {
							params[o] = true
						} else {
							allParams = false
						}
					}
				}
				return true
			})
		}
		if allParams && len(params) > 0 {
			sites := ip.callers[fn.Obj]
			if len(sites) == 0 {
				return false, fmt.Sprintf("no local fact establishes %s and the function has no in-module caller to establish it", failed[0].text)
			}
			for _, cs := range sites {
				var g2 []goal
				for _, g := range failed {
					e := ast.Expr(g.e)
					for o := range params {
						arg := actualFor(fn, o, cs)
						if arg == nil {
							return false, "cannot map parameter " + o.Name() + " at " + ip.p.Pos(cs.call)
						}
						e = substExpr(e, o, arg, info)
					}
					g2 = append(g2, goal{e.(*ast.BinaryExpr), g.text})
				}
				ok, why := ip.prove(cs.fn, cs.call, g2, depth+1)
				if !ok {
					return false, fmt.Sprintf("%s; required of caller %s at %s", why, cs.fn.Name, ip.p.Pos(cs.call))
				}
			}
			return true, fmt.Sprintf("precondition %s established at all %d call sites", failed[0].text, len(sites))
		}
	}
	if depth == 0 {
		if ip.provePaths(fn, at, goals) {
			return true, "established on every path (values re-assigned under a test: clamping, defaults)"
		}
	}
	return false, "no dominating fact establishes " + failed[0].text
}

// provePaths is the path-sensitive fallback of prove for locals that are re-assigned under
// a test (`if from < 0 { from = 0 }`): the goals are carried backwards from `at` over every
// CFG path; an assignment `v = e` to a local replaces v by e in the goals (weakest
// precondition), an edge adds its condition as an assumption, and at every join-free point
// the ordinary dominance-based prover is asked. Every path must succeed within the budget;
// cycles, compound assignments, address-taken or captured locals fail.
func (ip *idxProver) provePaths(fn *Func, at ast.Node, goals []goal) bool {
	g := fn.CFG()
	blk := fn.BlockOf(at)
	atNode := fn.CFGNodeOf(at)
	if g == nil || blk == nil || atNode == nil {
		return false
	}
	info := fn.Info()
	root := rootFunc(fn)
	preds := map[*cfgpkg.Block][]*cfgpkg.Block{}
	for _, b := range g.Blocks {
		for _, sc := range b.Succs {
			preds[sc] = append(preds[sc], b)
		}
	}
	// the locals the goals speak about must be plain locals of this function
	okLocal := func(o types.Object) bool {
		v, ok := o.(*types.Var)
		if !ok || v.IsField() || v.Parent() == fn.Pkg.Types.Scope() {
			return false
		}
		if fn.Lit != nil && (v.Pos() < fn.Lit.Pos() || v.Pos() > fn.Lit.End()) {
			return false
		}
		for _, a := range root.Assignments(o) {
			if _, isAddr := a.(*ast.UnaryExpr); isAddr {
				return false
			}
			if fn.BlockOf(a) == nil {
				if _, isSpec := a.(*ast.ValueSpec); !isSpec {
					return false // assigned inside a nested literal
				}
			}
		}
		return true
	}
	type cond struct {
		e   ast.Expr
		pol bool
	}
	budget := 400
	onPath := map[*cfgpkg.Block]bool{}
	mentions := func(e ast.Expr, o types.Object) bool {
		found := false
		ast.Inspect(e, func(n ast.Node) bool {
			if id, ok := n.(*ast.Ident); ok && info.ObjectOf(id) == o {
				found = true
			}
			return !found
		})
		return found
	}
	local := func(at2 ast.Node, gs []goal, cs []cond) bool {
		if root.extraGuard == nil {
			root.extraGuard = map[ast.Node]*Formula{}
		}
		old, had := root.extraGuard[at2]
		var parts []*Formula
		if had && old != nil {
			parts = append(parts, old)
		}
		for _, c := range cs {
			parts = append(parts, decompose(c.e, c.pol, nil))
		}
		if len(parts) > 0 {
			root.extraGuard[at2] = fAnd(parts...)
		}
		ok, _ := ip.prove(fn, at2, gs, 3)
		if had {
			root.extraGuard[at2] = old
		} else {
			delete(root.extraGuard, at2)
		}
		return ok
	}
	var back func(b *cfgpkg.Block, upto int, gs []goal, cs []cond, depth int) bool
	back = func(b *cfgpkg.Block, upto int, gs []goal, cs []cond, depth int) bool {
		budget--
		if budget <= 0 || depth > 10 {
			return false
		}
		for i := upto - 1; i >= 0; i-- {
			n := b.Nodes[i]
			var lhs []ast.Expr
			var rhs []ast.Expr
			switch st := n.(type) {
			case *ast.AssignStmt:
				if len(st.Lhs) != len(st.Rhs) {
					// x, ok := f(): the goals must not speak about what it defines
					for _, l := range st.Lhs {
						if id, ok := ast.Unparen(l).(*ast.Ident); ok {
							if o := info.ObjectOf(id); o != nil {
								for _, gl := range gs {
									if mentions(gl.e, o) {
										return local(n, gs, cs)
									}
								}
							}
						}
					}
					continue
				}
				if st.Tok != token.ASSIGN && st.Tok != token.DEFINE {
					for _, l := range st.Lhs {
						if id, ok := ast.Unparen(l).(*ast.Ident); ok {
							if o := info.ObjectOf(id); o != nil {
								for _, gl := range gs {
									if mentions(gl.e, o) {
										return false
									}
								}
							}
						}
					}
					continue
				}
				lhs, rhs = st.Lhs, st.Rhs
			case *ast.IncDecStmt:
				if id, ok := ast.Unparen(st.X).(*ast.Ident); ok {
					if o := info.ObjectOf(id); o != nil {
						for _, gl := range gs {
							if mentions(gl.e, o) {
								return false
							}
						}
					}
				}
				continue
			default:
				continue
			}
			// simultaneous substitution of the assigned locals
			type sub struct {
				o types.Object
				e ast.Expr
			}
			var subs []sub
			for k, l := range lhs {
				id, ok := ast.Unparen(l).(*ast.Ident)
				if !ok {
					// a store into a field / element the goals or assumptions speak about
					if lp := pathOf(info, l); lp != "" {
						for _, gl := range gs {
							if strings.Contains(exprStr(gl.e), lp) {
								return false
							}
						}
						for _, c := range cs {
							if strings.Contains(exprStr(c.e), lp) {
								return false
							}
						}
					} else if len(cs) > 0 {
						return false
					}
					continue
				}
				o := info.ObjectOf(id)
				if o == nil {
					continue
				}
				used := false
				for _, gl := range gs {
					if mentions(gl.e, o) {
						used = true
					}
				}
				for _, c := range cs {
					if mentions(c.e, o) {
						used = true
					}
				}
				if !used {
					continue
				}
				if !okLocal(o) {
					return false
				}
				subs = append(subs, sub{o, rhs[k]})
			}
			if len(subs) == 0 {
				continue
			}
			if len(subs) > 1 {
				return false // a, b = b, a: not needed so far
			}
			var ngs []goal
			for _, gl := range gs {
				ne, ok := substExpr(gl.e, subs[0].o, subs[0].e, info).(*ast.BinaryExpr)
				if !ok {
					return false
				}
				ngs = append(ngs, goal{ne, gl.text})
			}
			var ncs []cond
			for _, c := range cs {
				ncs = append(ncs, cond{substExpr(c.e, subs[0].o, subs[0].e, info), c.pol})
			}
			gs, cs = ngs, ncs
			if local(n, gs, cs) {
				return true
			}
		}
		// the start of the block
		if len(b.Nodes) > 0 && local(b.Nodes[0], gs, cs) {
			return true
		}
		ps := preds[b]
		if len(ps) == 0 || b.Index == 0 || onPath[b] {
			return false
		}
		onPath[b] = true
		defer delete(onPath, b)
		n := 0
		for _, p := range ps {
			if !p.Live {
				continue
			}
			n++
			ncs := cs
			if len(p.Succs) == 2 && len(p.Nodes) > 0 {
				if ce, ok := p.Nodes[len(p.Nodes)-1].(ast.Expr); ok {
					ncs = append(append([]cond{}, cs...), cond{ce, p.Succs[0] == b})
				}
			}
			if !back(p, len(p.Nodes), gs, ncs, depth+1) {
				return false
			}
		}
		return n > 0
	}
	idx := -1
	for i, n := range blk.Nodes {
		if n == atNode {
			idx = i
		}
	}
	if idx < 0 {
		return false
	}
	// only worth trying when a goal speaks about a re-assigned local
	worth := false
	for _, gl := range goals {
		ast.Inspect(gl.e, func(n ast.Node) bool {
			if id, ok := n.(*ast.Ident); ok {
				if o := info.ObjectOf(id); o != nil && okLocal(o) && (len(fn.Assignments(o)) > 1 || (fn.isParam(o) && len(fn.Assignments(o)) > 0)) {
					worth = true
				}
			}
			return true
		})
	}
	if !worth {
		return false
	}
	return back(blk, idx, goals, nil, 0)
}

// substExpr clones an expression tree replacing identifier obj by repl.
func substExpr(e ast.Expr, obj types.Object, repl ast.Expr, info *types.Info) ast.Expr {
	// the clone of a node keeps the node's type: replacing a variable by an expression of
	// the same type does not change the type of what contains it
	keep := func(orig, clone ast.Expr) ast.Expr {
		if tv, ok := info.Types[orig]; ok {
			info.Types[clone] = tv
		}
		return clone
	}
	switch x := e.(type) {
	case *ast.Ident:
		if info.ObjectOf(x) == obj {
			return repl
		}
		return x
	case *ast.ParenExpr:
		return substExpr(x.X, obj, repl, info)
	case *ast.UnaryExpr:
		return keep(x, &ast.UnaryExpr{Op: x.Op, X: substExpr(x.X, obj, repl, info)})
	case *ast.SelectorExpr:
		c := &ast.SelectorExpr{X: substExpr(x.X, obj, repl, info), Sel: x.Sel}
		if sel, ok := info.Selections[x]; ok {
			info.Selections[c] = sel
		}
		return keep(x, c)
	case *ast.StarExpr:
		return keep(x, &ast.StarExpr{X: substExpr(x.X, obj, repl, info)})
	case *ast.BinaryExpr:
		return keep(x, &ast.BinaryExpr{X: substExpr(x.X, obj, repl, info), Op: x.Op, Y: substExpr(x.Y, obj, repl, info)})
	case *ast.CallExpr:
		c := &ast.CallExpr{Fun: x.Fun}
		if sel, ok := x.Fun.(*ast.SelectorExpr); ok {
			ns := &ast.SelectorExpr{X: substExpr(sel.X, obj, repl, info), Sel: sel.Sel}
			if s0, ok := info.Selections[sel]; ok {
				info.Selections[ns] = s0
			}
			c.Fun = keep(sel, ns)
		}
		for _, a := range x.Args {
			c.Args = append(c.Args, substExpr(a, obj, repl, info))
		}
		return keep(x, c)
	case *ast.IndexExpr:
		return keep(x, &ast.IndexExpr{X: substExpr(x.X, obj, repl, info), Index: substExpr(x.Index, obj, repl, info)})
	case *ast.SliceExpr:
		s := &ast.SliceExpr{X: substExpr(x.X, obj, repl, info)}
		if x.Low != nil {
			s.Low = substExpr(x.Low, obj, repl, info)
		}
		if x.High != nil {
			s.High = substExpr(x.High, obj, repl, info)
		}
		return keep(x, s)
	}
	return e
}

func runP2P3(p *Prog, r *Report) {
	callers := buildCallers(p)
	nIdx, nSlc := 0, 0
	for _, fn := range p.Funcs {
		if isGeneratedFile(p, fn) || isSortContractFunc(p, fn) {
			continue
		}
		info := fn.Info()
		ip := &idxProver{p: p, callers: callers, unsigned: map[string]bool{}, visiting: map[string]bool{}, fcName: map[string]string{}}
		ast.Inspect(fn.Body, func(n ast.Node) bool {
			if lit, ok := n.(*ast.FuncLit); ok && lit != fn.Lit {
				return false
			}
			switch e := n.(type) {
			case *ast.IndexExpr:
				t := info.TypeOf(e.X)
				if t == nil {
					return true
				}
				if tv, ok := info.Types[e.X]; ok && tv.IsType() {
					return true
				}
				switch t.Underlying().(type) {
				case *types.Map, *types.Signature:
					return true
				}
				nIdx++
				construct := exprStr(e)
				if ex, ok := lookupIdxException(fn, construct); ok {
					if ex.premise == nil || ex.premise(fn, e) {
						r.Add("E4.P2-index", fn.Name, construct, p.Pos(e), Excepted, ex.why, true)
						return true
					}
				}
				if ip.indexedFill(fn, e) {
					r.Add("E4.P2-index", fn.Name, construct, p.Pos(e), OK, "indexed fill: the slice is made with the length of the ranged collection and the index counts its iterations", true)
					return true
				}
				goals := []goal{
					{&ast.BinaryExpr{X: mkInt(0), Op: token.LEQ, Y: e.Index}, "0 <= " + exprStr(e.Index)},
					{&ast.BinaryExpr{X: e.Index, Op: token.LSS, Y: mkLen(e.X)}, exprStr(e.Index) + " < len(" + exprStr(e.X) + ")"},
				}
				ok, why := ip.prove(fn, e, goals, 0)
				st := OK
				if !ok {
					st = Violated
				}
				_, constIdx := constInt(info, e.Index)
				r.Add("E4.P2-index", fn.Name, construct, p.Pos(e), st, why, !ok || why != "" || constIdx)
			case *ast.SliceExpr:
				nSlc++
				construct := exprStr(e)
				if ex, ok := lookupIdxException(fn, construct); ok {
					r.Add("E4.P3-slice", fn.Name, construct, p.Pos(e), Excepted, ex.why, true)
					return true
				}
				var goals []goal
				lo := ast.Expr(mkInt(0))
				if e.Low != nil {
					lo = e.Low
					goals = append(goals, goal{&ast.BinaryExpr{X: mkInt(0), Op: token.LEQ, Y: e.Low}, "0 <= " + exprStr(e.Low)})
				}
				if e.High != nil {
					goals = append(goals, goal{&ast.BinaryExpr{X: e.High, Op: token.LEQ, Y: mkLen(e.X)}, exprStr(e.High) + " <= len(" + exprStr(e.X) + ")"})
					goals = append(goals, goal{&ast.BinaryExpr{X: lo, Op: token.LEQ, Y: e.High}, exprStr(lo) + " <= " + exprStr(e.High)})
				} else if e.Low != nil {
					goals = append(goals, goal{&ast.BinaryExpr{X: lo, Op: token.LEQ, Y: mkLen(e.X)}, exprStr(lo) + " <= len(" + exprStr(e.X) + ")"})
				}
				ok, why := ip.prove(fn, e, goals, 0)
				st := OK
				if !ok {
					st = Violated
				}
				r.Add("E4.P3-slice", fn.Name, construct, p.Pos(e), st, why, len(goals) > 0)
			}
			return true
		})
	}
	r.ExpectMin("E4.P2-index-exprs", nIdx, 85)
	r.ExpectMin("E4.P3-slice-exprs", nSlc, 20)
	r.Clauses = append(r.Clauses, "E4.P2/P3 every hand-written index expression x[i] and slice expression s[a:b] outside sort callbacks and generated code is proved in bounds from dominating comparisons, range-loop facts, definitions and value-range summaries of locals, make/literal lengths and the stated parser/cursor axioms (Fourier–Motzkin over linear integer constraints); guards invalidated by re-assignment do not count; unproved goals over parameters become preconditions of every in-module caller")
	r.Assume("parser-provided ranges satisfy 0 <= Start.Byte <= End.Byte <= len(file); a cursor parameter (hcl.Pos) satisfies 0 <= pos.Byte <= len(file) because every cursor-taking entry point rejects positions outside the root body first (checked as rule E1.entry-bounds); hclsyntax.Block.Labels and LabelRanges have equal length; utf8.Decode* returns 0 <= size <= len(input)")
}

// indexedFill recognises  x := make(T, len(M)); i := 0; for … range M { x[i] = …; i++ }
func (ip *idxProver) indexedFill(fn *Func, e *ast.IndexExpr) bool {
	info := fn.Info()
	iid, ok := ast.Unparen(e.Index).(*ast.Ident)
	if !ok {
		return false
	}
	io := info.ObjectOf(iid)
	if io == nil || fn.isParam(io) {
		return false
	}
	// enclosing range loop
	var rs *ast.RangeStmt
	for _, f := range fn.FactsAt(e) {
		if f.Kind == FactRange {
			rs = f.Range // innermost last
		}
	}
	if rs == nil {
		return false
	}
	// x made with len(ranged)
	ml := ip.madeLen(fn, e.X, 0)
	rl := ip.lenOf(fn, rs.X, 0)
	if ml == nil || rl == nil || ml.key() != rl.key() {
		return false
	}
	// i: one definition to 0 dominating the loop, exactly one increment, inside this loop body,
	// at the top level of the body (executed once per iteration), and the store precedes it
	as := fn.Assignments(io)
	if len(as) != 2 {
		return false
	}
	var inc *ast.IncDecStmt
	zero := false
	for _, a := range as {
		switch s := a.(type) {
		case *ast.IncDecStmt:
			if s.Tok == token.INC {
				inc = s
			}
		case *ast.AssignStmt:
			if len(s.Lhs) == len(s.Rhs) {
				for i, l := range s.Lhs {
					if id, ok := ast.Unparen(l).(*ast.Ident); ok && info.ObjectOf(id) == io {
						if c, ok := constInt(info, s.Rhs[i]); ok && c == 0 && s.Pos() < rs.Pos() {
							zero = true
						}
					}
				}
			}
		}
	}
	if inc == nil || !zero {
		return false
	}
	topLevel := false
	for _, st := range rs.Body.List {
		if st == ast.Stmt(inc) {
			topLevel = true
		}
	}
	// no continue/break/return before the increment that would desynchronise: the
	// increment must be a top-level statement and the store must come before it
	return topLevel && e.Pos() < inc.Pos() && nodeContains(rs.Body, e)
}

type idxException struct {
	why     string
	premise func(fn *Func, e *ast.IndexExpr) bool
}

// lookupIdxException: the reviewed exception for this construct in this function, or — when
// the code was moved into a helper — the exception of a function that reaches this one through
// static calls and was reviewed for the same construct (up to local names). The premise is
// re-evaluated at the new site either way.
func lookupIdxException(fn *Func, construct string) (idxException, bool) {
	if ex, ok := idxExceptions[fn.Name+"|"+construct]; ok {
		return ex, true
	}
	for k, ex := range idxExceptions {
		i := strings.Index(k, "|")
		if i < 0 || loosen(k[i+1:]) != loosen(construct) {
			continue
		}
		from := fn.Prog.FindFunc(k[:i])
		if from == nil {
			continue
		}
		if _, reach := helperClosure(fn.Prog, []*Func{rootOf(from)}, 3)[rootOf(fn)]; reach {
			return ex, true
		}
	}
	return idxException{}, false
}

// idxExceptions: reviewed, one construct each (function|expression).
var idxExceptions = map[string]idxException{}

type cfgBlock = cfgpkg.Block

func init() {
	idxExceptions["decoder.(*PathDecoder).collectInferredReferenceTargetsForBody|bCollection.Blocks[0]"] = idxException{
		why: "a blockCollection is created only by blocksTypesWithSchema, in the same loop iteration that unconditionally appends the first block to it (premise re-checked on every run), so every collection reachable through the map holds at least one block",
		premise: func(fn *Func, e *ast.IndexExpr) bool {
			p := fn.Prog
			// every composite literal of type blockCollection in the package must sit in a
			// loop body that also contains, at its top level and later, an append to .Blocks
			okAll, n := true, 0
			for _, f := range p.Funcs {
				if f.Pkg != fn.Pkg {
					continue
				}
				info := f.Info()
				ast.Inspect(f.Body, func(x ast.Node) bool {
					cl, ok := x.(*ast.CompositeLit)
					if !ok {
						return true
					}
					if t := info.TypeOf(cl); t == nil || !typeIs(t, "hcl-lang/decoder", "blockCollection") {
						return true
					}
					n++
					// find enclosing loop body
					var body *ast.BlockStmt
					for y := ast.Node(cl); y != nil; y = p.Parent(y) {
						if rs, ok := y.(*ast.RangeStmt); ok {
							body = rs.Body
							break
						}
						if fs, ok := y.(*ast.ForStmt); ok {
							body = fs.Body
							break
						}
					}
					found := false
					if body != nil {
						for _, st := range body.List {
							as, ok := st.(*ast.AssignStmt)
							if !ok || st.Pos() < cl.Pos() || len(as.Rhs) != 1 {
								continue
							}
							call, ok := ast.Unparen(as.Rhs[0]).(*ast.CallExpr)
							if ok && isBuiltinCall(info, call, "append") && len(call.Args) >= 2 {
								if sel, ok := ast.Unparen(as.Lhs[0]).(*ast.SelectorExpr); ok && sel.Sel.Name == "Blocks" {
									found = true
								}
							}
						}
					}
					if !found {
						okAll = false
					}
					return true
				})
			}
			return okAll && n >= 1
		},
	}
	idxExceptions["decoder.(*PathDecoder).linksInBody|block.LabelRanges[labelDep.Index]"] = idxException{
		why: "labelDep ranges over the dependency keys computed by DependentBodySchema from this very block; every LabelDependent is built with an index proven to lie within the block's labels (producer-side obligation E4.P2-producer, re-checked on every run), and Labels/LabelRanges have equal length",
		premise: func(fn *Func, e *ast.IndexExpr) bool {
			info := fn.Info()
			// block of block.LabelRanges
			blockObj := baseObj(info, e.X)
			sel, ok := ast.Unparen(e.Index).(*ast.SelectorExpr)
			if !ok || blockObj == nil {
				return false
			}
			ld := baseObj(info, sel.X)
			// labelDep is the value of `range dk.Labels`
			var dk types.Object
			for _, a := range fn.Assignments(ld) {
				if rs, ok := a.(*ast.RangeStmt); ok {
					if s2, ok := ast.Unparen(rs.X).(*ast.SelectorExpr); ok && s2.Sel.Name == "Labels" {
						dk = baseObj(info, s2.X)
					}
				}
			}
			if dk == nil {
				return false
			}
			// dk defined once by a call whose argument derives from the same block
			as := fn.Assignments(dk)
			if len(as) != 1 {
				return false
			}
			st, ok := as[0].(*ast.AssignStmt)
			if !ok || len(st.Rhs) != 1 {
				return false
			}
			call, ok := ast.Unparen(st.Rhs[0]).(*ast.CallExpr)
			if !ok || len(call.Args) != 1 {
				return false
			}
			if f := calleeOf(info, call); f == nil || fname(f) != "DependentBodySchema" {
				return false
			}
			return baseObj(info, call.Args[0]) == blockObj
		},
	}
}

// runP2Producers: every schema.LabelDependent literal carries an Index proven to be a
// valid index into the block's labels at the point of construction.
func runP2Producers(p *Prog, r *Report) {
	callers := buildCallers(p)
	n := 0
	for _, fn := range p.Funcs {
		info := fn.Info()
		ast.Inspect(fn.Body, func(x ast.Node) bool {
			cl, ok := x.(*ast.CompositeLit)
			if !ok {
				return true
			}
			if t := info.TypeOf(cl); t == nil || !typeIs(t, "hcl-lang/schema", "LabelDependent") {
				return true
			}
			var idx, val ast.Expr
			for _, el := range cl.Elts {
				if kv, ok := el.(*ast.KeyValueExpr); ok {
					if k, ok := kv.Key.(*ast.Ident); ok {
						if k.Name == "Index" {
							idx = kv.Value
						}
						if k.Name == "Value" {
							val = kv.Value
						}
					}
				}
			}
			if idx == nil || val == nil {
				return true
			}
			n++
			// Value must be <labels>[idx]; then the P2 obligation on that index expression
			// already proves idx in range of the same labels slice
			ie, ok := ast.Unparen(val).(*ast.IndexExpr)
			if !ok {
				// a key built for a schema's DependentBody map, not read from a block
				r.Add("E4.P2-producer", fn.Name, "LabelDependent literal", p.Pos(cl), OK, "schema-key construction (value is not read from a block's labels)", false)
				return true
			}
			if fn.Canon(ie.Index) != fn.Canon(idx) || fn.Canon(idx) == "" {
				r.Add("E4.P2-producer", fn.Name, "LabelDependent literal", p.Pos(cl), Violated, "Index is not the index used to read the label value from the block", true)
				return true
			}
			ip := &idxProver{p: p, callers: callers, unsigned: map[string]bool{}, visiting: map[string]bool{}, fcName: map[string]string{}}
			goals := []goal{
				{&ast.BinaryExpr{X: mkInt(0), Op: token.LEQ, Y: idx}, "0 <= " + exprStr(idx)},
				{&ast.BinaryExpr{X: idx, Op: token.LSS, Y: mkLen(ie.X)}, exprStr(idx) + " < len(" + exprStr(ie.X) + ")"},
			}
			ok2, why := ip.prove(fn, cl, goals, 0)
			st := OK
			if !ok2 {
				st = Violated
			}
			r.Add("E4.P2-producer", fn.Name, "LabelDependent literal", p.Pos(cl), st, "Index is a valid index of "+exprStr(ie.X)+" at construction: "+why, true)
			return true
		})
	}
	r.ExpectMin("E4.P2-producers", n, 1)
}

// countingBounds: cf returns a counter that starts at 0 and is only ever incremented by the one
// `n++` of a loop whose condition has the conjunct `n < len(P)` for a slice / string parameter
// (or receiver) P that cf never re-assigns: 0 <= result <= len(P). Returns the parameter
// indexes of every such P (-1: the receiver); nil when cf is not of that shape.
func countingBounds(cf *Func) []int {
	if cf == nil || cf.Body == nil || cf.Decl == nil || cf.Decl.Type.Results == nil || len(cf.Decl.Type.Results.List) != 1 {
		return nil
	}
	info := cf.Info()
	var n types.Object
	ok := true
	ast.Inspect(cf.Body, func(m ast.Node) bool {
		switch x := m.(type) {
		case *ast.FuncLit:
			ok = false
			return false
		case *ast.ReturnStmt:
			if len(x.Results) != 1 {
				ok = false
				return true
			}
			id, isID := ast.Unparen(x.Results[0]).(*ast.Ident)
			if !isID || (n != nil && info.ObjectOf(id) != n) {
				ok = false
				return true
			}
			n = info.ObjectOf(id)
		}
		return true
	})
	v, isVar := n.(*types.Var)
	if !ok || n == nil || !isVar || v.IsField() || cf.isParam(n) {
		return nil
	}
	if b, isB := v.Type().Underlying().(*types.Basic); !isB || b.Kind() != types.Int {
		return nil
	}
	var incs []*ast.IncDecStmt
	inits := 0
	ast.Inspect(cf.Body, func(m ast.Node) bool {
		switch x := m.(type) {
		case *ast.UnaryExpr:
			if id, isID := ast.Unparen(x.X).(*ast.Ident); isID && x.Op == token.AND && info.ObjectOf(id) == n {
				ok = false
			}
		case *ast.IncDecStmt:
			if id, isID := ast.Unparen(x.X).(*ast.Ident); isID && info.ObjectOf(id) == n {
				if x.Tok != token.INC {
					ok = false
				}
				incs = append(incs, x)
			}
		case *ast.AssignStmt:
			for i, l := range x.Lhs {
				if id, isID := ast.Unparen(l).(*ast.Ident); isID && info.ObjectOf(id) == n {
					if x.Tok == token.DEFINE && len(x.Lhs) == len(x.Rhs) {
						if c, isC := constInt(info, x.Rhs[i]); isC && c == 0 {
							inits++
							continue
						}
					}
					ok = false
				}
			}
		case *ast.ValueSpec:
			for i, nid := range x.Names {
				if info.ObjectOf(nid) == n {
					if i < len(x.Values) {
						if c, isC := constInt(info, x.Values[i]); !isC || c != 0 {
							ok = false
						}
					}
					inits++
				}
			}
		case *ast.RangeStmt:
			for _, kv := range []ast.Expr{x.Key, x.Value} {
				if id, isID := kv.(*ast.Ident); isID && kv != nil && info.ObjectOf(id) == n {
					ok = false
				}
			}
		}
		return true
	})
	if !ok || len(incs) != 1 || inits != 1 {
		return nil
	}
	// innermost enclosing loop of the increment
	var loop *ast.ForStmt
	for par := cf.Prog.Parent(incs[0]); par != nil; par = cf.Prog.Parent(par) {
		if _, isR := par.(*ast.RangeStmt); isR {
			return nil
		}
		if f, isF := par.(*ast.ForStmt); isF {
			loop = f
			break
		}
		if par == ast.Node(cf.Body) {
			break
		}
	}
	if loop == nil || loop.Cond == nil {
		return nil
	}
	params := map[types.Object]int{}
	if cf.Decl.Recv != nil && len(cf.Decl.Recv.List) == 1 && len(cf.Decl.Recv.List[0].Names) == 1 {
		params[info.ObjectOf(cf.Decl.Recv.List[0].Names[0])] = -1
	}
	pi := 0
	for _, fld := range cf.Decl.Type.Params.List {
		if len(fld.Names) == 0 {
			pi++
		}
		for _, nm := range fld.Names {
			params[info.ObjectOf(nm)] = pi
			pi++
		}
	}
	var out []int
	var conj func(e ast.Expr)
	conj = func(e ast.Expr) {
		e = ast.Unparen(e)
		be, isB := e.(*ast.BinaryExpr)
		if !isB {
			return
		}
		if be.Op == token.LAND {
			conj(be.X)
			conj(be.Y)
			return
		}
		l, r := be.X, be.Y
		if be.Op == token.GTR {
			l, r = r, l
		} else if be.Op != token.LSS {
			return
		}
		id, isID := ast.Unparen(l).(*ast.Ident)
		if !isID || info.ObjectOf(id) != n {
			return
		}
		call, isC := ast.Unparen(r).(*ast.CallExpr)
		if !isC || !isLenCall(info, call) {
			return
		}
		pid, isID := ast.Unparen(call.Args[0]).(*ast.Ident)
		if !isID {
			return
		}
		po := info.ObjectOf(pid)
		idx, isParam := params[po]
		if !isParam || len(cf.Assignments(po)) > 0 {
			return
		}
		switch po.Type().Underlying().(type) {
		case *types.Slice:
		case *types.Basic:
		default:
			return
		}
		out = append(out, idx)
	}
	conj(loop.Cond)
	return out
}
