package main

// C06 (c) plain text carries no tab stops, (d) placeholder threading.

import (
	"fmt"
	"go/ast"
	"go/types"
	"strings"
)

// derives: does expression e (through local variables, flow-insensitively) contain a
// sub-expression accepted by pred?
func derives(fn *Func, e ast.Expr, pred func(ast.Expr) bool, seen map[types.Object]bool) bool {
	info := fn.Info()
	found := false
	ast.Inspect(e, func(n ast.Node) bool {
		if found {
			return false
		}
		if _, isLit := n.(*ast.FuncLit); isLit {
			return false
		}
		x, ok := n.(ast.Expr)
		if !ok {
			return true
		}
		if pred(x) {
			found = true
			return false
		}
		if id, ok := x.(*ast.Ident); ok {
			o := info.ObjectOf(id)
			v, isVar := o.(*types.Var)
			if !isVar || v.IsField() || seen[o] || fn.isParam(o) {
				return true
			}
			seen[o] = true
			for _, a := range fn.Assignments(o) {
				switch s := a.(type) {
				case *ast.AssignStmt:
					if len(s.Lhs) == len(s.Rhs) {
						for i, l := range s.Lhs {
							if lid, ok := ast.Unparen(l).(*ast.Ident); ok && info.ObjectOf(lid) == o {
								if derives(fn, s.Rhs[i], pred, seen) {
									found = true
								}
							}
							// element stores: x[i] = rhs
							if ie, ok := ast.Unparen(l).(*ast.IndexExpr); ok {
								if lid, ok := ast.Unparen(ie.X).(*ast.Ident); ok && info.ObjectOf(lid) == o {
									if derives(fn, s.Rhs[i], pred, seen) {
										found = true
									}
								}
							}
						}
					} else {
						for _, rhs := range s.Rhs {
							if derives(fn, rhs, pred, seen) {
								found = true
							}
						}
					}
				case *ast.ValueSpec:
					for _, v := range s.Values {
						if derives(fn, v, pred, seen) {
							found = true
						}
					}
				case *ast.RangeStmt:
					if derives(fn, s.X, pred, seen) {
						found = true
					}
				}
			}
			// element stores into o: o[i] = rhs (o is not on the LHS as an identifier)
			ast.Inspect(fn.Body, func(m ast.Node) bool {
				as, ok := m.(*ast.AssignStmt)
				if !ok || len(as.Lhs) != len(as.Rhs) {
					return true
				}
				for i, l := range as.Lhs {
					if ie, ok := ast.Unparen(l).(*ast.IndexExpr); ok {
						if lid, ok := ast.Unparen(ie.X).(*ast.Ident); ok && info.ObjectOf(lid) == o {
							if derives(fn, as.Rhs[i], pred, seen) {
								found = true
							}
						}
					}
				}
				return true
			})
		}
		return true
	})
	return found
}

func isCompletionData(t types.Type) bool {
	return t != nil && typeIs(t, "hcl-lang/schema", "CompletionData")
}

// litField returns the value of a keyed field of a composite literal.
func litField(cl *ast.CompositeLit, name string) ast.Expr {
	for _, el := range cl.Elts {
		if kv, ok := el.(*ast.KeyValueExpr); ok {
			if k, ok := kv.Key.(*ast.Ident); ok && canonId(k.Name) == name {
				return kv.Value
			}
		}
	}
	return nil
}

func runC06Placeholders(p *Prog, r *Report) {
	nLits, nCalls := 0, 0
	for _, fn := range p.Funcs {
		info := fn.Info()
		if fn.Type.Results == nil || fn.Type.Params == nil {
			continue
		}
		// the function's placeholder parameter: an int parameter named *laceholder*
		var ph types.Object
		for _, f := range fn.Type.Params.List {
			for _, n := range f.Names {
				if strings.Contains(strings.ToLower(n.Name), "placeholder") {
					ph = info.ObjectOf(n)
				}
			}
		}
		isDataCall := func(e ast.Expr) (*ast.CallExpr, bool) {
			call, ok := ast.Unparen(e).(*ast.CallExpr)
			if !ok {
				return nil, false
			}
			t := info.TypeOf(call)
			if tup, ok := t.(*types.Tuple); ok && tup.Len() > 0 {
				t = tup.At(0).Type()
			}
			return call, isCompletionData(t)
		}
		// (d2) every nested data call threads the counter
		ast.Inspect(fn.Body, func(n ast.Node) bool {
			if lit, ok := n.(*ast.FuncLit); ok && lit != fn.Lit {
				return false
			}
			call, ok := n.(*ast.CallExpr)
			if !ok {
				return true
			}
			if _, isData := isDataCall(call); !isData || len(call.Args) < 2 || ph == nil {
				return true
			}
			f := calleeOf(info, call)
			if f == nil {
				return true
			}
			// which argument is the placeholder? the int one at the position of the
			// callee's *placeholder* parameter
			sig := f.Type().(*types.Signature)
			pi := -1
			for i := 0; i < sig.Params().Len(); i++ {
				if strings.Contains(strings.ToLower(sig.Params().At(i).Name()), "placeholder") {
					pi = i
				}
			}
			if pi < 0 || pi >= len(call.Args) {
				return true
			}
			nCalls++
			arg := call.Args[pi]
			construct := "placeholder argument of " + exprStr(call.Fun)
			fromParamOrResult := derives(fn, arg, func(e ast.Expr) bool {
				if id, ok := e.(*ast.Ident); ok && info.ObjectOf(id) == ph {
					return true
				}
				if sel, ok := e.(*ast.SelectorExpr); ok && sel.Sel.Name == "NextPlaceholder" {
					return true
				}
				return false
			}, map[types.Object]bool{})
			if !fromParamOrResult {
				r.Add("C06.placeholder-arg", fn.Name, construct, p.Pos(call), Violated, "the placeholder number passed to the nested completion data is neither the function's own counter nor a previous result's NextPlaceholder", true)
				return true
			}
			// inside a loop: the argument variable must be advanced from the result in the loop
			inLoop := false
			var loop ast.Node
			for x := p.Parent(call); x != nil && x != ast.Node(fn.Body); x = p.Parent(x) {
				switch x.(type) {
				case *ast.RangeStmt, *ast.ForStmt:
					inLoop = true
					if loop == nil {
						loop = x
					}
				}
			}
			if inLoop {
				aid, isId := ast.Unparen(arg).(*ast.Ident)
				okAdv := false
				if isId {
					ao := info.ObjectOf(aid)
					for _, as := range fn.Assignments(ao) {
						if !nodeContains(loop, as) {
							continue
						}
						if s, ok := as.(*ast.AssignStmt); ok && len(s.Lhs) == len(s.Rhs) {
							for i, l := range s.Lhs {
								if lid, ok := ast.Unparen(l).(*ast.Ident); ok && info.ObjectOf(lid) == ao {
									if derives(fn, s.Rhs[i], func(e ast.Expr) bool {
										sel, ok := e.(*ast.SelectorExpr)
										return ok && sel.Sel.Name == "NextPlaceholder"
									}, map[types.Object]bool{}) {
										okAdv = true
									}
								}
							}
						}
					}
				}
				if !okAdv {
					r.Add("C06.placeholder-arg", fn.Name, construct, p.Pos(call), Violated, "nested completion data is generated in a loop but the counter passed to it is not advanced from the result's NextPlaceholder inside the loop (successive elements reuse tab-stop numbers)", true)
					return true
				}
			}
			r.Add("C06.placeholder-arg", fn.Name, construct, p.Pos(call), OK, "counter threaded from the parameter / previous NextPlaceholder", true)
			return true
		})
		// (d) returned literals
		ast.Inspect(fn.Body, func(n ast.Node) bool {
			if lit, ok := n.(*ast.FuncLit); ok && lit != fn.Lit {
				return false
			}
			cl, ok := n.(*ast.CompositeLit)
			if !ok || !isCompletionData(info.TypeOf(cl)) || ph == nil {
				return true
			}
			snip := litField(cl, "Snippet")
			np := litField(cl, "NextPlaceholder")
			if snip == nil {
				return true // empty data
			}
			nLits++
			construct := "CompletionData{Snippet: " + short(exprStr(snip), 40) + "}"
			// results whose Snippet flows into this snippet
			var srcs []types.Object
			derives(fn, snip, func(e ast.Expr) bool {
				if sel, ok := e.(*ast.SelectorExpr); ok && sel.Sel.Name == "Snippet" {
					if id, ok := ast.Unparen(sel.X).(*ast.Ident); ok && isCompletionData(info.TypeOf(id)) {
						srcs = append(srcs, info.ObjectOf(id))
					}
				}
				return false
			}, map[types.Object]bool{})
			if len(srcs) > 0 {
				if np == nil {
					r.Add("C06.placeholder-next", fn.Name, construct, p.Pos(cl), Violated, "the snippet embeds nested completion data but NextPlaceholder is not set", true)
					return true
				}
				ok := derives(fn, np, func(e ast.Expr) bool {
					if sel, ok := e.(*ast.SelectorExpr); ok && sel.Sel.Name == "NextPlaceholder" {
						if id, ok := ast.Unparen(sel.X).(*ast.Ident); ok {
							for _, s := range srcs {
								if info.ObjectOf(id) == s {
									return true
								}
							}
						}
					}
					return false
				}, map[types.Object]bool{})
				if ok {
					r.Add("C06.placeholder-next", fn.Name, construct, p.Pos(cl), OK, "NextPlaceholder continues after the nested data's own NextPlaceholder", true)
				} else {
					r.Add("C06.placeholder-next", fn.Name, construct, p.Pos(cl), Violated,
						"the snippet embeds nested completion data, but NextPlaceholder is not derived from that data's NextPlaceholder (tab-stop numbers used inside the nested snippet will be reused by whatever follows)", true)
				}
				return true
			}
			// leaf snippet: count ${%d placeholders in constant formats
			used, okCount := countPlaceholders(fn, snip, ph)
			if !okCount {
				r.Add("C06.placeholder-next", fn.Name, construct, p.Pos(cl), OK, "snippet without a numbered tab stop from the counter (constant or foreign text)", false)
				return true
			}
			ip := &idxProver{p: p, unsigned: map[string]bool{}, visiting: map[string]bool{}, fcName: map[string]string{}}
			want := linSym(pathOfObj(ph)).plus(int64(used))
			var got *lin
			if np != nil {
				got = ip.parse(fn, np, 0)
			} else {
				got = linConst(0)
			}
			if got != nil && got.sub(want).isConst() && got.sub(want).c == 0 {
				r.Add("C06.placeholder-next", fn.Name, construct, p.Pos(cl), OK, fmt.Sprintf("uses %d tab stop(s) and returns counter+%d", used, used), true)
			} else {
				r.Add("C06.placeholder-next", fn.Name, construct, p.Pos(cl), Violated,
					fmt.Sprintf("the snippet uses %d numbered tab stop(s) starting at the counter but NextPlaceholder is %s (want counter+%d)", used, exprStr(orNil(np)), used), true)
			}
			return true
		})
		// (d') the same for a data value that is filled field by field: a store of a snippet
		// embedding nested data needs a store of that data's NextPlaceholder beside it
		if ph != nil {
			storeOf := func(n ast.Node, field string) (types.Object, ast.Expr, bool) {
				as, ok := n.(*ast.AssignStmt)
				if !ok || len(as.Lhs) != 1 || len(as.Rhs) != 1 {
					return nil, nil, false
				}
				sel, ok := ast.Unparen(as.Lhs[0]).(*ast.SelectorExpr)
				if !ok || sel.Sel.Name != field {
					return nil, nil, false
				}
				id, ok := ast.Unparen(sel.X).(*ast.Ident)
				if !ok || !isCompletionData(info.TypeOf(id)) {
					return nil, nil, false
				}
				return info.ObjectOf(id), as.Rhs[0], true
			}
			ast.Inspect(fn.Body, func(n ast.Node) bool {
				if lit, ok := n.(*ast.FuncLit); ok && lit != fn.Lit {
					return false
				}
				vo, snip, ok := storeOf(n, "Snippet")
				if !ok {
					return true
				}
				var srcs []types.Object
				derives(fn, snip, func(e ast.Expr) bool {
					if sel, ok := e.(*ast.SelectorExpr); ok && sel.Sel.Name == "Snippet" {
						if id, ok := ast.Unparen(sel.X).(*ast.Ident); ok && isCompletionData(info.TypeOf(id)) && info.ObjectOf(id) != vo {
							srcs = append(srcs, info.ObjectOf(id))
						}
					}
					return false
				}, map[types.Object]bool{})
				if len(srcs) == 0 {
					return true
				}
				nLits++
				construct := exprStr(n.(*ast.AssignStmt).Lhs[0]) + " = " + short(exprStr(snip), 40)
				found := false
				ast.Inspect(fn.Body, func(m ast.Node) bool {
					mo, np, ok := storeOf(m, "NextPlaceholder")
					if !ok || mo != vo || !(fn.Dominates(n, m) || fn.Dominates(m, n)) {
						return true
					}
					if derives(fn, np, func(e ast.Expr) bool {
						if sel, ok := e.(*ast.SelectorExpr); ok && sel.Sel.Name == "NextPlaceholder" {
							if id, ok := ast.Unparen(sel.X).(*ast.Ident); ok {
								for _, so := range srcs {
									if info.ObjectOf(id) == so {
										return true
									}
								}
							}
						}
						return false
					}, map[types.Object]bool{}) {
						found = true
					}
					return true
				})
				if found {
					r.Add("C06.placeholder-next", fn.Name, construct, p.Pos(n), OK, "NextPlaceholder is stored from the nested data's own NextPlaceholder beside the snippet", true)
				} else {
					r.Add("C06.placeholder-next", fn.Name, construct, p.Pos(n), Violated,
						"the stored snippet embeds nested completion data, but no store beside it sets NextPlaceholder from that data's NextPlaceholder (tab-stop numbers used inside the nested snippet will be reused by whatever follows)", true)
				}
				return true
			})
		}
	}
	r.ExpectMin("C06.completion-data-literals", nLits, 14)
	r.ExpectMin("C06.nested-data-calls", nCalls, 8)
	r.Clauses = append(r.Clauses, "C06(d) every CompletionData literal whose snippet embeds nested completion data returns that data's NextPlaceholder; every leaf snippet returns counter + (number of numbered tab stops it uses); nested data is requested with the threaded counter, advanced inside loops")
}

func orNil(e ast.Expr) ast.Expr {
	if e == nil {
		return ast.NewIdent("<unset>")
	}
	return e
}

// countPlaceholders: snippet is fmt.Sprintf(constFormat, args…) — returns how many
// distinct numbered tab stops ${%d…} it formats from counter, counter+1, …
func countPlaceholders(fn *Func, snip ast.Expr, ph types.Object) (int, bool) {
	info := fn.Info()
	call, ok := ast.Unparen(snip).(*ast.CallExpr)
	if !ok || calleeFull(info, call) != "fmt.Sprintf" || len(call.Args) == 0 {
		if s, ok := constString(info, snip); ok {
			_ = s
			return 0, false
		}
		return 0, false
	}
	format, ok := constString(info, call.Args[0])
	if !ok {
		return 0, false
	}
	// map verbs to args
	argi := 1
	used := map[int64]bool{}
	ip := &idxProver{p: fn.Prog, unsigned: map[string]bool{}, visiting: map[string]bool{}, fcName: map[string]string{}}
	for i := 0; i < len(format); i++ {
		if format[i] != '%' {
			continue
		}
		if i+1 < len(format) && format[i+1] == '%' {
			i++
			continue
		}
		j := i + 1
		for j < len(format) && !strings.ContainsRune("vdsqTtxXfgeEcUb", rune(format[j])) {
			j++
		}
		if j >= len(format) {
			break
		}
		isTab := format[j] == 'd' && i >= 2 && format[i-2:i] == "${"
		if argi < len(call.Args) && isTab {
			l := ip.parse(fn, call.Args[argi], 0)
			if l == nil {
				return 0, false
			}
			d := l.sub(linSym(pathOfObj(ph)))
			if !d.isConst() {
				return 0, false
			}
			used[d.c] = true
		}
		argi++
		i = j
	}
	if len(used) == 0 {
		return 0, false
	}
	// must be 0..k-1
	for k := int64(0); k < int64(len(used)); k++ {
		if !used[k] {
			return 0, false
		}
	}
	return len(used), true
}

// runC06PlainText: NewText never derives from snippet text.
func runC06PlainText(p *Prog, r *Report) {
	n := 0
	for _, fn := range p.Funcs {
		info := fn.Info()
		ast.Inspect(fn.Body, func(x ast.Node) bool {
			if lit, ok := x.(*ast.FuncLit); ok && lit != fn.Lit {
				return false
			}
			cl, ok := x.(*ast.CompositeLit)
			if !ok {
				return true
			}
			t := info.TypeOf(cl)
			if t == nil || !(typeIs(t, "hcl-lang/lang", "TextEdit") || isCompletionData(t)) {
				return true
			}
			nt := litField(cl, "NewText")
			if nt == nil {
				return true
			}
			n++
			construct := namedOf(t).Obj().Name() + "{NewText: " + short(exprStr(nt), 40) + "}"
			why := ""
			derives(fn, nt, func(e ast.Expr) bool {
				switch v := e.(type) {
				case *ast.SelectorExpr:
					if v.Sel.Name == "Snippet" {
						if _, isField := info.ObjectOf(v.Sel).(*types.Var); isField {
							why = "derives from " + exprStr(v)
							return true
						}
					}
				case *ast.CallExpr:
					if f := calleeOf(info, v); f != nil && strings.Contains(strings.ToLower(f.Name()), "snippet") {
						why = "derives from snippet producer " + f.Name()
						return true
					}
				case *ast.BasicLit:
					if s, ok := constString(info, v); ok && strings.Contains(s, "${") {
						why = "contains the tab-stop syntax ${ in a constant"
						return true
					}
				}
				return false
			}, map[types.Object]bool{})
			if why != "" {
				r.Add("C06.plain-text", fn.Name, construct, p.Pos(cl), Violated, "the plain-text form of the edit "+why, true)
			} else {
				r.Add("C06.plain-text", fn.Name, construct, p.Pos(cl), OK, "NewText is independent of any snippet text", false)
			}
			return true
		})
	}
	r.ExpectMin("C06.newtext-literals", n, 40)
	r.Clauses = append(r.Clauses, "C06(c) the NewText field of every lang.TextEdit and schema.CompletionData literal is not data-derived from a Snippet field, a snippet-producing function or a constant containing ${ (hook-provided RawInsertText is user data and not judged)")
}

// runC06Generator — C06.generator-threading: tab stops of one snippet are numbered by one
// counter object. A method of a counter-carrying generator type (a struct with a
// placeholder counter field) must produce nested snippets through the same object, never
// through a function that constructs a fresh generator (its count would not flow back).
func runC06Generator(p *Prog, r *Report) {
	// generator types: module structs with a field named *laceholder* of integer type
	isGen := func(t types.Type) bool {
		st, ok := derefType(t).Underlying().(*types.Struct)
		if !ok || !isModuleType(t) {
			return false
		}
		for i := 0; i < st.NumFields(); i++ {
			if strings.Contains(strings.ToLower(st.Field(i).Name()), "placeholder") {
				if bt, ok := st.Field(i).Type().Underlying().(*types.Basic); ok && bt.Info()&types.IsInteger != 0 {
					return true
				}
			}
		}
		return false
	}
	// constructors: functions whose body builds a generator literal
	ctors := map[*types.Func]bool{}
	for _, fn := range p.Funcs {
		if fn.Body == nil || fn.Lit != nil || fn.Obj == nil {
			continue
		}
		info := fn.Info()
		ast.Inspect(fn.Body, func(m ast.Node) bool {
			if cl, ok := m.(*ast.CompositeLit); ok {
				if tv := info.TypeOf(cl); tv != nil && isGen(tv) {
					ctors[fn.Obj] = true
				}
			}
			return true
		})
	}
	n := 0
	for _, fn := range p.Funcs {
		if fn.Body == nil || fn.Obj == nil {
			continue
		}
		rv := recvObj(rootOf(fn))
		if rv == nil || !isGen(rv.Type()) {
			continue
		}
		info := fn.Info()
		ast.Inspect(fn.Body, func(m ast.Node) bool {
			c, ok := m.(*ast.CallExpr)
			if !ok {
				return true
			}
			f := calleeOf(info, c)
			if f == nil || p.FuncOf[f] == nil {
				return true
			}
			n++
			if ctors[f] {
				r.Add("C06.generator-threading", fn.Name, "call "+f.Name(), p.Pos(c), Violated,
					f.Name()+" builds a fresh generator: the tab stops it uses are not added to this generator's counter, so following snippets re-use their numbers", true)
			} else {
				r.Add("C06.generator-threading", fn.Name, "call "+f.Name(), p.Pos(c), OK, "nested snippet produced through the same generator", false)
			}
			return true
		})
	}
	r.Counts["C06.generator-method-calls"] = n
	r.ExpectMin("C06.generator-method-calls", n, 3)
	r.ExpectMin("C06.generator-constructors", len(ctors), 1)
	r.Clauses = append(r.Clauses, "C06 methods of the snippet generator never start a fresh generator for a nested snippet")
}

// C06.discarded-fragments — a snippet generator that threads a running placeholder counter
// through nested generators (`last = nested.NextPlaceholder`) may number a returned snippet
// from that running counter only if the snippet also contains the nested fragments that
// advanced it. A fallback snippet that drops the fragments collected so far must number from
// the function's own start value, otherwise the tab stops of the result skip numbers.
func runC06Fragments(p *Prog, r *Report) {
	nFuncs, nLits := 0, 0
	for _, fn := range p.Funcs {
		if fn.Body == nil || fn.Lit != nil || fn.Obj == nil {
			continue
		}
		info := fn.Info()
		counters := map[types.Object]bool{}
		frags := map[types.Object]bool{}
		ast.Inspect(fn.Body, func(m ast.Node) bool {
			as, ok := m.(*ast.AssignStmt)
			if !ok || len(as.Lhs) != len(as.Rhs) {
				return true
			}
			for i, l := range as.Lhs {
				rhs := ast.Unparen(as.Rhs[i])
				// xs = append(xs, nested.Snippet)
				if c, ok := rhs.(*ast.CallExpr); ok && isBuiltinCall(info, c, "append") && len(c.Args) >= 2 {
					for _, a := range c.Args[1:] {
						if s, ok := ast.Unparen(a).(*ast.SelectorExpr); ok && s.Sel.Name == "Snippet" {
							if o := baseObj(info, l); o != nil {
								frags[o] = true
							}
						}
					}
				}
				sel, ok := rhs.(*ast.SelectorExpr)
				if !ok {
					continue
				}
				o := baseObj(info, l)
				if o == nil {
					continue
				}
				if v, isVar := o.(*types.Var); !isVar || v.IsField() {
					continue
				}
				switch sel.Sel.Name {
				case "NextPlaceholder":
					if _, plain := ast.Unparen(l).(*ast.Ident); plain {
						counters[o] = true
					}
				case "Snippet":
					frags[o] = true
				}
			}
			return true
		})
		if len(counters) == 0 {
			continue
		}
		nFuncs++
		mentions := func(e ast.Expr, set map[types.Object]bool, depth int) bool {
			var rec func(e ast.Expr, d int) bool
			rec = func(e ast.Expr, d int) bool {
				hit := false
				ast.Inspect(e, func(z ast.Node) bool {
					if hit {
						return false
					}
					if s, ok := z.(*ast.SelectorExpr); ok && set != nil && s.Sel.Name == "Snippet" && len(set) > 0 && set[nil] {
						hit = true
					}
					if id, ok := z.(*ast.Ident); ok {
						o := info.ObjectOf(id)
						if set[o] {
							hit = true
						} else if d > 0 {
							if def := fn.SingleDef(o); def != nil && rec(def, d-1) {
								hit = true
							}
						}
					}
					return !hit
				})
				return hit
			}
			return rec(e, depth)
		}
		ord := 0
		ast.Inspect(fn.Body, func(m ast.Node) bool {
			cl, ok := m.(*ast.CompositeLit)
			if !ok {
				return true
			}
			if tv := info.TypeOf(cl); tv == nil || !typeIs(tv, "hcl-lang/schema", "CompletionData") {
				return true
			}
			sn := litField(cl, "Snippet")
			if sn == nil {
				return true
			}
			nLits++
			ord++
			key := fmt.Sprintf("CompletionData{…}#%d", ord)
			usesCounter := mentions(sn, counters, 2)
			directFrag := false
			ast.Inspect(sn, func(z ast.Node) bool {
				if s, ok := z.(*ast.SelectorExpr); ok && s.Sel.Name == "Snippet" {
					directFrag = true
				}
				return true
			})
			hasFrag := directFrag || mentions(sn, frags, 2)
			switch {
			case usesCounter && !hasFrag:
				r.Add("C06.discarded-fragments", fn.Name, key, p.Pos(cl), Violated,
					"the snippet is numbered from the running placeholder counter but does not contain the nested fragments that advanced it: the tab stops of the result skip the numbers those fragments used", true)
			default:
				r.Add("C06.discarded-fragments", fn.Name, key, p.Pos(cl), OK, "numbered from the start value, or contains the fragments counted so far", false)
			}
			return true
		})
	}
	// the counter advances exactly where the fragment it counted is kept: an assignment
	// `counter = X.NextPlaceholder` must be reached only after X's snippet was stored
	nPairs := 0
	for _, fn := range p.Funcs {
		if fn.Body == nil || fn.Lit != nil || fn.Obj == nil {
			continue
		}
		info := fn.Info()
		ast.Inspect(fn.Body, func(m ast.Node) bool {
			as, ok := m.(*ast.AssignStmt)
			if !ok || len(as.Lhs) != 1 || len(as.Rhs) != 1 {
				return true
			}
			sel, ok := ast.Unparen(as.Rhs[0]).(*ast.SelectorExpr)
			if !ok || sel.Sel.Name != "NextPlaceholder" {
				return true
			}
			if _, plain := ast.Unparen(as.Lhs[0]).(*ast.Ident); !plain {
				return true
			}
			src := baseObj(info, sel.X)
			if src == nil {
				return true
			}
			// stores of the same value's Snippet in an accumulating position
			var keeps []ast.Node
			ast.Inspect(fn.Body, func(z ast.Node) bool {
				s2, ok := z.(*ast.SelectorExpr)
				if !ok || s2.Sel.Name != "Snippet" || baseObj(info, s2.X) != src {
					return true
				}
				for c := p.Parent(s2); c != nil; c = p.Parent(c) {
					if st, ok := c.(*ast.AssignStmt); ok {
						keeps = append(keeps, st)
						break
					}
					if _, ok := c.(ast.Stmt); ok {
						break
					}
				}
				return true
			})
			if len(keeps) == 0 {
				return true
			}
			nPairs++
			key := exprStr(as.Lhs[0]) + " = " + exprStr(as.Rhs[0])
			okPair := false
			for _, k := range keeps {
				if fn.Dominates(k, as) || fn.BlockOf(k) == fn.BlockOf(as) {
					okPair = true
				}
			}
			if okPair {
				r.Add("C06.counter-with-fragment", fn.Name, key, p.Pos(as), OK, "the counter advances only after the counted fragment was stored", false)
			} else {
				r.Add("C06.counter-with-fragment", fn.Name, key, p.Pos(as), Violated,
					"the placeholder counter is advanced by "+exprStr(sel.X)+"'s tab stops on paths where its snippet is not kept (the store of "+exprStr(sel.X)+".Snippet does not precede this assignment on every path): the numbers of dropped fragments are skipped in the result", true)
			}
			return true
		})
	}
	r.Counts["C06.counter-fragment-pairs"] = nPairs
	r.ExpectMin("C06.counter-fragment-pairs", nPairs, 4)
	r.Counts["C06.generators-with-running-counter"] = nFuncs
	r.Counts["C06.generator-snippets"] = nLits
	r.ExpectMin("C06.generators-with-running-counter", nFuncs, 2)
	r.Clauses = append(r.Clauses, "C06.discarded-fragments: a snippet numbered from a running placeholder counter contains the nested fragments that advanced the counter")
}
