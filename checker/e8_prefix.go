package main

// E8.prefix-source — completion filters candidates by what the user has typed so far:
// strings.HasPrefix(candidate, prefix). The prefix (second argument) is data of the document
// (bytes / names of the expression under the cursor); the candidate (first argument) is data
// of the schema. The rule follows the prefix backwards through locals and parameters (call
// sites of unexported helpers, bounded depth) and requires that no schema/constraint value
// flows into it: a prefix computed from the constraint is a prefix of the candidate itself, so
// the filter always passes and what was typed is ignored.

import (
	"go/ast"
	"go/token"
	"go/types"
	"strings"
)

// consSource: e is (or selects from) a value of a type declared in package schema.
func consSource(info *types.Info, e ast.Expr) bool {
	for {
		e = ast.Unparen(e)
		if t := info.TypeOf(e); t != nil {
			tt := t
			if pt, ok := tt.(*types.Pointer); ok {
				tt = pt.Elem()
			}
			if n := namedOf(tt); n != nil && n.Obj().Pkg() != nil && strings.HasSuffix(n.Obj().Pkg().Path(), "hcl-lang/schema") {
				return true
			}
		}
		switch x := e.(type) {
		case *ast.SelectorExpr:
			e = x.X
		case *ast.CallExpr:
			if sel, ok := x.Fun.(*ast.SelectorExpr); ok {
				if _, isPkg := pkgNameOf(info, sel.X).(*types.PkgName); isPkg {
					return false
				}
				e = sel.X
			} else {
				return false
			}
		case *ast.IndexExpr:
			e = x.X
		case *ast.SliceExpr:
			e = x.X
		case *ast.StarExpr:
			e = x.X
		default:
			return false
		}
	}
}

func identOrNil(e ast.Expr) *ast.Ident {
	id, _ := ast.Unparen(e).(*ast.Ident)
	return id
}

type srcTrace struct {
	p       *Prog
	visited map[types.Object]bool
	found   []string // constraint sources reached
	where   []ast.Node
	fns     []*Func
}

// trace follows the data sources of e in fn; string content only: operands of len(),
// index bounds and conditions are not followed.
func (t *srcTrace) trace(fn *Func, e ast.Expr, depth int) {
	if e == nil {
		return
	}
	info := fn.Info()
	switch x := ast.Unparen(e).(type) {
	case *ast.BasicLit, *ast.FuncLit:
		return
	case *ast.SliceExpr:
		t.trace(fn, x.X, depth) // the bounds select how much, not what
		return
	case *ast.IndexExpr:
		t.trace(fn, x.X, depth)
		return
	case *ast.BinaryExpr:
		t.trace(fn, x.X, depth)
		t.trace(fn, x.Y, depth)
		return
	case *ast.CallExpr:
		if consSource(info, x) {
			t.found = append(t.found, exprStr(x))
			t.where = append(t.where, x)
			t.fns = append(t.fns, fn)
			return
		}
		// conversions and calls: the content comes from receiver and arguments
		if sel, ok := x.Fun.(*ast.SelectorExpr); ok {
			if _, isPkg := pkgNameOf(info, sel.X).(*types.PkgName); !isPkg {
				t.trace(fn, sel.X, depth)
			}
		}
		for _, a := range x.Args {
			t.trace(fn, a, depth)
		}
		return
	case *ast.SelectorExpr:
		if consSource(info, x) {
			t.found = append(t.found, exprStr(x))
			t.where = append(t.where, x)
			t.fns = append(t.fns, fn)
			return
		}
		t.trace(fn, x.X, depth)
		return
	case *ast.StarExpr:
		t.trace(fn, x.X, depth)
		return
	case *ast.UnaryExpr:
		t.trace(fn, x.X, depth)
		return
	case *ast.CompositeLit:
		for _, el := range x.Elts {
			if kv, ok := el.(*ast.KeyValueExpr); ok {
				t.trace(fn, kv.Value, depth)
			} else {
				t.trace(fn, el, depth)
			}
		}
		return
	case *ast.TypeAssertExpr:
		t.trace(fn, x.X, depth)
		return
	case *ast.Ident:
		o := info.ObjectOf(x)
		v, ok := o.(*types.Var)
		if !ok || v.IsField() {
			return
		}
		if consSource(info, x) {
			t.found = append(t.found, x.Name)
			t.where = append(t.where, x)
			t.fns = append(t.fns, fn)
			return
		}
		if t.visited[o] {
			return
		}
		t.visited[o] = true
		root := rootOf(fn)
		// a parameter of an unexported helper: the arguments at its call sites
		if root.isParam(v) {
			if depth <= 0 || root.Type.Params == nil {
				return
			}
			idx, k := -1, 0
			for _, f := range root.Type.Params.List {
				for _, n := range f.Names {
					if info.ObjectOf(n) == o {
						idx = k
					}
					k++
				}
			}
			if idx < 0 {
				return
			}
			for _, cs := range inheritSites(root) {
				if idx < len(cs.call.Args) {
					t.trace(cs.fn, cs.call.Args[idx], depth-1)
				}
			}
			return
		}
		// the variable bound by a type switch: the switch subject
		for f := fn; f != nil; f = f.Parent {
			for _, a := range f.Assignments(o) {
				switch s := a.(type) {
				case *ast.AssignStmt:
					if len(s.Lhs) == len(s.Rhs) {
						for i, l := range s.Lhs {
							if id := identOrNil(l); id != nil && info.ObjectOf(id) == o {
								t.trace(f, s.Rhs[i], depth)
							}
						}
					} else if len(s.Rhs) == 1 {
						t.trace(f, s.Rhs[0], depth)
					}
				case *ast.RangeStmt:
					t.trace(f, s.X, depth)
				case *ast.ValueSpec:
					for _, val := range s.Values {
						t.trace(f, val, depth)
					}
				}
			}
		}
		if def, ok := t.p.Parent(x).(*ast.AssignStmt); ok && len(def.Rhs) == 1 {
			if ta, ok := def.Rhs[0].(*ast.TypeAssertExpr); ok && ta.Type == nil {
				t.trace(fn, ta.X, depth)
			}
		}
		// implicit object of a type-switch clause
		if _, isDef := info.Defs[x]; !isDef {
			for q := t.p.Parent(x); q != nil; q = t.p.Parent(q) {
				ts, ok := q.(*ast.TypeSwitchStmt)
				if !ok {
					continue
				}
				if as, ok := ts.Assign.(*ast.AssignStmt); ok && len(as.Lhs) == 1 && len(as.Rhs) == 1 {
					if id := identOrNil(as.Lhs[0]); id != nil && id.Name == x.Name {
						if ta, ok := as.Rhs[0].(*ast.TypeAssertExpr); ok {
							t.trace(fn, ta.X, depth)
						}
					}
				}
			}
		}
	}
}

func runPrefixSource(p *Prog, r *Report) {
	n := 0
	for _, fn := range p.Funcs {
		if fn.Body == nil || !strings.HasSuffix(fn.Pkg.PkgPath, "hcl-lang/decoder") {
			continue
		}
		info := fn.Info()
		ast.Inspect(fn.Body, func(x ast.Node) bool {
			if lit, ok := x.(*ast.FuncLit); ok && lit != fn.Lit {
				return false
			}
			call, ok := x.(*ast.CallExpr)
			if !ok || len(call.Args) != 2 {
				return true
			}
			f := calleeOf(info, call)
			if f == nil || f.Pkg() == nil || f.Pkg().Path() != "strings" || f.Name() != "HasPrefix" {
				return true
			}
			n++
			t := &srcTrace{p: p, visited: map[types.Object]bool{}}
			t.trace(fn, call.Args[1], 3)
			key := "prefix " + exprStr(call.Args[1]) + " of " + exprStr(call.Args[0])
			if len(t.found) == 0 {
				r.Add("E8.prefix-source", fn.Name, key, p.Pos(call), OK, "the typed prefix is not computed from any schema/constraint value", true)
			} else {
				r.Add("E8.prefix-source", fn.Name, key, p.Pos(call), Violated,
					"the prefix that candidates are filtered by is computed from the constraint ("+t.found[0]+" at "+p.Pos(t.where[0])+" in "+t.fns[0].Name+"), not from what is written in the document: the filter compares the schema with itself, so what the user typed no longer narrows the candidates", true)
			}
			return true
		})
	}
	r.ExpectMin("E8.prefix-filters", n, 12)
	r.Clauses = append(r.Clauses, "E8.prefix-source: the second argument of every strings.HasPrefix in package decoder (the typed prefix), followed backwards through locals and the call sites of unexported helpers (depth 3), never derives from a value of a package-schema type")
}

func pkgNameOf(info *types.Info, e ast.Expr) types.Object {
	if id := identOrNil(e); id != nil {
		return info.ObjectOf(id)
	}
	return nil
}

// E8.cursor-unchanged — the cursor of a position query (a parameter of type hcl.Pos) is the
// caller's question. No function re-assigns it or one of its components: every range test
// and every returned range downstream is stated in terms of the position that was asked for.
func runCursorUnchanged(p *Prog, r *Report) {
	n := 0
	for _, fn := range p.Funcs {
		if fn.Body == nil || fn.Type.Params == nil {
			continue
		}
		info := fn.Info()
		var params []types.Object
		for _, f := range fn.Type.Params.List {
			for _, nm := range f.Names {
				if o := info.ObjectOf(nm); o != nil && isHclPos(o.Type()) {
					params = append(params, o)
				}
			}
		}
		for _, po := range params {
			n++
			var bad ast.Node
			what := ""
			ast.Inspect(fn.Body, func(x ast.Node) bool {
				if bad != nil {
					return false
				}
				check := func(lhs ast.Expr, at ast.Node) {
					if baseObj(info, lhs) == po {
						switch ast.Unparen(lhs).(type) {
						case *ast.Ident, *ast.SelectorExpr:
							bad, what = at, exprStr(lhs)
						}
					}
				}
				switch s := x.(type) {
				case *ast.AssignStmt:
					for _, l := range s.Lhs {
						check(l, s)
					}
				case *ast.IncDecStmt:
					check(s.X, s)
				case *ast.UnaryExpr:
					if s.Op == token.AND && baseObj(info, s.X) == po {
						bad, what = s, "&"+exprStr(s.X)
					}
				}
				return true
			})
			key := "cursor parameter " + po.Name()
			if bad == nil {
				r.Add("E8.cursor-unchanged", fn.Name, key, p.Pos(fn.Type), OK, "never assigned, none of its components assigned, address not taken", false)
			} else {
				r.Add("E8.cursor-unchanged", fn.Name, key, p.Pos(bad), Violated,
					"the queried position is modified ("+what+"): everything decided and returned below refers to another position than the one that was asked for", true)
			}
		}
	}
	r.ExpectMin("E8.cursor-parameters", n, 60)
	r.Clauses = append(r.Clauses, "E8.cursor-unchanged: no function assigns its hcl.Pos parameter, a component of it, or takes its address")
}
