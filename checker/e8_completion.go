package main

// E8.completion-containment — the completion counterpart of the hover containment rule:
// when completion descends into a strict sub-expression CHILD of the expression it was
// called on (newExpression(ctx, CHILD, cons).CompletionAtPos(ctx, pos)), a positional test
// on CHILD's own range (or on a same-range wrapper of it: the key expression around a
// parenthesised key, a type-asserted view) with the cursor must hold on every path to the
// call. Without it the child is asked to complete at a cursor that may lie outside it, and
// its edit ranges are built from a cursor before its start.

import (
	"go/ast"
	"go/types"
	"strings"
)

// sameRangeSegs: field steps that do not change the source range of the node.
var sameRangeSegs = map[string]bool{"Wrapped": true}

func normSameRange(a datom) string {
	if a.leaf {
		return "leaf"
	}
	s := a.root
	for _, g := range a.segs {
		switch g.kind {
		case segField:
			if sameRangeSegs[g.name] {
				continue
			}
			s += "." + g.name
		case segIndex:
			s += "[]"
		case segProj:
			s += "." + g.name + "()"
		case segCall:
			s += "→" + g.name
		case segWrap:
			s += "{}"
		}
	}
	return s
}

func runCompletionContainment(p *Prog, r *Report) {
	n := 0
	for _, fn := range p.Funcs {
		if fn.Body == nil || !strings.HasSuffix(fn.Pkg.PkgPath, "hcl-lang/decoder") {
			continue
		}
		root := rootOf(fn)
		rv := recvObj(root)
		if rv == nil || !isExprStruct(rv.Type()) {
			continue
		}
		info := fn.Info()
		d := newDeriver(p, root)
		cf := carriersOf(root)
		ord := 0
		ast.Inspect(fn.Body, func(m ast.Node) bool {
			if lit, ok := m.(*ast.FuncLit); ok && lit != fn.Lit {
				return false
			}
			call, ok := m.(*ast.CallExpr)
			if !ok {
				return true
			}
			f := calleeOf(info, call)
			if f == nil || fname(f) != "CompletionAtPos" {
				return true
			}
			sel, ok := ast.Unparen(call.Fun).(*ast.SelectorExpr)
			if !ok {
				return true
			}
			ctor := d.exprValue(sel.X, 0)
			if ctor == nil {
				return true
			}
			child := fieldActual(d.funcOfNode(ctor).Info(), ctor, "expr")
			if child == nil {
				return true
			}
			atoms := d.derive(child, 0)
			rel, _ := relate(atoms, cf, roleAST)
			if rel != relStrict {
				return true // same expression, fresh leaf at the cursor, or not traceable: no descent
			}
			n++
			ord++
			construct := "descent " + cmpText(call.Fun)
			if ord > 1 {
				construct += "#" + itoaN(ord)
			}
			want := map[string]bool{}
			for _, a := range atoms {
				want[normSameRange(a)] = true
			}
			// positional atoms: mention <Y>.Range() (or NameRange etc.) together with the cursor
			test := func(a *Atom) bool {
				if a.E == nil {
					return false
				}
				hit := false
				ast.Inspect(d.funcOfNode(call).InlineLocals(a.E, 3), func(z ast.Node) bool {
					c, ok := z.(*ast.CallExpr)
					if !ok || hit {
						return !hit
					}
					cf2 := calleeOf(info, c)
					if cf2 == nil || fname(cf2) != "Range" {
						return true
					}
					s2, ok := ast.Unparen(c.Fun).(*ast.SelectorExpr)
					if !ok {
						return true
					}
					for _, ya := range d.derive(s2.X, 0) {
						if want[normSameRange(ya)] {
							hit = true
						}
					}
					return !hit
				})
				if !hit {
					return false
				}
				// and the cursor
				cur := false
				ast.Inspect(a.E, func(z ast.Node) bool {
					if id, ok := z.(*ast.Ident); ok {
						if v, ok := info.ObjectOf(id).(*types.Var); ok && isHclPos(v.Type()) {
							cur = true
						}
					}
					return !cur
				})
				return cur
			}
			lf := d.funcOfNode(call)
			okc := lf.GuardsAt(call).Holds(func(a *Atom) bool { return test(a) }) || lf.HoldsOnAllPaths(call, test)
			if !okc {
				// the child is a variable that remembers a loop element: every assignment of it is a
				// fresh leaf at the cursor, nil, another such variable, or an element assigned under a
				// positional test of that element against the cursor
				var remembered func(e ast.Expr, depth int) bool
				remembered = func(e ast.Expr, depth int) bool {
					e = ast.Unparen(e)
					if depth > 3 {
						return false
					}
					if isNilIdent(info, e) {
						return true
					}
					if at := d.derive(e, 0); at != nil {
						onlyLeaf := true
						for _, a := range at {
							if !a.leaf {
								onlyLeaf = false
							}
						}
						if onlyLeaf {
							return true
						}
					}
					id, isId := e.(*ast.Ident)
					if !isId {
						return false
					}
					o := info.ObjectOf(id)
					var owner *Func
					for f := range allFuncsOf(root) {
						if len(f.Assignments(o)) > 0 {
							owner = f
						}
					}
					if owner == nil {
						return false
					}
					any := false
					for _, asn := range owner.Assignments(o) {
						switch as := asn.(type) {
						case *ast.ValueSpec:
							if len(as.Values) == 0 {
								continue // zero value (nil)
							}
							for k, nm := range as.Names {
								if info.ObjectOf(nm) == o && k < len(as.Values) {
									any = true
									if !remembered(as.Values[k], depth+1) {
										return false
									}
								}
							}
						case *ast.AssignStmt:
							if len(as.Lhs) != len(as.Rhs) {
								// v, ok := search(xs, pos): a helper of the module every non-nil result
								// of which is returned under a positional test of that result
								if len(as.Rhs) == 1 && len(as.Lhs) >= 1 && isIdentObj(info, as.Lhs[0], o) {
									if hc, isCall := ast.Unparen(as.Rhs[0]).(*ast.CallExpr); isCall {
										if hf := calleeOf(info, hc); hf != nil {
											if ht := p.FuncOf[hf]; ht != nil && ht.Body != nil && returnsUnderPositionalTest(ht) {
												any = true
												continue
											}
										}
									}
								}
								return false
							}
							for k, l := range as.Lhs {
								if !isIdentObj(info, l, o) {
									continue
								}
								any = true
								rhs := ast.Unparen(as.Rhs[k])
								// an element assigned under a positional test of that element
								w2 := map[string]bool{}
								for _, a2 := range d.derive(rhs, 0) {
									w2[normSameRange(a2)] = true
								}
								saved := want
								want = w2
								under := owner.GuardsAt(as).Holds(func(a *Atom) bool { return test(a) }) || owner.HoldsOnAllPaths(as, test)
								want = saved
								if under {
									continue
								}
								if !remembered(rhs, depth+1) {
									return false
								}
							}
						case *ast.RangeStmt:
							return false
						default:
							return false
						}
					}
					return any
				}
				okc = remembered(child, 0)
			}
			if okc {
				r.Add("E8.completion-containment", root.Name, construct, p.Pos(call), OK, "a positional test of the cursor against the child's own range holds on every path to the descent", true)
			} else {
				var ws []string
				for w := range want {
					ws = append(ws, w)
				}
				r.Add("E8.completion-containment", root.Name, construct, p.Pos(call), Violated,
					"completion descends into "+exprStr(child)+" without a test of the cursor against that expression's own range (tests on an enclosing, larger range do not count): the child may be asked to complete at a cursor before its start", true)
			}
			return true
		})
	}
	r.Counts["E8.completion-descents"] = n
	r.ExpectMin("E8.completion-descents", n, 10)
	r.Clauses = append(r.Clauses, "E8 completion descends into a strict sub-expression only under a positional test of the cursor against that sub-expression's own range")
}

func itoaN(n int) string {
	if n == 0 {
		return "0"
	}
	s := ""
	for n > 0 {
		s = string(rune('0'+n%10)) + s
		n /= 10
	}
	return s
}

// returnsUnderPositionalTest: every return of t whose first result is not nil is reached
// only under a test that mentions that result's own Range() together with a cursor
// (hcl.Pos) parameter of t.
func returnsUnderPositionalTest(t *Func) bool {
	info := t.Info()
	n, good := 0, true
	ast.Inspect(t.Body, func(k ast.Node) bool {
		if _, isLit := k.(*ast.FuncLit); isLit {
			return false
		}
		ret, ok := k.(*ast.ReturnStmt)
		if !ok {
			return true
		}
		if len(ret.Results) == 0 {
			good = false
			return true
		}
		res := ret.Results[0]
		if isNilIdent(info, res) {
			return true
		}
		n++
		rc := t.Canon(res)
		if rc == "" {
			good = false
			return true
		}
		test := func(a *Atom) bool {
			if a.E == nil || !a.Pol {
				return false
			}
			hit, cur := false, false
			ast.Inspect(t.InlineLocals(a.E, 3), func(z ast.Node) bool {
				switch y := z.(type) {
				case *ast.CallExpr:
					if s2, ok := ast.Unparen(y.Fun).(*ast.SelectorExpr); ok && s2.Sel.Name == "Range" && len(y.Args) == 0 && t.Canon(s2.X) == rc {
						hit = true
					}
				case *ast.Ident:
					if v, ok := info.ObjectOf(y).(*types.Var); ok && isHclPos(v.Type()) && t.isParam(v) {
						cur = true
					}
				}
				return true
			})
			return hit && cur
		}
		if !(t.GuardsAt(ret).Holds(test) || t.HoldsOnAllPaths(ret, test)) {
			good = false
		}
		return true
	})
	return n > 0 && good
}
