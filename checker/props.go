package main

func init() {
	register("C17", Rule{Name: "E5", Run: runE5}, Rule{Name: "E15.copy0", Run: runZeroLenCopy})
	register("C01", Rule{Name: "E4.P1", Run: runP1}, Rule{Name: "E4.P2P3", Run: runP2P3}, Rule{Name: "E4.P2prod", Run: runP2Producers}, Rule{Name: "E4.P4", Run: runP4}, Rule{Name: "E4.P5", Run: runP5}, Rule{Name: "E1.pairing", Run: runKindPairing}, Rule{Name: "E14.termination", Run: runTermination})
	register("C03", Rule{Name: "E2", Run: runE2}, Rule{Name: "E2.cmp", Run: runE2Comparators}, Rule{Name: "E2.nondet", Run: runNondetSources}, Rule{Name: "E3.state", Run: runGlobalState}, Rule{Name: "E3", Run: runE3},
		Rule{Name: "E2.cmp-subject", Run: runCmpSubject}, Rule{Name: "E2.poskeys", Run: runPosKeys})
}

func init() {
	register("C04", Rule{Name: "E3", Run: runE3}, Rule{Name: "E3.state", Run: runGlobalState})
}

func init() {
	register("C05", Rule{Name: "E3", Run: runE3}, Rule{Name: "E3.state", Run: runGlobalState}, Rule{Name: "E2.nondet", Run: runNondetSources})
}

func init() {
	register("C06", Rule{Name: "C06.limit", Run: runC06Limit}, Rule{Name: "C06.placeholders", Run: runC06Placeholders}, Rule{Name: "C06.plaintext", Run: runC06PlainText}, Rule{Name: "C06.generator", Run: runC06Generator}, Rule{Name: "C06.fragments", Run: runC06Fragments}, Rule{Name: "E1.rows", Run: runRows("C06")}, Rule{Name: "E8.completion", Run: runCompletionContainment})
}

func init() {
	register("C15", Rule{Name: "E1.rows", Run: runRows("C15")}, Rule{Name: "E1.pairing", Run: runKindPairing})
}

func init() {
	register("C07", Rule{Name: "E1.rows", Run: runRows("C07")})
}

func init() {
	register("C02", Rule{Name: "E6", Run: runE6}, Rule{Name: "E1.rows", Run: runRows("C02")}, Rule{Name: "E6.more", Run: runE6MoreWithDecoded}, Rule{Name: "E6.trim", Run: runByteTrim}, Rule{Name: "E6.column", Run: runColumnOrder}, Rule{Name: "E8.completion", Run: runCompletionContainment})
}

func init() {
	register("C18", Rule{Name: "E6", Run: runE6}, Rule{Name: "E6.crossfile", Run: runCrossFile}, Rule{Name: "E3.state", Run: runGlobalState})
}

func init() {
	register("C13", Rule{Name: "E1.rows", Run: runRows("C13")}, Rule{Name: "E1.search", Run: runSearchLoops("Reference")}, Rule{Name: "E7.tokens", Run: runTokenTable},
		Rule{Name: "E3.alias", Run: runAppendAlias}, Rule{Name: "E2", Run: runE2},
		Rule{Name: "E7.children", Run: runChildCoverage("semanticTokensFor", childExceptions)})
}

func init() {
	register("C12", Rule{Name: "E8", Run: runE8}, Rule{Name: "E1.rows", Run: runRows("C12")}, Rule{Name: "E7.children", Run: runChildCoverage("hover", childExceptions)})
}

func init() {
	register("C11", Rule{Name: "E1.rows", Run: runRows("C11")}, Rule{Name: "E6.crossfile", Run: runCrossFile})
	register("C08", Rule{Name: "E1.rows", Run: runRows("C08")}, Rule{Name: "E6.crossfile", Run: runCrossFile}, Rule{Name: "E1.whomaycall", Run: runWhoMayCall}, Rule{Name: "E7.dispatch", Run: runDispatch})
}

func init() {
	register("C10", Rule{Name: "E1.rows", Run: runRows("C10")}, Rule{Name: "E7.capabilities", Run: runCapabilities},
		Rule{Name: "E7.children", Run: runChildCoverage("refOriginsFor", map[string]string{})}, Rule{Name: "E2", Run: runE2})
}

func init() {
	register("C09", Rule{Name: "E1.rows", Run: runRows("C09")}, Rule{Name: "E9.ctx", Run: runC09Ctx}, Rule{Name: "E3.alias", Run: runAppendAlias},
		Rule{Name: "E5.module", Run: runE5Module}, Rule{Name: "E2", Run: runE2})
}

func init() {
	register("C14", Rule{Name: "E1.rows", Run: runRows("C14")}, Rule{Name: "E10.symbols", Run: runSymbolFields}, Rule{Name: "E10.fault", Run: runFaultIsolation("Symbols")},
		Rule{Name: "E10.json", Run: runJSONRemainder}, Rule{Name: "E2.poskeys", Run: runPosKeys}, Rule{Name: "E2", Run: runE2})
}

func init() {
	register("C16", Rule{Name: "E1.rows", Run: runRows("C16")}, Rule{Name: "E2.cmp-subject", Run: runCmpSubject}, Rule{Name: "E2.cmp", Run: runE2Comparators},
		Rule{Name: "E11.key-source", Run: runSchemaKeySource}, Rule{Name: "E11.key-canonical", Run: runKeyCanonical}, Rule{Name: "E11.consumers", Run: runLookupConsumers}, Rule{Name: "E3", Run: runE3}, Rule{Name: "E5", Run: runE5})
}

func init() {
	register("C20", Rule{Name: "E1.rows", Run: runRows("C20")}, Rule{Name: "E12.visitor", Run: runVisitorStateless})
}

func init() {
	register("C19", Rule{Name: "E1.rows", Run: runRows("C19")}, Rule{Name: "E13.json", Run: runJSONSiblings}, Rule{Name: "E10.json", Run: runJSONRemainder},
		Rule{Name: "E6", Run: runE6For("Reference.ReferenceOrigins", "Reference.ReferenceTargets", "ast.DecodeBody")})
}

// Module-wide loop / comparison discipline and the ownership engine are necessary conditions
// of every per-query property that is decided by rows: they are appended to those sets.
func init() {
	for _, pid := range []string{"C07", "C08", "C09", "C10", "C11", "C12", "C13", "C14", "C15", "C16", "C19", "C20"} {
		propRules[pid] = append(propRules[pid],
			Rule{Name: "E15.self", Run: runSelfCompare}, Rule{Name: "E15.collect", Run: runCollectAll}, Rule{Name: "E15.parallel", Run: runParallelIndex},
			Rule{Name: "E15.stale", Run: runStaleElementState}, Rule{Name: "E15.siblings", Run: runSiblingChildCons}, Rule{Name: "E15.copy0", Run: runZeroLenCopy},
			Rule{Name: "E15.case", Run: runAsymmetricNormalisation}, Rule{Name: "E14.params", Run: runParamPermutation}, Rule{Name: "E16.lost", Run: runLostUpdate}, Rule{Name: "E16.dead", Run: runDeadStore},
			Rule{Name: "E15.flag", Run: runSearchFlagReset}, Rule{Name: "E15.ctx", Run: runCtxLeak}, Rule{Name: "E15.record", Run: runRecordThenReject}, Rule{Name: "E16.premature", Run: runPrematureUse}, Rule{Name: "E15.convdir", Run: runConversionDirection}, Rule{Name: "E15.convsrc", Run: runConversionSourceSiblings}, Rule{Name: "E15.resumed", Run: runResumedSearch}, Rule{Name: "E15.singlepass", Run: runSinglePassLoop}, Rule{Name: "E11.pathid", Run: runPathIdentity}, Rule{Name: "E11.lookupblock", Run: runLookupBlockComplete}, Rule{Name: "E15.accum", Run: runCarriedAccumulator}, Rule{Name: "E15.sizedmake", Run: runAppendAfterSizedMake}, Rule{Name: "E15.dedup", Run: runPartialKeyDedup}, Rule{Name: "E16.flags", Run: runFlagOverwrite}, Rule{Name: "E14.results", Run: runResultPosition}, Rule{Name: "E15.double", Run: runDoubleAccumulation}, Rule{Name: "E15.searchmiss", Run: runSearchForwardsMiss})
	}
	propRules["C18"] = append(propRules["C18"], Rule{Name: "E2.poskeys", Run: runPosKeys}, Rule{Name: "E15.collect", Run: runCollectAll}, Rule{Name: "E6.more", Run: runE6MoreWithDecoded}, Rule{Name: "E6.trim", Run: runByteTrim}, Rule{Name: "E6.column", Run: runColumnOrder}, Rule{Name: "E8.completion", Run: runCompletionContainment})
	propRules["C03"] = append(propRules["C03"], Rule{Name: "E2.memo", Run: runDerivedKeyCache})
	propRules["C19"] = append(propRules["C19"], Rule{Name: "E11.consumers", Run: runLookupConsumers})
	propRules["C19"] = append(propRules["C19"], Rule{Name: "E13.evalctx", Run: runEvalContextAgreement})
	for _, pid := range []string{"C03", "C04", "C05", "C13"} {
		propRules[pid] = append(propRules[pid], Rule{Name: "E3.aliasappend", Run: runAppendThroughAlias})
	}
	for _, pid := range []string{"C17", "C04"} {
		propRules[pid] = append(propRules[pid], Rule{Name: "E15.sizedmake", Run: runAppendAfterSizedMake})
		propRules[pid] = append(propRules[pid], Rule{Name: "E5.order", Run: runCopyKeepsOrder})
	}
	for _, pid := range []string{"C02", "C18", "C05"} {
		propRules[pid] = append(propRules[pid], Rule{Name: "E11.pathid", Run: runPathIdentity})
	}
	for _, pid := range []string{"C18", "C02"} {
		propRules[pid] = append(propRules[pid], Rule{Name: "E6.norebase", Run: runNoRebase})
	}
	for _, pid := range []string{"C06", "C07"} {
		propRules[pid] = append(propRules[pid], Rule{Name: "E6.more", Run: runE6More})
	}
	propRules["C18"] = append(propRules["C18"], Rule{Name: "E1.rows", Run: runRows("C18")})
	for _, pid := range []string{"C12", "C02", "C06", "C08", "C13"} {
		propRules[pid] = append(propRules[pid], Rule{Name: "E8.ownexpr", Run: runOwnExprImmutable})
	}
	for _, pid := range []string{"C01", "C14", "C09", "C10"} {
		propRules[pid] = append(propRules[pid], Rule{Name: "E17.unchecked", Run: runUncheckedResult})
	}
	propRules["C14"] = append(propRules["C14"], Rule{Name: "E11.consumers", Run: runLookupConsumers})
	propRules["C08"] = append(propRules["C08"], Rule{Name: "E8.completion", Run: runCompletionContainment})
	for _, pid := range []string{"C09", "C10"} {
		propRules[pid] = append(propRules[pid], Rule{Name: "E6.decoded", Run: runDecodedTextPositions})
	}
	for _, pid := range []string{"C07", "C16"} {
		propRules[pid] = append(propRules[pid], Rule{Name: "E11.keyreader", Run: runKeyReader})
	}
	propRules["C20"] = append(propRules["C20"], Rule{Name: "E5.signature", Run: onlyFns(runE5, "E5.signature-copy-obligations", "FunctionSignature")})
	for _, pid := range []string{"C01", "C17"} {
		propRules[pid] = append(propRules[pid], Rule{Name: "E4.P6", Run: runInterfaceCompare})
	}
	propRules["C13"] = append(propRules["C13"], Rule{Name: "E6.files", Run: e6ForFiles("_semtok.go", "semantic_tokens.go", "fn:emanticTokens")})
	propRules["C12"] = append(propRules["C12"], Rule{Name: "E6.files", Run: e6ForFiles("_hover.go", "decoder/hover.go", "fn:hover", "fn:Hover")})
	propRules["C14"] = append(propRules["C14"], Rule{Name: "E6.files", Run: e6ForFiles("symbols.go", "symbol.go")})
	propRules["C10"] = append(propRules["C10"], Rule{Name: "E6.files", Run: e6ForFiles("_ref_origins.go", "reference_origins.go", "reference/traversal.go", "fn:refOrigins", "fn:ReferenceOrigins")})
	propRules["C09"] = append(propRules["C09"], Rule{Name: "E6.files", Run: e6ForFiles("_ref_targets.go", "reference_targets.go", "fn:ReferenceTargets")})
	for _, pid := range []string{"C09", "C10", "C14", "C20", "C06", "C07", "C08"} {
		propRules[pid] = append(propRules[pid], Rule{Name: "E1.skiprows", Run: runSkipRows(pid)})
	}
	for _, pid := range []string{"C06", "C07", "C08"} {
		propRules[pid] = append(propRules[pid], Rule{Name: "E8.prefix", Run: runPrefixSource})
	}
	for _, pid := range []string{"C06", "C07", "C08", "C11", "C12", "C20", "C02"} {
		propRules[pid] = append(propRules[pid], Rule{Name: "E8.cursor", Run: runCursorUnchanged})
	}
	for pid, m := range map[string]string{"C08": "CompletionAtPos", "C12": "HoverAtPos", "C13": "SemanticTokens", "C10": "ReferenceOrigins", "C09": "ReferenceTargets"} {
		propRules[pid] = append(propRules[pid], Rule{Name: "E13.any", Run: anyFeature(m)})
	}
	for _, pid := range []string{"C10", "C11"} {
		propRules[pid] = append(propRules[pid], Rule{Name: "E5.module", Run: runE5Module})
	}
	for _, pid := range []string{"C07", "C08", "C10", "C11", "C12", "C14", "C15"} {
		propRules[pid] = append(propRules[pid], Rule{Name: "E3.shared", Run: runAppendAlias})
	}
}

var childExceptions = map[string]string{}
