package main

func init() {
	register("C17", Rule{Name: "E5", Run: runE5})
}
