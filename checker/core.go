package main

// core.go — loading of /repo's current working tree, per-function CFGs, and the
// "facts at a program point" infrastructure shared by all rule engines.
//
// Nothing in this program executes hcl-lang code. Everything is decided from the
// type-checked syntax (go/packages), go/cfg control-flow graphs and, for the
// ownership engine, go/ssa.

import (
	"fmt"
	"go/ast"
	"go/constant"
	"go/token"
	"go/types"
	"os"
	"path/filepath"
	"sort"
	"strings"

	"golang.org/x/tools/go/cfg"
	"golang.org/x/tools/go/packages"
)

const modPath = "github.com/hashicorp/hcl-lang"

type Prog struct {
	Fset    *token.FileSet
	Pkgs    []*packages.Package // module packages, non-test, sorted by path
	ByPath  map[string]*packages.Package
	AllPkgs []*packages.Package // including dependencies (for SSA)
	Funcs   []*Func
	FuncOf  map[*types.Func]*Func
	LitOf   map[*ast.FuncLit]*Func
	RepoDir string
	GOARCH  string
	parents map[ast.Node]ast.Node
}

type Func struct {
	Prog   *Prog
	Pkg    *packages.Package
	Decl   *ast.FuncDecl
	Lit    *ast.FuncLit
	Parent *Func
	Obj    *types.Func
	Name   string // e.g. decoder.(*PathDecoder).completionAtPos, or parent$1 for literals
	Body   *ast.BlockStmt
	Type   *ast.FuncType

	g               *cfg.CFG
	dom             [][]bool // dom[a][b]: block a dominates block b
	blockFact       map[*cfg.Block][]Fact
	nodeBlock       map[ast.Node]*cfg.Block
	assigns         map[types.Object][]ast.Node // assignment sites per local object
	litCount        int
	locals          map[string]bool // names of receiver, parameters and locals (root functions only)
	localTypes      map[string][]types.Type
	localObjs       map[string][]types.Object
	sigma           *tableRow             // literal-table row under which row guards are currently viewed (e1_table.go)
	extraGuard      map[ast.Node]*Formula // per-node additional guards (e.g. `return cond` read as: return true under cond)
	entryGuards     *Formula              // closureEntryGuards memo
	entryGuardsDone bool
}

// loadProg loads every package of the module found under dir.
func loadProg(dir, goarch string, needDeps bool) (*Prog, error) {
	mode := packages.NeedName | packages.NeedFiles | packages.NeedCompiledGoFiles | packages.NeedImports |
		packages.NeedTypes | packages.NeedTypesSizes | packages.NeedSyntax | packages.NeedTypesInfo | packages.NeedModule
	if needDeps {
		mode |= packages.NeedDeps
	}
	env := []string{}
	for _, e := range os.Environ() {
		if strings.HasPrefix(e, "GOWORK=") || strings.HasPrefix(e, "GOFLAGS=") || strings.HasPrefix(e, "GOARCH=") {
			continue
		}
		env = append(env, e)
	}
	env = append(env, "GOFLAGS=-mod=mod", "GOPROXY=off", "GOSUMDB=off", "GOWORK=off", "GOTOOLCHAIN=local")
	if goarch != "" {
		env = append(env, "GOARCH="+goarch)
	}
	fset := token.NewFileSet()
	cfgp := &packages.Config{Mode: mode, Dir: dir, Env: env, Fset: fset, Tests: false}
	pkgs, err := packages.Load(cfgp, "./...")
	if err != nil {
		return nil, err
	}
	p := &Prog{Fset: fset, ByPath: map[string]*packages.Package{}, FuncOf: map[*types.Func]*Func{}, LitOf: map[*ast.FuncLit]*Func{},
		RepoDir: dir, GOARCH: goarch, parents: map[ast.Node]ast.Node{}}
	var errs []string
	for _, pk := range pkgs {
		for _, e := range pk.Errors {
			errs = append(errs, e.Error())
		}
		if !strings.HasPrefix(pk.PkgPath, modPath) {
			continue
		}
		if strings.HasPrefix(pk.PkgPath, modPath+"/tools") {
			continue
		}
		p.Pkgs = append(p.Pkgs, pk)
		p.ByPath[pk.PkgPath] = pk
	}
	if len(errs) > 0 {
		return nil, fmt.Errorf("type-check/load errors: %s", strings.Join(errs, "; "))
	}
	if len(p.Pkgs) == 0 {
		return nil, fmt.Errorf("no packages of %s loaded from %s", modPath, dir)
	}
	sort.Slice(p.Pkgs, func(i, j int) bool { return p.Pkgs[i].PkgPath < p.Pkgs[j].PkgPath })
	p.AllPkgs = pkgs
	computeTypeAliases(p.Pkgs)
	computeAliases(p.Pkgs)
	computeFieldAliases(p.Pkgs)
	for _, pk := range p.Pkgs {
		for _, f := range pk.Syntax {
			p.indexFile(pk, f)
		}
	}
	for _, f := range p.Funcs {
		root := f
		for root.Parent != nil {
			root = root.Parent
		}
		if root.Decl != nil && root.Decl.Recv != nil && len(root.Decl.Recv.List) == 1 && len(root.Decl.Recv.List[0].Names) == 1 {
			recvNameOf[f.Name] = root.Decl.Recv.List[0].Names[0].Name
		}
	}
	computeNewCode(p)
	return p, nil
}

func (p *Prog) indexFile(pk *packages.Package, file *ast.File) {
	// parent map
	var stack []ast.Node
	ast.Inspect(file, func(n ast.Node) bool {
		if n == nil {
			stack = stack[:len(stack)-1]
			return true
		}
		if len(stack) > 0 {
			p.parents[n] = stack[len(stack)-1]
		}
		stack = append(stack, n)
		return true
	})
	for _, d := range file.Decls {
		fd, ok := d.(*ast.FuncDecl)
		if !ok || fd.Body == nil {
			continue
		}
		obj, _ := pk.TypesInfo.Defs[fd.Name].(*types.Func)
		fn := &Func{Prog: p, Pkg: pk, Decl: fd, Obj: obj, Body: fd.Body, Type: fd.Type, Name: funcName(obj)}
		p.Funcs = append(p.Funcs, fn)
		if obj != nil {
			p.FuncOf[obj] = fn
		}
		p.indexLits(fn, fd.Body)
	}
	// function literals in package-level var initialisers
	for _, d := range file.Decls {
		gd, ok := d.(*ast.GenDecl)
		if !ok {
			continue
		}
		holder := &Func{Prog: p, Pkg: pk, Name: shortPkg(pk.PkgPath) + ".init"}
		ast.Inspect(gd, func(n ast.Node) bool {
			if lit, ok := n.(*ast.FuncLit); ok {
				holder.litCount++
				fn := &Func{Prog: p, Pkg: pk, Lit: lit, Parent: nil, Body: lit.Body, Type: lit.Type,
					Name: fmt.Sprintf("%s$%d", holder.Name, holder.litCount)}
				p.Funcs = append(p.Funcs, fn)
				p.LitOf[lit] = fn
				p.indexLits(fn, lit.Body)
				return false
			}
			return true
		})
	}
}

func (p *Prog) indexLits(parent *Func, body ast.Node) {
	ast.Inspect(body, func(n ast.Node) bool {
		if lit, ok := n.(*ast.FuncLit); ok {
			parent.litCount++
			fn := &Func{Prog: p, Pkg: parent.Pkg, Lit: lit, Parent: parent, Body: lit.Body, Type: lit.Type,
				Name: fmt.Sprintf("%s$%d", parent.Name, parent.litCount)}
			p.Funcs = append(p.Funcs, fn)
			p.LitOf[lit] = fn
			p.indexLits(fn, lit.Body)
			return false
		}
		return true
	})
}

func shortPkg(path string) string {
	if path == modPath {
		return "hcl-lang"
	}
	return strings.TrimPrefix(path, modPath+"/")
}

// funcName renders a function's stable name: pkg.(*Recv).Name / pkg.Recv.Name / pkg.Name,
// with the package path relative to the module.
func funcName(f *types.Func) string {
	if f == nil {
		return "?"
	}
	pkg := ""
	if f.Pkg() != nil {
		pkg = shortPkg(f.Pkg().Path())
	}
	sig, _ := f.Type().(*types.Signature)
	if sig != nil && sig.Recv() != nil {
		t := sig.Recv().Type()
		ptr := false
		if pt, ok := t.(*types.Pointer); ok {
			t = pt.Elem()
			ptr = true
		}
		name := "?"
		if nt, ok := t.(*types.Named); ok {
			name = canonId(nt.Obj().Name())
		}
		if ptr {
			return fmt.Sprintf("%s.(*%s).%s", pkg, name, fname(f))
		}
		return fmt.Sprintf("%s.%s.%s", pkg, name, fname(f))
	}
	return pkg + "." + fname(f)
}

func (p *Prog) Parent(n ast.Node) ast.Node { return p.parents[n] }

func (p *Prog) Pos(n ast.Node) string { return p.PosOf(n.Pos()) }

func (p *Prog) PosOf(pos token.Pos) string {
	ps := p.Fset.Position(pos)
	rel, err := filepath.Rel(p.RepoDir, ps.Filename)
	if err != nil {
		rel = ps.Filename
	}
	return fmt.Sprintf("%s:%d", rel, ps.Line)
}

func (p *Prog) File(n ast.Node) string {
	ps := p.Fset.Position(n.Pos())
	rel, err := filepath.Rel(p.RepoDir, ps.Filename)
	if err != nil {
		rel = ps.Filename
	}
	return rel
}

// FindFunc finds a function by its stable name.
func (p *Prog) FindFunc(name string) *Func {
	for _, f := range p.Funcs {
		if f.Name == name {
			return f
		}
	}
	return nil
}

// EnclosingFunc returns the innermost function (declaration or literal) containing n.
func (p *Prog) EnclosingFunc(n ast.Node) *Func {
	for x := ast.Node(n); x != nil; x = p.parents[x] {
		switch x := x.(type) {
		case *ast.FuncLit:
			return p.LitOf[x]
		case *ast.FuncDecl:
			for _, f := range p.Funcs {
				if f.Decl == x {
					return f
				}
			}
		}
	}
	return nil
}

func (f *Func) Info() *types.Info { return f.Pkg.TypesInfo }

// ---------------------------------------------------------------------------------------
// CFG, dominators, facts

func (f *Func) CFG() *cfg.CFG {
	if f.g != nil {
		return f.g
	}
	info := f.Info()
	f.g = cfg.New(f.Body, func(call *ast.CallExpr) bool {
		if id, ok := call.Fun.(*ast.Ident); ok {
			if b, ok := info.Uses[id].(*types.Builtin); ok && b.Name() == "panic" {
				return false
			}
		}
		if callee := calleeOf(info, call); callee != nil {
			full := callee.FullName()
			if full == "os.Exit" || full == "log.Fatal" || full == "log.Fatalf" || full == "log.Panic" || full == "log.Panicf" {
				return false
			}
		}
		return true
	})
	f.computeDom()
	f.nodeBlock = map[ast.Node]*cfg.Block{}
	for _, b := range f.g.Blocks {
		for _, n := range b.Nodes {
			f.nodeBlock[n] = b
		}
	}
	return f.g
}

func (f *Func) computeDom() {
	bs := f.g.Blocks
	n := len(bs)
	preds := make([][]int, n)
	for _, b := range bs {
		for _, s := range b.Succs {
			preds[s.Index] = append(preds[s.Index], int(b.Index))
		}
	}
	// reachable from entry
	reach := make([]bool, n)
	var dfs func(i int)
	dfs = func(i int) {
		if reach[i] {
			return
		}
		reach[i] = true
		for _, s := range bs[i].Succs {
			dfs(int(s.Index))
		}
	}
	if n > 0 {
		dfs(0)
	}
	// dom sets: domset[b] = set of blocks dominating b
	domset := make([][]bool, n)
	for i := range domset {
		domset[i] = make([]bool, n)
		for j := range domset[i] {
			domset[i][j] = true
		}
	}
	if n > 0 {
		for j := range domset[0] {
			domset[0][j] = j == 0
		}
	}
	changed := true
	for changed {
		changed = false
		for i := 1; i < n; i++ {
			if !reach[i] {
				continue
			}
			nw := make([]bool, n)
			first := true
			for _, p := range preds[i] {
				if !reach[p] {
					continue
				}
				if first {
					copy(nw, domset[p])
					first = false
				} else {
					for k := range nw {
						nw[k] = nw[k] && domset[p][k]
					}
				}
			}
			nw[i] = true
			for k := range nw {
				if nw[k] != domset[i][k] {
					changed = true
					break
				}
			}
			domset[i] = nw
		}
	}
	f.dom = make([][]bool, n)
	for a := 0; a < n; a++ {
		f.dom[a] = make([]bool, n)
		for b := 0; b < n; b++ {
			f.dom[a][b] = reach[b] && domset[b][a]
		}
	}
	// facts per block
	f.blockFact = map[*cfg.Block][]Fact{}
	edgeDom := func(d, s *cfg.Block, b *cfg.Block) bool {
		// edge d->s dominates b
		if !f.dom[s.Index][b.Index] {
			return false
		}
		cnt := 0
		for _, x := range d.Succs {
			if x == s {
				cnt++
			}
		}
		if cnt != 1 {
			return false
		}
		for _, p := range preds[s.Index] {
			if p == int(d.Index) {
				continue
			}
			if !reach[p] {
				continue
			}
			if !f.dom[s.Index][p] {
				return false
			}
		}
		return true
	}
	hasFallthrough := func(sw ast.Stmt) bool {
		found := false
		ast.Inspect(sw, func(n ast.Node) bool {
			if br, ok := n.(*ast.BranchStmt); ok && br.Tok == token.FALLTHROUGH {
				found = true
			}
			return true
		})
		return found
	}
	for _, d := range bs {
		if !reach[d.Index] {
			continue
		}
		// structural facts for case bodies
		if d.Kind == cfg.KindSwitchCaseBody {
			if cc, ok := d.Stmt.(*ast.CaseClause); ok {
				sw := f.enclosingSwitch(cc)
				if sw != nil && !hasFallthrough(sw) {
					fact := Fact{Kind: FactCase, Clause: cc, Switch: sw, Pol: true, Src: d}
					for _, b := range bs {
						if f.dom[d.Index][b.Index] {
							f.blockFact[b] = append(f.blockFact[b], fact)
						}
					}
				}
			}
		}
		if len(d.Succs) != 2 || d.Succs[0] == d.Succs[1] {
			continue
		}
		if d.Kind == cfg.KindRangeLoop {
			if rs, ok := d.Stmt.(*ast.RangeStmt); ok {
				fact := Fact{Kind: FactRange, Range: rs, Pol: true, Src: d}
				for _, b := range bs {
					if edgeDom(d, d.Succs[0], b) {
						f.blockFact[b] = append(f.blockFact[b], fact)
					}
				}
			}
			continue
		}
		if len(d.Nodes) == 0 {
			continue
		}
		cond, ok := d.Nodes[len(d.Nodes)-1].(ast.Expr)
		if !ok {
			continue
		}
		// is it a case expression of a tag switch?
		if cc, ok := f.Prog.parents[cond].(*ast.CaseClause); ok {
			sw, _ := f.enclosingSwitch(cc).(*ast.SwitchStmt)
			if sw == nil {
				continue
			}
			if sw.Tag != nil {
				// tag == cond on the true edge; handled structurally via FactCase for
				// the body. The false edge gives tag != cond.
				fact := Fact{Kind: FactTagNe, Cond: cond, Switch: sw, Pol: false, Src: d}
				for _, b := range bs {
					if edgeDom(d, d.Succs[1], b) {
						f.blockFact[b] = append(f.blockFact[b], fact)
					}
				}
				continue
			}
			// tagless switch: boolean condition, fall through to the generic case
		}
		for k := 0; k < 2; k++ {
			fact := Fact{Kind: FactCond, Cond: cond, Pol: k == 0, Src: d}
			for _, b := range bs {
				if edgeDom(d, d.Succs[k], b) {
					f.blockFact[b] = append(f.blockFact[b], fact)
				}
			}
		}
	}
}

func (f *Func) enclosingSwitch(cc *ast.CaseClause) ast.Stmt {
	// CaseClause -> BlockStmt -> SwitchStmt/TypeSwitchStmt
	b := f.Prog.parents[cc]
	if b == nil {
		return nil
	}
	switch s := f.Prog.parents[b].(type) {
	case *ast.SwitchStmt:
		return s
	case *ast.TypeSwitchStmt:
		return s
	}
	return nil
}

type FactKind int

const (
	FactCond  FactKind = iota // Cond evaluated to Pol
	FactCase                  // control is inside case clause Clause of Switch (tag or type switch, or tagless)
	FactTagNe                 // tag of Switch != Cond
	FactRange                 // control is inside the body of Range
)

type Fact struct {
	Kind   FactKind
	Cond   ast.Expr
	Pol    bool
	Clause *ast.CaseClause
	Switch ast.Stmt
	Range  *ast.RangeStmt
	Src    *cfg.Block // the block that ends in the condition (or the case body block)
}

// BlockOf returns the CFG block whose node list contains (an ancestor of) n.
func (f *Func) BlockOf(n ast.Node) *cfg.Block {
	f.CFG()
	for x := n; x != nil; x = f.Prog.parents[x] {
		if b, ok := f.nodeBlock[x]; ok {
			return b
		}
		if x == ast.Node(f.Body) {
			break
		}
		if lit, ok := x.(*ast.FuncLit); ok && lit != f.Lit {
			// n is inside a nested literal: belongs to another Func
			return nil
		}
	}
	return nil
}

// CFGNodeOf returns the CFG-level node (statement or condition) containing n.
func (f *Func) CFGNodeOf(n ast.Node) ast.Node {
	f.CFG()
	for x := n; x != nil; x = f.Prog.parents[x] {
		if _, ok := f.nodeBlock[x]; ok {
			return x
		}
		if x == ast.Node(f.Body) {
			break
		}
	}
	return nil
}

// FactsAt returns the branch facts that hold whenever control reaches node n.
// Conditions evaluated earlier in the same short-circuit chain are included because
// go/cfg splits && and || into blocks.
func (f *Func) FactsAt(n ast.Node) []Fact {
	b := f.BlockOf(n)
	if b == nil {
		return nil
	}
	return f.blockFact[b]
}

// Dominates reports whether node a's block dominates node b's block, or, within one
// block, a comes first.
func (f *Func) Dominates(a, b ast.Node) bool {
	ba, bb := f.BlockOf(a), f.BlockOf(b)
	if ba == nil || bb == nil {
		return false
	}
	if ba == bb {
		na, nb := f.CFGNodeOf(a), f.CFGNodeOf(b)
		ia, ib := -1, -1
		for i, x := range ba.Nodes {
			if x == na {
				ia = i
			}
			if x == nb {
				ib = i
			}
		}
		if ia == ib {
			return a.Pos() <= b.Pos()
		}
		return ia < ib
	}
	return f.dom[ba.Index][bb.Index]
}

// Reachable computes the set of blocks reachable from `from` (inclusive) without
// passing through `stop` (may be nil).
func (f *Func) reachFrom(from []*cfg.Block, stop *cfg.Block) map[*cfg.Block]bool {
	seen := map[*cfg.Block]bool{}
	var st []*cfg.Block
	for _, b := range from {
		if b != stop && !seen[b] {
			seen[b] = true
			st = append(st, b)
		}
	}
	for len(st) > 0 {
		b := st[len(st)-1]
		st = st[:len(st)-1]
		for _, s := range b.Succs {
			if s == stop || seen[s] {
				continue
			}
			seen[s] = true
			st = append(st, s)
		}
	}
	return seen
}

// Assignments returns every node in f that (re)assigns obj: AssignStmt with obj on the
// LHS (define or assign), IncDecStmt, range key/value, &obj address-taking (treated as a
// potential write), and var declarations.
func (f *Func) Assignments(obj types.Object) []ast.Node {
	if f.assigns == nil {
		f.assigns = map[types.Object][]ast.Node{}
		info := f.Info()
		add := func(e ast.Expr, at ast.Node) {
			e = ast.Unparen(e)
			if id, ok := e.(*ast.Ident); ok {
				if o := info.ObjectOf(id); o != nil {
					f.assigns[o] = append(f.assigns[o], at)
				}
			}
		}
		ast.Inspect(f.Body, func(n ast.Node) bool {
			switch n := n.(type) {
			case *ast.AssignStmt:
				for _, l := range n.Lhs {
					add(l, n)
				}
			case *ast.IncDecStmt:
				add(n.X, n)
			case *ast.RangeStmt:
				if n.Key != nil {
					add(n.Key, n)
				}
				if n.Value != nil {
					add(n.Value, n)
				}
			case *ast.UnaryExpr:
				if n.Op == token.AND {
					add(n.X, n)
				}
			case *ast.ValueSpec:
				for _, id := range n.Names {
					add(id, n)
				}
			}
			return true
		})
	}
	return f.assigns[obj]
}

// SingleDef returns the defining expression of a local variable that is assigned exactly
// once in f (its definition), or nil.
func (f *Func) SingleDef(obj types.Object) ast.Expr {
	as := f.Assignments(obj)
	if len(as) != 1 {
		return nil
	}
	switch s := as[0].(type) {
	case *ast.AssignStmt:
		if len(s.Lhs) == len(s.Rhs) {
			for i, l := range s.Lhs {
				if id, ok := ast.Unparen(l).(*ast.Ident); ok && f.Info().ObjectOf(id) == obj {
					return s.Rhs[i]
				}
			}
		}
		// x, ok := y.(T): x denotes y
		if len(s.Lhs) == 2 && len(s.Rhs) == 1 {
			if ta, ok := ast.Unparen(s.Rhs[0]).(*ast.TypeAssertExpr); ok && ta.Type != nil {
				if id, ok := ast.Unparen(s.Lhs[0]).(*ast.Ident); ok && f.Info().ObjectOf(id) == obj {
					return ta
				}
			}
		}
	case *ast.ValueSpec:
		if len(s.Names) == len(s.Values) {
			for i, id := range s.Names {
				if f.Info().ObjectOf(id) == obj {
					return s.Values[i]
				}
			}
		}
	}
	return nil
}

// ReassignedBetween reports whether obj may be re-assigned on a path that starts after
// the fact was established (the edge leaving fact.Src) and reaches use without
// re-establishing the fact. Assignments located in the fact's own source block before the
// condition do not count.
func (f *Func) ReassignedBetween(obj types.Object, fact Fact, use ast.Node) ast.Node {
	ub := f.BlockOf(use)
	if ub == nil || fact.Src == nil {
		return nil
	}
	var starts []*cfg.Block
	switch fact.Kind {
	case FactCond:
		if fact.Pol {
			starts = []*cfg.Block{fact.Src.Succs[0]}
		} else {
			starts = []*cfg.Block{fact.Src.Succs[1]}
		}
	case FactTagNe:
		starts = []*cfg.Block{fact.Src.Succs[1]}
	case FactRange:
		starts = []*cfg.Block{fact.Src.Succs[0]}
	case FactCase:
		starts = []*cfg.Block{fact.Src}
	}
	fwd := f.reachFrom(starts, fact.Src)
	if fact.Kind == FactCase {
		fwd = f.reachFrom(starts, nil)
	}
	useNode := f.CFGNodeOf(use)
	for _, a := range f.Assignments(obj) {
		ab := f.BlockOf(a)
		if ab == nil {
			// e.g. inside a nested literal: conservatively treat as re-assignment
			if f.insideNestedLit(a) {
				return a
			}
			continue
		}
		if !fwd[ab] {
			continue
		}
		// can ab reach ub without passing through fact.Src?
		an := f.CFGNodeOf(a)
		if ab == ub {
			ia, iu := -1, -1
			for i, x := range ab.Nodes {
				if x == an {
					ia = i
				}
				if x == useNode {
					iu = i
				}
			}
			if ia < iu || (ia == iu && a.Pos() < use.Pos() && !nodeContains(a, use)) {
				return a
			}
			// after the use in the same block: only matters if the block loops back
			// to itself without crossing fact.Src
			stop := fact.Src
			if fact.Kind == FactCase {
				stop = nil
			}
			back := f.reachFrom(ab.Succs, stop)
			if back[ub] {
				return a
			}
			continue
		}
		stop := fact.Src
		if fact.Kind == FactCase {
			stop = nil
		}
		if ab == stop {
			continue
		}
		r := f.reachFrom([]*cfg.Block{ab}, stop)
		if r[ub] {
			return a
		}
	}
	return nil
}

func nodeContains(outer, inner ast.Node) bool {
	return outer.Pos() <= inner.Pos() && inner.End() <= outer.End()
}

func (f *Func) insideNestedLit(n ast.Node) bool {
	for x := n; x != nil; x = f.Prog.parents[x] {
		if lit, ok := x.(*ast.FuncLit); ok {
			return lit != f.Lit
		}
		if x == ast.Node(f.Body) {
			return false
		}
	}
	return false
}

// ---------------------------------------------------------------------------------------
// Resolved-program helpers

// calleeOf resolves the static callee of a call (function, method, or interface method).
func calleeOf(info *types.Info, call *ast.CallExpr) *types.Func {
	fun := ast.Unparen(call.Fun)
	switch fun := fun.(type) {
	case *ast.Ident:
		if f, ok := info.Uses[fun].(*types.Func); ok {
			return f
		}
	case *ast.SelectorExpr:
		if sel, ok := info.Selections[fun]; ok {
			if f, ok := sel.Obj().(*types.Func); ok {
				return f
			}
			return nil
		}
		if f, ok := info.Uses[fun.Sel].(*types.Func); ok {
			return f
		}
	case *ast.IndexExpr: // generic instantiation
		return calleeOf(info, &ast.CallExpr{Fun: fun.X})
	}
	return nil
}

// calleeFull returns e.g. "strings.HasPrefix", "(github.com/zclconf/go-cty/cty.Value).AsString".
func calleeFull(info *types.Info, call *ast.CallExpr) string {
	if f := calleeOf(info, call); f != nil {
		return f.FullName()
	}
	return ""
}

func isBuiltinCall(info *types.Info, call *ast.CallExpr, name string) bool {
	id, ok := ast.Unparen(call.Fun).(*ast.Ident)
	if !ok {
		return false
	}
	b, ok := info.Uses[id].(*types.Builtin)
	return ok && b.Name() == name
}

func constInt(info *types.Info, e ast.Expr) (int64, bool) {
	tv, ok := info.Types[e]
	if !ok || tv.Value == nil {
		return 0, false
	}
	if tv.Value.Kind() != constant.Int {
		return 0, false
	}
	v, ok := constant.Int64Val(tv.Value)
	return v, ok
}

func constString(info *types.Info, e ast.Expr) (string, bool) {
	tv, ok := info.Types[e]
	if !ok || tv.Value == nil || tv.Value.Kind() != constant.String {
		return "", false
	}
	return constant.StringVal(tv.Value), true
}

// pureMethods are argument-less accessor methods that are treated as part of an access
// path (their result is a function of the receiver only).
var pureMethods = map[string]bool{
	"Range": true, "Type": true, "RootName": true, "SourceRange": true, "StartRange": true,
	"NameRange": true, "ElementType": true, "Ptr": true, "Address": true, "OriginRange": true,
}

// pathOf renders a canonical access path for e: base object identity followed by field
// selectors, pure accessor calls and constant indices. Returns "" if e is not a path.
func pathOf(info *types.Info, e ast.Expr) string {
	var sb strings.Builder
	if !writePath(info, e, &sb) {
		return ""
	}
	return sb.String()
}

func writePath(info *types.Info, e ast.Expr, sb *strings.Builder) bool {
	e = ast.Unparen(e)
	switch e := e.(type) {
	case *ast.Ident:
		o := info.ObjectOf(e)
		if o == nil {
			return false
		}
		switch o.(type) {
		case *types.Var, *types.Const, *types.Nil:
		default:
			return false
		}
		fmt.Fprintf(sb, "%s@%d", o.Name(), o.Pos())
		return true
	case *ast.SelectorExpr:
		// package-qualified identifier
		if id, ok := e.X.(*ast.Ident); ok {
			if _, ok := info.Uses[id].(*types.PkgName); ok {
				o := info.ObjectOf(e.Sel)
				if o == nil {
					return false
				}
				fmt.Fprintf(sb, "%s.%s", o.Pkg().Path(), o.Name())
				return true
			}
		}
		if !writePath(info, e.X, sb) {
			return false
		}
		sb.WriteString("." + canonId(e.Sel.Name))
		return true
	case *ast.StarExpr:
		return writePath(info, e.X, sb)
	case *ast.UnaryExpr:
		if e.Op == token.AND {
			return writePath(info, e.X, sb)
		}
		return false
	case *ast.CallExpr:
		sel, ok := ast.Unparen(e.Fun).(*ast.SelectorExpr)
		if !ok || len(e.Args) != 0 || !pureMethods[sel.Sel.Name] {
			return false
		}
		if !writePath(info, sel.X, sb) {
			return false
		}
		sb.WriteString("." + sel.Sel.Name + "()")
		return true
	case *ast.IndexExpr:
		if !writePath(info, e.X, sb) {
			return false
		}
		if c, ok := constInt(info, e.Index); ok {
			fmt.Fprintf(sb, "[%d]", c)
			return true
		}
		if s, ok := constString(info, e.Index); ok {
			fmt.Fprintf(sb, "[%q]", s)
			return true
		}
		var ib strings.Builder
		if !writePath(info, e.Index, &ib) {
			return false
		}
		sb.WriteString("[" + ib.String() + "]")
		return true
	case *ast.TypeAssertExpr:
		// x.(T) denotes the same object as x for guard purposes
		return writePath(info, e.X, sb)
	}
	return false
}

// baseObj returns the root variable of an access path expression.
func baseObj(info *types.Info, e ast.Expr) types.Object {
	for {
		e = ast.Unparen(e)
		switch x := e.(type) {
		case *ast.Ident:
			return info.ObjectOf(x)
		case *ast.SelectorExpr:
			if id, ok := x.X.(*ast.Ident); ok {
				if _, ok := info.Uses[id].(*types.PkgName); ok {
					return info.ObjectOf(x.Sel)
				}
			}
			e = x.X
		case *ast.StarExpr:
			e = x.X
		case *ast.UnaryExpr:
			e = x.X
		case *ast.IndexExpr:
			e = x.X
		case *ast.SliceExpr:
			e = x.X
		case *ast.TypeAssertExpr:
			e = x.X
		case *ast.CallExpr:
			sel, ok := ast.Unparen(x.Fun).(*ast.SelectorExpr)
			if !ok {
				return nil
			}
			e = sel.X
		default:
			return nil
		}
	}
}

// pathObjects lists every variable mentioned in an access-path expression (base and
// index variables); used for invalidation checks.
func pathObjects(info *types.Info, e ast.Expr) []types.Object {
	var out []types.Object
	ast.Inspect(e, func(n ast.Node) bool {
		if id, ok := n.(*ast.Ident); ok {
			if v, ok := info.ObjectOf(id).(*types.Var); ok && !v.IsField() {
				out = append(out, v)
			}
		}
		return true
	})
	return out
}

func exprStr(e ast.Expr) string {
	s := types.ExprString(e)
	for nw, old := range renameText {
		if strings.Contains(s, nw) {
			s = replaceWord(s, nw, old)
		}
	}
	return s
}

// replaceWord replaces whole-identifier occurrences of a by b.
func replaceWord(s, a, b string) string {
	var sb strings.Builder
	for i := 0; i < len(s); {
		j := strings.Index(s[i:], a)
		if j < 0 {
			sb.WriteString(s[i:])
			break
		}
		j += i
		end := j + len(a)
		isId := func(c byte) bool {
			return c == '_' || c >= '0' && c <= '9' || c >= 'a' && c <= 'z' || c >= 'A' && c <= 'Z'
		}
		if (j > 0 && isId(s[j-1])) || (end < len(s) && isId(s[end])) {
			sb.WriteString(s[i:end])
		} else {
			sb.WriteString(s[i:j])
			sb.WriteString(b)
		}
		i = end
	}
	return sb.String()
}

func namedOf(t types.Type) *types.Named {
	for {
		switch x := t.(type) {
		case *types.Pointer:
			t = x.Elem()
		case *types.Named:
			return x
		case *types.Alias:
			t = types.Unalias(x)
		default:
			return nil
		}
	}
}

// typeIs reports whether t (possibly behind a pointer) is the named type pkgSuffix.name,
// where pkgSuffix is matched against the end of the package path.
func typeIs(t types.Type, pkgSuffix, name string) bool {
	n := namedOf(t)
	if n == nil || n.Obj().Pkg() == nil {
		return false
	}
	return canonId(n.Obj().Name()) == name && strings.HasSuffix(n.Obj().Pkg().Path(), pkgSuffix)
}

func isModuleType(t types.Type) bool {
	n := namedOf(t)
	return n != nil && n.Obj().Pkg() != nil && strings.HasPrefix(n.Obj().Pkg().Path(), modPath)
}

// countingLoopBound: `at` lies in the body of `for idx := 0; idx < len(X); idx++` (idx not
// assigned in the body): returns X.
func (fn *Func) countingLoopBound(at ast.Node, idx types.Object) ast.Expr {
	info := fn.Info()
	for c := ast.Node(at); c != nil; c = fn.Prog.parents[c] {
		fs, ok := fn.Prog.parents[c].(*ast.ForStmt)
		if !ok || fs.Body != c || fs.Cond == nil {
			continue
		}
		init, ok := fs.Init.(*ast.AssignStmt)
		if !ok || len(init.Lhs) != 1 || len(init.Rhs) != 1 || !isIdentObj(info, init.Lhs[0], idx) {
			continue
		}
		if v, isC := constInt(info, init.Rhs[0]); !isC || v != 0 {
			continue
		}
		post, ok := fs.Post.(*ast.IncDecStmt)
		if !ok || post.Tok != token.INC || !isIdentObj(info, post.X, idx) {
			continue
		}
		if len(fn.Assignments(idx)) != 2 {
			continue // assigned in the body as well
		}
		be, ok := ast.Unparen(fs.Cond).(*ast.BinaryExpr)
		if !ok || be.Op != token.LSS || !isIdentObj(info, be.X, idx) {
			continue
		}
		bound := ast.Unparen(be.Y)
		if id, ok := bound.(*ast.Ident); ok {
			if def := fn.SingleDef(info.ObjectOf(id)); def != nil {
				bound = ast.Unparen(def)
			}
		}
		if call, ok := bound.(*ast.CallExpr); ok && isLenCall(info, call) {
			return call.Args[0]
		}
	}
	return nil
}

// InlineLocals: e with single-definition local variables whose definition is a pure
// selector/accessor chain replaced by that definition (`vr := item.ValueExpr.Range()` …
// `vr.ContainsPos(pos)` reads `item.ValueExpr.Range().ContainsPos(pos)`). The definition's
// operands must not be re-assigned (single-definition locals, parameters, fields).
func (fn *Func) InlineLocals(e ast.Expr, rounds int) ast.Expr {
	info := fn.Info()
	root := rootOf(fn)
	for r := 0; r < rounds; r++ {
		var target types.Object
		var def ast.Expr
		ast.Inspect(e, func(n ast.Node) bool {
			if target != nil {
				return false
			}
			id, ok := n.(*ast.Ident)
			if !ok {
				return true
			}
			v, ok := info.ObjectOf(id).(*types.Var)
			if !ok || v.IsField() || v.Pkg() == nil || v.Parent() == v.Pkg().Scope() || root.isParam(v) || fn.isParam(v) {
				return true
			}
			d := fn.SingleDef(v)
			if d == nil {
				return true
			}
			if !pureExpr(info, d) {
				return true
			}
			target, def = v, d
			return true
		})
		if target == nil {
			return e
		}
		e = substExpr(e, target, def, info)
	}
	return e
}
