package main
