package main

// runThorough is filled in by thorough_impl.go
func runThorough(prop, repo, verif string) int { return thoroughImpl(prop, repo, verif) }
