package main

// C06 rules (E1 family): candidate limit / complete flag typestate, counter discipline,
// placeholder threading, plain-text/snippet separation.

import (
	"fmt"
	"go/ast"
	"go/token"
	"go/types"
	"strings"

	"golang.org/x/tools/go/cfg"
)

// cfgSearch walks CFG nodes forward from just after `from` (or from the start of block
// `startBlock` when from is nil). visit is called for every node in order; it returns
// stop=true to cut the path at that node. Blocks are entered at most once per state.
type cfgVisitor func(n ast.Node) (stop bool)

func cfgForward(fn *Func, startBlock *cfg.Block, startIdx int, visit cfgVisitor) {
	seen := map[*cfg.Block]bool{}
	var walk func(b *cfg.Block, from int)
	walk = func(b *cfg.Block, from int) {
		for i := from; i < len(b.Nodes); i++ {
			if visit(b.Nodes[i]) {
				return
			}
		}
		for _, s := range b.Succs {
			if !seen[s] {
				seen[s] = true
				walk(s, 0)
			}
		}
	}
	walk(startBlock, startIdx)
}

func nodeIndexIn(fn *Func, b *cfg.Block, n ast.Node) int {
	cn := fn.CFGNodeOf(n)
	for i, x := range b.Nodes {
		if x == cn {
			return i
		}
	}
	return -1
}

// isLimitTest: a comparison against the decoder's maxCandidates; returns the counter
// expression and which polarity of the condition means "limit reached".
func isLimitTest(fn *Func, e ast.Expr) (counter ast.Expr, reachedWhenTrue bool, ok bool) {
	if call, isCall := ast.Unparen(e).(*ast.CallExpr); isCall {
		// the test made by a one-line predicate: d.limitReached(count)
		if body := fn.inlinePredicateCall(call); body != nil {
			e = body
		}
	}
	be, isBe := ast.Unparen(e).(*ast.BinaryExpr)
	if !isBe {
		return nil, false, false
	}
	isMax := func(x ast.Expr) bool {
		c := fn.Canon(x)
		return strings.HasSuffix(c, ".maxCandidates") || strings.HasSuffix(c, ".MaxCandidates")
	}
	strip := func(x ast.Expr) ast.Expr {
		x = ast.Unparen(x)
		if call, isCall := x.(*ast.CallExpr); isCall && len(call.Args) == 1 {
			if tv, ok := fn.Info().Types[call.Fun]; ok && tv.IsType() {
				return ast.Unparen(call.Args[0])
			}
		}
		return x
	}
	switch {
	case isMax(be.Y) && (be.Op == token.GEQ || be.Op == token.GTR):
		return strip(be.X), true, true
	case isMax(be.Y) && (be.Op == token.LSS || be.Op == token.LEQ):
		return strip(be.X), false, true
	case isMax(be.X) && (be.Op == token.LEQ || be.Op == token.LSS):
		return strip(be.Y), true, true
	case isMax(be.X) && (be.Op == token.GTR || be.Op == token.GEQ):
		return strip(be.Y), false, true
	}
	return nil, false, false
}

// completeAssign: statement assigns X.IsComplete = true/false for candidates variable c.
func completeAssign(fn *Func, n ast.Node, cpath string) (val bool, ok bool) {
	as, isAs := n.(*ast.AssignStmt)
	if !isAs || len(as.Lhs) != len(as.Rhs) {
		return false, false
	}
	for i, l := range as.Lhs {
		sel, isSel := ast.Unparen(l).(*ast.SelectorExpr)
		if !isSel || sel.Sel.Name != "IsComplete" || fn.Canon(sel.X) != cpath {
			continue
		}
		if id, isId := ast.Unparen(as.Rhs[i]).(*ast.Ident); isId {
			if id.Name == "true" {
				return true, true
			}
			if id.Name == "false" {
				return false, true
			}
		}
		return true, true // unknown value: treat as possibly true
	}
	return false, false
}

// initialComplete: IsComplete of the candidates variable right after its definition.
func initialComplete(fn *Func, def ast.Expr) (val bool, known bool) {
	info := fn.Info()
	switch d := ast.Unparen(def).(type) {
	case *ast.CallExpr:
		full := calleeFull(info, d)
		switch {
		case strings.HasSuffix(full, "lang.NewCandidates"), strings.HasSuffix(full, "lang.IncompleteCandidates"):
			return false, true
		case strings.HasSuffix(full, "lang.ZeroCandidates"), strings.HasSuffix(full, "lang.CompleteCandidates"):
			return true, true
		}
	case *ast.CompositeLit:
		for _, el := range d.Elts {
			if kv, ok := el.(*ast.KeyValueExpr); ok {
				if k, ok := kv.Key.(*ast.Ident); ok && k.Name == "IsComplete" {
					if id, ok := ast.Unparen(kv.Value).(*ast.Ident); ok && id.Name == "false" {
						return false, true
					}
					return true, true
				}
			}
		}
		return false, true
	}
	return true, false
}

// completeStateFrom explores all paths from (block, idx) with the given initial state and
// reports every return of the candidates variable reached with IsComplete possibly true.
func completeStateFrom(fn *Func, b *cfg.Block, idx int, initTrue bool, cpath string) []ast.Node {
	type st struct {
		b *cfg.Block
		t bool
	}
	seen := map[st]bool{}
	var bad []ast.Node
	var walk func(b *cfg.Block, from int, isTrue bool)
	walk = func(b *cfg.Block, from int, isTrue bool) {
		for i := from; i < len(b.Nodes); i++ {
			n := b.Nodes[i]
			if v, ok := completeAssign(fn, n, cpath); ok {
				isTrue = v
				continue
			}
			if rs, ok := n.(*ast.ReturnStmt); ok {
				if len(rs.Results) > 0 && fn.Canon(rs.Results[0]) == cpath && isTrue {
					bad = append(bad, rs)
				}
				return
			}
		}
		for _, s := range b.Succs {
			k := st{s, isTrue}
			if !seen[k] {
				seen[k] = true
				walk(s, 0, isTrue)
			}
		}
	}
	walk(b, idx, initTrue)
	return bad
}

// mayBeTrueAt: can IsComplete be true when control reaches block b at node index idx?
func mayBeTrueAt(fn *Func, cpath string, cobj types.Object, target *cfg.Block, tidx int) bool {
	g := fn.CFG()
	if len(g.Blocks) == 0 {
		return true
	}
	// forward exploration from entry with state
	type st struct {
		b *cfg.Block
		t bool
	}
	init := false
	if def := fn.SingleDef(cobj); def != nil {
		if v, known := initialComplete(fn, def); known {
			init = v
		} else {
			init = true
		}
	} else {
		init = true
	}
	seen := map[st]bool{}
	res := false
	var walk func(b *cfg.Block, from int, isTrue bool)
	walk = func(b *cfg.Block, from int, isTrue bool) {
		for i := from; i < len(b.Nodes); i++ {
			if b == target && i == tidx {
				if isTrue {
					res = true
				}
			}
			if v, ok := completeAssign(fn, b.Nodes[i], cpath); ok {
				isTrue = v
			}
		}
		if b == target && tidx >= len(b.Nodes) && isTrue {
			res = true
		}
		for _, s := range b.Succs {
			k := st{s, isTrue}
			if !seen[k] {
				seen[k] = true
				walk(s, 0, isTrue)
			}
		}
	}
	walk(g.Blocks[0], 0, init)
	return res
}

func runC06Limit(p *Prog, r *Report) {
	nTests, nHooks := 0, 0
	counterDone := map[string]bool{}
	for _, fn := range p.Funcs {
		info := fn.Info()
		g := fn.CFG()
		// the candidates variable returned by this function (type lang.Candidates)
		var cobj types.Object
		ast.Inspect(fn.Body, func(n ast.Node) bool {
			if _, ok := n.(*ast.FuncLit); ok {
				return false
			}
			if rs, ok := n.(*ast.ReturnStmt); ok && len(rs.Results) > 0 {
				if id, ok := ast.Unparen(rs.Results[0]).(*ast.Ident); ok {
					if t := info.TypeOf(id); t != nil && typeIs(t, "hcl-lang/lang", "Candidates") {
						cobj = info.ObjectOf(id)
					}
				}
			}
			return true
		})
		for _, b := range g.Blocks {
			if len(b.Succs) != 2 || len(b.Nodes) == 0 {
				continue
			}
			cond, ok := b.Nodes[len(b.Nodes)-1].(ast.Expr)
			if !ok {
				continue
			}
			// (a) limit reached ⇒ incomplete
			ast.Inspect(cond, func(n ast.Node) bool { return true })
			atoms := decompose(cond, true, nil)
			_ = atoms
			if counter, reachedWhenTrue, ok := isLimitTest(fn, cond); ok {
				nTests++
				ck := fn.Name + "|" + exprStr(counter)
				if !counterDone[ck] {
					counterDone[ck] = true
					c06Counter(p, r, fn, cond, counter)
				}
				if cobj != nil {
					cpath := fn.Canon(&ast.Ident{Name: cobj.Name(), NamePos: cobj.Pos()})
					cpath = pathOfObj(cobj)
					succ := b.Succs[0]
					if !reachedWhenTrue {
						succ = b.Succs[1]
					}
					init := mayBeTrueAt(fn, cpath, cobj, b, len(b.Nodes)-1)
					bad := completeStateFrom(fn, succ, 0, init, cpath)
					if ex, ok := c06Exceptions[fn.Name+"|limit test "+exprStr(cond)]; ok && len(bad) > 0 {
						r.Add("C06.limit-incomplete", fn.Name, "limit test "+exprStr(cond), p.Pos(cond), Excepted, ex, true)
					} else if len(bad) == 0 {
						r.Add("C06.limit-incomplete", fn.Name, "limit test "+exprStr(cond), p.Pos(cond), OK, "every return reached after the limit test fires carries IsComplete == false", true)
					} else {
						r.Add("C06.limit-incomplete", fn.Name, "limit test "+exprStr(cond), p.Pos(cond), Violated,
							fmt.Sprintf("when the candidate limit is reached the list is returned at %s with IsComplete possibly still true (truncated list marked complete)", p.Pos(bad[0])), true)
					}
				}
			}
			// (a2) hooks present ⇒ incomplete
			if be, ok := ast.Unparen(cond).(*ast.BinaryExpr); ok && cobj != nil {
				if call, ok := ast.Unparen(be.X).(*ast.CallExpr); ok && isLenCall(info, call) {
					if sel, ok := ast.Unparen(call.Args[0]).(*ast.SelectorExpr); ok && sel.Sel.Name == "CompletionHooks" {
						z, isZ := constInt(info, be.Y)
						if isZ && z == 0 && (be.Op == token.GTR || be.Op == token.NEQ) {
							nHooks++
							cpath := pathOfObj(cobj)
							bad := completeStateFrom(fn, b.Succs[0], 0, true, cpath)
							if len(bad) == 0 {
								r.Add("C06.hooks-incomplete", fn.Name, "hooks test "+exprStr(cond), p.Pos(cond), OK, "whenever completion hooks are registered every return carries IsComplete == false", true)
							} else {
								r.Add("C06.hooks-incomplete", fn.Name, "hooks test "+exprStr(cond), p.Pos(cond), Violated,
									fmt.Sprintf("completion hooks are registered for the attribute, yet the list can be returned at %s marked complete (a hook may add more for a longer prefix)", p.Pos(bad[0])), true)
							}
						}
					}
				}
			}
		}
	}
	r.ExpectMin("C06.limit-tests", nTests, 5)
	r.ExpectMin("C06.hooks-tests", nHooks, 1)
	r.Clauses = append(r.Clauses,
		"C06(a) on every CFG path that leaves a candidate-building function after its limit test fired, the returned lang.Candidates has IsComplete == false (typestate over assignments to the flag)",
		"C06(a2) whenever the attribute has completion hooks, every return of the value-completion function carries IsComplete == false",
		"C06(b) the variable compared with maxCandidates is a dedicated counter: initialised to len(list) (or 0 while the list is provably empty), incremented right after every single-element append to the list, re-initialised after every bulk append, and every append in a loop is dominated by the limit test")
}

func pathOfObj(o types.Object) string { return fmt.Sprintf("%s@%d", o.Name(), o.Pos()) }

// c06Counter: discipline of the counter compared with maxCandidates.
func c06Counter(p *Prog, r *Report, fn *Func, cond ast.Expr, counter ast.Expr) {
	info := fn.Info()
	id, ok := ast.Unparen(counter).(*ast.Ident)
	key := "counter of " + exprStr(cond)
	// the list being filled: append targets in this function of element type lang.Candidate
	var appends []*ast.AssignStmt
	listPaths := map[string]bool{}
	defer func() {}()
	collectAppends := func() {
		ast.Inspect(fn.Body, func(n ast.Node) bool {
			if lit, ok := n.(*ast.FuncLit); ok && lit != fn.Lit {
				return false
			}
			as, ok := n.(*ast.AssignStmt)
			if !ok || len(as.Lhs) != 1 || len(as.Rhs) != 1 {
				return true
			}
			call, ok := ast.Unparen(as.Rhs[0]).(*ast.CallExpr)
			if !ok || !isBuiltinCall(info, call, "append") || len(call.Args) < 2 {
				return true
			}
			lt := info.TypeOf(as.Lhs[0])
			if lt == nil {
				return true
			}
			if et := elemType(lt); et == nil || !typeIs(et, "hcl-lang/lang", "Candidate") {
				return true
			}
			if fn.Canon(as.Lhs[0]) == "" || fn.Canon(as.Lhs[0]) != fn.Canon(call.Args[0]) {
				return true
			}
			listPaths[fn.Canon(as.Lhs[0])] = true
			return true
		})
	}
	if !ok {
		// len(list) compared directly is fine — if it is the list that is being filled
		if call, isCall := ast.Unparen(counter).(*ast.CallExpr); isCall && isLenCall(info, call) {
			collectAppends()
			lp := fn.Canon(call.Args[0])
			if len(listPaths) > 0 && !listPaths[lp] {
				r.Add("C06.counter", fn.Name, key, p.Pos(cond), Violated,
					"the limit test reads the length of "+exprStr(call.Args[0])+", which is not the candidate list this function fills: candidates already in the list are not counted", true)
				return
			}
			r.Add("C06.counter", fn.Name, key, p.Pos(cond), OK, "the limit test reads len(list) directly", false)
			return
		}
		r.Add("C06.counter", fn.Name, key, p.Pos(cond), Violated, "the value compared with maxCandidates is not a counter variable nor len(list)", true)
		return
	}
	co := info.ObjectOf(id)
	listPaths = map[string]bool{}
	ast.Inspect(fn.Body, func(n ast.Node) bool {
		if lit, ok := n.(*ast.FuncLit); ok && lit != fn.Lit {
			return false
		}
		as, ok := n.(*ast.AssignStmt)
		if !ok || len(as.Lhs) != 1 || len(as.Rhs) != 1 {
			return true
		}
		call, ok := ast.Unparen(as.Rhs[0]).(*ast.CallExpr)
		if !ok || !isBuiltinCall(info, call, "append") || len(call.Args) < 2 {
			return true
		}
		lt := info.TypeOf(as.Lhs[0])
		if lt == nil {
			return true
		}
		if et := elemType(lt); et == nil || !typeIs(et, "hcl-lang/lang", "Candidate") {
			return true
		}
		if fn.Canon(as.Lhs[0]) == "" || fn.Canon(as.Lhs[0]) != fn.Canon(call.Args[0]) {
			return true
		}
		appends = append(appends, as)
		listPaths[fn.Canon(as.Lhs[0])] = true
		return true
	})
	// counter assignments
	var inits []ast.Node
	for _, a := range fn.Assignments(co) {
		switch s := a.(type) {
		case *ast.IncDecStmt:
			if s.Tok != token.INC {
				r.Add("C06.counter", fn.Name, key, p.Pos(s), Violated, "the candidate counter is decremented", true)
				return
			}
		case *ast.AssignStmt:
			inits = append(inits, s)
		case *ast.RangeStmt:
			r.Add("C06.counter", fn.Name, key, p.Pos(cond), Violated,
				"the value compared with maxCandidates is a range index, not a count of the candidates already in the list (candidates added before the loop are not counted)", true)
			return
		default:
			inits = append(inits, a)
		}
	}
	// each init: := len(list) or := 0 with no append able to reach it
	for _, in := range inits {
		as, ok := in.(*ast.AssignStmt)
		if !ok || len(as.Lhs) != len(as.Rhs) {
			r.Add("C06.counter", fn.Name, key, p.Pos(in), Violated, "unsupported counter initialisation", true)
			return
		}
		for i, l := range as.Lhs {
			if lid, ok := ast.Unparen(l).(*ast.Ident); !ok || info.ObjectOf(lid) != co {
				continue
			}
			rhs := ast.Unparen(as.Rhs[i])
			if call, ok := rhs.(*ast.CallExpr); ok && isLenCall(info, call) && listPaths[fn.Canon(call.Args[0])] {
				continue
			}
			if z, ok := constInt(info, rhs); ok && z == 0 {
				// no append may reach this initialisation
				for _, ap := range appends {
					reach := false
					ab := fn.BlockOf(ap)
					ib := fn.BlockOf(as)
					if ab == nil || ib == nil {
						continue
					}
					if ab == ib {
						reach = nodeIndexIn(fn, ab, ap) < nodeIndexIn(fn, ib, as)
					} else {
						reach = fn.reachFrom([]*cfg.Block{ab}, nil)[ib]
					}
					if reach {
						r.Add("C06.counter", fn.Name, key, p.Pos(as), Violated, "the counter is reset to 0 although candidates appended at "+p.Pos(ap)+" are already in the list", true)
						return
					}
				}
				continue
			}
			r.Add("C06.counter", fn.Name, key, p.Pos(as), Violated, "the counter is initialised with "+exprStr(rhs)+", neither 0 nor len(list)", true)
			return
		}
	}
	// every append after the counter exists: single element → followed by counter++ in the
	// same block; bulk → followed by re-initialisation; and dominated by the limit test
	for _, ap := range appends {
		call := ast.Unparen(ap.Rhs[0]).(*ast.CallExpr)
		b := fn.BlockOf(ap)
		if b == nil {
			continue
		}
		// does the counter exist yet? (its first init dominates the append or can reach it)
		live := false
		for _, in := range inits {
			ib := fn.BlockOf(in)
			if ib == nil {
				continue
			}
			if ib == b && nodeIndexIn(fn, ib, in) < nodeIndexIn(fn, b, ap) {
				live = true
			} else if ib != b && fn.reachFrom([]*cfg.Block{ib}, nil)[b] {
				live = true
			}
		}
		bulk := call.Ellipsis.IsValid() || len(call.Args) > 2
		followed := false
		i0 := nodeIndexIn(fn, b, ap)
		if bulk {
			// every path from the bulk append to a limit test on this counter must cross a
			// re-initialisation of the counter
			initSet := map[ast.Node]bool{}
			for _, in := range inits {
				initSet[fn.CFGNodeOf(in)] = true
			}
			reachedTest := false
			cfgForward(fn, b, i0+1, func(n ast.Node) bool {
				if initSet[n] {
					return true
				}
				if e, ok := n.(ast.Expr); ok {
					if cnt, _, ok := isLimitTest(fn, e); ok {
						if cid, ok := ast.Unparen(cnt).(*ast.Ident); ok && info.ObjectOf(cid) == co {
							reachedTest = true
						}
					}
				}
				return false
			})
			_ = live
			followed = !reachedTest
		} else {
			for i := i0 + 1; i < len(b.Nodes); i++ {
				if inc, ok := b.Nodes[i].(*ast.IncDecStmt); ok && inc.Tok == token.INC {
					if iid, ok := ast.Unparen(inc.X).(*ast.Ident); ok && info.ObjectOf(iid) == co {
						followed = true
					}
				}
			}
		}
		akey := "append at " + fn.Name + " " + exprStr(call.Args[len(call.Args)-1])
		_ = akey
		construct := "append of " + short(exprStr(call.Args[1]), 40)
		if !followed {
			r.Add("C06.counter", fn.Name, construct, p.Pos(ap), Violated, "candidates are appended without advancing (or re-initialising) the counter that is compared with maxCandidates: they are neither counted nor limited", true)
			continue
		}
		if !bulk {
			// dominated by "limit not reached"
			okDom := fn.GuardsAt(ap).Holds(func(a *Atom) bool {
				if a.E == nil {
					return false
				}
				cnt, reachedWhenTrue, ok := isLimitTest(fn, a.E)
				if !ok {
					return false
				}
				cid, ok := ast.Unparen(cnt).(*ast.Ident)
				if !ok || info.ObjectOf(cid) != co {
					return false
				}
				return a.Pol != reachedWhenTrue
			})
			if !okDom {
				r.Add("C06.counter", fn.Name, construct, p.Pos(ap), Violated, "this append is not dominated by the limit test on its counter", true)
				continue
			}
		}
		r.Add("C06.counter", fn.Name, construct, p.Pos(ap), OK, "counted and limited", true)
	}
}

func allInitsAfter(fn *Func, inits []ast.Node, ap ast.Node) bool {
	for _, in := range inits {
		if !fn.Dominates(ap, in) {
			return false
		}
	}
	return true
}

var c06Exceptions = map[string]string{
	"decoder.(*PathDecoder).attrValueCompletionAtPos|limit test uint(count) < d.maxCandidates": "before the loop the list holds only hook candidates (count = len(list) right after the hooks block): the limit can be reached here only when hooks filled the list, and then IsComplete was already cleared (rule C06.hooks-incomplete covers that branch); the engine cannot correlate count >= max with the hooks branch",
}
