package main

// E15.carried-accumulator — a text (string, strings.Builder, bytes.Buffer) that gathers the
// sub-items of ONE element of an outer loop (it is appended to in a loop nested in the outer
// loop's body), is read in the outer loop's body, and is neither re-initialised in that body
// nor used after the outer loop: it is per-element scratch space that was declared one level
// too far out, so every element after the first also carries the sub-items of its
// predecessors. (A whole-result accumulator is read after the loop; a running prefix is
// appended to in the outer body itself, not in a nested loop over the element's parts.)

import (
	"go/ast"
	"go/token"
	"go/types"
)

func isTextAccumType(t types.Type) bool {
	if t == nil {
		return false
	}
	if b, ok := t.Underlying().(*types.Basic); ok && b.Info()&types.IsString != 0 {
		return true
	}
	if pt, ok := t.(*types.Pointer); ok {
		t = pt.Elem()
	}
	if n := namedOf(t); n != nil && n.Obj().Pkg() != nil {
		pn := n.Obj().Pkg().Path() + "." + n.Obj().Name()
		return pn == "strings.Builder" || pn == "bytes.Buffer"
	}
	return false
}

type accumUse struct {
	node  ast.Node
	kind  int // 0 read, 1 append, 2 reset
	inner bool
}

func runCarriedAccumulator(p *Prog, r *Report) {
	nLoops, nCand := 0, 0
	for _, fn := range p.Funcs {
		if fn.Body == nil || fn.Parent != nil {
			continue
		}
		info := fn.Info()
		var loops []ast.Stmt
		ast.Inspect(fn.Body, func(n ast.Node) bool {
			switch n.(type) {
			case *ast.RangeStmt, *ast.ForStmt:
				loops = append(loops, n.(ast.Stmt))
			}
			return true
		})
		for _, outer := range loops {
			var body *ast.BlockStmt
			switch l := outer.(type) {
			case *ast.RangeStmt:
				body = l.Body
			case *ast.ForStmt:
				body = l.Body
			}
			// nested loops directly or indirectly in the body
			hasInner := false
			ast.Inspect(body, func(n ast.Node) bool {
				switch n.(type) {
				case *ast.RangeStmt, *ast.ForStmt:
					hasInner = true
				}
				return !hasInner
			})
			if !hasInner {
				continue
			}
			nLoops++
			uses := map[*types.Var][]accumUse{}
			innerDepth := 0
			var walk func(n ast.Node)
			classify := func(id *ast.Ident) (int, bool) {
				// returns kind; ok=false when the identifier is not a use to record
				par := p.Parent(id)
				switch x := par.(type) {
				case *ast.AssignStmt:
					for _, l := range x.Lhs {
						if l == ast.Expr(id) {
							if x.Tok == token.ADD_ASSIGN {
								return 1, true
							}
							if x.Tok == token.ASSIGN || x.Tok == token.DEFINE {
								// s = s + … is an append; any other assignment re-initialises
								if len(x.Rhs) == 1 {
									if b, ok := ast.Unparen(x.Rhs[0]).(*ast.BinaryExpr); ok && b.Op == token.ADD {
										if bid, ok := ast.Unparen(b.X).(*ast.Ident); ok && info.ObjectOf(bid) == info.ObjectOf(id) {
											return 1, true
										}
									}
								}
								return 2, true
							}
						}
					}
				case *ast.BinaryExpr:
					// the s of `s = s + …`
					if as, ok := p.Parent(x).(*ast.AssignStmt); ok && len(as.Lhs) == 1 && x.Op == token.ADD && x.X == ast.Expr(id) {
						if lid, ok := ast.Unparen(as.Lhs[0]).(*ast.Ident); ok && info.ObjectOf(lid) == info.ObjectOf(id) {
							return 1, true
						}
					}
				case *ast.SelectorExpr:
					if x.X == ast.Expr(id) {
						if call, ok := p.Parent(x).(*ast.CallExpr); ok && call.Fun == ast.Expr(x) {
							switch x.Sel.Name {
							case "WriteString", "WriteByte", "WriteRune", "Write", "Grow":
								return 1, true
							case "Reset":
								return 2, true
							}
						}
					}
				case *ast.UnaryExpr:
					if x.Op == token.AND {
						if call, ok := p.Parent(x).(*ast.CallExpr); ok && len(call.Args) > 0 && call.Args[0] == ast.Expr(x) {
							if f := calleeOf(info, call); f != nil && f.Pkg() != nil && f.Pkg().Path() == "fmt" && (f.Name() == "Fprintf" || f.Name() == "Fprint" || f.Name() == "Fprintln") {
								return 1, true
							}
						}
					}
				}
				return 0, true
			}
			walk = func(n ast.Node) {
				ast.Inspect(n, func(x ast.Node) bool {
					switch v := x.(type) {
					case *ast.FuncLit:
						return false
					case *ast.RangeStmt:
						if x != n {
							innerDepth++
							walk(v.Body)
							innerDepth--
							// the ranged expression is evaluated in the enclosing body
							innerSave := innerDepth
							ast.Inspect(v.X, func(y ast.Node) bool {
								if id, ok := y.(*ast.Ident); ok {
									if vv, ok := info.ObjectOf(id).(*types.Var); ok && isTextAccumType(vv.Type()) {
										uses[vv] = append(uses[vv], accumUse{id, 0, innerSave > 0})
									}
								}
								return true
							})
							return false
						}
					case *ast.ForStmt:
						if x != n {
							innerDepth++
							walk(v.Body)
							innerDepth--
							return false
						}
					case *ast.Ident:
						vv, ok := info.ObjectOf(v).(*types.Var)
						if !ok || vv.IsField() || !isTextAccumType(vv.Type()) {
							return true
						}
						if _, isDef := info.Defs[v]; isDef {
							if vv.Pos() >= body.Pos() && vv.Pos() < body.End() {
								return true
							}
						}
						k, ok := classify(v)
						if ok {
							uses[vv] = append(uses[vv], accumUse{v, k, innerDepth > 0})
						}
					}
					return true
				})
			}
			walk(body)
			for v, us := range uses {
				if v.Pos() >= body.Pos() && v.Pos() < body.End() {
					// declared in the outer loop's body: fresh for every element
					for _, u := range us {
						if u.kind == 1 && u.inner && p.Parent(u.node) != nil {
							direct := true
							for q := p.Parent(u.node); q != nil && q != ast.Node(body); q = p.Parent(q) {
								if bs, ok := q.(*ast.BlockStmt); ok && v.Pos() >= bs.Pos() && v.Pos() < bs.End() {
									switch p.Parent(bs).(type) {
									case *ast.RangeStmt, *ast.ForStmt:
										direct = false // declared in the nested loop itself
									}
									break
								}
							}
							if direct {
								nCand++
								r.Add("E15.carried-accumulator", fn.Name, v.Name()+" over "+relLoopName(outer), p.Pos(outer), OK, "declared in the outer loop's body: fresh for every element", true)
							}
							break
						}
					}
					continue
				}
				if v.Pos() >= outer.Pos() && v.Pos() < outer.End() {
					continue
				}
				if rootOf(fn).isParam(v) || v.Pkg() == nil || v.Parent() == v.Pkg().Scope() {
					continue
				}
				innerAppend, outerAppend, read, reset := false, false, false, false
				var firstRead ast.Node
				for _, u := range us {
					switch u.kind {
					case 1:
						if u.inner {
							innerAppend = true
						} else {
							outerAppend = true
						}
					case 2:
						reset = true
					case 0:
						if !u.inner {
							read = true
							if firstRead == nil {
								firstRead = u.node
							}
						}
					}
				}
				if !innerAppend {
					continue
				}
				nCand++
				// used after (or outside) the outer loop: a whole-result accumulator
				usedOutside := false
				ast.Inspect(fn.Body, func(x ast.Node) bool {
					id, ok := x.(*ast.Ident)
					if !ok || info.ObjectOf(id) != types.Object(v) {
						return true
					}
					if id.Pos() > outer.End() {
						usedOutside = true
					}
					return true
				})
				key := v.Name() + " over " + relLoopName(outer)
				switch {
				case reset:
					r.Add("E15.carried-accumulator", fn.Name, key, p.Pos(outer), OK, "re-initialised for every element of the outer loop", true)
				case usedOutside || outerAppend || !read:
					r.Add("E15.carried-accumulator", fn.Name, key, p.Pos(outer), OK, "a whole-result accumulator (used after the loop, or appended to by the outer loop itself)", false)
				default:
					r.Add("E15.carried-accumulator", fn.Name, key, p.Pos(firstRead), Violated,
						"the text "+v.Name()+" gathers the parts of one element (it is appended to in a loop nested in this loop's body) and is read once per element, but it is declared outside this loop, never re-initialised in it and not used after it: every element after the first also carries the parts of its predecessors", true)
				}
			}
		}
	}
	r.ExpectMin("E15.nested-loops-examined", nLoops, 10)
	r.Counts["E15.text-accumulators-of-nested-loops"] = nCand
	r.Clauses = append(r.Clauses, "E15.carried-accumulator: a string/Builder/Buffer appended to in a loop nested in an outer loop's body and read once per outer element is re-initialised in that body, or is a whole-result accumulator (used after the outer loop or appended to by the outer body itself)")
}

// E15.append-after-sized-make — `x = make(T, n)` (n not the constant 0) creates n zero
// elements; a later `x = append(x, …)` adds behind them. When nothing ever stores into
// x[i] (nor copies into x), the n zero values stay in the result next to the appended ones.
func runAppendAfterSizedMake(p *Prog, r *Report) {
	nMakes := 0
	for _, fn := range p.Funcs {
		if fn.Body == nil || fn.Parent != nil {
			continue
		}
		info := fn.Info()
		type def struct {
			as   *ast.AssignStmt
			mk   *ast.CallExpr
			path string
			lhs  string
		}
		var makes []def
		appends := map[string][]*ast.AssignStmt{}
		others := map[string]int{}
		filled := map[string]bool{}
		ast.Inspect(fn.Body, func(n ast.Node) bool {
			switch s := n.(type) {
			case *ast.AssignStmt:
				if len(s.Lhs) != len(s.Rhs) {
					for _, l := range s.Lhs {
						if pth := pathOf(info, l); pth != "" {
							others[pth]++
						}
					}
					return true
				}
				for i, l := range s.Lhs {
					if ix, ok := ast.Unparen(l).(*ast.IndexExpr); ok {
						if pth := pathOf(info, ix.X); pth != "" {
							filled[pth] = true
						}
						continue
					}
					pth := pathOf(info, l)
					if pth == "" {
						continue
					}
					rhs := ast.Unparen(s.Rhs[i])
					if c, ok := rhs.(*ast.CallExpr); ok {
						if isBuiltinCall(info, c, "make") && len(c.Args) >= 2 {
							if _, isSlice := info.TypeOf(c).Underlying().(*types.Slice); isSlice {
								if v, isConst := constInt(info, c.Args[1]); !isConst || v != 0 {
									makes = append(makes, def{s, c, pth, exprStr(l)})
									continue
								}
							}
						}
						if isBuiltinCall(info, c, "append") && len(c.Args) >= 1 && pathOf(info, c.Args[0]) == pth {
							appends[pth] = append(appends[pth], s)
							continue
						}
					}
					others[pth]++
				}
			case *ast.CallExpr:
				if isBuiltinCall(info, s, "copy") && len(s.Args) == 2 {
					e := ast.Unparen(s.Args[0])
					if sl, ok := e.(*ast.SliceExpr); ok {
						e = sl.X
					}
					if pth := pathOf(info, e); pth != "" {
						filled[pth] = true
					}
				}
			case *ast.RangeStmt:
				// for i := range x { x[i] = … } is covered by the index store
			case *ast.UnaryExpr:
				if s.Op == token.AND {
					e := ast.Unparen(s.X)
					if ix, ok := e.(*ast.IndexExpr); ok {
						e = ix.X
					}
					if pth := pathOf(info, e); pth != "" {
						filled[pth] = true // address taken: written through the pointer
					}
				}
			}
			return true
		})
		for _, m := range makes {
			nMakes++
			key := m.lhs + " = " + exprStr(m.mk)
			aps := appends[m.path]
			if len(aps) == 0 {
				r.Add("E15.append-after-sized-make", fn.Name, key, p.Pos(m.as), OK, "never appended to", false)
				continue
			}
			if filled[m.path] || others[m.path] > 0 {
				r.Add("E15.append-after-sized-make", fn.Name, key, p.Pos(m.as), OK, "the made elements are stored into by index (or the slice is re-assigned) before/besides the append", false)
				continue
			}
			reached := false
			for _, a := range aps {
				if fn.Dominates(m.as, a) || a.Pos() > m.as.Pos() {
					reached = true
					r.Add("E15.append-after-sized-make", fn.Name, key, p.Pos(a), Violated,
						"the slice was made with "+exprStr(m.mk.Args[1])+" zero elements and nothing ever stores into them; this append adds behind them, so the result carries "+exprStr(m.mk.Args[1])+" zero values in front of the real ones", true)
					break
				}
			}
			if !reached {
				r.Add("E15.append-after-sized-make", fn.Name, key, p.Pos(m.as), OK, "the appends precede the make", false)
			}
		}
	}
	r.ExpectMin("E15.sized-makes", nMakes, 8)
	r.Clauses = append(r.Clauses, "E15.append-after-sized-make: a slice made with a non-zero length is filled by index (or copy); it is not appended to while its made elements are never stored into")
}
