package main

// E15.carried-accumulator — a text (string, strings.Builder, bytes.Buffer) that gathers the
// sub-items of ONE element of an outer loop (it is appended to in a loop nested in the outer
// loop's body), is read in the outer loop's body, and is neither re-initialised in that body
// nor used after the outer loop: it is per-element scratch space that was declared one level
// too far out, so every element after the first also carries the sub-items of its
// predecessors. (A whole-result accumulator is read after the loop; a running prefix is
// appended to in the outer body itself, not in a nested loop over the element's parts.)

import (
	"fmt"
	"go/ast"
	"go/token"
	"go/types"
	"strings"
)

func isTextAccumType(t types.Type) bool {
	if t == nil {
		return false
	}
	if b, ok := t.Underlying().(*types.Basic); ok && b.Info()&types.IsString != 0 {
		return true
	}
	if pt, ok := t.(*types.Pointer); ok {
		t = pt.Elem()
	}
	if n := namedOf(t); n != nil && n.Obj().Pkg() != nil {
		pn := n.Obj().Pkg().Path() + "." + n.Obj().Name()
		return pn == "strings.Builder" || pn == "bytes.Buffer"
	}
	return false
}

type accumUse struct {
	node  ast.Node
	kind  int // 0 read, 1 append, 2 reset
	inner bool
}

func runCarriedAccumulator(p *Prog, r *Report) {
	nLoops, nCand := 0, 0
	for _, fn := range p.Funcs {
		if fn.Body == nil || fn.Parent != nil {
			continue
		}
		info := fn.Info()
		var loops []ast.Stmt
		ast.Inspect(fn.Body, func(n ast.Node) bool {
			switch n.(type) {
			case *ast.RangeStmt, *ast.ForStmt:
				loops = append(loops, n.(ast.Stmt))
			}
			return true
		})
		for _, outer := range loops {
			var body *ast.BlockStmt
			switch l := outer.(type) {
			case *ast.RangeStmt:
				body = l.Body
			case *ast.ForStmt:
				body = l.Body
			}
			// nested loops directly or indirectly in the body
			hasInner := false
			ast.Inspect(body, func(n ast.Node) bool {
				switch n.(type) {
				case *ast.RangeStmt, *ast.ForStmt:
					hasInner = true
				}
				return !hasInner
			})
			if !hasInner {
				continue
			}
			nLoops++
			uses := map[*types.Var][]accumUse{}
			innerDepth := 0
			var walk func(n ast.Node)
			classify := func(id *ast.Ident) (int, bool) {
				// returns kind; ok=false when the identifier is not a use to record
				par := p.Parent(id)
				switch x := par.(type) {
				case *ast.AssignStmt:
					for _, l := range x.Lhs {
						if l == ast.Expr(id) {
							if x.Tok == token.ADD_ASSIGN {
								return 1, true
							}
							if x.Tok == token.ASSIGN || x.Tok == token.DEFINE {
								// s = s + … is an append; any other assignment re-initialises
								if len(x.Rhs) == 1 {
									if b, ok := ast.Unparen(x.Rhs[0]).(*ast.BinaryExpr); ok && b.Op == token.ADD {
										if bid, ok := ast.Unparen(b.X).(*ast.Ident); ok && info.ObjectOf(bid) == info.ObjectOf(id) {
											return 1, true
										}
									}
								}
								return 2, true
							}
						}
					}
				case *ast.BinaryExpr:
					// the s of `s = s + …`
					if as, ok := p.Parent(x).(*ast.AssignStmt); ok && len(as.Lhs) == 1 && x.Op == token.ADD && x.X == ast.Expr(id) {
						if lid, ok := ast.Unparen(as.Lhs[0]).(*ast.Ident); ok && info.ObjectOf(lid) == info.ObjectOf(id) {
							return 1, true
						}
					}
				case *ast.SelectorExpr:
					if x.X == ast.Expr(id) {
						if call, ok := p.Parent(x).(*ast.CallExpr); ok && call.Fun == ast.Expr(x) {
							switch x.Sel.Name {
							case "WriteString", "WriteByte", "WriteRune", "Write", "Grow":
								return 1, true
							case "Reset":
								return 2, true
							}
						}
					}
				case *ast.UnaryExpr:
					if x.Op == token.AND {
						if call, ok := p.Parent(x).(*ast.CallExpr); ok && len(call.Args) > 0 && call.Args[0] == ast.Expr(x) {
							if f := calleeOf(info, call); f != nil && f.Pkg() != nil && f.Pkg().Path() == "fmt" && (f.Name() == "Fprintf" || f.Name() == "Fprint" || f.Name() == "Fprintln") {
								return 1, true
							}
						}
					}
				}
				return 0, true
			}
			walk = func(n ast.Node) {
				ast.Inspect(n, func(x ast.Node) bool {
					switch v := x.(type) {
					case *ast.FuncLit:
						return false
					case *ast.RangeStmt:
						if x != n {
							innerDepth++
							walk(v.Body)
							innerDepth--
							// the ranged expression is evaluated in the enclosing body
							innerSave := innerDepth
							ast.Inspect(v.X, func(y ast.Node) bool {
								if id, ok := y.(*ast.Ident); ok {
									if vv, ok := info.ObjectOf(id).(*types.Var); ok && isTextAccumType(vv.Type()) {
										uses[vv] = append(uses[vv], accumUse{id, 0, innerSave > 0})
									}
								}
								return true
							})
							return false
						}
					case *ast.ForStmt:
						if x != n {
							innerDepth++
							walk(v.Body)
							innerDepth--
							return false
						}
					case *ast.CallExpr:
						// a local closure that appends to a captured text: the call appends
						if cid, ok := ast.Unparen(v.Fun).(*ast.Ident); ok {
							if co := info.ObjectOf(cid); co != nil {
								if def := fn.SingleDef(co); def != nil {
									if lit, ok := ast.Unparen(def).(*ast.FuncLit); ok {
										ast.Inspect(lit.Body, func(z ast.Node) bool {
											zid, ok := z.(*ast.Ident)
											if !ok {
												return true
											}
											zv, ok := info.ObjectOf(zid).(*types.Var)
											if !ok || zv.IsField() || !isTextAccumType(zv.Type()) {
												return true
											}
											if zv.Pos() >= lit.Pos() && zv.Pos() < lit.End() {
												return true
											}
											if k, ok := classify(zid); ok && k == 1 {
												uses[zv] = append(uses[zv], accumUse{v, 1, innerDepth > 0})
											}
											return true
										})
									}
								}
							}
						}
					case *ast.Ident:
						vv, ok := info.ObjectOf(v).(*types.Var)
						if !ok || vv.IsField() || !isTextAccumType(vv.Type()) {
							return true
						}
						if _, isDef := info.Defs[v]; isDef {
							if vv.Pos() >= body.Pos() && vv.Pos() < body.End() {
								return true
							}
						}
						k, ok := classify(v)
						if ok {
							uses[vv] = append(uses[vv], accumUse{v, k, innerDepth > 0})
						}
					}
					return true
				})
			}
			walk(body)
			for v, us := range uses {
				if v.Pos() >= body.Pos() && v.Pos() < body.End() {
					// declared in the outer loop's body: fresh for every element
					for _, u := range us {
						if u.kind == 1 && u.inner && p.Parent(u.node) != nil {
							direct := true
							for q := p.Parent(u.node); q != nil && q != ast.Node(body); q = p.Parent(q) {
								if bs, ok := q.(*ast.BlockStmt); ok && v.Pos() >= bs.Pos() && v.Pos() < bs.End() {
									switch p.Parent(bs).(type) {
									case *ast.RangeStmt, *ast.ForStmt:
										direct = false // declared in the nested loop itself
									}
									break
								}
							}
							if direct {
								nCand++
								r.Add("E15.carried-accumulator", fn.Name, v.Name()+" over "+relLoopName(outer), p.Pos(outer), OK, "declared in the outer loop's body: fresh for every element", true)
							}
							break
						}
					}
					continue
				}
				if v.Pos() >= outer.Pos() && v.Pos() < outer.End() {
					continue
				}
				if rootOf(fn).isParam(v) || v.Pkg() == nil || v.Parent() == v.Pkg().Scope() {
					continue
				}
				innerAppend, outerAppend, read, reset := false, false, false, false
				var firstRead ast.Node
				for _, u := range us {
					switch u.kind {
					case 1:
						if u.inner {
							innerAppend = true
						} else {
							outerAppend = true
						}
					case 2:
						reset = true
					case 0:
						if !u.inner {
							read = true
							if firstRead == nil {
								firstRead = u.node
							}
						}
					}
				}
				if !innerAppend {
					continue
				}
				nCand++
				// used after (or outside) the outer loop: a whole-result accumulator
				usedOutside := false
				ast.Inspect(fn.Body, func(x ast.Node) bool {
					id, ok := x.(*ast.Ident)
					if !ok || info.ObjectOf(id) != types.Object(v) {
						return true
					}
					if id.Pos() > outer.End() {
						usedOutside = true
					}
					return true
				})
				key := v.Name() + " over " + relLoopName(outer)
				switch {
				case reset:
					r.Add("E15.carried-accumulator", fn.Name, key, p.Pos(outer), OK, "re-initialised for every element of the outer loop", true)
				case usedOutside || outerAppend || !read:
					r.Add("E15.carried-accumulator", fn.Name, key, p.Pos(outer), OK, "a whole-result accumulator (used after the loop, or appended to by the outer loop itself)", false)
				default:
					r.Add("E15.carried-accumulator", fn.Name, key, p.Pos(firstRead), Violated,
						"the text "+v.Name()+" gathers the parts of one element (it is appended to in a loop nested in this loop's body) and is read once per element, but it is declared outside this loop, never re-initialised in it and not used after it: every element after the first also carries the parts of its predecessors", true)
				}
			}
		}
	}
	r.ExpectMin("E15.nested-loops-examined", nLoops, 10)
	r.Counts["E15.text-accumulators-of-nested-loops"] = nCand
	r.Clauses = append(r.Clauses, "E15.carried-accumulator: a string/Builder/Buffer appended to in a loop nested in an outer loop's body and read once per outer element is re-initialised in that body, or is a whole-result accumulator (used after the outer loop or appended to by the outer body itself)")
}

// E15.append-after-sized-make — `x = make(T, n)` (n not the constant 0) creates n zero
// elements; a later `x = append(x, …)` adds behind them. When nothing ever stores into
// x[i] (nor copies into x), the n zero values stay in the result next to the appended ones.
func runAppendAfterSizedMake(p *Prog, r *Report) {
	nMakes := 0
	for _, fn := range p.Funcs {
		if fn.Body == nil || fn.Parent != nil {
			continue
		}
		info := fn.Info()
		type def struct {
			as   *ast.AssignStmt
			mk   *ast.CallExpr
			path string
			lhs  string
		}
		var makes []def
		appends := map[string][]*ast.AssignStmt{}
		others := map[string]int{}
		filled := map[string]bool{}
		ast.Inspect(fn.Body, func(n ast.Node) bool {
			switch s := n.(type) {
			case *ast.AssignStmt:
				if len(s.Lhs) != len(s.Rhs) {
					for _, l := range s.Lhs {
						if pth := pathOf(info, l); pth != "" {
							others[pth]++
						}
					}
					return true
				}
				for i, l := range s.Lhs {
					if ix, ok := ast.Unparen(l).(*ast.IndexExpr); ok {
						if pth := pathOf(info, ix.X); pth != "" {
							filled[pth] = true
						}
						continue
					}
					pth := pathOf(info, l)
					if pth == "" {
						continue
					}
					rhs := ast.Unparen(s.Rhs[i])
					if c, ok := rhs.(*ast.CallExpr); ok {
						if isBuiltinCall(info, c, "make") && len(c.Args) >= 2 {
							if _, isSlice := info.TypeOf(c).Underlying().(*types.Slice); isSlice {
								if v, isConst := constInt(info, c.Args[1]); !isConst || v != 0 {
									makes = append(makes, def{s, c, pth, exprStr(l)})
									continue
								}
							}
						}
						if isBuiltinCall(info, c, "append") && len(c.Args) >= 1 && pathOf(info, c.Args[0]) == pth {
							appends[pth] = append(appends[pth], s)
							continue
						}
					}
					others[pth]++
				}
			case *ast.CallExpr:
				if isBuiltinCall(info, s, "copy") && len(s.Args) == 2 {
					e := ast.Unparen(s.Args[0])
					if sl, ok := e.(*ast.SliceExpr); ok {
						e = sl.X
					}
					if pth := pathOf(info, e); pth != "" {
						filled[pth] = true
					}
				}
			case *ast.RangeStmt:
				// for i := range x { x[i] = … } is covered by the index store
			case *ast.UnaryExpr:
				if s.Op == token.AND {
					e := ast.Unparen(s.X)
					if ix, ok := e.(*ast.IndexExpr); ok {
						e = ix.X
					}
					if pth := pathOf(info, e); pth != "" {
						filled[pth] = true // address taken: written through the pointer
					}
				}
			}
			return true
		})
		for _, m := range makes {
			nMakes++
			key := m.lhs + " = " + exprStr(m.mk)
			aps := appends[m.path]
			if len(aps) == 0 {
				r.Add("E15.append-after-sized-make", fn.Name, key, p.Pos(m.as), OK, "never appended to", false)
				continue
			}
			if filled[m.path] || others[m.path] > 0 {
				r.Add("E15.append-after-sized-make", fn.Name, key, p.Pos(m.as), OK, "the made elements are stored into by index (or the slice is re-assigned) before/besides the append", false)
				continue
			}
			reached := false
			for _, a := range aps {
				if fn.Dominates(m.as, a) || a.Pos() > m.as.Pos() {
					reached = true
					r.Add("E15.append-after-sized-make", fn.Name, key, p.Pos(a), Violated,
						"the slice was made with "+exprStr(m.mk.Args[1])+" zero elements and nothing ever stores into them; this append adds behind them, so the result carries "+exprStr(m.mk.Args[1])+" zero values in front of the real ones", true)
					break
				}
			}
			if !reached {
				r.Add("E15.append-after-sized-make", fn.Name, key, p.Pos(m.as), OK, "the appends precede the make", false)
			}
		}
	}
	r.ExpectMin("E15.sized-makes", nMakes, 8)
	r.Clauses = append(r.Clauses, "E15.append-after-sized-make: a slice made with a non-zero length is filled by index (or copy); it is not appended to while its made elements are never stored into")
}

// E15.partial-key-dedup — a loop that collects items and skips those whose key is already in
// a seen-set (`if seen[k] { continue }; …; seen[k] = true`) drops every later item with the
// same key. That is only harmless when the key *is* the item. When the key is a part of the
// item (one field of the appended value, or one of several values the appended literal is
// built from), distinct items that agree on that part are silently lost. Sites where this is
// the reviewed intention are listed with their reason.
var partialKeyDedupExceptions = map[string]string{
	"decoder.(*PathDecoder).labelCandidatesFromDependentSchema|foundCandidateNames": "reviewed: dependent keys are duplicated where one key is labels-only and another has labels+attributes; for completing the label itself only the label value matters (source comment), and the first body schema in sorted key order supplies detail/description",
}

func runPartialKeyDedup(p *Prog, r *Report) {
	nLoops, nSets := 0, 0
	for _, fn := range p.Funcs {
		if fn.Body == nil || fn.Parent != nil {
			continue
		}
		info := fn.Info()
		ast.Inspect(fn.Body, func(m ast.Node) bool {
			var body *ast.BlockStmt
			switch l := m.(type) {
			case *ast.RangeStmt:
				body = l.Body
			case *ast.ForStmt:
				body = l.Body
			default:
				return true
			}
			nLoops++
			// stores seen[k] = … and lookups seen[k] in this loop body (not in nested function literals)
			type use struct {
				ix    *ast.IndexExpr
				store bool
			}
			sets := map[types.Object][]use{}
			ast.Inspect(body, func(x ast.Node) bool {
				if _, ok := x.(*ast.FuncLit); ok {
					return false
				}
				ix, ok := x.(*ast.IndexExpr)
				if !ok {
					return true
				}
				id, ok := ast.Unparen(ix.X).(*ast.Ident)
				if !ok {
					return true
				}
				mt, ok := info.TypeOf(id).Underlying().(*types.Map)
				if !ok {
					return true
				}
				// set-like: bool or empty struct values
				switch vt := mt.Elem().Underlying().(type) {
				case *types.Basic:
					if vt.Kind() != types.Bool {
						return true
					}
				case *types.Struct:
					if vt.NumFields() != 0 {
						return true
					}
				default:
					return true
				}
				o := info.ObjectOf(id)
				if o == nil || (o.Pos() >= body.Pos() && o.Pos() < body.End()) {
					return true // a set of this iteration only
				}
				store := false
				if as, ok := p.Parent(ix).(*ast.AssignStmt); ok {
					for _, l := range as.Lhs {
						if l == ast.Expr(ix) {
							store = true
						}
					}
				}
				sets[o] = append(sets[o], use{ix, store})
				return true
			})
			for o, us := range sets {
				var key ast.Expr
				hasStore, hasLookup := false, false
				for _, u := range us {
					if u.store {
						hasStore = true
						key = u.ix.Index
					} else {
						hasLookup = true
					}
				}
				if !hasStore || !hasLookup {
					continue
				}
				// innermost loop containing both only: skip if an inner loop of `body` contains all uses
				inner := false
				ast.Inspect(body, func(x ast.Node) bool {
					switch l := x.(type) {
					case *ast.RangeStmt:
						if l.Body != body {
							all := true
							for _, u := range us {
								if !nodeContains(l.Body, u.ix) {
									all = false
								}
							}
							if all {
								inner = true
							}
						}
					case *ast.ForStmt:
						if l.Body != body {
							all := true
							for _, u := range us {
								if !nodeContains(l.Body, u.ix) {
									all = false
								}
							}
							if all {
								inner = true
							}
						}
					}
					return !inner
				})
				if inner {
					continue
				}
				// what the loop collects
				var items []ast.Expr
				ast.Inspect(body, func(x ast.Node) bool {
					if _, ok := x.(*ast.FuncLit); ok {
						return false
					}
					as, ok := x.(*ast.AssignStmt)
					if !ok || len(as.Rhs) != 1 {
						return true
					}
					c, ok := ast.Unparen(as.Rhs[0]).(*ast.CallExpr)
					if !ok || !isBuiltinCall(info, c, "append") || len(c.Args) < 2 {
						return true
					}
					if bo := baseObj(info, as.Lhs[0]); bo != nil && bo.Pos() >= body.Pos() && bo.Pos() < body.End() {
						return true
					}
					items = append(items, c.Args[1:]...)
					return true
				})
				if len(items) == 0 {
					continue
				}
				nSets++
				keyTxt := exprStr(key)
				partial := ""
				for _, it := range items {
					if exprStr(it) == keyTxt {
						continue
					}
					// other data the item is made of
					ast.Inspect(it, func(x ast.Node) bool {
						if partial != "" {
							return false
						}
						switch e := x.(type) {
						case *ast.SelectorExpr:
							if _, isPkg := pkgNameOf(info, e.X).(*types.PkgName); isPkg {
								return false
							}
							if exprStr(e) != keyTxt {
								if _, isVar := info.ObjectOf(e.Sel).(*types.Var); isVar {
									partial = exprStr(e)
								}
							}
							return false
						case *ast.Ident:
							if v, ok := info.ObjectOf(e).(*types.Var); ok && !v.IsField() && e.Name != keyTxt {
								if _, isKV := p.Parent(e).(*ast.KeyValueExpr); isKV && p.Parent(e).(*ast.KeyValueExpr).Key == ast.Expr(e) {
									return true
								}
								// the item itself, of which the key is a part
								partial = e.Name
							}
						}
						return true
					})
				}
				ckey := o.Name() + " keyed by " + keyTxt
				switch {
				case partial == "":
					r.Add("E15.partial-key-dedup", fn.Name, ckey, p.Pos(key), OK, "the seen-set is keyed by the collected item itself", true)
				default:
					if why, ok := partialKeyDedupExceptions[fn.Name+"|"+o.Name()]; ok {
						r.Add("E15.partial-key-dedup", fn.Name, ckey, p.Pos(key), Excepted, why, true)
					} else {
						r.Add("E15.partial-key-dedup", fn.Name, ckey, p.Pos(key), Violated,
							"items are skipped when "+keyTxt+" was seen before, but the collected item also carries "+partial+": distinct items that agree on "+keyTxt+" are silently dropped after the first", true)
					}
				}
			}
			return true
		})
	}
	r.ExpectMin("E15.loops-examined-for-dedup", nLoops, 150)
	r.Counts["E15.seen-sets"] = nSets
	r.Clauses = append(r.Clauses, "E15.partial-key-dedup: a collecting loop that skips items through a seen-set keys the set by the collected item itself, not by a part of it (reviewed exceptions listed)")
}

// E16.flag-overwrite — two independent boolean flags of one object (`x.IsOptional`,
// `x.IsSensitive`) each decide about the same variable in adjacent if statements by plain
// assignment. Flags are not mutually exclusive, so when both are set the first decision is
// overwritten unseen: what was meant as an accumulation ("optional, sensitive") shows only the
// last flag.
func runFlagOverwrite(p *Prog, r *Report) {
	nPairs := 0
	for _, fn := range p.Funcs {
		if fn.Body == nil || fn.Parent != nil {
			continue
		}
		info := fn.Info()
		flagOf := func(is *ast.IfStmt) (base string, field string, ok bool) {
			if is.Init != nil || is.Else != nil {
				return
			}
			sel, isSel := ast.Unparen(is.Cond).(*ast.SelectorExpr)
			if !isSel {
				return
			}
			v, isVar := info.ObjectOf(sel.Sel).(*types.Var)
			if !isVar || !v.IsField() {
				return
			}
			if b, isB := v.Type().Underlying().(*types.Basic); !isB || b.Kind() != types.Bool {
				return
			}
			return exprStr(sel.X), sel.Sel.Name, true
		}
		assigned := func(is *ast.IfStmt) (types.Object, ast.Expr) {
			if len(is.Body.List) != 1 {
				return nil, nil
			}
			as, ok := is.Body.List[0].(*ast.AssignStmt)
			if !ok || as.Tok != token.ASSIGN || len(as.Lhs) != 1 || len(as.Rhs) != 1 {
				return nil, nil
			}
			id, ok := as.Lhs[0].(*ast.Ident)
			if !ok {
				return nil, nil
			}
			// self-referential right-hand sides accumulate (x = x + …)
			self := false
			ast.Inspect(as.Rhs[0], func(z ast.Node) bool {
				if i2, ok := z.(*ast.Ident); ok && info.ObjectOf(i2) == info.ObjectOf(id) {
					self = true
				}
				return true
			})
			if self {
				return nil, nil
			}
			return info.ObjectOf(id), as.Rhs[0]
		}
		ast.Inspect(fn.Body, func(m ast.Node) bool {
			blk, ok := m.(*ast.BlockStmt)
			if !ok {
				return true
			}
			for i := 0; i+1 < len(blk.List); i++ {
				a, ok1 := blk.List[i].(*ast.IfStmt)
				b, ok2 := blk.List[i+1].(*ast.IfStmt)
				if !ok1 || !ok2 {
					continue
				}
				ba, fa, oka := flagOf(a)
				bb, fb, okb := flagOf(b)
				if !oka || !okb || ba != bb || fa == fb {
					continue
				}
				va, ea := assigned(a)
				vb, eb := assigned(b)
				if va == nil || va != vb {
					continue
				}
				nPairs++
				key := va.Name() + " under " + ba + "." + fa + " then " + bb + "." + fb
				if exprStr(ea) == exprStr(eb) {
					r.Add("E16.flag-overwrite", fn.Name, key, p.Pos(b), OK, "both flags assign the same value", false)
					continue
				}
				r.Add("E16.flag-overwrite", fn.Name, key, p.Pos(b), Violated,
					"the flags "+fa+" and "+fb+" of "+ba+" are independent; when both are set the value assigned for "+fa+" ("+exprStr(ea)+") is overwritten by the one for "+fb+" ("+exprStr(eb)+") before it is read", true)
			}
			return true
		})
	}
	r.Counts["E16.adjacent-flag-decisions"] = nPairs
	r.Clauses = append(r.Clauses, "E16.flag-overwrite: adjacent if statements on two different boolean fields of one object do not assign different values to the same variable by plain assignment")
}

// E14.result-position — the result analogue of E14.param-position. A function that hands the
// results of a self-recursive call on to its own caller (result i returned in position i)
// hands *all* of them on: the values belong together (a body schema and the dependency keys it
// was found under). Returning the recursive call's result in one position next to the outer
// frame's own variable in another pairs values of two different lookups.
func runResultPosition(p *Prog, r *Report) {
	n := 0
	for _, fn := range p.Funcs {
		if fn.Body == nil || fn.Lit != nil || fn.Obj == nil {
			continue
		}
		sig := fn.Obj.Type().(*types.Signature)
		if sig.Results().Len() < 2 {
			continue
		}
		info := fn.Info()
		ast.Inspect(fn.Body, func(m ast.Node) bool {
			as, ok := m.(*ast.AssignStmt)
			if !ok || len(as.Rhs) != 1 || len(as.Lhs) != sig.Results().Len() {
				return true
			}
			c, ok := ast.Unparen(as.Rhs[0]).(*ast.CallExpr)
			if !ok {
				return true
			}
			if f := calleeOf(info, c); f == nil || f != fn.Obj {
				return true
			}
			if as.Tok != token.DEFINE {
				return true // results threaded through existing variables (a running counter, an accumulator)
			}
			bound := make([]types.Object, len(as.Lhs))
			for i, l := range as.Lhs {
				if id, ok := l.(*ast.Ident); ok && id.Name != "_" {
					if _, isNew := info.Defs[id]; isNew && info.Defs[id] != nil {
						bound[i] = info.ObjectOf(id)
					}
				}
			}
			// returns that forward at least one bound result in its own position
			scope := p.Parent(as)
			if is, ok := scope.(*ast.IfStmt); ok && is.Init == ast.Stmt(as) {
				scope = is
			} else {
				scope = fn.Body
			}
			ast.Inspect(scope, func(k ast.Node) bool {
				if _, ok := k.(*ast.FuncLit); ok {
					return false
				}
				rs, ok := k.(*ast.ReturnStmt)
				if !ok || len(rs.Results) != len(bound) || rs.Pos() < as.Pos() {
					return true
				}
				forwards := false
				for i, res := range rs.Results {
					if id, ok := ast.Unparen(res).(*ast.Ident); ok && bound[i] != nil && info.ObjectOf(id) == bound[i] {
						forwards = true
					}
				}
				if !forwards {
					return true
				}
				n++
				var bad []string
				for i, res := range rs.Results {
					id, ok := ast.Unparen(res).(*ast.Ident)
					if !ok {
						continue // a literal / call: a fresh value
					}
					o := info.ObjectOf(id)
					if bound[i] != nil && o == bound[i] {
						continue
					}
					if _, isVar := o.(*types.Var); !isVar {
						continue // a constant (a status)
					}
					v := o.(*types.Var)
					if v.Pkg() != nil && v.Parent() == v.Pkg().Scope() {
						continue
					}
					// a variable of the outer frame in a position whose recursive result is dropped
					if !types.Identical(v.Type(), sig.Results().At(i).Type()) {
						continue
					}
					isOther := false
					for j := range bound {
						if bound[j] == o {
							isOther = true // a recursive result, only moved: E14.param-position's mirror
						}
					}
					what := "the outer frame's own " + id.Name
					if isOther {
						what = "the recursive call's result of another position (" + id.Name + ")"
					}
					bad = append(bad, fmt.Sprintf("position %d returns %s instead of the recursive call's result %d", i, what, i))
				}
				key := "return after recursive call " + exprStr(c.Fun)
				if len(bad) == 0 {
					r.Add("E14.result-position", fn.Name, key, p.Pos(rs), OK, "every forwarded position carries the recursive call's own result", true)
				} else {
					r.Add("E14.result-position", fn.Name, key, p.Pos(rs), Violated, strings.Join(bad, "; ")+": values of two different invocations are paired in one result", true)
				}
				return true
			})
			return true
		})
	}
	r.Counts["E14.forwarding-returns"] = n
	r.Clauses = append(r.Clauses, "E14.result-position: a return that forwards a result of a self-recursive call in its own position forwards the recursive call's result in every position that is a variable")
}

// E4.P6-interface-compare — `a == b` on two interface values panics at run time when both
// hold the same dynamic type and that type is not comparable (a slice type, a struct with a
// map or slice field). For an interface of the module with such an implementer (schema.OneOf
// is a slice, schema.Object has a map) the comparison is a latent panic; comparisons with nil
// and with values of concrete comparable types are fine.
func runInterfaceCompare(p *Prog, r *Report) {
	n := 0
	// module named types
	var named []*types.Named
	for _, pk := range p.Pkgs {
		sc := pk.Types.Scope()
		for _, nm := range sc.Names() {
			if tn, ok := sc.Lookup(nm).(*types.TypeName); ok && !tn.IsAlias() {
				if nt, ok := tn.Type().(*types.Named); ok {
					named = append(named, nt)
				}
			}
		}
	}
	uncomparableImpl := func(it *types.Interface) string {
		for _, nt := range named {
			if _, isIface := nt.Underlying().(*types.Interface); isIface {
				continue
			}
			for _, t := range []types.Type{nt, types.NewPointer(nt)} {
				if types.Implements(t, it) && !types.Comparable(t) {
					return nt.Obj().Pkg().Name() + "." + nt.Obj().Name()
				}
			}
		}
		return ""
	}
	for _, fn := range p.Funcs {
		if fn.Body == nil {
			continue
		}
		info := fn.Info()
		ast.Inspect(fn.Body, func(x ast.Node) bool {
			if lit, ok := x.(*ast.FuncLit); ok && lit != fn.Lit {
				return false
			}
			be, ok := x.(*ast.BinaryExpr)
			if !ok || (be.Op != token.EQL && be.Op != token.NEQ) {
				return true
			}
			if isNilIdent(info, be.X) || isNilIdent(info, be.Y) {
				return true
			}
			tx, ty := info.TypeOf(be.X), info.TypeOf(be.Y)
			if tx == nil || ty == nil {
				return true
			}
			ix, okx := tx.Underlying().(*types.Interface)
			iy, oky := ty.Underlying().(*types.Interface)
			if !okx || !oky {
				return true // one side concrete: the compiler demands it to be comparable
			}
			if tx.String() == "error" || ty.String() == "error" {
				return true
			}
			n++
			impl := uncomparableImpl(ix)
			if impl == "" {
				impl = uncomparableImpl(iy)
			}
			key := "compare " + exprStr(be)
			if impl == "" {
				r.Add("E4.P6-interface-compare", fn.Name, key, p.Pos(be), OK, "every module implementer of the interface is comparable", true)
			} else {
				r.Add("E4.P6-interface-compare", fn.Name, key, p.Pos(be), Violated,
					"both operands are interface values and "+impl+" (an implementer) is not comparable: when both hold that type the comparison panics at run time (comparing uncomparable type)", true)
			}
			return true
		})
	}
	r.Counts["E4.interface-comparisons"] = n
	r.Clauses = append(r.Clauses, "E4.P6 no == / != between two interface values whose interface has a non-comparable implementer in the module")
}

// E11.key-reader — schema keys are written by DependencyKeys.MarshalJSON (whose attribute
// entries carry fields — "expr":{"addr":…} / {"static":…} — that the reader type
// schema.ExpressionValue does not declare: it has no json tags and no UnmarshalJSON) and read
// back with encoding/json. The round trip only works with the tolerant reader: a decoder
// configured with DisallowUnknownFields rejects every key that has an attribute dependency.
// The rule forbids that configuration anywhere in the module and counts the key readers.
func runKeyReader(p *Prog, r *Report) {
	readers := 0
	for _, fn := range p.Funcs {
		if fn.Body == nil {
			continue
		}
		info := fn.Info()
		ast.Inspect(fn.Body, func(x ast.Node) bool {
			if lit, ok := x.(*ast.FuncLit); ok && lit != fn.Lit {
				return false
			}
			call, ok := x.(*ast.CallExpr)
			if !ok {
				return true
			}
			switch calleeFull(info, call) {
			case "encoding/json.Unmarshal":
				if len(call.Args) == 2 {
					if t := info.TypeOf(call.Args[1]); t != nil && typeIs(derefType(t), "hcl-lang/schema", "DependencyKeys") {
						readers++
						r.Add("E11.key-reader", fn.Name, "json.Unmarshal into DependencyKeys", p.Pos(call), OK, "the tolerant reader: fields of the written key that the reader type does not declare are ignored", true)
					}
				}
			case "(*encoding/json.Decoder).DisallowUnknownFields":
				r.Add("E11.key-reader", fn.Name, "DisallowUnknownFields", p.Pos(call), Violated,
					"a strict JSON decoder: schema keys carry fields (expr.addr / expr.static) that schema.ExpressionValue does not declare, so every key with an attribute dependency is rejected and its dependent body is lost", true)
			}
			return true
		})
	}
	r.Counts["E11.key-readers"] = readers
	r.Clauses = append(r.Clauses, "E11.key-reader: schema keys are decoded with the tolerant json.Unmarshal; no json.Decoder in the module is configured with DisallowUnknownFields")
}

// E15.double-accumulation — two loops over the same collection each add one fragment per
// element to the same accumulator (a string built with += / a slice built with append), the
// second loop is reached after the first on some path, and the accumulator is not
// re-initialised in between: every element contributes twice (labels rendered twice, a
// placeholder per label and then another one).
func runDoubleAccumulation(p *Prog, r *Report) {
	nPairs := 0
	for _, fn := range p.Funcs {
		if fn.Body == nil || fn.Parent != nil {
			continue
		}
		info := fn.Info()
		type accLoop struct {
			rs   *ast.RangeStmt
			accs map[types.Object]bool // accumulators appended to on every path through the body
		}
		var loops []accLoop
		// appendsOnAllPaths: objects that every path through the statement list appends to
		var coverStmts func(list []ast.Stmt) map[types.Object]bool
		appendTarget := func(s ast.Stmt) types.Object {
			as, ok := s.(*ast.AssignStmt)
			if !ok || len(as.Lhs) != 1 || len(as.Rhs) != 1 {
				return nil
			}
			id, ok := as.Lhs[0].(*ast.Ident)
			if !ok {
				return nil
			}
			o := info.ObjectOf(id)
			if as.Tok == token.ADD_ASSIGN {
				if b, ok := o.Type().Underlying().(*types.Basic); ok && b.Info()&types.IsString != 0 {
					return o
				}
				return nil
			}
			if as.Tok == token.ASSIGN {
				if c, ok := ast.Unparen(as.Rhs[0]).(*ast.CallExpr); ok && isBuiltinCall(info, c, "append") && len(c.Args) >= 2 {
					if aid, ok := ast.Unparen(c.Args[0]).(*ast.Ident); ok && info.ObjectOf(aid) == o {
						return o
					}
				}
			}
			return nil
		}
		coverStmts = func(list []ast.Stmt) map[types.Object]bool {
			out := map[types.Object]bool{}
			for _, s := range list {
				if o := appendTarget(s); o != nil {
					out[o] = true
					continue
				}
				// builder writes: b.WriteString(…), fmt.Fprintf(&b, …)
				if es, ok := s.(*ast.ExprStmt); ok {
					if call, ok := es.X.(*ast.CallExpr); ok {
						var dst ast.Expr
						switch calleeFull(info, call) {
						case "fmt.Fprintf", "fmt.Fprint", "fmt.Fprintln":
							if len(call.Args) > 0 {
								if u, ok := ast.Unparen(call.Args[0]).(*ast.UnaryExpr); ok && u.Op == token.AND {
									dst = u.X
								}
							}
						default:
							if sel, ok := call.Fun.(*ast.SelectorExpr); ok && (sel.Sel.Name == "WriteString" || sel.Sel.Name == "WriteByte" || sel.Sel.Name == "WriteRune") {
								dst = sel.X
							}
						}
						if id, ok := dst.(*ast.Ident); ok && isTextAccumType(info.TypeOf(id)) {
							out[info.ObjectOf(id)] = true
						}
					}
					continue
				}
				// a switch with a default clause: appended to on every path iff in every clause
				if sw, ok := s.(*ast.SwitchStmt); ok {
					var acc map[types.Object]bool
					hasDefault := false
					for _, c := range sw.Body.List {
						cc := c.(*ast.CaseClause)
						if cc.List == nil {
							hasDefault = true
						}
						m := coverStmts(cc.Body)
						if acc == nil {
							acc = m
						} else {
							for o := range acc {
								if !m[o] {
									delete(acc, o)
								}
							}
						}
					}
					if hasDefault {
						for o := range acc {
							out[o] = true
						}
					}
					continue
				}
				if is, ok := s.(*ast.IfStmt); ok && is.Else != nil {
					a := coverStmts(is.Body.List)
					var b map[types.Object]bool
					switch e := is.Else.(type) {
					case *ast.BlockStmt:
						b = coverStmts(e.List)
					case *ast.IfStmt:
						b = coverStmts([]ast.Stmt{e})
					}
					for o := range a {
						if b[o] {
							out[o] = true
						}
					}
				}
			}
			return out
		}
		ast.Inspect(fn.Body, func(n ast.Node) bool {
			if _, ok := n.(*ast.FuncLit); ok {
				return false
			}
			rs, ok := n.(*ast.RangeStmt)
			if !ok {
				if fs, isFor := n.(*ast.ForStmt); isFor {
					rs = countingAsRange(fs)
				}
			}
			if rs != nil {
				if accs := coverStmts(rs.Body.List); len(accs) > 0 {
					loops = append(loops, accLoop{rs, accs})
				}
			}
			return true
		})
		for i := 0; i < len(loops); i++ {
			for j := i + 1; j < len(loops); j++ {
				a, b := loops[i], loops[j]
				if nodeContains(a.rs, b.rs) || nodeContains(b.rs, a.rs) {
					continue
				}
				if exprStr(a.rs.X) != exprStr(b.rs.X) {
					continue
				}
				for o := range a.accs {
					if !b.accs[o] {
						continue
					}
					if o.Pos() >= a.rs.Pos() && o.Pos() < a.rs.End() {
						continue
					}
					nPairs++
					key := o.Name() + " over " + cmpText(a.rs.X) + " twice"
					// is the second loop reached from the first without a re-initialisation?
					reinit := false
					for _, asn := range fn.Assignments(o) {
						if as, ok := asn.(*ast.AssignStmt); ok && as.Pos() > a.rs.End() && as.End() < b.rs.Pos() && appendTarget(as) == nil {
							if fn.Dominates(as, b.rs.X) {
								reinit = true
							}
						}
					}
					// a Builder / Buffer emptied in between: acc.Reset()
					ast.Inspect(fn.Body, func(k ast.Node) bool {
						call, ok := k.(*ast.CallExpr)
						if !ok || call.Pos() < a.rs.End() || call.End() > b.rs.Pos() || len(call.Args) != 0 {
							return true
						}
						if sel, ok := ast.Unparen(call.Fun).(*ast.SelectorExpr); ok && sel.Sel.Name == "Reset" && isIdentObj(info, sel.X, o) && fn.Dominates(call, b.rs.X) {
							reinit = true
						}
						return true
					})
					if reinit || !reachesStmt(fn, a.rs.X, b.rs.X, nil) {
						r.Add("E15.double-accumulation", fn.Name, key, p.Pos(b.rs), OK, "the second loop is not reached after the first, or the accumulator is re-initialised in between", true)
						continue
					}
					r.Add("E15.double-accumulation", fn.Name, key, p.Pos(b.rs), Violated,
						"both loops add one fragment per element of "+cmpText(a.rs.X)+" to "+o.Name()+" on every path through their body, the second loop (here) is reached after the first ("+p.Pos(a.rs)+") and "+o.Name()+" is not re-initialised in between: every element contributes twice", true)
				}
			}
		}
	}
	r.Counts["E15.same-collection-accumulating-loop-pairs"] = nPairs
	r.Clauses = append(r.Clauses, "E15.double-accumulation: two loops over the same collection that each add a fragment per element to the same accumulator are not both executed on one path without re-initialising it")
}

// E15.search-forwards-miss — a search loop (`for … { … return v, true }; return zero, false`)
// that returns a callee's (value, ok) pair directly — `return c.Lookup()` — lets the first
// candidate decide: when that callee reports ok == false the function answers "not found"
// although later elements were never tried.
func runSearchForwardsMiss(p *Prog, r *Report) {
	nLoops := 0
	for _, fn := range p.Funcs {
		if fn.Body == nil || fn.Type.Results == nil {
			continue
		}
		info := fn.Info()
		// last result is a bool
		nres := 0
		var lastT types.Type
		for _, f := range fn.Type.Results.List {
			k := len(f.Names)
			if k == 0 {
				k = 1
			}
			nres += k
			lastT = info.TypeOf(f.Type)
		}
		if nres < 2 || lastT == nil {
			continue
		}
		if b, ok := lastT.Underlying().(*types.Basic); !ok || b.Kind() != types.Bool {
			continue
		}
		ast.Inspect(fn.Body, func(m ast.Node) bool {
			if lit, ok := m.(*ast.FuncLit); ok && lit != fn.Lit {
				return false
			}
			var body *ast.BlockStmt
			switch l := m.(type) {
			case *ast.RangeStmt:
				body = l.Body
			case *ast.ForStmt:
				body = l.Body
			default:
				return true
			}
			// the function falls back to "false" after the loop
			fallback := false
			ast.Inspect(fn.Body, func(z ast.Node) bool {
				if rs, ok := z.(*ast.ReturnStmt); ok && rs.Pos() > m.End() && len(rs.Results) == nres {
					if id, ok := ast.Unparen(rs.Results[nres-1]).(*ast.Ident); ok && id.Name == "false" {
						fallback = true
					}
				}
				return true
			})
			if !fallback {
				return true
			}
			nLoops++
			ast.Inspect(body, func(z ast.Node) bool {
				if _, ok := z.(*ast.FuncLit); ok {
					return false
				}
				rs, ok := z.(*ast.ReturnStmt)
				if !ok {
					return true
				}
				// the unpacked form: v, ok := c.F(); return v, ok — ok never examined
				if len(rs.Results) == nres {
					if id, isID := ast.Unparen(rs.Results[nres-1]).(*ast.Ident); isID && id.Name != "true" && id.Name != "false" {
						o := info.ObjectOf(id)
						as := fn.Assignments(o)
						if len(as) == 1 {
							if s, isAs := as[0].(*ast.AssignStmt); isAs && len(s.Rhs) == 1 && len(s.Lhs) == nres {
								if c, isCall := ast.Unparen(s.Rhs[0]).(*ast.CallExpr); isCall {
									examined := false
									for _, a := range fn.GuardsAt(rs).AllAtoms() {
										if a != nil && a.E != nil {
											if gid, ok := ast.Unparen(a.E).(*ast.Ident); ok && info.ObjectOf(gid) == o {
												examined = true
											}
										}
									}
									key := "return " + exprStr(c.Fun) + "(…) in a search loop"
									if examined {
										r.Add("E15.search-forwards-miss", fn.Name, key, p.Pos(rs), OK, "returned only after the lookup's ok was examined", true)
									} else {
										r.Add("E15.search-forwards-miss", fn.Name, key, p.Pos(rs), Violated,
											"the loop searches for the first element that yields a result (the function answers false after the loop), but the result and ok of "+exprStr(c.Fun)+" are handed on unexamined: when it reports false for the first candidate, the remaining elements are never tried", true)
									}
								}
							}
						}
					}
					return true
				}
				if len(rs.Results) != 1 {
					return true
				}
				call, ok := ast.Unparen(rs.Results[0]).(*ast.CallExpr)
				if !ok {
					return true
				}
				if tup, ok := info.TypeOf(call).(*types.Tuple); ok && tup.Len() == nres {
					// guarded by the callee's own ok elsewhere? (`if _, ok := c.F(); ok { return c.F() }`)
					if guardedByCallOk(fn, rs, call) {
						r.Add("E15.search-forwards-miss", fn.Name, "return "+exprStr(call.Fun)+"(…) in a search loop", p.Pos(rs), OK, "reached only after the same lookup succeeded", true)
						return true
					}
					r.Add("E15.search-forwards-miss", fn.Name, "return "+exprStr(call.Fun)+"(…) in a search loop", p.Pos(rs), Violated,
						"the loop searches for the first element that yields a result (the function answers false after the loop), but the pair returned by "+exprStr(call.Fun)+" is handed on unexamined: when it reports false for the first candidate, the remaining elements are never tried", true)
				}
				return true
			})
			return true
		})
	}
	r.Counts["E15.search-loops-with-false-fallback"] = nLoops
	r.Clauses = append(r.Clauses, "E15.search-forwards-miss: a search loop whose function answers false after the loop does not return a callee's (value, ok) pair unexamined")
}

func guardedByCallOk(fn *Func, at ast.Node, call *ast.CallExpr) bool {
	want := exprStr(call.Fun)
	for _, a := range fn.GuardsAt(at).AllAtoms() {
		if a == nil || a.E == nil || !a.Pol {
			continue
		}
		id, ok := ast.Unparen(a.E).(*ast.Ident)
		if !ok {
			continue
		}
		for _, asn := range fn.Assignments(fn.Info().ObjectOf(id)) {
			if s, ok := asn.(*ast.AssignStmt); ok && len(s.Rhs) == 1 {
				if c, ok := ast.Unparen(s.Rhs[0]).(*ast.CallExpr); ok && exprStr(c.Fun) == want {
					return true
				}
			}
		}
	}
	return false
}
