package main

import (
	"fmt"
	"go/ast"
	"go/types"
)

func dbgCty(p *Prog) {
	for _, fn := range p.Funcs {
		info := fn.Info()
		ast.Inspect(fn.Body, func(x ast.Node) bool {
			if lit, ok := x.(*ast.FuncLit); ok && lit != fn.Lit {
				return false
			}
			switch e := x.(type) {
			case *ast.IndexExpr:
				t := info.TypeOf(e.X)
				if t == nil {
					return true
				}
				if tv, ok := info.Types[e.X]; ok && tv.IsType() {
					return true
				}
				switch t.Underlying().(type) {
				case *types.Map:
					return true
				case *types.Signature:
					return true
				}
				// skip ranging index
				ranging := false
				for _, f := range fn.FactsAt(e) {
					if f.Kind == FactRange && f.Range.Key != nil && fn.Canon(f.Range.X) == fn.Canon(e.X) && fn.Canon(f.Range.Key) == fn.Canon(e.Index) {
						ranging = true
					}
				}
				if ranging {
					return true
				}
				fmt.Printf("IDX %s %s  %s\n", p.Pos(e), fn.Name, exprStr(e))
				for _, a := range fn.GuardsAt(e).Atoms() {
					if a.E != nil {
						fmt.Printf("      %v %s\n", a.Pol, exprStr(a.E))
					}
				}
			case *ast.SliceExpr:
				fmt.Printf("SLC %s %s  %s\n", p.Pos(e), fn.Name, exprStr(e))
				for _, a := range fn.GuardsAt(e).Atoms() {
					if a.E != nil {
						fmt.Printf("      %v %s\n", a.Pol, exprStr(a.E))
					}
				}
			}
			return true
		})
	}
}
