package main

import (
	"fmt"
	"go/ast"
)

func dbgCty(p *Prog) {
	for _, fn := range p.Funcs {
		info := fn.Info()
		ast.Inspect(fn.Body, func(x ast.Node) bool {
			switch e := x.(type) {
			case *ast.CompositeLit:
				t := info.TypeOf(e)
				if t != nil && typeIs(t, "hcl-lang/lang", "HoverData") {
					fmt.Printf("HD  %s %s  Range: %s\n", p.Pos(e), fn.Name, exprStr(orNil(litField(e, "Range"))))
				}
			case *ast.CallExpr:
				if lastSel(e.Fun) == "HoverAtPos" {
					fmt.Printf("CALL %s %s  %s\n", p.Pos(e), fn.Name, short(exprStr(e.Fun), 120))
				}
			}
			return true
		})
	}
}
