package main

// Write-effect summaries for E2.call-in-loop: a call statement inside an
// order-nondeterministic loop is harmless when everything the callee writes is reached through
// a parameter and the corresponding argument is rooted in a variable of the iteration itself
// (exactly the judgement the same statements get when written inline in the loop body).

import (
	"go/ast"
	"go/token"
	"go/types"
	"strings"
)

type effSummary struct {
	ok     bool
	writes map[int]bool // parameter indices written through; -1 = receiver
	why    string
}

var effCache = map[*Func]*effSummary{}

var effectFreePkgs = []string{"bytes", "strings", "fmt", "strconv", "errors", "unicode", "unicode/utf8",
	"github.com/hashicorp/hcl/v2", "github.com/zclconf/go-cty", "math", "path", "path/filepath", "net/url"}

func effectFreeExternal(f *types.Func) bool {
	if f.Pkg() == nil {
		return true
	}
	pp := f.Pkg().Path()
	for _, q := range effectFreePkgs {
		if pp == q || strings.HasPrefix(pp, q+"/") {
			return true
		}
	}
	return false
}

func isRefType(t types.Type) bool {
	switch t.Underlying().(type) {
	case *types.Pointer, *types.Map, *types.Slice, *types.Interface, *types.Chan, *types.Signature:
		return true
	}
	return false
}

func freshValue(info *types.Info, e ast.Expr) bool {
	switch x := ast.Unparen(e).(type) {
	case *ast.CompositeLit:
		return true
	case *ast.UnaryExpr:
		_, ok := ast.Unparen(x.X).(*ast.CompositeLit)
		return ok
	case *ast.CallExpr:
		return isBuiltinCall(info, x, "make") || isBuiltinCall(info, x, "new")
	}
	return false
}

func paramWriteSummary(p *Prog, tgt *Func, depth int) *effSummary {
	if s, ok := effCache[tgt]; ok {
		return s
	}
	// recursion: the summary is computed to a fixed point, a recursive call standing for
	// what the previous round found (first round: nothing)
	prev := &effSummary{ok: true, writes: map[int]bool{}}
	var s *effSummary
	for round := 0; round < 4; round++ {
		effCache[tgt] = prev
		s = paramWriteSummaryOnce(p, tgt, depth)
		same := s.ok == prev.ok && len(s.writes) == len(prev.writes)
		for k := range s.writes {
			if !prev.writes[k] {
				same = false
			}
		}
		if same || !s.ok {
			break
		}
		prev = s
	}
	effCache[tgt] = s
	return s
}

func paramWriteSummaryOnce(p *Prog, tgt *Func, depth int) *effSummary {
	s := &effSummary{ok: true, writes: map[int]bool{}}
	if tgt.Body == nil || tgt.Obj == nil {
		s.ok, s.why = false, "no body"
		return s
	}
	info := tgt.Info()
	sig := tgt.Obj.Type().(*types.Signature)
	paramIdx := func(o types.Object) (int, bool) {
		if sig.Recv() != nil && o == sig.Recv() {
			return -1, true
		}
		for i := 0; i < sig.Params().Len(); i++ {
			if sig.Params().At(i) == o {
				return i, true
			}
		}
		return 0, false
	}
	fail := func(why string) {
		if s.ok {
			s.ok, s.why = false, why
		}
	}
	// classify a written location
	write := func(l ast.Expr) {
		l = ast.Unparen(l)
		if id, ok := l.(*ast.Ident); ok {
			if id.Name == "_" {
				return
			}
			o := info.ObjectOf(id)
			if v, ok := o.(*types.Var); ok && v.Pkg() != nil && v.Parent() != v.Pkg().Scope() {
				return // a local (or a parameter variable itself)
			}
			fail("assigns package-level " + id.Name)
			return
		}
		o := baseObj(info, l)
		v, ok := o.(*types.Var)
		if !ok || v.IsField() {
			fail("writes through " + exprStr(l))
			return
		}
		if v.Pkg() != nil && v.Parent() == v.Pkg().Scope() {
			fail("writes package-level state " + exprStr(l))
			return
		}
		if i, isP := paramIdx(v); isP {
			s.writes[i] = true
			return
		}
		if !isRefType(v.Type()) {
			// a local value; writes below a pointer field of it are not tracked
			if strings.Contains(exprStr(l), "*") {
				fail("writes through " + exprStr(l))
			}
			return
		}
		fresh := true
		for _, d := range defsOfIdent(tgt, v) {
			if d == nil || !freshValue(info, d) {
				fresh = false
			}
		}
		if !fresh {
			fail("writes through local reference " + v.Name())
		}
	}
	// a visited-stack: `m[k] = c` directly followed by `defer delete(m, k)` leaves m as it was
	// when the function returns; a set only ever added to (m[k] = struct{}{} / true) and never
	// read here is filled commutatively: the order of the calls does not show
	balanced := map[ast.Node]bool{}
	for i := 0; i+1 < len(tgt.Body.List); i++ {
		as, ok := tgt.Body.List[i].(*ast.AssignStmt)
		df, ok2 := tgt.Body.List[i+1].(*ast.DeferStmt)
		if !ok || !ok2 || len(as.Lhs) != 1 {
			continue
		}
		ix, ok := ast.Unparen(as.Lhs[0]).(*ast.IndexExpr)
		if !ok || !isBuiltinCall(info, df.Call, "delete") || len(df.Call.Args) != 2 {
			continue
		}
		if exprStr(df.Call.Args[0]) == exprStr(ix.X) && exprStr(df.Call.Args[1]) == exprStr(ix.Index) {
			if _, isMap := info.TypeOf(ix.X).Underlying().(*types.Map); isMap {
				balanced[as], balanced[df] = true, true
			}
		}
	}
	setOnly := map[types.Object]bool{}
	notSet := map[types.Object]bool{}
	isSetInsert := func(as *ast.AssignStmt) types.Object {
		if len(as.Lhs) != 1 || len(as.Rhs) != 1 || as.Tok != token.ASSIGN {
			return nil
		}
		ix, ok := ast.Unparen(as.Lhs[0]).(*ast.IndexExpr)
		if !ok {
			return nil
		}
		id, ok := ast.Unparen(ix.X).(*ast.Ident)
		if !ok {
			return nil
		}
		if _, isMap := info.TypeOf(id).Underlying().(*types.Map); !isMap {
			return nil
		}
		switch r := ast.Unparen(as.Rhs[0]).(type) {
		case *ast.CompositeLit:
			if len(r.Elts) != 0 {
				return nil
			}
		case *ast.Ident:
			if r.Name != "true" {
				return nil
			}
		default:
			return nil
		}
		return info.ObjectOf(id)
	}
	// reads of a map parameter (lookups, ranges, len) make its content matter
	ast.Inspect(tgt.Body, func(n ast.Node) bool {
		switch x := n.(type) {
		case *ast.AssignStmt:
			if o := isSetInsert(x); o != nil && !balanced[x] {
				setOnly[o] = true
				return false
			}
		case *ast.Ident:
			if v, ok := info.ObjectOf(x).(*types.Var); ok {
				if _, isMap := v.Type().Underlying().(*types.Map); isMap {
					// every other mention (read, pass-through to a call is judged there)
					if call, isCall := p.Parent(x).(*ast.CallExpr); isCall && call.Fun != ast.Expr(x) {
						if _, isB := info.Uses[identOf(call.Fun)].(*types.Builtin); !isB {
							return true
						}
					}
					notSet[v] = true
				}
			}
		}
		return true
	})
	ast.Inspect(tgt.Body, func(n ast.Node) bool {
		if !s.ok {
			return false
		}
		switch x := n.(type) {
		case *ast.DeferStmt:
			if balanced[x] {
				return false
			}
			fail("go/defer/send")
		case *ast.GoStmt, *ast.SendStmt:
			fail("go/defer/send")
		case *ast.AssignStmt:
			if balanced[x] {
				return false
			}
			if o := isSetInsert(x); o != nil && setOnly[o] && !notSet[o] {
				if _, isP := paramIdx(o); isP {
					return false // commutative fill of a set parameter
				}
			}
			for _, l := range x.Lhs {
				write(l)
			}
		case *ast.IncDecStmt:
			write(x.X)
		case *ast.CallExpr:
			if tv, ok := info.Types[x.Fun]; ok && tv.IsType() {
				return true
			}
			if id, ok := ast.Unparen(x.Fun).(*ast.Ident); ok {
				if _, isB := info.Uses[id].(*types.Builtin); isB {
					switch id.Name {
					case "delete", "copy", "clear":
						if len(x.Args) > 0 {
							write(&ast.StarExpr{X: x.Args[0]})
						}
					}
					return true
				}
			}
			f := calleeOf(info, x)
			if f == nil {
				fail("dynamic call " + exprStr(x.Fun))
				return true
			}
			if sub := p.FuncOf[f]; sub != nil {
				if depth <= 0 {
					fail("call depth")
					return true
				}
				ss := paramWriteSummary(p, sub, depth-1)
				if !ss.ok {
					fail("calls " + f.Name() + ": " + ss.why)
					return true
				}
				for i := range ss.writes {
					var arg ast.Expr
					if i == -1 {
						if sel, ok := ast.Unparen(x.Fun).(*ast.SelectorExpr); ok {
							arg = sel.X
						}
					} else if i < len(x.Args) {
						arg = x.Args[i]
					}
					if arg == nil {
						fail("unmapped write of " + f.Name())
						continue
					}
					write(&ast.StarExpr{X: arg})
				}
				return true
			}
			if rsig, ok := f.Type().(*types.Signature); ok && rsig.Recv() != nil {
				if _, isI := rsig.Recv().Type().Underlying().(*types.Interface); isI && isModuleType(rsig.Recv().Type()) {
					fail("interface call " + exprStr(x.Fun))
					return true
				}
			}
			if !effectFreeExternal(f) {
				fail("external call " + f.FullName())
			}
		}
		return true
	})
	return s
}

// iterationLocalCall: see file comment.
func iterationLocalCall(p *Prog, fn *Func, call *ast.CallExpr, declaredInside func(types.Object) bool) (bool, string) {
	info := fn.Info()
	f := calleeOf(info, call)
	if f == nil {
		return false, ""
	}
	tgt := p.FuncOf[f]
	if tgt == nil {
		return false, ""
	}
	s := paramWriteSummary(p, tgt, 2)
	if !s.ok {
		return false, s.why
	}
	for i := range s.writes {
		var arg ast.Expr
		if i == -1 {
			if sel, ok := ast.Unparen(call.Fun).(*ast.SelectorExpr); ok {
				arg = sel.X
			}
		} else if i < len(call.Args) {
			arg = call.Args[i]
		}
		if arg == nil {
			return false, "unmapped argument"
		}
		o := baseObj(info, arg)
		if o == nil || !declaredInside(o) || !isVar(o) {
			return false, "writes through " + exprStr(arg) + ", which outlives the iteration"
		}
	}
	return true, ""
}
