package main

// E13.any-delegation / E13.any-forms — cross-check of the sibling implementations of
// decoder.Any (Engler et al.: implementations of one interface must agree).
//
// Every feature method of decoder.Any (CompletionAtPos, HoverAtPos, SemanticTokens,
// ReferenceOrigins, ReferenceTargets) starts with the same ladder
//
//	if typ.IsListType()   { … schema.List{Elem: …{typ.ElementType()}} … }
//	if typ.IsSetType()    { … schema.Set{…} … }
//	if typ.IsTupleType()  { … schema.Tuple{Elems: per typ.TupleElementTypes()} … }
//	if typ.IsMapType()    { … schema.Map{…} … }
//	if typ.IsObjectType() { … schema.Object{Attributes: ctyObjectToObjectAttributes(typ)} … }
//
// and then hands the remaining syntactic forms (operators, templates, conditionals, for
// expressions, index expressions) to one helper per form. The rule reads the ladder of every
// sibling and requires, per rung: the constraint kind built is the one of the predicate, the
// syntax node asserted is the one that can hold that kind, the element type handed down is
// the element type of the very type that was tested, and no rung is missing. The form rule
// requires that every sibling that dispatches on syntactic forms reaches a handler for each
// form its siblings handle (frozen exceptions with a reason).

import (
	"fmt"
	"go/ast"
	"go/types"
	"sort"
	"strings"
)

var anyKindPreds = map[string]struct{ cons, syn string }{
	"IsListType":   {"List", "TupleConsExpr"},
	"IsSetType":    {"Set", "TupleConsExpr"},
	"IsTupleType":  {"Tuple", "TupleConsExpr"},
	"IsMapType":    {"Map", "ObjectConsExpr"},
	"IsObjectType": {"Object", "ObjectConsExpr"},
}

var anyKindOrder = []string{"IsListType", "IsSetType", "IsTupleType", "IsMapType", "IsObjectType"}

// extra fields of the container constraint on which the siblings must agree; key is
// method|kind|field for the frozen deviations.
var anyFieldExceptions = map[string]string{
	"Any|ReferenceTargets|Map|AllowInterpolatedKeys":    "targets are derived from the evaluated type of the value, interpolated keys have no address",
	"Any|ReferenceTargets|Object|AllowInterpolatedKeys": "targets are derived from the evaluated type of the value, interpolated keys have no address",
}

// syntactic forms a sibling may leave to a generic fallback.
var anyFormExceptions = map[string]string{
	"ReferenceOrigins|IndexExpr": "index expressions fall through to expr.Variables(), which visits collection and key",
}

type anyRung struct {
	pred    string
	at      ast.Node       // the if statement or case clause
	body    *ast.BlockStmt // what runs when the kind test holds
	subject types.Object   // the value whose kind is tested
}

func anyRecv(fn *Func) bool { return ladderFamily(fn) == "Any" }

// ladderFamily: the decoder expression type (Any, LiteralType) whose method fn is.
func ladderFamily(fn *Func) string {
	if fn.Decl == nil || fn.Decl.Recv == nil || fn.Obj == nil || !strings.HasSuffix(fn.Pkg.PkgPath, "hcl-lang/decoder") {
		return ""
	}
	sig, ok := fn.Obj.Type().(*types.Signature)
	if !ok || sig.Recv() == nil {
		return ""
	}
	t := sig.Recv().Type()
	if pt, ok := t.(*types.Pointer); ok {
		t = pt.Elem()
	}
	for _, fam := range []string{"Any", "LiteralType"} {
		if typeIs(t, "hcl-lang/decoder", fam) {
			return fam
		}
	}
	return ""
}

func splitConj(e ast.Expr) []ast.Expr {
	e = ast.Unparen(e)
	if b, ok := e.(*ast.BinaryExpr); ok && b.Op.String() == "&&" {
		return append(splitConj(b.X), splitConj(b.Y)...)
	}
	return []ast.Expr{e}
}

func anyRungs(fn *Func) []anyRung {
	info := fn.Info()
	var out []anyRung
	test := func(cond ast.Expr, at ast.Node, body *ast.BlockStmt) {
		for _, c := range splitConj(cond) {
			call, ok := c.(*ast.CallExpr)
			if !ok || len(call.Args) != 0 {
				continue
			}
			sel, ok := call.Fun.(*ast.SelectorExpr)
			if !ok {
				continue
			}
			if _, ok := anyKindPreds[sel.Sel.Name]; !ok {
				continue
			}
			if !typeIs(info.TypeOf(sel.X), "go-cty/cty", "Type") {
				continue
			}
			out = append(out, anyRung{pred: sel.Sel.Name, at: at, body: body, subject: baseObj(info, sel.X)})
		}
	}
	ast.Inspect(fn.Body, func(n ast.Node) bool {
		switch v := n.(type) {
		case *ast.FuncLit:
			return false
		case *ast.IfStmt:
			test(v.Cond, v, v.Body)
		case *ast.SwitchStmt:
			if v.Tag != nil {
				return true
			}
			for _, c := range v.Body.List {
				cc := c.(*ast.CaseClause)
				if len(cc.List) != 1 {
					continue
				}
				test(cc.List[0], cc, &ast.BlockStmt{Lbrace: cc.Colon, List: cc.Body, Rbrace: cc.End()})
			}
		}
		return true
	})
	return out
}

// schemaLits lists the composite literals of package schema types found under n and, through
// same-package calls, in the callees (bounded depth).
func schemaLits(p *Prog, fn *Func, n ast.Node, depth int, seen map[*Func]bool) []struct {
	fn  *Func
	lit *ast.CompositeLit
} {
	var out []struct {
		fn  *Func
		lit *ast.CompositeLit
	}
	info := fn.Info()
	ast.Inspect(n, func(x ast.Node) bool {
		switch v := x.(type) {
		case *ast.CompositeLit:
			if t := info.TypeOf(v); t != nil {
				if nt := namedOf(t); nt != nil && nt.Obj().Pkg() != nil && strings.HasSuffix(nt.Obj().Pkg().Path(), "hcl-lang/schema") {
					out = append(out, struct {
						fn  *Func
						lit *ast.CompositeLit
					}{fn, v})
				}
			}
		case *ast.CallExpr:
			if depth > 0 {
				if f := calleeOf(info, v); f != nil {
					if cf := p.FuncOf[f]; cf != nil && cf.Pkg == fn.Pkg && cf.Body != nil && !seen[cf] && !anyRecvDelegator(cf) {
						seen[cf] = true
						out = append(out, schemaLits(p, cf, cf.Body, depth-1, seen)...)
					}
				}
			}
		}
		return true
	})
	return out
}

// anyRecvDelegator: a function that itself has a ladder is judged on its own, not as a
// helper of its caller.
func anyRecvDelegator(fn *Func) bool {
	return len(anyRungs(fn)) >= 3
}

func kvField(lit *ast.CompositeLit, name string) ast.Expr {
	for _, el := range lit.Elts {
		if kv, ok := el.(*ast.KeyValueExpr); ok {
			if id, ok := kv.Key.(*ast.Ident); ok && canonId(id.Name) == name {
				return kv.Value
			}
		}
	}
	return nil
}

func litTypeName(info *types.Info, lit *ast.CompositeLit) string {
	if nt := namedOf(info.TypeOf(lit)); nt != nil {
		return canonId(nt.Obj().Name())
	}
	return ""
}

// callOn reports whether e (after inlining locals) is subject.method().
func callOn(fn *Func, e ast.Expr, subject types.Object, method string) bool {
	if e == nil || subject == nil {
		return false
	}
	for _, cand := range []ast.Expr{e, fn.InlineLocals(e, 1), fn.InlineLocals(e, 2), fn.InlineLocals(e, 3)} {
		call, ok := ast.Unparen(cand).(*ast.CallExpr)
		if !ok || len(call.Args) != 0 {
			continue
		}
		sel, ok := call.Fun.(*ast.SelectorExpr)
		if !ok || sel.Sel.Name != method {
			continue
		}
		if baseObj(fn.Info(), sel.X) == subject {
			if _, isIdent := ast.Unparen(sel.X).(*ast.Ident); isIdent {
				return true
			}
		}
	}
	return false
}

func runAnyDelegation(p *Prog, r *Report) {
	nRungs, nDeleg := 0, 0
	for _, family := range []string{"Any", "LiteralType"} {
		runLadderFamily(p, r, family, &nRungs, &nDeleg)
	}
	r.ExpectMin("E13.any-delegators", nDeleg, 5)
	r.ExpectMin("E13.any-rungs", nRungs, 25)
	r.Clauses = append(r.Clauses, "E13.any-delegation: every feature method of decoder.Any and decoder.LiteralType that dispatches on the collection kind of its type has a rung for each of list/set/tuple/map/object; each rung builds the constraint kind it tested, asserts the syntax node that can hold it, hands the tested type's element type(s) to the elements (as literal-only constraints in LiteralType), and agrees with its siblings on the remaining constraint fields")
}

func runLadderFamily(p *Prog, r *Report, family string, nRungsP, nDelegP *int) {
	type deleg struct {
		fn    *Func
		rungs []anyRung
	}
	var ds []deleg
	for _, fn := range p.Funcs {
		if ladderFamily(fn) != family {
			continue
		}
		if rs := anyRungs(fn); len(rs) >= 3 {
			ds = append(ds, deleg{fn, rs})
		}
	}
	sort.Slice(ds, func(i, j int) bool { return ds[i].fn.Name < ds[j].fn.Name })
	*nDelegP += len(ds)
	nRungs := 0
	defer func() { *nRungsP += nRungs }()
	// field agreement: kind -> field -> method -> value text
	extra := map[string]map[string]map[string]string{}
	extraPos := map[string]string{}
	for _, d := range ds {
		fn := d.fn
		info := fn.Info()
		mname := bareFuncName(fn)
		have := map[string]bool{}
		for _, rg := range d.rungs {
			have[rg.pred] = true
			nRungs++
			want := anyKindPreds[rg.pred]
			body := rg.body
			pos := p.Pos(rg.at)
			// (a) constraint kind
			lits := schemaLits(p, fn, body, 2, map[*Func]bool{fn: true})
			var container *ast.CompositeLit
			var containerFn *Func
			wrong := ""
			for _, l := range lits {
				nm := litTypeName(l.fn.Info(), l.lit)
				if nm == want.cons {
					if container == nil {
						container, containerFn = l.lit, l.fn
					}
				} else if _, isKind := map[string]bool{"List": true, "Set": true, "Tuple": true, "Map": true, "Object": true}[nm]; isKind && l.fn == fn {
					wrong = nm
				}
			}
			switch {
			case container != nil && wrong == "":
				r.Add("E13.any-delegation", fn.Name, rg.pred+" builds schema."+want.cons, pos, OK, "the rung builds the constraint kind of the type it tested", true)
			case container == nil && wrong != "":
				r.Add("E13.any-delegation", fn.Name, rg.pred+" builds schema."+want.cons, pos, Violated,
					fmt.Sprintf("the rung for %s builds a schema.%s constraint instead of schema.%s: values of that type are decoded as the wrong collection kind in this feature only", rg.pred, wrong, want.cons), true)
				continue
			case container == nil:
				r.Add("E13.any-delegation", fn.Name, rg.pred+" builds schema."+want.cons, pos, Violated,
					fmt.Sprintf("the rung for %s builds no schema.%s constraint (its siblings delegate to the %s decoder)", rg.pred, want.cons, want.cons), true)
				continue
			default:
				r.Add("E13.any-delegation", fn.Name, rg.pred+" builds schema."+want.cons, pos, OK, "the rung builds the constraint kind of the type it tested (and a second kind for a nested purpose)", true)
			}
			// (h) constraint flags that switch the rung off
			for _, fl := range rungFlags(fn, rg) {
				fkey := rg.pred + " gated by " + fl
				if why, ok := anyFlagAllowed[family+"|"+mname+"|"+fl]; ok {
					r.Add("E13.any-delegation", fn.Name, fkey, pos, OK, why, true)
				} else {
					r.Add("E13.any-delegation", fn.Name, fkey, pos, Violated,
						fmt.Sprintf("the rung for %s is reached only for some values of the constraint flag %s; none of the reviewed siblings consults that flag in %s, so collection values under such a constraint are no longer decoded element by element by this feature", rg.pred, fl, mname), true)
				}
			}
			// (b) syntax node
			ast.Inspect(body, func(x ast.Node) bool {
				ta, ok := x.(*ast.TypeAssertExpr)
				if !ok || ta.Type == nil {
					return true
				}
				pt, ok := info.TypeOf(ta.Type).(*types.Pointer)
				if !ok {
					return true
				}
				nt := namedOf(pt)
				if nt == nil || nt.Obj().Pkg() == nil || !strings.HasSuffix(nt.Obj().Pkg().Path(), "hclsyntax") {
					return true
				}
				nm := nt.Obj().Name()
				if nm != "TupleConsExpr" && nm != "ObjectConsExpr" {
					return true
				}
				if nm == want.syn {
					r.Add("E13.any-delegation", fn.Name, rg.pred+" asserts "+want.syn, p.Pos(ta), OK, "the syntax node asserted can hold the tested kind", true)
				} else {
					r.Add("E13.any-delegation", fn.Name, rg.pred+" asserts "+want.syn, p.Pos(ta), Violated,
						fmt.Sprintf("the rung for %s asserts *hclsyntax.%s; a %s value is written as *hclsyntax.%s, so the rung never delegates", rg.pred, nm, want.cons, want.syn), true)
				}
				return true
			})
			// (b') the assertion hoisted out of the ladder and consulted through its ok flag
			seenFlag := map[types.Object]bool{}
			ast.Inspect(body, func(x ast.Node) bool {
				id, ok := x.(*ast.Ident)
				if !ok {
					return true
				}
				v, ok := info.ObjectOf(id).(*types.Var)
				if !ok || seenFlag[v] || v.Pos() >= body.Pos() && v.Pos() < body.End() {
					return true
				}
				seenFlag[v] = true
				nm := okFlagOfAssertion(fn, v)
				if nm != "TupleConsExpr" && nm != "ObjectConsExpr" {
					return true
				}
				if nm == want.syn {
					r.Add("E13.any-delegation", fn.Name, rg.pred+" asserts "+want.syn, p.Pos(id), OK, "the syntax node asserted (outside the ladder) can hold the tested kind", true)
				} else {
					r.Add("E13.any-delegation", fn.Name, rg.pred+" asserts "+want.syn, p.Pos(id), Violated,
						fmt.Sprintf("the rung for %s consults the flag of an assertion to *hclsyntax.%s; a %s value is written as *hclsyntax.%s, so the rung never delegates", rg.pred, nm, want.cons, want.syn), true)
				}
				return true
			})
			// (b'') a type switch in front of the ladder that lets the other literal kind through:
			// the rung is then also reached for a syntax node that cannot hold the tested kind
			// (the element decoder finds no elements in it and the references inside are lost)
			if containerFn == fn {
				narrowed := false
				ast.Inspect(body, func(x ast.Node) bool {
					if ta, ok := x.(*ast.TypeAssertExpr); ok && ta.Type != nil {
						if pt, ok := info.TypeOf(ta.Type).(*types.Pointer); ok {
							if nt := namedOf(pt); nt != nil && nt.Obj().Name() == want.syn {
								narrowed = true
							}
						}
					}
					return true
				})
				if !narrowed {
					for _, a := range fn.GuardsAt(container).AllAtoms() {
						if a == nil || a.TypeX == nil || !a.Pol {
							continue
						}
						hasWant, other := false, ""
						for _, t := range a.Types {
							tt := info.TypeOf(t)
							if tt == nil {
								continue
							}
							if pt, ok := tt.(*types.Pointer); ok {
								if nt := namedOf(pt); nt != nil && nt.Obj().Pkg() != nil && strings.HasSuffix(nt.Obj().Pkg().Path(), "hclsyntax") {
									switch nt.Obj().Name() {
									case want.syn:
										hasWant = true
									case "TupleConsExpr", "ObjectConsExpr":
										other = nt.Obj().Name()
									}
								}
							}
						}
						if hasWant && other != "" {
							r.Add("E13.any-delegation", fn.Name, rg.pred+" asserts "+want.syn, p.Pos(container), Violated,
								fmt.Sprintf("the rung for %s is reached for *hclsyntax.%s as well as *hclsyntax.%s (one type switch lets both through and the rung asserts neither): a %s value is written as *hclsyntax.%s only; the other literal kind must fall back to the generic decoder", rg.pred, other, want.syn, want.cons, want.syn), true)
						}
					}
				}
			}
			// (c) element type handed down
			cfn := containerFn
			subject := rg.subject
			if cfn != fn {
				subject = nil // built in a helper: the subject is a parameter there; judged by name-free shape only
			}
			switch want.cons {
			case "List", "Set", "Map":
				elem := kvField(container, "Elem")
				okElem := false
				var inner *ast.CompositeLit
				if elem != nil {
					inner, _ = ast.Unparen(cfn.InlineLocals(elem, 2)).(*ast.CompositeLit)
					if inner == nil {
						inner, _ = ast.Unparen(elem).(*ast.CompositeLit)
					}
				}
				detail := "Elem is missing"
				if inner != nil {
					detail = "Elem carries no type derived from the tested type"
					for _, fld := range []string{"OfType", "Type"} {
						if v := kvField(inner, fld); v != nil {
							if subject != nil && callOn(cfn, v, subject, "ElementType") {
								okElem = true
							} else if subject == nil && strings.HasSuffix(exprStr(cfn.InlineLocals(v, 3)), ".ElementType()") {
								okElem = true
							} else {
								detail = fmt.Sprintf("Elem.%s is %s, not the element type of the tested type", fld, exprStr(v))
							}
						}
					}
				}
				if okElem && family == "LiteralType" && litTypeName(cfn.Info(), inner) != "LiteralType" {
					okElem = false
					detail = "Elem is a schema." + litTypeName(cfn.Info(), inner) + " constraint: the elements of a literal-only collection would admit non-literal expressions"
				}
				if okElem {
					r.Add("E13.any-delegation", fn.Name, rg.pred+" element type", p.Pos(container), OK, "elements are decoded against the element type of the tested type", true)
				} else {
					r.Add("E13.any-delegation", fn.Name, rg.pred+" element type", p.Pos(container), Violated,
						"the "+want.cons+" constraint built for "+rg.pred+" does not hand the collection's element type to its elements: "+detail, true)
				}
			case "Object":
				v := kvField(container, "Attributes")
				okAttr := false
				if v != nil {
					for _, cand := range []ast.Expr{v, cfn.InlineLocals(v, 1), cfn.InlineLocals(v, 2)} {
						if call, ok := ast.Unparen(cand).(*ast.CallExpr); ok && len(call.Args) == 1 {
							if subject == nil || baseObj(cfn.Info(), call.Args[0]) == subject {
								if _, isIdent := ast.Unparen(call.Args[0]).(*ast.Ident); isIdent {
									okAttr = true
								}
							}
						}
					}
				}
				if okAttr {
					r.Add("E13.any-delegation", fn.Name, rg.pred+" element type", p.Pos(container), OK, "attributes are derived from the tested object type", true)
				} else {
					r.Add("E13.any-delegation", fn.Name, rg.pred+" element type", p.Pos(container), Violated,
						"the Object constraint built for IsObjectType does not derive its Attributes from the tested type", true)
				}
			case "Tuple":
				okTuple, detail := tupleElemsFromSubject(cfn, body, subject)
				if cfn != fn {
					okTuple, detail = tupleElemsFromSubject(cfn, cfn.Body, nil)
				}
				if okTuple {
					r.Add("E13.any-delegation", fn.Name, rg.pred+" element type", p.Pos(container), OK, "element i is decoded against element type i of the tested tuple type", true)
				} else {
					r.Add("E13.any-delegation", fn.Name, rg.pred+" element type", p.Pos(container), Violated,
						"the Tuple constraint built for IsTupleType does not pair element i with element type i of the tested type: "+detail, true)
				}
			}
			// (e) remaining fields: sibling agreement
			for _, el := range container.Elts {
				kv, ok := el.(*ast.KeyValueExpr)
				if !ok {
					continue
				}
				id, ok := kv.Key.(*ast.Ident)
				if !ok {
					continue
				}
				f := canonId(id.Name)
				if f == "Elem" || f == "Elems" || f == "Attributes" {
					continue
				}
				if extra[want.cons] == nil {
					extra[want.cons] = map[string]map[string]string{}
				}
				if extra[want.cons][f] == nil {
					extra[want.cons][f] = map[string]string{}
				}
				extra[want.cons][f][mname] = exprStr(kv.Value)
			}
			extraPos[mname+"|"+want.cons] = p.Pos(container)
		}
		// (d) completeness
		for _, k := range anyKindOrder {
			if have[k] {
				continue
			}
			r.Add("E13.any-delegation", fn.Name, "rung "+k, p.Pos(fn.Decl), Violated,
				fmt.Sprintf("%s dispatches on %d of the five collection kinds but has no rung for %s: values of that kind fall through to the non-collection path in this feature only", mname, len(have), k), true)
		}
	}
	// sibling agreement on the remaining fields
	var kinds []string
	for k := range extra {
		kinds = append(kinds, k)
	}
	sort.Strings(kinds)
	for _, kind := range kinds {
		var fields []string
		for f := range extra[kind] {
			fields = append(fields, f)
		}
		sort.Strings(fields)
		for _, f := range fields {
			vals := extra[kind][f]
			// methods that have a rung of this kind
			var methods []string
			for _, d := range ds {
				m := bareFuncName(d.fn)
				if _, ok := extraPos[m+"|"+kind]; ok {
					methods = append(methods, m)
				}
			}
			count := map[string]int{}
			for _, m := range methods {
				if _, exc := anyFieldExceptions[family+"|"+m+"|"+kind+"|"+f]; exc {
					continue
				}
				count[vals[m]]++ // "" = field not set
			}
			best, bestN, total := "", 0, 0
			for v, n := range count {
				total += n
				if n > bestN || n == bestN && v < best {
					best, bestN = v, n
				}
			}
			for _, m := range methods {
				key := fmt.Sprintf("schema.%s.%s agrees", kind, f)
				fnName := ""
				for _, d := range ds {
					if bareFuncName(d.fn) == m {
						fnName = d.fn.Name
					}
				}
				if why, exc := anyFieldExceptions[family+"|"+m+"|"+kind+"|"+f]; exc {
					if vals[m] == "" {
						r.Add("E13.any-delegation", fnName, key, extraPos[m+"|"+kind], Excepted, why, true)
						continue
					}
				}
				if total < 3 || bestN < total-1 || bestN < 2 {
					r.Add("E13.any-delegation", fnName, key, extraPos[m+"|"+kind], OK, "too few agreeing siblings to cross-check this field", false)
					continue
				}
				if vals[m] == best {
					r.Add("E13.any-delegation", fnName, key, extraPos[m+"|"+kind], OK, fmt.Sprintf("agrees with %d of %d siblings", bestN, total), true)
				} else {
					got := vals[m]
					if got == "" {
						got = "unset"
					}
					r.Add("E13.any-delegation", fnName, key, extraPos[m+"|"+kind], Violated,
						fmt.Sprintf("%d of %d sibling features build schema.%s with %s %s; %s has it %s, so the same %s value is decoded differently by this feature", bestN, total, kind, f, orUnset(best), m, got, strings.ToLower(kind)), true)
				}
			}
		}
	}
}

// tupleElemsFromSubject: under n there is `for i, et := range subject.TupleElementTypes()`
// (possibly through a local) whose body stores a literal carrying et at index i (or appends it).
func tupleElemsFromSubject(fn *Func, n ast.Node, subject types.Object) (bool, string) {
	info := fn.Info()
	found := false
	detail := "no loop over TupleElementTypes() of the tested type"
	ast.Inspect(n, func(x ast.Node) bool {
		rs, ok := x.(*ast.RangeStmt)
		if !ok || found {
			return !found
		}
		src := rs.X
		if id, ok := ast.Unparen(src).(*ast.Ident); ok {
			if v, ok := info.ObjectOf(id).(*types.Var); ok {
				if d := fn.SingleDef(v); d != nil {
					src = d
				}
			}
		}
		isSrc := false
		if subject != nil {
			isSrc = callOn(fn, src, subject, "TupleElementTypes")
		} else {
			isSrc = strings.HasSuffix(exprStr(fn.InlineLocals(src, 3)), ".TupleElementTypes()")
		}
		if !isSrc {
			return true
		}
		var keyObj, valObj types.Object
		if id, ok := rs.Key.(*ast.Ident); ok && id.Name != "_" {
			keyObj = info.ObjectOf(id)
		}
		if id, ok := rs.Value.(*ast.Ident); ok && id.Name != "_" {
			valObj = info.ObjectOf(id)
		}
		if valObj == nil {
			detail = "the loop over TupleElementTypes() does not bind the element type"
			return true
		}
		ast.Inspect(rs.Body, func(y ast.Node) bool {
			as, ok := y.(*ast.AssignStmt)
			if !ok || len(as.Lhs) != 1 || len(as.Rhs) != 1 {
				return true
			}
			usesVal := false
			ast.Inspect(as.Rhs[0], func(z ast.Node) bool {
				if kv, ok := z.(*ast.KeyValueExpr); ok {
					if id, ok := ast.Unparen(kv.Value).(*ast.Ident); ok && info.ObjectOf(id) == valObj {
						usesVal = true
					}
				}
				return true
			})
			if !usesVal {
				return true
			}
			if ix, ok := as.Lhs[0].(*ast.IndexExpr); ok {
				if id, ok := ast.Unparen(ix.Index).(*ast.Ident); ok && keyObj != nil && info.ObjectOf(id) == keyObj {
					found = true
				} else {
					detail = "element type " + valObj.Name() + " is stored at index " + exprStr(ix.Index) + ", not at its own position"
				}
				return true
			}
			if call, ok := as.Rhs[0].(*ast.CallExpr); ok && isBuiltinCall(info, call, "append") {
				found = true
			}
			return true
		})
		return true
	})
	if found {
		return true, ""
	}
	return false, detail
}

// runAnyForms: syntactic forms reached from each delegator through methods of Any.
func runAnyForms(p *Prog, r *Report) {
	var entries []*Func
	for _, fn := range p.Funcs {
		if anyRecv(fn) && len(anyRungs(fn)) >= 3 {
			entries = append(entries, fn)
		}
	}
	sort.Slice(entries, func(i, j int) bool { return entries[i].Name < entries[j].Name })
	forms := map[*Func]map[string]string{} // entry -> node type -> handler
	for _, e := range entries {
		forms[e] = map[string]string{}
		seen := map[*Func]bool{e: true}
		var walk func(fn *Func, depth int)
		walk = func(fn *Func, depth int) {
			info := fn.Info()
			ast.Inspect(fn.Body, func(x ast.Node) bool {
				var tExpr ast.Expr
				switch v := x.(type) {
				case *ast.TypeAssertExpr:
					tExpr = v.Type
				case *ast.CaseClause:
					if _, isTS := p.Parent(p.Parent(v)).(*ast.TypeSwitchStmt); isTS {
						for _, t := range v.List {
							if pt, ok := info.TypeOf(t).(*types.Pointer); ok {
								if nt := namedOf(pt); nt != nil && nt.Obj().Pkg() != nil && strings.HasSuffix(nt.Obj().Pkg().Path(), "hclsyntax") && fn != e {
									if _, dup := forms[e][nt.Obj().Name()]; !dup {
										forms[e][nt.Obj().Name()] = fn.Name
									}
								}
							}
						}
					}
				case *ast.CallExpr:
					if depth > 0 {
						if f := calleeOf(info, v); f != nil {
							if cf := p.FuncOf[f]; cf != nil && cf.Body != nil && !seen[cf] && anyRecv(cf) && len(anyRungs(cf)) < 3 {
								seen[cf] = true
								walk(cf, depth-1)
							}
						}
					}
				}
				if tExpr != nil && fn != e {
					if pt, ok := info.TypeOf(tExpr).(*types.Pointer); ok {
						if nt := namedOf(pt); nt != nil && nt.Obj().Pkg() != nil && strings.HasSuffix(nt.Obj().Pkg().Path(), "hclsyntax") {
							if _, dup := forms[e][nt.Obj().Name()]; !dup {
								forms[e][nt.Obj().Name()] = fn.Name
							}
						}
					}
				}
				return true
			})
		}
		walk(e, 3)
	}
	var active []*Func
	for _, e := range entries {
		if len(forms[e]) > 0 {
			active = append(active, e)
		}
	}
	r.ExpectMin("E13.any-form-dispatchers", len(active), 3)
	count := map[string]int{}
	for _, e := range active {
		for f := range forms[e] {
			count[f]++
		}
	}
	var all []string
	for f := range count {
		all = append(all, f)
	}
	sort.Strings(all)
	n := 0
	for _, f := range all {
		if count[f] < 3 || count[f] < len(active)-1 {
			continue
		}
		for _, e := range active {
			n++
			m := bareFuncName(e)
			if h, ok := forms[e][f]; ok {
				r.Add("E13.any-forms", e.Name, "handles *hclsyntax."+f, p.Pos(e.Decl), OK, "reaches "+h, true)
			} else if why, ok := anyFormExceptions[m+"|"+f]; ok {
				r.Add("E13.any-forms", e.Name, "handles *hclsyntax."+f, p.Pos(e.Decl), Excepted, why, true)
			} else {
				r.Add("E13.any-forms", e.Name, "handles *hclsyntax."+f, p.Pos(e.Decl), Violated,
					fmt.Sprintf("%d of %d sibling features reach a handler for *hclsyntax.%s through methods of Any; %s reaches none, so that syntactic form is invisible to this feature only", count[f], len(active), f, m), true)
			}
		}
	}
	r.ExpectMin("E13.any-form-obligations", n, 20)
	r.Clauses = append(r.Clauses, "E13.any-forms: every feature method of decoder.Any that dispatches on syntactic forms reaches, through methods of Any, a handler for each hclsyntax node type that (all but at most one of) its siblings handle; frozen exceptions carry a reason")
}

// anyFeature runs both sibling rules and keeps the obligations of one feature method
// (the siblings are still read: they are the reference).
func anyFeature(method string) func(p *Prog, r *Report) {
	return func(p *Prog, r *Report) {
		tmp := newReport(r.Prop)
		runAnyDelegation(p, tmp)
		runAnyForms(p, tmp)
		fb := newReport(r.Prop)
		runAnyFallbacks(p, fb)
		// fallbacks live in the helpers of the feature: keep those reached from the feature method
		reach := anyReach(p, method)
		for _, o := range fb.Obligs {
			parts := strings.SplitN(o.Key, "|", 3)
			if len(parts) == 3 && reach[parts[1]] {
				construct := parts[2]
				if i := strings.LastIndex(construct, "#"); i > 0 && strings.Trim(construct[i+1:], "0123456789") == "" {
					construct = construct[:i]
				}
				r.Add(o.Rule, parts[1], construct, o.Pos, o.Status, o.Detail, o.NonTrivial)
			}
		}
		for _, e := range fb.Expect {
			r.ExpectMin(e.Name, e.Got, e.Min)
		}
		r.Clauses = append(r.Clauses, fb.Clauses...)
		kept := 0
		for _, o := range tmp.Obligs {
			parts := strings.SplitN(o.Key, "|", 3)
			if len(parts) != 3 {
				continue
			}
			if !strings.HasSuffix(parts[1], "."+method) {
				continue
			}
			kept++
			construct := parts[2]
			if i := strings.LastIndex(construct, "#"); i > 0 && strings.Trim(construct[i+1:], "0123456789") == "" {
				construct = construct[:i]
			}
			r.Add(o.Rule, parts[1], construct, o.Pos, o.Status, o.Detail, o.NonTrivial)
		}
		for _, e := range tmp.Expect {
			r.ExpectMin(e.Name, e.Got, e.Min)
		}
		r.ExpectMin("E13.any-obligations-"+method, kept, 10)
		r.Clauses = append(r.Clauses, tmp.Clauses...)
	}
}

// okFlagOfAssertion: v is the ok of `_, v := x.(*hclsyntax.T)` (single definition): T.
func okFlagOfAssertion(fn *Func, v *types.Var) string {
	if b, ok := v.Type().Underlying().(*types.Basic); !ok || b.Kind() != types.Bool {
		return ""
	}
	info := fn.Info()
	name := ""
	n := 0
	for _, a := range rootOf(fn).Assignments(v) {
		n++
		as, ok := a.(*ast.AssignStmt)
		if !ok || len(as.Lhs) != 2 || len(as.Rhs) != 1 {
			continue
		}
		id, ok := as.Lhs[1].(*ast.Ident)
		if !ok || info.ObjectOf(id) != v {
			continue
		}
		ta, ok := ast.Unparen(as.Rhs[0]).(*ast.TypeAssertExpr)
		if !ok || ta.Type == nil {
			continue
		}
		if pt, ok := info.TypeOf(ta.Type).(*types.Pointer); ok {
			if nt := namedOf(pt); nt != nil && nt.Obj().Pkg() != nil && strings.HasSuffix(nt.Obj().Pkg().Path(), "hclsyntax") {
				name = nt.Obj().Name()
			}
		}
	}
	if n != 1 {
		return ""
	}
	return name
}

func orUnset(s string) string {
	if s == "" {
		return "unset"
	}
	return "= " + s
}

// constraint flags a ladder may consult, per family|method|flag (reviewed).
var anyFlagAllowed = map[string]string{
	"Any|CompletionAtPos|SkipLiteralComplexTypes":  "completion of an AnyExpression inside OneOf leaves complex literals to the sibling constraint (documented purpose of the flag: avoid duplicate candidates)",
	"LiteralType|CompletionAtPos|SkipComplexTypes": "completion of a LiteralType inside OneOf leaves complex literals to the sibling constraint (avoid duplicate candidates)",
}

// rungFlags: boolean fields of a package-schema value that occur in the guards of the rung
// (its own condition and everything that dominates it).
func rungFlags(fn *Func, rg anyRung) []string {
	info := fn.Info()
	seen := map[string]bool{}
	var out []string
	scan := func(e ast.Expr) {
		ast.Inspect(e, func(x ast.Node) bool {
			sel, ok := x.(*ast.SelectorExpr)
			if !ok {
				return true
			}
			// (the selector node may be a clone made by helper inlining: judge by the field object)
			fv, isField := info.ObjectOf(sel.Sel).(*types.Var)
			if !isField || !fv.IsField() || fv.Pkg() == nil || !strings.HasSuffix(fv.Pkg().Path(), "hcl-lang/schema") {
				return true
			}
			if b, ok := fv.Type().Underlying().(*types.Basic); !ok || b.Kind() != types.Bool {
				return true
			}
			nm := canonId(sel.Sel.Name)
			if !seen[nm] {
				seen[nm] = true
				out = append(out, nm)
			}
			return true
		})
	}
	var cond ast.Expr
	switch v := rg.at.(type) {
	case *ast.IfStmt:
		cond = v.Cond
	case *ast.CaseClause:
		if len(v.List) == 1 {
			cond = v.List[0]
		}
	}
	if cond != nil {
		scan(cond)
	}
	if cond != nil {
		for _, a := range fn.GuardsAt(cond).AllAtoms() {
			if a != nil && a.E != nil {
				scan(a.E)
			}
		}
	}
	sort.Strings(out)
	return out
}

// E13.any-fallbacks — after the ladder, every feature of decoder.Any hands the expression to
// the same three fallback decoders: Reference (a reference of the constraint's type),
// functionExpr (a call returning the constraint's type) and LiteralType (a literal of the
// constraint's type). Each such literal built in a method of Any must take its expression
// and path context from the receiver and its type from the receiver's constraint
// (recv.cons.OfType): a fallback built with another type offers / accepts / highlights values
// of a type the schema does not admit at this place — in that one feature only.
func runAnyFallbacks(p *Prog, r *Report) {
	n := 0
	kindsOf := map[*Func]map[string]bool{}
	defer func() {
		var fns []*Func
		for fn := range kindsOf {
			fns = append(fns, fn)
		}
		sort.Slice(fns, func(i, j int) bool { return fns[i].Name < fns[j].Name })
		for _, fn := range fns {
			if len(kindsOf[fn]) < 2 {
				continue // origins: only calls are looked at with the constraint's type
			}
			for _, k := range []string{"Reference", "functionExpr", "LiteralType"} {
				if !kindsOf[fn][k] {
					r.Add("E13.any-fallbacks", fn.Name, "fallback "+k, p.Pos(fn.Decl), Violated,
						"this feature hands the expression to some of the fallback decoders but not to "+k+": its siblings try Reference, functionExpr and LiteralType", true)
				}
			}
		}
	}()
	for _, fn := range p.Funcs {
		if !anyRecv(fn) || fn.Body == nil {
			continue
		}
		info := fn.Info()
		if len(fn.Decl.Recv.List[0].Names) != 1 {
			continue
		}
		recv := info.ObjectOf(fn.Decl.Recv.List[0].Names[0])
		isRecvSel := func(e ast.Expr, path ...string) bool {
			// recv.path[0].path[1]… (through single-definition locals)
			for _, cand := range []ast.Expr{e, fn.InlineLocals(e, 1), fn.InlineLocals(e, 2)} {
				cur := ast.Unparen(cand)
				ok := true
				for i := len(path) - 1; i >= 0; i-- {
					sel, isSel := cur.(*ast.SelectorExpr)
					if !isSel || canonId(sel.Sel.Name) != path[i] {
						ok = false
						break
					}
					cur = ast.Unparen(sel.X)
				}
				if ok {
					if id, isID := cur.(*ast.Ident); isID && info.ObjectOf(id) == recv {
						return true
					}
				}
			}
			return false
		}
		ast.Inspect(fn.Body, func(x ast.Node) bool {
			cl, ok := x.(*ast.CompositeLit)
			if !ok {
				return true
			}
			t := info.TypeOf(cl)
			var kind string
			for _, k := range []string{"Reference", "functionExpr", "LiteralType"} {
				if typeIs(t, "hcl-lang/decoder", k) {
					kind = k
				}
			}
			if kind == "" {
				return true
			}
			n++
			var probs []string
			if e := kvField(cl, "expr"); e == nil || !isRecvSel(e, "expr") {
				probs = append(probs, "its expression is not the receiver's (expr: "+exprStr(e)+")")
			}
			if e := kvField(cl, "pathCtx"); e == nil || !isRecvSel(e, "pathCtx") {
				probs = append(probs, "its path context is not the receiver's")
			}
			var typArg ast.Expr
			switch kind {
			case "functionExpr":
				typArg = kvField(cl, "returnType")
			default:
				if c := kvField(cl, "cons"); c != nil {
					inner, _ := ast.Unparen(c).(*ast.CompositeLit)
					if inner == nil {
						inner, _ = ast.Unparen(fn.InlineLocals(c, 2)).(*ast.CompositeLit)
					}
					if inner != nil {
						if kind == "Reference" {
							typArg = kvField(inner, "OfType")
						} else {
							typArg = kvField(inner, "Type")
						}
					}
				}
			}
			if typArg == nil || !isRecvSel(typArg, "cons", "OfType") {
				got := "unset"
				if typArg != nil {
					got = exprStr(typArg)
				}
				probs = append(probs, "its type is "+got+", not the type of the receiver's constraint")
			}
			key := "fallback " + kind
			if kindsOf[fn] == nil {
				kindsOf[fn] = map[string]bool{}
			}
			kindsOf[fn][kind] = true
			if len(probs) == 0 {
				r.Add("E13.any-fallbacks", fn.Name, key, p.Pos(cl), OK, "expression, path context and type come from the receiver and its constraint", true)
			} else {
				r.Add("E13.any-fallbacks", fn.Name, key, p.Pos(cl), Violated, "the "+kind+" fallback of this feature is built differently from its siblings: "+strings.Join(probs, "; "), true)
			}
			return true
		})
	}
	r.ExpectMin("E13.any-fallback-literals", n, 6)
	r.Clauses = append(r.Clauses, "E13.any-fallbacks: every Reference / functionExpr / LiteralType decoder built in a method of decoder.Any takes expr and pathCtx from the receiver and its type from recv.cons.OfType")
}

// anyReach: names of the methods of Any reached (through methods of Any) from the feature method.
func anyReach(p *Prog, method string) map[string]bool {
	out := map[string]bool{}
	var walk func(fn *Func, depth int)
	walk = func(fn *Func, depth int) {
		if out[fn.Name] || depth < 0 {
			return
		}
		out[fn.Name] = true
		info := fn.Info()
		ast.Inspect(fn.Body, func(x ast.Node) bool {
			if call, ok := x.(*ast.CallExpr); ok {
				if f := calleeOf(info, call); f != nil {
					if cf := p.FuncOf[f]; cf != nil && cf.Body != nil && anyRecv(cf) {
						walk(cf, depth-1)
					}
				}
			}
			return true
		})
	}
	for _, fn := range p.Funcs {
		if anyRecv(fn) && fn.Body != nil && bareFuncName(fn) == method {
			walk(fn, 4)
		}
	}
	return out
}
