package main

// Rename canonicalisation. Rows, exception tables and known findings name functions of the
// pinned tree. A behaviour-preserving rename of a function must not move those anchors, so
// the function inventory of the reviewed tree is frozen (snapshot_gen.go, regenerated with
// `hclverif -gen-snapshot`) and at load time every function that is new by name but has the
// package, receiver type and signature of exactly one function that disappeared is reported
// under the reviewed name (the message adds its current name). Anything less clear-cut (two
// candidates, changed signature) is left alone: the anchor then fails and asks for review.

import (
	"fmt"
	"go/ast"
	"go/types"
	"sort"
	"strings"

	"golang.org/x/tools/go/packages"
)

var funcAlias = map[*types.Func]string{} // current function object -> reviewed bare name
var renameText = map[string]string{}     // current bare name -> reviewed bare name (for rendered expressions)

// fname: the reviewed name of f (its own name unless it was renamed).
func fname(f *types.Func) string {
	if f == nil {
		return ""
	}
	if a, ok := funcAlias[f]; ok {
		return a
	}
	return f.Name()
}

func sigKey(f *types.Func) (group, sig string) {
	pkg := ""
	if f.Pkg() != nil {
		pkg = shortPkg(f.Pkg().Path())
	}
	s, _ := f.Type().(*types.Signature)
	recv := ""
	if s != nil && s.Recv() != nil {
		t := s.Recv().Type()
		if pt, ok := t.(*types.Pointer); ok {
			t = pt.Elem()
			recv = "*"
		}
		if nt, ok := t.(*types.Named); ok {
			recv += canonId(nt.Obj().Name())
		}
	}
	q := func(p *types.Package) string { return p.Path() }
	var ps, rs []string
	if s != nil {
		for i := 0; i < s.Params().Len(); i++ {
			ps = append(ps, types.TypeString(s.Params().At(i).Type(), q))
		}
		for i := 0; i < s.Results().Len(); i++ {
			rs = append(rs, types.TypeString(s.Results().At(i).Type(), q))
		}
		if s.Variadic() {
			ps = append(ps, "...")
		}
	}
	sg := "(" + strings.Join(ps, ",") + ")(" + strings.Join(rs, ",") + ")"
	for nw, old := range typeRenames {
		if strings.Contains(sg, nw) {
			sg = replaceWord(sg, nw, old)
		}
	}
	return pkg + "|" + recv, sg
}

func declaredFuncs(pkgs []*packages.Package) []*types.Func {
	var out []*types.Func
	for _, pk := range pkgs {
		for _, file := range pk.Syntax {
			for _, d := range file.Decls {
				if fd, ok := d.(*ast.FuncDecl); ok {
					if obj, _ := pk.TypesInfo.Defs[fd.Name].(*types.Func); obj != nil {
						out = append(out, obj)
					}
				}
			}
		}
	}
	return out
}

// computeAliases fills funcAlias for the loaded module packages.
func computeAliases(pkgs []*packages.Package) {
	if len(funcSnapshot) == 0 {
		return
	}
	cur := map[string]*types.Func{} // group|name -> func
	byGroupSig := map[string][]*types.Func{}
	for _, f := range declaredFuncs(pkgs) {
		if f.Name() == "init" || f.Name() == "_" {
			continue
		}
		g, s := sigKey(f)
		cur[g+"|"+f.Name()] = f
		if _, known := funcSnapshot[g+"|"+f.Name()]; !known {
			byGroupSig[g+"|"+s] = append(byGroupSig[g+"|"+s], f)
		}
	}
	missing := map[string][]string{} // group|sig -> reviewed names that disappeared
	for k, s := range funcSnapshot {
		if _, ok := cur[k]; ok {
			continue
		}
		i := strings.LastIndex(k, "|")
		missing[k[:i]+"|"+s] = append(missing[k[:i]+"|"+s], k[i+1:])
	}
	for gs, names := range missing {
		cands := byGroupSig[gs]
		if len(names) == 1 && len(cands) == 1 {
			funcAlias[cands[0]] = names[0]
			renameText[cands[0].Name()] = names[0]
			continue
		}
		// several functions of one signature renamed at once: pair them by name similarity
		// (longest common prefix), most decisive pair first, the last one by elimination
		if len(names) == len(cands) && len(names) > 1 && len(names) <= 4 {
			lcp := func(a, b string) int {
				n := 0
				for n < len(a) && n < len(b) && a[n] == b[n] {
					n++
				}
				return n
			}
			sort.Strings(names)
			sort.Slice(cands, func(i, j int) bool { return cands[i].Name() < cands[j].Name() })
			usedN, usedC := map[int]bool{}, map[int]bool{}
			pairs := map[int]int{}
			okAll := true
			for round := 0; round < len(names); round++ {
				if len(names)-round == 1 {
					for i := range names {
						for j := range cands {
							if !usedN[i] && !usedC[j] {
								pairs[i] = j
							}
						}
					}
					break
				}
				best, bi, bj, ties := -1, -1, -1, 0
				for i := range names {
					if usedN[i] {
						continue
					}
					for j := range cands {
						if usedC[j] {
							continue
						}
						l := lcp(names[i], cands[j].Name())
						if l > best {
							best, bi, bj, ties = l, i, j, 1
						} else if l == best {
							ties++
						}
					}
				}
				if ties != 1 || best < 3 {
					okAll = false
					break
				}
				pairs[bi] = bj
				usedN[bi], usedC[bj] = true, true
			}
			if okAll && len(pairs) == len(names) {
				for i, j := range pairs {
					funcAlias[cands[j]] = names[i]
					renameText[cands[j].Name()] = names[i]
				}
			}
		}
	}
}

var typeRenames = map[string]string{} // current type name -> reviewed type name

// computeTypeAliases: a named type that is new by name and has the declaration (field list /
// underlying type) of exactly one reviewed type of the package that disappeared.
func computeTypeAliases(pkgs []*packages.Package) {
	if len(typeSnapshot) == 0 {
		return
	}
	cur := namedTypes(pkgs)
	goneBy, newBy := map[string][]string{}, map[string][]string{}
	for k, u := range typeSnapshot {
		if _, ok := cur[k]; !ok {
			i := strings.Index(k, "|")
			goneBy[k[:i]+"|"+u] = append(goneBy[k[:i]+"|"+u], k[i+1:])
		}
	}
	for k, u := range cur {
		if _, ok := typeSnapshot[k]; !ok {
			i := strings.Index(k, "|")
			newBy[k[:i]+"|"+u] = append(newBy[k[:i]+"|"+u], k[i+1:])
		}
	}
	for ku, gone := range goneBy {
		if nw := newBy[ku]; len(gone) == 1 && len(nw) == 1 {
			typeRenames[nw[0]] = gone[0]
			renameText[nw[0]] = gone[0]
		}
	}
	// second chance for struct types whose fields were renamed as well: same package, same
	// sequence of field types
	shape := func(u string) string {
		if !strings.HasPrefix(u, "struct{") {
			return ""
		}
		var ts []string
		for _, f := range strings.Split(strings.TrimSuffix(strings.TrimPrefix(u, "struct{"), "}"), "; ") {
			if i := strings.Index(f, " "); i >= 0 {
				ts = append(ts, f[i+1:])
			} else {
				ts = append(ts, f)
			}
		}
		return "struct-shape{" + strings.Join(ts, ";") + "}"
	}
	goneShape, newShape := map[string][]string{}, map[string][]string{}
	for ku, gone := range goneBy {
		i := strings.Index(ku, "|")
		for _, g := range gone {
			if _, done := func() (string, bool) {
				for _, o := range typeRenames {
					if o == g {
						return o, true
					}
				}
				return "", false
			}(); done {
				continue
			}
			if sh := shape(ku[i+1:]); sh != "" {
				goneShape[ku[:i]+"|"+sh] = append(goneShape[ku[:i]+"|"+sh], g)
			}
		}
	}
	for ku, nws := range newBy {
		i := strings.Index(ku, "|")
		for _, n := range nws {
			if _, done := typeRenames[n]; done {
				continue
			}
			if sh := shape(ku[i+1:]); sh != "" {
				newShape[ku[:i]+"|"+sh] = append(newShape[ku[:i]+"|"+sh], n)
			}
		}
	}
	for ks, gone := range goneShape {
		if nw := newShape[ks]; len(gone) == 1 && len(nw) == 1 {
			typeRenames[nw[0]] = gone[0]
			renameText[nw[0]] = gone[0]
		}
	}
	// the struct snapshot is keyed by reviewed type names
	_ = cur
}

// namedTypes: "pkg|Name" -> rendering of the underlying type (self-references as "·").
func namedTypes(pkgs []*packages.Package) map[string]string {
	out := map[string]string{}
	for _, pk := range pkgs {
		sc := pk.Types.Scope()
		for _, nm := range sc.Names() {
			tn, ok := sc.Lookup(nm).(*types.TypeName)
			if !ok || tn.IsAlias() {
				continue
			}
			q := func(p *types.Package) string { return p.Path() }
			u := types.TypeString(tn.Type().Underlying(), q)
			u = replaceWord(u, pk.PkgPath+"."+nm, "·")
			out[shortPkg(pk.PkgPath)+"|"+nm] = u
		}
	}
	return out
}

// structFields: "pkg|Type" -> ["name type", …] for the named struct types of the module.
func structFields(pkgs []*packages.Package) map[string][]string {
	out := map[string][]string{}
	q := func(p *types.Package) string { return p.Path() }
	for _, pk := range pkgs {
		sc := pk.Types.Scope()
		for _, nm := range sc.Names() {
			tn, ok := sc.Lookup(nm).(*types.TypeName)
			if !ok {
				continue
			}
			st, ok := tn.Type().Underlying().(*types.Struct)
			if !ok {
				continue
			}
			var fs []string
			for i := 0; i < st.NumFields(); i++ {
				fs = append(fs, st.Field(i).Name()+" "+types.TypeString(st.Field(i).Type(), q))
			}
			out[shortPkg(pk.PkgPath)+"|"+canonId(nm)] = fs
		}
	}
	return out
}

// computeFieldAliases: a field that is new by name in a reviewed struct type and has the type
// of exactly one field that disappeared from it is rendered under the reviewed name.
func computeFieldAliases(pkgs []*packages.Package) {
	cur := structFields(pkgs)
	for key, old := range structSnapshot {
		now, ok := cur[key]
		if !ok {
			continue
		}
		has := func(xs []string, x string) bool {
			for _, y := range xs {
				if y == x {
					return true
				}
			}
			return false
		}
		goneByType, newByType := map[string][]string{}, map[string][]string{}
		for _, f := range old {
			if !has(now, f) {
				i := strings.Index(f, " ")
				goneByType[f[i+1:]] = append(goneByType[f[i+1:]], f[:i])
			}
		}
		for _, f := range now {
			if !has(old, f) {
				i := strings.Index(f, " ")
				newByType[f[i+1:]] = append(newByType[f[i+1:]], f[:i])
			}
		}
		for t, gone := range goneByType {
			if nw := newByType[t]; len(gone) == 1 && len(nw) == 1 {
				// the new name must not be the reviewed name of something else
				renameText[nw[0]] = gone[0]
			}
		}
	}
}

// canonId: the reviewed spelling of an identifier (function or field renamed since review).
func canonId(name string) string {
	if o, ok := renameText[name]; ok {
		return o
	}
	return name
}

func genSnapshot(p *Prog) string {
	var lines []string
	for _, f := range declaredFuncs(p.Pkgs) {
		if f.Name() == "init" || f.Name() == "_" {
			continue
		}
		g, s := sigKey(f)
		lines = append(lines, fmt.Sprintf("\t%q: %q,", g+"|"+f.Name(), s))
	}
	sort.Strings(lines)
	sf := structFields(p.Pkgs)
	var keys []string
	for k := range sf {
		keys = append(keys, k)
	}
	sort.Strings(keys)
	var sl []string
	for _, k := range keys {
		var qs []string
		for _, f := range sf[k] {
			qs = append(qs, fmt.Sprintf("%q", f))
		}
		sl = append(sl, fmt.Sprintf("\t%q: {%s},", k, strings.Join(qs, ", ")))
	}
	return "package main\n\n// Code generated by `hclverif -gen-snapshot`; the function and struct-field inventory of the reviewed tree.\n\nvar funcSnapshot = map[string]string{\n" + strings.Join(lines, "\n") + "\n}\n\nvar structSnapshot = map[string][]string{\n" + strings.Join(sl, "\n") + "\n}\n\nvar typeSnapshot = map[string]string{\n" + typeLines(p) + "\n}\n"
}

func typeLines(p *Prog) string {
	nt := namedTypes(p.Pkgs)
	var keys []string
	for k := range nt {
		keys = append(keys, k)
	}
	sort.Strings(keys)
	var out []string
	for _, k := range keys {
		out = append(out, fmt.Sprintf("\t%q: %q,", k, nt[k]))
	}
	return strings.Join(out, "\n")
}

// scopeLookup finds a package-level object by its reviewed name.
func scopeLookup(sc *types.Scope, name string) types.Object {
	if o := sc.Lookup(name); o != nil {
		return o
	}
	for nw, old := range renameText {
		if old == name {
			if o := sc.Lookup(nw); o != nil {
				return o
			}
		}
	}
	return nil
}

// newCodeFuncs: names of functions (and their literals) that were not part of the reviewed
// tree and are reachable only from such functions — API added after the review. The
// pattern rules (E15.*, E16.*: deviations from idioms of the reviewed code) have no
// reference for them and are not applied there; the safety rules (E2–E6, E14) are.
var newCodeFuncs = map[string]bool{}

func computeNewCode(p *Prog) {
	newCodeFuncs = map[string]bool{}
	reviewed := func(f *Func) bool {
		r := rootFunc(f)
		if r.Obj == nil {
			return true
		}
		g, _ := sigKey(r.Obj)
		_, ok := funcSnapshot[g+"|"+fname(r.Obj)]
		return ok
	}
	callers := buildCallers(p)
	state := map[*Func]int{} // 1 = in progress / new, 2 = not new
	var isNew func(f *Func) bool
	isNew = func(f *Func) bool {
		r := rootFunc(f)
		if st := state[r]; st != 0 {
			return st == 1
		}
		if reviewed(r) {
			state[r] = 2
			return false
		}
		state[r] = 1 // assume new while looking at callers (cycles of new code stay new)
		if r.Obj != nil {
			for _, cs := range callers[r.Obj] {
				if !isNew(cs.fn) {
					state[r] = 2
					return false
				}
			}
			// a function value taken somewhere in reviewed code would be a hidden caller
			for _, g := range p.Funcs {
				if g.Body == nil || state[rootFunc(g)] == 1 {
					continue
				}
				if reviewed(g) {
					ginfo := g.Info()
					hidden := false
					ast.Inspect(g.Body, func(n ast.Node) bool {
						if id, ok := n.(*ast.Ident); ok && ginfo.Uses[id] == types.Object(r.Obj) {
							hidden = true
						}
						return !hidden
					})
					if hidden {
						state[r] = 2
						return false
					}
				}
			}
		}
		return true
	}
	for _, f := range p.Funcs {
		if isNew(f) {
			newCodeFuncs[f.Name] = true
		}
	}
}
