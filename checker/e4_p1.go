package main

// E4.P1 — cty accessors that panic need a dominating kind guard (and, for values that
// come out of evaluating configuration, null and known guards) on the same access path.

import (
	"fmt"
	"go/ast"
	"go/token"
	"go/types"
	"strings"
)

type ctyKind int

const (
	kString ctyKind = 1 << iota
	kNumber
	kBool
	kList
	kSet
	kMap
	kObject
	kTuple
	kDynamic
)

var valueAccessorKinds = map[string]ctyKind{
	"AsString": kString, "AsBigFloat": kNumber, "True": kBool, "False": kBool,
	"AsValueSlice": kList | kSet | kTuple, "AsValueSet": kSet, "AsValueMap": kMap | kObject, "GetAttr": kObject,
	"LengthInt": kList | kSet | kMap | kTuple | kObject, "ElementIterator": kList | kSet | kMap | kTuple | kObject,
}

var typeAccessorKinds = map[string]ctyKind{
	"ElementType": kList | kSet | kMap, "AttributeTypes": kObject, "AttributeType": kObject, "AttributeOptional": kObject,
	"OptionalAttributes": kObject, "HasAttribute": kObject, "TupleElementTypes": kTuple, "TupleElementType": kTuple, "Length": kTuple,
}

var typePredicateKinds = map[string]ctyKind{
	"IsListType": kList, "IsSetType": kSet, "IsMapType": kMap, "IsObjectType": kObject, "IsTupleType": kTuple,
	"IsCollectionType": kList | kSet | kMap, "IsPrimitiveType": kString | kNumber | kBool,
}

var ctyConstKinds = map[string]ctyKind{"String": kString, "Number": kNumber, "Bool": kBool, "DynamicPseudoType": kDynamic}

type origin int

const (
	oUnknown origin = iota
	oConfigEval
	oParserLiteral
	oSchemaOwned
	oParam
	oElement
)

func (o origin) String() string {
	return [...]string{"unknown", "configuration-evaluated", "parser literal", "schema-owned", "parameter", "element of a decoded value"}[o]
}

type p1 struct {
	p       *Prog
	r       *Report
	callers map[*types.Func][]callSite
}

type callSite struct {
	fn   *Func
	call *ast.CallExpr
}

func buildCallers(p *Prog) map[*types.Func][]callSite {
	m := map[*types.Func][]callSite{}
	for _, fn := range p.Funcs {
		info := fn.Info()
		ast.Inspect(fn.Body, func(n ast.Node) bool {
			if lit, ok := n.(*ast.FuncLit); ok && lit != fn.Lit {
				return false
			}
			if call, ok := n.(*ast.CallExpr); ok {
				if f := calleeOf(info, call); f != nil && f.Pkg() != nil && strings.HasPrefix(f.Pkg().Path(), modPath) {
					m[f] = append(m[f], callSite{fn, call})
				}
			}
			return true
		})
	}
	return m
}

type needs struct{ kind, null, known bool }

func (n needs) empty() bool { return !n.kind && !n.null && !n.known }
func (n needs) String() string {
	var s []string
	if n.kind {
		s = append(s, "kind")
	}
	if n.null {
		s = append(s, "non-null")
	}
	if n.known {
		s = append(s, "known")
	}
	return strings.Join(s, "+")
}

// classify the origin of a cty.Value expression; diags is the diagnostics variable of
// the evaluation call if any.
func (c *p1) classify(fn *Func, e ast.Expr) (origin, types.Object) {
	info := fn.Info()
	e = ast.Unparen(e)
	switch x := e.(type) {
	case *ast.Ident:
		o := info.ObjectOf(x)
		if o == nil {
			return oUnknown, nil
		}
		if fn.isParam(o) {
			return oParam, nil
		}
		as := fn.Assignments(o)
		if len(as) == 0 {
			// captured from an enclosing function
			if fn.Parent != nil {
				return c.classify(fn.Parent, e)
			}
			return oUnknown, nil
		}
		res := oUnknown
		var diags types.Object
		for _, a := range as {
			var org origin
			switch s := a.(type) {
			case *ast.AssignStmt:
				if len(s.Rhs) == 1 && len(s.Lhs) >= 1 {
					if call, ok := ast.Unparen(s.Rhs[0]).(*ast.CallExpr); ok {
						if sel, ok := ast.Unparen(call.Fun).(*ast.SelectorExpr); ok && sel.Sel.Name == "Value" && len(s.Lhs) == 2 {
							org = oConfigEval
							if c.jsonRawLiteral(fn, sel.X, call, s) {
								// hcl's JSON expressions, evaluated with a nil EvalContext,
								// return the raw literal: a string-typed result is a known,
								// non-null string (read in hcl/json/structure.go)
								org = oParserLiteral
							}
							if id, ok := s.Lhs[1].(*ast.Ident); ok && id.Name != "_" {
								diags = info.ObjectOf(id)
							}
						}
					}
				}
				if org == oUnknown && len(s.Lhs) == len(s.Rhs) {
					for i, l := range s.Lhs {
						if id, ok := ast.Unparen(l).(*ast.Ident); ok && info.ObjectOf(id) == o {
							org, _ = c.classify(fn, s.Rhs[i])
						}
					}
				}
			case *ast.RangeStmt:
				org = oElement
			case *ast.ValueSpec:
				for i, id := range s.Names {
					if info.ObjectOf(id) == o && i < len(s.Values) {
						org, _ = c.classify(fn, s.Values[i])
					}
				}
				if len(s.Values) == 0 {
					continue // var v cty.Value — zero value, later assigned
				}
			}
			if org == oConfigEval {
				res = oConfigEval
			} else if res == oUnknown {
				res = org
			}
		}
		return res, diags
	case *ast.SelectorExpr:
		if sel, ok := info.Selections[x]; ok && sel.Kind() == types.FieldVal {
			rt := info.TypeOf(x.X)
			if typeIs(rt, "hclsyntax", "LiteralValueExpr") && x.Sel.Name == "Val" {
				return oParserLiteral, nil
			}
			if typeIs(rt, "hcl/v2", "TraverseIndex") && x.Sel.Name == "Key" {
				return oParserLiteral, nil
			}
			if isModuleType(rt) {
				return oSchemaOwned, nil
			}
		}
		return oUnknown, nil
	case *ast.CallExpr:
		if sel, ok := ast.Unparen(x.Fun).(*ast.SelectorExpr); ok && sel.Sel.Name == "Value" {
			return oConfigEval, nil
		}
		if sel, ok := ast.Unparen(x.Fun).(*ast.SelectorExpr); ok && (sel.Sel.Name == "GetAttr" || sel.Sel.Name == "Index") {
			return oElement, nil
		}
	case *ast.IndexExpr:
		return oElement, nil
	}
	return oUnknown, nil
}

// jsonRawLiteral: X.Value(nil) dominated by json.IsJSONExpression(X).
func (c *p1) jsonRawLiteral(fn *Func, recv ast.Expr, call *ast.CallExpr, at ast.Node) bool {
	if len(call.Args) != 1 || !isNilIdent(fn.Info(), call.Args[0]) {
		return false
	}
	rp := fn.Canon(recv)
	if rp == "" {
		return false
	}
	return fn.GuardsAt(at).Holds(func(a *Atom) bool {
		if a.E == nil || !a.Pol {
			return false
		}
		gc, ok := ast.Unparen(a.E).(*ast.CallExpr)
		if !ok || len(gc.Args) != 1 {
			return false
		}
		if !strings.HasSuffix(calleeFull(fn.Info(), gc), "hcl/v2/json.IsJSONExpression") {
			return false
		}
		return fn.Canon(gc.Args[0]) == rp
	})
}

// kindOfAtom: which kinds does this atom establish for the type path tp?
func (c *p1) kindOfAtom(fn *Func, a *Atom, tp string) (ctyKind, ast.Expr) {
	info := fn.Info()
	if a.E == nil {
		return 0, nil
	}
	switch x := ast.Unparen(a.E).(type) {
	case *ast.BinaryExpr:
		if x.Op != token.EQL && x.Op != token.NEQ {
			return 0, nil
		}
		var texpr, kexpr ast.Expr
		if fn.Canon(x.X) == tp {
			texpr, kexpr = x.X, x.Y
		} else if fn.Canon(x.Y) == tp {
			texpr, kexpr = x.Y, x.X
		} else {
			return 0, nil
		}
		for name, k := range ctyConstKinds {
			if isCtyConst(info, kexpr, name) {
				if (x.Op == token.EQL) == a.Pol {
					return k, texpr
				}
			}
		}
	case *ast.CallExpr:
		sel, ok := ast.Unparen(x.Fun).(*ast.SelectorExpr)
		if !ok || fn.Canon(sel.X) != tp {
			return 0, nil
		}
		if k, ok := typePredicateKinds[sel.Sel.Name]; ok && a.Pol && len(x.Args) == 0 {
			return k, sel.X
		}
		if sel.Sel.Name == "Equals" && a.Pol && len(x.Args) == 1 {
			for name, k := range ctyConstKinds {
				if isCtyConst(info, x.Args[0], name) {
					return k, sel.X
				}
			}
		}
	}
	return 0, nil
}

// satisfied computes which needs the guards at node `at` discharge for value path vp
// (type path tp).
func (c *p1) satisfied(fn *Func, at ast.Node, vp, tp string, allowed ctyKind, diags types.Object) (needs, string) {
	g := fn.GuardsAt(at)
	var got needs
	var stale string
	info := fn.Info()
	got.kind = g.Holds(func(a *Atom) bool {
		k, ge := c.kindOfAtom(fn, a, tp)
		if k == 0 || k&^allowed != 0 {
			return false
		}
		if ok, why := fn.guardStillValid(a, ge, at); !ok {
			stale = why
			return false
		}
		return true
	})
	if vp != "" {
		got.null = g.Holds(func(a *Atom) bool {
			call, ok := ast.Unparen(a.E).(*ast.CallExpr)
			if a.E == nil || !ok {
				return false
			}
			sel, ok := ast.Unparen(call.Fun).(*ast.SelectorExpr)
			if !ok || sel.Sel.Name != "IsNull" || a.Pol || fn.Canon(sel.X) != vp {
				return false
			}
			if ok, why := fn.guardStillValid(a, sel.X, at); !ok {
				stale = why
				return false
			}
			return true
		})
		got.known = g.Holds(func(a *Atom) bool {
			if a.E == nil {
				return false
			}
			call, ok := ast.Unparen(a.E).(*ast.CallExpr)
			if !ok {
				return false
			}
			sel, ok := ast.Unparen(call.Fun).(*ast.SelectorExpr)
			if !ok {
				return false
			}
			if (sel.Sel.Name == "IsKnown" || sel.Sel.Name == "IsWhollyKnown") && a.Pol && fn.Canon(sel.X) == vp {
				if ok, why := fn.guardStillValid(a, sel.X, at); !ok {
					stale = why
					return false
				}
				return true
			}
			// diags.HasErrors() == false for the diagnostics of the same evaluation
			if sel.Sel.Name == "HasErrors" && !a.Pol && diags != nil {
				if id, ok := ast.Unparen(sel.X).(*ast.Ident); ok && info.ObjectOf(id) == diags {
					return true
				}
			}
			return false
		})
	}
	return got, stale
}

// check decides one accessor use. vExpr is the cty.Value expression (nil for a type
// accessor), tExpr the cty.Type expression the kind guard must mention.
func (c *p1) check(fn *Func, vExpr, tExpr ast.Expr, at ast.Node, allowed ctyKind, pending needs, depth int, trail string) (bool, string) {
	vp, tp := "", ""
	var org origin
	var diags types.Object
	if vExpr != nil {
		vp = fn.Canon(vExpr)
		if vp == "" {
			return false, "receiver " + exprStr(vExpr) + " is not an access path" + trail
		}
		tp = vp + ".Type()"
		org, diags = c.classify(fn, vExpr)
		if org == oConfigEval {
			pending.null, pending.known = true, true
		}
		// the value parameter of an exported function is whatever the caller has: a typed
		// null passes every kind guard and makes the collection accessors panic
		if org == oParam && depth == 0 && fn.Obj != nil && fn.Obj.Exported() && fn.Parent == nil {
			if sig, ok := fn.Obj.Type().(*types.Signature); ok && sig.Recv() == nil {
				pending.null = true
			}
		}
	} else {
		tp = fn.Canon(tExpr)
		if tp == "" {
			return false, "type operand " + exprStr(tExpr) + " is not an access path" + trail
		}
		org = oUnknown
		if o := baseObj(fn.Info(), tExpr); o != nil && fn.isParam(o) {
			org = oParam
		}
	}
	got, stale := c.satisfied(fn, at, vp, tp, allowed, diags)
	rest := needs{pending.kind && !got.kind, pending.null && !got.null, pending.known && !got.known}
	if rest.empty() {
		return true, fmt.Sprintf("origin %s; guards on %s dominate the use%s", org, pathName(tp), trail)
	}
	// precondition on a parameter / receiver path → all callers
	root := tExpr
	if vExpr != nil {
		root = vExpr
	}
	base := baseObj(fn.Info(), root)
	// expand alias to find the real root
	if base != nil && !fn.isParam(base) {
		if def := fn.SingleDef(base); def != nil && fn.Canon(def) != "" {
			if b2 := baseObj(fn.Info(), def); b2 != nil && fn.isParam(b2) {
				root = substBase(root, base, def, fn.Info())
				base = b2
			}
		}
	}
	if base != nil && fn.isParam(base) && len(fn.Assignments(base)) == 0 && depth < 3 && fn.Obj != nil {
		sites := c.callers[fn.Obj]
		if len(sites) == 0 {
			if why, ok := p1PublicPreconditions[fn.Name]; ok {
				return true, "EXCEPTION: " + why
			}
			return false, fmt.Sprintf("missing %s guard on %s (origin %s); the function has no in-module caller that could establish it%s", rest, pathName(tp), org, trail)
		}
		for _, cs := range sites {
			arg := actualFor(fn, base, cs)
			if arg == nil {
				return false, "cannot map parameter to argument at " + c.p.Pos(cs.call) + trail
			}
			info := fn.Info()
			var v2, t2 ast.Expr
			if vExpr != nil {
				v2 = substBase(root, base, arg, info)
			} else {
				t2 = substBase(root, base, arg, info)
			}
			ok, why := c.check(cs.fn, v2, t2, cs.call, allowed, rest, depth+1, fmt.Sprintf(" ← required by %s at %s", fn.Name, c.p.Pos(at)))
			if !ok {
				return false, why
			}
		}
		return true, fmt.Sprintf("precondition (%s on %s) established at all %d call sites%s", rest, pathName(tp), len(sites), trail)
	}
	msg := fmt.Sprintf("missing %s guard on %s (origin %s)", rest, pathName(tp), org)
	if stale != "" {
		msg += "; a guard exists but " + stale
	}
	return false, msg + trail
}

// actualFor returns the argument (or receiver) expression bound to parameter object o at
// the call site.
func actualFor(fn *Func, o types.Object, cs callSite) ast.Expr {
	info := fn.Info()
	if fn.Decl != nil && fn.Decl.Recv != nil {
		for _, f := range fn.Decl.Recv.List {
			for _, n := range f.Names {
				if info.ObjectOf(n) == o {
					if sel, ok := ast.Unparen(cs.call.Fun).(*ast.SelectorExpr); ok {
						return sel.X
					}
					return nil
				}
			}
		}
	}
	i := 0
	for _, f := range fn.Type.Params.List {
		for _, n := range f.Names {
			if info.ObjectOf(n) == o {
				if i < len(cs.call.Args) {
					return cs.call.Args[i]
				}
				return nil
			}
			i++
		}
	}
	return nil
}

// substBase clones the spine of a path expression, replacing identifier `base` by repl.
func substBase(e ast.Expr, base types.Object, repl ast.Expr, info *types.Info) ast.Expr {
	switch x := ast.Unparen(e).(type) {
	case *ast.Ident:
		if info.ObjectOf(x) == base {
			return repl
		}
		return x
	case *ast.SelectorExpr:
		return &ast.SelectorExpr{X: substBase(x.X, base, repl, info), Sel: x.Sel}
	case *ast.StarExpr:
		return &ast.StarExpr{X: substBase(x.X, base, repl, info)}
	case *ast.CallExpr:
		if sel, ok := ast.Unparen(x.Fun).(*ast.SelectorExpr); ok && len(x.Args) == 0 {
			return &ast.CallExpr{Fun: &ast.SelectorExpr{X: substBase(sel.X, base, repl, info), Sel: sel.Sel}}
		}
	case *ast.IndexExpr:
		return &ast.IndexExpr{X: substBase(x.X, base, repl, info), Index: x.Index}
	case *ast.TypeAssertExpr:
		return substBase(x.X, base, repl, info)
	}
	return e
}

var p1PublicPreconditions = map[string]string{
	"decoder.ExpressionCompletionCandidate": "public helper for completion-hook authors: the value is the hook's own candidate (user data, outside the property's schema/file/cursor quantifier)",
	"lang.ExpressionCompletionCandidate":    "public helper for completion-hook authors: the value is the hook's own candidate (user data, outside the property's schema/file/cursor quantifier)",
}

func runP1(p *Prog, r *Report) {
	c := &p1{p: p, r: r, callers: buildCallers(p)}
	nVal, nTyp := 0, 0
	for _, fn := range p.Funcs {
		info := fn.Info()
		ast.Inspect(fn.Body, func(n ast.Node) bool {
			if lit, ok := n.(*ast.FuncLit); ok && lit != fn.Lit {
				return false
			}
			call, ok := n.(*ast.CallExpr)
			if !ok {
				return true
			}
			sel, ok := ast.Unparen(call.Fun).(*ast.SelectorExpr)
			if !ok {
				return true
			}
			t := info.TypeOf(sel.X)
			if t == nil {
				return true
			}
			if typeIs(t, "go-cty/cty", "Value") {
				allowed, ok := valueAccessorKinds[sel.Sel.Name]
				if !ok {
					return true
				}
				nVal++
				okk, why := c.check(fn, sel.X, nil, call, allowed, needs{kind: true}, 0, "")
				st := OK
				if !okk {
					st = Violated
				} else if strings.HasPrefix(why, "EXCEPTION: ") {
					st = Excepted
					why = strings.TrimPrefix(why, "EXCEPTION: ")
				}
				r.Add("E4.P1-cty-value", fn.Name, exprStr(call.Fun), p.Pos(call), st, why, true)
			} else if typeIs(t, "go-cty/cty", "Type") {
				allowed, ok := typeAccessorKinds[sel.Sel.Name]
				if !ok {
					return true
				}
				nTyp++
				okk, why := c.check(fn, nil, sel.X, call, allowed, needs{kind: true}, 0, "")
				st := OK
				if !okk {
					st = Violated
				}
				r.Add("E4.P1-cty-type", fn.Name, exprStr(call.Fun), p.Pos(call), st, why, true)
			}
			return true
		})
	}
	r.ExpectMin("E4.P1-value-accessors", nVal, 28)
	r.ExpectMin("E4.P1-type-accessors", nTyp, 40)
	r.Clauses = append(r.Clauses, "E4.P1 every panicking cty.Value accessor (AsString, True/False, AsBigFloat, AsValueMap/Slice/Set, GetAttr) and cty.Type accessor (ElementType, AttributeTypes, TupleElementTypes, …) is dominated by a kind guard on the same access path; values obtained by evaluating configuration additionally by non-null and known guards; unguarded uses of parameters become preconditions discharged at every in-module call site (depth ≤ 3)")
	r.Assume("schema-owned cty values (LiteralValue.Value, DefaultValue.Value, IndexStep.Key) are known and non-null; parser literals of a primitive type are known and non-null; hcl evaluation without variables yields an unknown value only together with an error diagnostic")
}
