package main

// E2/E3 who-may-call rules: ambient nondeterminism sources and package-level / decoder-
// level mutable state (C03 "no state kept between queries", C05, C18 "no cached offsets").

import (
	"go/ast"
	"go/token"
	"go/types"
	"strings"
)

var nondetCallees = map[string]string{
	"time.Now": "wall clock", "time.Since": "wall clock", "time.Until": "wall clock",
	"os.Getenv": "environment", "os.LookupEnv": "environment", "os.Environ": "environment", "os.Hostname": "environment", "os.Getpid": "process id",
	"os.Getwd": "environment", "os.ReadFile": "file system", "os.Open": "file system", "os.Stat": "file system",
	"runtime.NumGoroutine": "runtime introspection", "runtime.Caller": "runtime introspection", "runtime.Callers": "runtime introspection",
	"runtime.NumCPU": "runtime introspection", "runtime.GOMAXPROCS": "runtime introspection", "runtime.Stack": "runtime introspection",
}

func runNondetSources(p *Prog, r *Report) {
	nCalls := 0
	for _, fn := range p.Funcs {
		info := fn.Info()
		ast.Inspect(fn.Body, func(n ast.Node) bool {
			if lit, ok := n.(*ast.FuncLit); ok && lit != fn.Lit {
				return false
			}
			switch x := n.(type) {
			case *ast.CallExpr:
				nCalls++
				f := calleeOf(info, x)
				if f == nil || f.Pkg() == nil {
					return true
				}
				full := f.FullName()
				pkg := f.Pkg().Path()
				if why, ok := nondetCallees[full]; ok {
					r.Add("E2.nondet-source", fn.Name, "call "+full, p.Pos(x), Violated, "query code reads an ambient nondeterministic source ("+why+")", false)
				}
				if pkg == "math/rand" || pkg == "math/rand/v2" || pkg == "crypto/rand" {
					r.Add("E2.nondet-source", fn.Name, "call "+full, p.Pos(x), Violated, "query code draws random numbers", false)
				}
				// %p / %v of pointers cannot be told statically in general; %p is
				if strings.HasPrefix(full, "fmt.") {
					for _, a := range x.Args {
						if s, ok := constString(info, a); ok && strings.Contains(s, "%p") {
							r.Add("E2.nondet-source", fn.Name, "format %p", p.Pos(x), Violated, "formats a pointer value (address-dependent output)", false)
						}
					}
				}
			case *ast.SelectStmt:
				r.Add("E2.nondet-source", fn.Name, "select", p.Pos(x), Violated, "select statement (scheduler-dependent choice)", false)
			case *ast.GoStmt:
				r.Add("E2.nondet-source", fn.Name, "go statement", p.Pos(x), Violated, "query code spawns a goroutine; results may depend on scheduling", false)
			}
			return true
		})
	}
	r.ExpectMin("E2.calls-scanned", nCalls, 1500)
	r.Clauses = append(r.Clauses, "no function of the module calls time/rand/env/runtime-introspection APIs, formats pointers with %p, uses select, or spawns goroutines")
}

// runGlobalState: package-level variables are never written after init, and no method
// writes a field of a Decoder/PathDecoder/PathContext value it did not allocate.
func runGlobalState(p *Prog, r *Report) {
	nGlobals := 0
	globals := map[types.Object]bool{}
	for _, pk := range p.Pkgs {
		sc := pk.Types.Scope()
		for _, name := range sc.Names() {
			if v, ok := sc.Lookup(name).(*types.Var); ok {
				globals[v] = true
				nGlobals++
			}
		}
	}
	for _, fn := range p.Funcs {
		info := fn.Info()
		if fn.Decl != nil && fn.Decl.Recv == nil && fn.Decl.Name.Name == "init" {
			continue
		}
		rootGlobal := func(e ast.Expr) types.Object {
			o := baseObj(info, e)
			if o != nil && globals[o] {
				return o
			}
			return nil
		}
		flag := func(n ast.Node, g types.Object, how string) {
			r.Add("E3.global-write", fn.Name, g.Name()+" "+how, p.Pos(n), Violated,
				"package-level variable "+g.Name()+" is "+how+" outside init: state that survives a query and is shared between concurrent queries", true)
		}
		ast.Inspect(fn.Body, func(n ast.Node) bool {
			switch x := n.(type) {
			case *ast.AssignStmt:
				for _, l := range x.Lhs {
					if g := rootGlobal(l); g != nil {
						flag(x, g, "assigned")
					}
				}
			case *ast.IncDecStmt:
				if g := rootGlobal(x.X); g != nil {
					flag(x, g, "incremented")
				}
			case *ast.UnaryExpr:
				if x.Op == token.AND {
					if g := rootGlobal(x.X); g != nil {
						flag(x, g, "address-taken")
					}
				}
			case *ast.CallExpr:
				if isBuiltinCall(info, x, "delete") || isBuiltinCall(info, x, "copy") || isBuiltinCall(info, x, "append") || isBuiltinCall(info, x, "clear") {
					if len(x.Args) > 0 {
						if g := rootGlobal(x.Args[0]); g != nil {
							flag(x, g, "mutated by "+exprStr(x.Fun))
						}
					}
				}
				if arg, ok := isSortCall(info, x); ok {
					if g := rootGlobal(arg); g != nil {
						flag(x, g, "sorted in place")
					}
				}
				// pointer-receiver method on a global (sync.Map.Store, Mutex.Lock, …)
				if sel, ok := ast.Unparen(x.Fun).(*ast.SelectorExpr); ok {
					if s, ok := info.Selections[sel]; ok && s.Kind() == types.MethodVal {
						if g := rootGlobal(sel.X); g != nil {
							sig := s.Obj().Type().(*types.Signature)
							if _, isPtr := sig.Recv().Type().(*types.Pointer); isPtr {
								flag(x, g, "receiver of pointer method "+sel.Sel.Name)
							}
						}
					}
				}
			}
			return true
		})
	}
	r.ExpectMin("E3.package-level-vars", nGlobals, 3)

	// decoder-level state: fields of decoder.Decoder / PathDecoder / PathContext / DecoderContext
	stateTypes := map[string]bool{"Decoder": true, "PathDecoder": true, "PathContext": true, "DecoderContext": true}
	writers := 0
	for _, fn := range p.Funcs {
		info := fn.Info()
		ast.Inspect(fn.Body, func(n ast.Node) bool {
			as, ok := n.(*ast.AssignStmt)
			if !ok {
				return true
			}
			for _, l := range as.Lhs {
				// find a selector step whose X has one of the state types
				e := ast.Unparen(l)
				for {
					var inner ast.Expr
					switch x := e.(type) {
					case *ast.SelectorExpr:
						if t := info.TypeOf(x.X); t != nil {
							if nt := namedOf(t); nt != nil && nt.Obj().Pkg() != nil && strings.HasSuffix(nt.Obj().Pkg().Path(), "hcl-lang/decoder") && stateTypes[nt.Obj().Name()] {
								// allowed only on a value the function itself allocated
								bo := baseObj(info, x.X)
								fresh := false
								if v, ok := bo.(*types.Var); ok && !v.IsField() {
									if def := fn.SingleDef(bo); def != nil {
										d := ast.Unparen(def)
										if u, ok := d.(*ast.UnaryExpr); ok && u.Op == token.AND {
											d = ast.Unparen(u.X)
										}
										if _, ok := d.(*ast.CompositeLit); ok {
											fresh = true
										}
									}
									// a local of the (non-pointer) struct type itself: a private copy,
									// whatever it was copied from (ctx := d.ctx; ctx.F = …), as long as
									// the written field is the copy's own (x.X is that local, not a
									// pointer reached through it) and its address is not taken
									if id, isId := ast.Unparen(x.X).(*ast.Ident); isId && ast.Unparen(l) == ast.Expr(x) && info.ObjectOf(id) == bo && !fn.isParam(bo) && v.Parent() != fn.Pkg.Types.Scope() {
										if _, isPtr := v.Type().Underlying().(*types.Pointer); !isPtr {
											addr := false
											for _, a := range rootFunc(fn).Assignments(bo) {
												if _, isAddr := a.(*ast.UnaryExpr); isAddr {
													addr = true
												}
											}
											if fn.Lit != nil && (v.Pos() < fn.Lit.Pos() || v.Pos() > fn.Lit.End()) {
												addr = true // captured
											}
											if !addr {
												fresh = true
											}
										}
									}
								}
								writers++
								name := nt.Obj().Name() + "." + x.Sel.Name
								if fresh {
									r.Add("E3.decoder-state", fn.Name, name, p.Pos(as), OK, "field of a value allocated in this function", false)
								} else if why, ok := decoderStateSetters[fn.Name]; ok {
									r.Add("E3.decoder-state", fn.Name, name, p.Pos(as), Excepted, why, true)
								} else {
									r.Add("E3.decoder-state", fn.Name, name, p.Pos(as), Violated,
										"writes field "+name+" of a decoder/context value it did not allocate: state kept between (and shared by concurrent) queries", true)
								}
							}
						}
						inner = x.X
					case *ast.IndexExpr:
						inner = x.X
					case *ast.StarExpr:
						inner = x.X
					case *ast.ParenExpr:
						inner = x.X
					}
					if inner == nil {
						break
					}
					e = inner
				}
			}
			return true
		})
	}
	// setters must not be called from inside the module
	for _, fn := range p.Funcs {
		info := fn.Info()
		ast.Inspect(fn.Body, func(n ast.Node) bool {
			call, ok := n.(*ast.CallExpr)
			if !ok {
				return true
			}
			if f := calleeOf(info, call); f != nil {
				if _, isSetter := decoderStateSetters[funcName(f)]; isSetter {
					r.Add("E3.decoder-state", fn.Name, "call "+funcName(f), p.Pos(call), Violated, "a configuration setter is called from library code; it must only be called by the embedding application between queries", true)
				}
			}
			return true
		})
	}
	r.Counts["E3.decoder-state-writers"] = writers
	r.Clauses = append(r.Clauses, "no package-level variable is written, address-taken or mutated outside init; no function writes a field of a Decoder/PathDecoder/PathContext/DecoderContext it did not allocate itself, except the reviewed configuration setters, which no library code calls")
}

var decoderStateSetters = map[string]string{
	"decoder.(*Decoder).SetContext": "configuration setter of the embedding application; not reachable from any query (checked: no in-module caller)",
}
