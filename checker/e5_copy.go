package main

// E5 — Copy engine (property C17, and deepness summaries for E3).
//
// Population: every method named Copy with no parameters in packages schema and lang.
// For each: (a) field coverage of the result, (b) no aliasing of mutable containers,
// (c) nil-receiver safety, (c2) index safety of element stores.

import (
	"fmt"
	"go/ast"
	"go/token"
	"go/types"
	"golang.org/x/tools/go/cfg"
	"strings"
)

// immutableNamed lists named types the property declares immutable values that may be
// shared between a schema value and its copy.
func immutableNamed(t types.Type) bool {
	n := namedOf(t)
	if n == nil || n.Obj().Pkg() == nil {
		return false
	}
	path := n.Obj().Pkg().Path()
	name := n.Obj().Name()
	if strings.Contains(path, "zclconf/go-cty") {
		return true
	}
	if strings.HasSuffix(path, "hcl-lang/lang") && (name == "Address" || name == "Path" || name == "MarkupContent") {
		return true
	}
	if strings.HasSuffix(path, "hcl-lang/schema") && (name == "Address") {
		return true
	}
	if strings.HasSuffix(path, "hcl/v2") {
		return true // hcl.Range etc. by value
	}
	return false
}

// needsCopy reports whether a value of type t, when assigned by plain value copy, shares
// mutable storage with the original.
func needsCopy(t types.Type, depth int) bool {
	if depth > 4 {
		return false
	}
	if immutableNamed(t) {
		return false
	}
	switch u := t.Underlying().(type) {
	case *types.Map:
		return true
	case *types.Slice:
		return true
	case *types.Pointer:
		if _, ok := u.Elem().Underlying().(*types.Struct); ok {
			return true
		}
		return true
	case *types.Struct:
		if !isModuleType(t) {
			return false
		}
		for i := 0; i < u.NumFields(); i++ {
			if needsCopy(u.Field(i).Type(), depth+1) {
				return true
			}
		}
		return false
	case *types.Interface:
		return false // constraints, defaults: immutable by convention (stated in the property)
	}
	return false
}

type copyAnalysis struct {
	p    *Prog
	r    *Report
	fn   *Func
	info *types.Info
	recv types.Object
	rule string
}

// aliasOfRecv reports whether e denotes (part of) the receiver's own storage: the
// receiver, a field path of it, a sub-slice, a conversion of such, or a local variable all
// of whose definitions are such. loopVars maps range value variables to "element of
// receiver container".
func (a *copyAnalysis) aliasOfRecv(e ast.Expr, seen map[types.Object]bool) (bool, string) {
	e = ast.Unparen(e)
	switch x := e.(type) {
	case *ast.Ident:
		o := a.info.ObjectOf(x)
		if o == nil {
			return false, ""
		}
		if o == a.recv {
			return true, "the receiver itself"
		}
		if _, ok := o.(*types.Nil); ok {
			return false, ""
		}
		v, ok := o.(*types.Var)
		if !ok || v.IsField() || v.Pkg() == nil {
			return false, ""
		}
		if seen[o] {
			return false, ""
		}
		seen[o] = true
		// range variable over receiver storage?
		for _, as := range a.fn.Assignments(o) {
			switch s := as.(type) {
			case *ast.RangeStmt:
				if id, ok := s.Value.(*ast.Ident); ok && a.info.ObjectOf(id) == o {
					if al, _ := a.aliasOfRecv(s.X, seen); al {
						return true, "an element of " + exprStr(s.X)
					}
				}
			case *ast.AssignStmt:
				if len(s.Lhs) == len(s.Rhs) {
					for i, l := range s.Lhs {
						if id, ok := ast.Unparen(l).(*ast.Ident); ok && a.info.ObjectOf(id) == o {
							if al, why := a.aliasOfRecv(s.Rhs[i], seen); al {
								return true, why
							}
						}
					}
				}
			case *ast.ValueSpec:
				for i, id := range s.Names {
					if a.info.ObjectOf(id) == o && i < len(s.Values) {
						if al, why := a.aliasOfRecv(s.Values[i], seen); al {
							return true, why
						}
					}
				}
			}
		}
		return false, ""
	case *ast.SelectorExpr:
		if sel, ok := a.info.Selections[x]; ok && sel.Kind() == types.FieldVal {
			if al, _ := a.aliasOfRecv(x.X, seen); al {
				return true, exprStr(x)
			}
		}
		return false, ""
	case *ast.SliceExpr:
		return a.aliasOfRecv(x.X, seen)
	case *ast.IndexExpr:
		if al, _ := a.aliasOfRecv(x.X, seen); al {
			return true, "an element of " + exprStr(x.X)
		}
		return false, ""
	case *ast.StarExpr:
		// *recv.F is a value copy of the pointee; only an alias if the pointee itself
		// holds containers, judged by the caller through the type
		return a.aliasOfRecv(x.X, seen)
	case *ast.CallExpr:
		// conversion T(x) aliases x
		if tv, ok := a.info.Types[x.Fun]; ok && tv.IsType() && len(x.Args) == 1 {
			return a.aliasOfRecv(x.Args[0], seen)
		}
		if isBuiltinCall(a.info, x, "append") && len(x.Args) > 0 {
			// append(recv.F[:0], ...) or append(recv.F, ...) may write into/alias receiver storage
			return a.aliasOfRecv(x.Args[0], seen)
		}
		return false, ""
	case *ast.UnaryExpr:
		if x.Op == token.AND {
			// &local where local := *recv.F  → fresh pointee (shallow)
			if id, ok := ast.Unparen(x.X).(*ast.Ident); ok {
				o := a.info.ObjectOf(id)
				if def := a.fn.SingleDef(o); def != nil {
					if st, ok := ast.Unparen(def).(*ast.StarExpr); ok {
						_ = st
						// shallow copy of pointee: alias only if pointee type has containers
						if needsCopy(a.info.TypeOf(def), 1) {
							return true, "a shallow copy of " + exprStr(def) + " that still shares its containers"
						}
						return false, ""
					}
				}
				return false, ""
			}
			return a.aliasOfRecv(x.X, seen)
		}
	}
	return false, ""
}

func runE5(p *Prog, r *Report) { runE5In(p, r, false) }

// runE5Module: the same rules for every Copy method of the module (decoder.TargetContext,
// reference.Target(s), …), not only the schema/lang ones C17 is about.
func runE5Module(p *Prog, r *Report) { runE5In(p, r, true) }

func runE5In(p *Prog, r *Report, all bool) {
	count := 0
	for _, fn := range p.Funcs {
		if fn.Decl == nil || fn.Decl.Recv == nil || fn.Decl.Name.Name != "Copy" {
			continue
		}
		if fn.Decl.Type.Params != nil && len(fn.Decl.Type.Params.List) != 0 {
			continue
		}
		sp := shortPkg(fn.Pkg.PkgPath)
		if !all && sp != "schema" && sp != "lang" {
			continue
		}
		count++
		analyseCopy(p, r, fn)
	}
	r.ExpectMin("E5.copy-methods", count, 24)
	r.Clauses = append(r.Clauses,
		"E5(a) every field of the receiver's struct type (taken from go/types, so future fields are included) is assigned in the result on every path to a non-nil return",
		"E5(b) no map, slice or pointer field of the result (nor an element of such a container whose type itself holds containers) is the receiver's own storage",
		"E5(c) a pointer-receiver Copy dereferences its receiver only under a nil guard, or every in-module call site passes a receiver proven non-nil",
		"E5(c2) every element store into a result slice targets a slice made with the source's length and is indexed by the source's ranging index; every map store targets a made map")
	r.NotDecided = append(r.NotDecided, "value-level structural equality such as nil-vs-empty containers; immutability of constraints, addresses and cty values (taken from the property statement)")
}

// e5CoverageExceptions: fields a Copy method leaves out on purpose (function|field -> reason).
var e5CoverageExceptions = map[string]string{
	"decoder.(*TargetContext).Copy|ParentRangePtr":    "a child context must not inherit its parent's extent: list/tuple elements fall back to their own expression range, map/object elements set both ranges explicitly (rule E9.element-range-source checks those)",
	"decoder.(*TargetContext).Copy|ParentDefRangePtr": "see ParentRangePtr",
}

func analyseCopy(p *Prog, r *Report, fn *Func) {
	info := fn.Info()
	a := &copyAnalysis{p: p, r: r, fn: fn, info: info}
	recvField := fn.Decl.Recv.List[0]
	if len(recvField.Names) == 1 {
		a.recv = info.ObjectOf(recvField.Names[0])
	}
	recvT := info.TypeOf(recvField.Type)
	isPtr := false
	baseT := recvT
	if pt, ok := recvT.(*types.Pointer); ok {
		isPtr = true
		baseT = pt.Elem()
	}
	fn.CFG()

	// (c) nil receiver
	if isPtr && a.recv != nil {
		guarded := true
		var firstBad ast.Node
		ast.Inspect(fn.Body, func(n ast.Node) bool {
			if _, ok := n.(*ast.FuncLit); ok {
				return false
			}
			var derefBase ast.Expr
			switch x := n.(type) {
			case *ast.SelectorExpr:
				if sel, ok := info.Selections[x]; ok && sel.Kind() == types.FieldVal {
					derefBase = x.X
				}
			case *ast.StarExpr:
				derefBase = x.X
			}
			if derefBase == nil {
				return true
			}
			if id, ok := ast.Unparen(derefBase).(*ast.Ident); !ok || info.ObjectOf(id) != a.recv {
				return true
			}
			if !hasNonNilFact(fn, a.recv, n) {
				guarded = false
				if firstBad == nil {
					firstBad = n
				}
			}
			return true
		})
		if guarded {
			r.Add("E5.c-nil-receiver", fn.Name, "receiver", p.Pos(fn.Decl), OK, "every receiver dereference is dominated by a receiver != nil guard", true)
		} else {
			// all call sites must prove non-nil
			bad := unguardedCopyCallSites(p, fn)
			if len(bad) == 0 {
				r.Add("E5.c-nil-receiver", fn.Name, "receiver", p.Pos(fn.Decl), OK, "no receiver guard, but every in-module call site passes a receiver proven non-nil", true)
			} else {
				r.Add("E5.c-nil-receiver", fn.Name, "receiver", p.Pos(firstBad), Violated,
					fmt.Sprintf("pointer receiver dereferenced without a nil guard; call site(s) that may pass nil: %s", strings.Join(bad, ", ")), true)
			}
		}
	}

	// returns
	var rets []*ast.ReturnStmt
	ast.Inspect(fn.Body, func(n ast.Node) bool {
		if _, ok := n.(*ast.FuncLit); ok {
			return false
		}
		if rs, ok := n.(*ast.ReturnStmt); ok {
			rets = append(rets, rs)
		}
		return true
	})
	st, isStruct := baseT.Underlying().(*types.Struct)
	for ri, rs := range rets {
		if len(rs.Results) != 1 {
			r.Add("E5.shape", fn.Name, fmt.Sprintf("return#%d", ri+1), p.Pos(rs), Undecided, "Copy does not return exactly one value", false)
			continue
		}
		res := ast.Unparen(rs.Results[0])
		// nil return
		if id, ok := res.(*ast.Ident); ok {
			if _, isNil := info.ObjectOf(id).(*types.Nil); isNil {
				if a.recv != nil && hasNilFact(fn, a.recv, rs) {
					r.Add("E5.nil-on-nil", fn.Name, "return nil", p.Pos(rs), OK, "nil is returned only for a nil receiver", false)
				} else {
					r.Add("E5.nil-on-nil", fn.Name, "return nil", p.Pos(rs), Violated, "returns nil on a path where the receiver is not known to be nil", true)
				}
				continue
			}
		}
		if isStruct {
			a.checkStructResult(res, rs, st, baseT)
		} else {
			a.checkContainerResult(res, rs, baseT)
		}
	}
	if len(rets) == 0 {
		r.Add("E5.shape", fn.Name, "no return", p.Pos(fn.Decl), Undecided, "no return statement", false)
	}
}

// hasNonNilFact: a dominating fact obj != nil at node n.
func hasNonNilFact(fn *Func, obj types.Object, n ast.Node) bool {
	for _, f := range fn.FactsAt(n) {
		if f.Kind != FactCond {
			continue
		}
		if isNilCompare(fn.Info(), f.Cond, obj, token.NEQ) && f.Pol {
			return true
		}
		if isNilCompare(fn.Info(), f.Cond, obj, token.EQL) && !f.Pol {
			return true
		}
	}
	return false
}

func hasNilFact(fn *Func, obj types.Object, n ast.Node) bool {
	for _, f := range fn.FactsAt(n) {
		if f.Kind != FactCond {
			continue
		}
		if isNilCompare(fn.Info(), f.Cond, obj, token.EQL) && f.Pol {
			return true
		}
		if isNilCompare(fn.Info(), f.Cond, obj, token.NEQ) && !f.Pol {
			return true
		}
	}
	return false
}

func isNilCompare(info *types.Info, cond ast.Expr, obj types.Object, op token.Token) bool {
	be, ok := ast.Unparen(cond).(*ast.BinaryExpr)
	if !ok || be.Op != op {
		return false
	}
	isObj := func(e ast.Expr) bool {
		id, ok := ast.Unparen(e).(*ast.Ident)
		return ok && info.ObjectOf(id) == obj
	}
	isNil := func(e ast.Expr) bool {
		id, ok := ast.Unparen(e).(*ast.Ident)
		if !ok {
			return false
		}
		_, n := info.ObjectOf(id).(*types.Nil)
		return n
	}
	return (isObj(be.X) && isNil(be.Y)) || (isObj(be.Y) && isNil(be.X))
}

// unguardedCopyCallSites lists in-module call sites of Copy method fn whose receiver
// expression is not proven non-nil.
func unguardedCopyCallSites(p *Prog, target *Func) []string {
	var bad []string
	for _, fn := range p.Funcs {
		info := fn.Info()
		ast.Inspect(fn.Body, func(n ast.Node) bool {
			if lit, ok := n.(*ast.FuncLit); ok && lit != fn.Lit {
				return false
			}
			call, ok := n.(*ast.CallExpr)
			if !ok {
				return true
			}
			if calleeOf(info, call) != target.Obj {
				return true
			}
			sel := ast.Unparen(call.Fun).(*ast.SelectorExpr)
			if !exprProvenNonNil(fn, sel.X, call) {
				bad = append(bad, fmt.Sprintf("%s (%s in %s)", p.Pos(call), exprStr(sel.X), fn.Name))
			}
			return true
		})
	}
	return bad
}

// exprProvenNonNil: e has a dominating `e != nil` fact at node at (by access path), is
// an address-of / composite literal, or a range value (collection elements are assumed
// non-nil: stated assumption).
func exprProvenNonNil(fn *Func, e ast.Expr, at ast.Node) bool {
	info := fn.Info()
	e = ast.Unparen(e)
	switch x := e.(type) {
	case *ast.UnaryExpr:
		if x.Op == token.AND {
			return true
		}
	case *ast.CompositeLit:
		return true
	}
	path := pathOf(info, e)
	if path == "" {
		return false
	}
	for _, f := range fn.FactsAt(at) {
		if f.Kind != FactCond {
			continue
		}
		be, ok := ast.Unparen(f.Cond).(*ast.BinaryExpr)
		if !ok {
			continue
		}
		var other ast.Expr
		if isNilIdent(info, be.Y) {
			other = be.X
		} else if isNilIdent(info, be.X) {
			other = be.Y
		} else {
			continue
		}
		if pathOf(info, other) != path {
			continue
		}
		if (be.Op == token.NEQ && f.Pol) || (be.Op == token.EQL && !f.Pol) {
			return true
		}
	}
	return false
}

func isNilIdent(info *types.Info, e ast.Expr) bool {
	id, ok := ast.Unparen(e).(*ast.Ident)
	if !ok {
		return false
	}
	_, n := info.ObjectOf(id).(*types.Nil)
	return n
}

// resultParts resolves the returned expression to its constructing literal and the local
// variable holding it (if any).
func (a *copyAnalysis) resolveResult(res ast.Expr) (lit *ast.CompositeLit, v types.Object, def ast.Expr) {
	e := ast.Unparen(res)
	if u, ok := e.(*ast.UnaryExpr); ok && u.Op == token.AND {
		e = ast.Unparen(u.X)
	}
	if cl, ok := e.(*ast.CompositeLit); ok {
		return cl, nil, res
	}
	if id, ok := e.(*ast.Ident); ok {
		o := a.info.ObjectOf(id)
		// find defining assignment (first one)
		for _, as := range a.fn.Assignments(o) {
			var rhs ast.Expr
			switch s := as.(type) {
			case *ast.AssignStmt:
				if len(s.Lhs) == len(s.Rhs) {
					for i, l := range s.Lhs {
						if lid, ok := ast.Unparen(l).(*ast.Ident); ok && a.info.ObjectOf(lid) == o {
							rhs = s.Rhs[i]
						}
					}
				}
			case *ast.ValueSpec:
				for i, nid := range s.Names {
					if a.info.ObjectOf(nid) == o && i < len(s.Values) {
						rhs = s.Values[i]
					}
				}
			}
			if rhs == nil {
				continue
			}
			x := ast.Unparen(rhs)
			if u, ok := x.(*ast.UnaryExpr); ok && u.Op == token.AND {
				x = ast.Unparen(u.X)
			}
			if cl, ok := x.(*ast.CompositeLit); ok {
				return cl, o, rhs
			}
			return nil, o, rhs
		}
		return nil, o, nil
	}
	return nil, nil, res
}

func (a *copyAnalysis) checkStructResult(res ast.Expr, rs *ast.ReturnStmt, st *types.Struct, baseT types.Type) {
	p, r, fn, info := a.p, a.r, a.fn, a.info
	lit, v, def := a.resolveResult(res)
	type assign struct {
		val  ast.Expr
		node ast.Node
		elem bool // store into an element of the field
	}
	assigned := map[string][]assign{}
	whole := false // whole-value copy (*x = *y or x := *recv or return recv)
	if lit != nil {
		litT := info.TypeOf(lit)
		if !types.Identical(litT, baseT) {
			r.Add("E5.shape", fn.Name, "result type", p.Pos(rs), Undecided, "returned literal is not of the receiver's type: "+litT.String(), false)
			return
		}
		for i, el := range lit.Elts {
			if kv, ok := el.(*ast.KeyValueExpr); ok {
				if id, ok := kv.Key.(*ast.Ident); ok {
					assigned[id.Name] = append(assigned[id.Name], assign{kv.Value, lit, false})
				}
			} else if i < st.NumFields() {
				assigned[st.Field(i).Name()] = append(assigned[st.Field(i).Name()], assign{el, lit, false})
			}
		}
	} else if def != nil {
		// whole-value copy: x := *recv, or return recv (value receiver)
		d := ast.Unparen(def)
		if se, ok := d.(*ast.StarExpr); ok {
			d = ast.Unparen(se.X)
		}
		if id, ok := d.(*ast.Ident); ok && info.ObjectOf(id) == a.recv {
			whole = true
		} else if call, isNew := ast.Unparen(def).(*ast.CallExpr); isNew && v != nil && isBuiltinCall(info, call, "new") && len(call.Args) == 1 && types.Identical(info.TypeOf(call.Args[0]), baseT) {
			// new(T): an empty value filled by the stores that follow
		} else if v != nil {
			if _, isCall := ast.Unparen(def).(*ast.CallExpr); isCall {
				r.Add("E5.shape", fn.Name, "result", p.Pos(rs), Undecided, "result built by a call: "+exprStr(def), false)
				return
			}
			r.Add("E5.shape", fn.Name, "result", p.Pos(rs), Undecided, "cannot resolve how the result is built: "+exprStr(def), false)
			return
		}
	} else if v != nil && v.Parent() == fn.Pkg.Types.Scope() && needsCopy(info.TypeOf(res), 0) {
		r.Add("E5.b-alias", fn.Name, "result "+exprStr(res), p.Pos(rs), Violated,
			"Copy returns the package-level variable "+v.Name()+" (or its address): every caller receives the same storage, so a write through one copy shows in all others", true)
		return
	} else if v != nil && a.declaredEmpty(v, baseT) {
		// var x T: an empty value filled by the stores that follow
	} else {
		r.Add("E5.shape", fn.Name, "result", p.Pos(rs), Undecided, "cannot resolve the returned value "+exprStr(res), false)
		return
	}
	// later assignments res.F = …, res.F[k] = …, res.F = append(res.F, …)
	if v != nil {
		ast.Inspect(fn.Body, func(n ast.Node) bool {
			as, ok := n.(*ast.AssignStmt)
			if !ok {
				return true
			}
			for i, l := range as.Lhs {
				l = ast.Unparen(l)
				elem := false
				if ix, ok := l.(*ast.IndexExpr); ok {
					l = ast.Unparen(ix.X)
					elem = true
				}
				// *res.F = v: the pointee made for the field receives its value
				if st, ok := l.(*ast.StarExpr); ok {
					l = ast.Unparen(st.X)
				}
				sel, ok := l.(*ast.SelectorExpr)
				if !ok {
					continue
				}
				id, ok := ast.Unparen(sel.X).(*ast.Ident)
				if !ok || info.ObjectOf(id) != v {
					continue
				}
				var val ast.Expr
				if len(as.Lhs) == len(as.Rhs) {
					val = as.Rhs[i]
				}
				if !elem {
					if call, ok := ast.Unparen(val).(*ast.CallExpr); ok && isBuiltinCall(info, call, "append") && len(call.Args) >= 1 &&
						pathOf(info, call.Args[0]) == pathOf(info, as.Lhs[i]) {
						for _, arg := range call.Args[1:] {
							assigned[sel.Sel.Name] = append(assigned[sel.Sel.Name], assign{arg, as, true})
						}
						continue
					}
				}
				assigned[sel.Sel.Name] = append(assigned[sel.Sel.Name], assign{val, as, elem})
			}
			return true
		})
		// copy(res.F, src)
		ast.Inspect(fn.Body, func(n ast.Node) bool {
			call, ok := n.(*ast.CallExpr)
			if !ok || !isBuiltinCall(info, call, "copy") || len(call.Args) != 2 {
				return true
			}
			sel, ok := ast.Unparen(call.Args[0]).(*ast.SelectorExpr)
			if !ok {
				return true
			}
			id, ok := ast.Unparen(sel.X).(*ast.Ident)
			if !ok || info.ObjectOf(id) != v {
				return true
			}
			// element-wise shallow copy from src
			assigned[sel.Sel.Name] = append(assigned[sel.Sel.Name], assign{&ast.IndexExpr{X: call.Args[1], Index: ast.NewIdent("_")}, call, true})
			return true
		})
	}

	for i := 0; i < st.NumFields(); i++ {
		f := st.Field(i)
		name := f.Name()
		as := assigned[name]
		key := "field " + name
		// (a) coverage
		covered := whole
		why := "whole-value copy of the receiver"
		for _, x := range as {
			if x.elem {
				continue
			}
			if x.node == ast.Node(lit) && lit != nil {
				covered, why = true, "set in the result literal"
				break
			}
			if fn.Dominates(x.node, rs) {
				covered, why = true, "assigned on every path to the return"
				break
			}
			if a.onlyGuardedBySourceField(x.node, name) {
				covered, why = true, "assigned whenever the source field is non-empty (zero value otherwise)"
				break
			}
		}
		if !covered {
			// stored in every arm of a branch: no way from the entry to this return avoids all
			// of the (whole-field) stores
			var stores []ast.Node
			for _, x := range as {
				if !x.elem && x.node != ast.Node(lit) {
					stores = append(stores, x.node)
				}
			}
			if len(stores) > 1 && allPathsCross(fn, rs, stores) {
				covered, why = true, "assigned on every path to the return (in every arm)"
			}
		}
		if !covered && a.recv != nil {
			// this return is taken only when the source field is nil / empty: the zero value
			// the result has for it is the copy
			if fn.GuardsAt(rs).Holds(func(at *Atom) bool {
				if at.E == nil {
					return false
				}
				be, ok := ast.Unparen(at.E).(*ast.BinaryExpr)
				if !ok {
					return false
				}
				isSrc := func(e ast.Expr) bool {
					sel, ok := ast.Unparen(e).(*ast.SelectorExpr)
					if !ok || sel.Sel.Name != name {
						return false
					}
					id, ok := ast.Unparen(sel.X).(*ast.Ident)
					return ok && info.ObjectOf(id) == a.recv
				}
				if (be.Op == token.EQL) == at.Pol && (be.Op == token.EQL || be.Op == token.NEQ) {
					if (isSrc(be.X) && isNilIdent(info, be.Y)) || (isSrc(be.Y) && isNilIdent(info, be.X)) {
						return true
					}
				}
				return false
			}) {
				if _, nilable := f.Type().Underlying().(*types.Basic); !nilable {
					covered, why = true, "returned only when the source field is nil (zero value)"
				}
			}
		}
		if !covered {
			if why, ok := e5CoverageExceptions[fn.Name+"|"+name]; ok {
				r.Add("E5.a-coverage", fn.Name, key, p.Pos(rs), Excepted, why, true)
				continue
			}
			r.Add("E5.a-coverage", fn.Name, key, p.Pos(rs), Violated,
				fmt.Sprintf("field %s of %s is not copied into the result returned here", name, types.TypeString(baseT, types.RelativeTo(fn.Pkg.Types))), true)
			continue
		}
		r.Add("E5.a-coverage", fn.Name, key, p.Pos(rs), OK, why, false)
		// (a') the value comes from the receiver's field of the same name
		if !whole {
			srcOK := false
			other := ""
			for _, x := range as {
				if x.val == nil {
					continue
				}
				own, oth := a.recvFieldsMentioned(x.val, map[types.Object]bool{})
				if own[name] {
					srcOK = true
				}
				for o := range oth {
					if o != name {
						other = o
					}
				}
			}
			if srcOK {
				r.Add("E5.a-source", fn.Name, key, p.Pos(rs), OK, "value is derived from the receiver's field "+name, false)
			} else {
				d := "the value assigned to field " + name + " is not derived from the receiver's field " + name
				if other != "" {
					d += " (it reads the receiver's field " + other + " instead)"
				}
				r.Add("E5.a-source", fn.Name, key, p.Pos(rs), Violated, d, true)
			}
		}
		// (b) aliasing
		if !needsCopy(f.Type(), 0) {
			continue
		}
		if whole && len(as) == 0 {
			r.Add("E5.b-alias", fn.Name, key, p.Pos(rs), Violated, "whole-value copy shares this field's container with the receiver", true)
			continue
		}
		bad := ""
		for _, x := range as {
			if x.val == nil {
				continue
			}
			if x.elem {
				// element store: only matters if elements hold containers
				et := elemType(f.Type())
				if et == nil || !needsCopy(et, 0) {
					continue
				}
			}
			if al, what := a.aliasOfRecv(x.val, map[types.Object]bool{}); al {
				if x.elem {
					bad = fmt.Sprintf("element stored into %s is %s (shared, not copied)", name, what)
				} else {
					bad = fmt.Sprintf("%s is assigned %s (shared, not copied)", name, what)
				}
				break
			}
		}
		if bad != "" {
			r.Add("E5.b-alias", fn.Name, key, p.Pos(rs), Violated, bad, true)
		} else {
			r.Add("E5.b-alias", fn.Name, key, p.Pos(rs), OK, "value is a Copy()/make/literal result, never the receiver's storage", true)
		}
		// (c2) index safety for element stores
		for _, x := range as {
			if !x.elem {
				continue
			}
			asg, ok := x.node.(*ast.AssignStmt)
			if !ok {
				continue
			}
			for _, l := range asg.Lhs {
				ix, ok := ast.Unparen(l).(*ast.IndexExpr)
				if !ok {
					continue
				}
				a.checkElementStore(ix, asg, key)
			}
		}
	}
}

// recvFieldsMentioned returns the receiver fields an expression reads (following local
// variables through all their definitions).
func (a *copyAnalysis) recvFieldsMentioned(e ast.Expr, seen map[types.Object]bool) (map[string]bool, map[string]bool) {
	own := map[string]bool{}
	ast.Inspect(e, func(n ast.Node) bool {
		switch x := n.(type) {
		case *ast.SelectorExpr:
			if id, ok := ast.Unparen(x.X).(*ast.Ident); ok && a.info.ObjectOf(id) == a.recv {
				own[x.Sel.Name] = true
				return false
			}
		case *ast.Ident:
			o := a.info.ObjectOf(x)
			v, ok := o.(*types.Var)
			if !ok || v.IsField() || o == a.recv || seen[o] {
				return true
			}
			seen[o] = true
			for _, as := range a.fn.Assignments(o) {
				switch s := as.(type) {
				case *ast.AssignStmt:
					for _, rhs := range s.Rhs {
						m, _ := a.recvFieldsMentioned(rhs, seen)
						for k := range m {
							own[k] = true
						}
					}
				case *ast.RangeStmt:
					m, _ := a.recvFieldsMentioned(s.X, seen)
					for k := range m {
						own[k] = true
					}
				case *ast.ValueSpec:
					for _, rhs := range s.Values {
						m, _ := a.recvFieldsMentioned(rhs, seen)
						for k := range m {
							own[k] = true
						}
					}
				}
			}
		}
		return true
	})
	return own, own
}

func elemType(t types.Type) types.Type {
	switch u := t.Underlying().(type) {
	case *types.Slice:
		return u.Elem()
	case *types.Map:
		return u.Elem()
	case *types.Array:
		return u.Elem()
	case *types.Pointer:
		return u.Elem()
	}
	return nil
}

// onlyGuardedBySourceField: every branch fact at node mentions only recv.<name>
// (nil / length tests), i.e. the assignment is skipped only when the source is empty.
func (a *copyAnalysis) onlyGuardedBySourceField(node ast.Node, name string) bool {
	facts := a.fn.FactsAt(node)
	for _, f := range facts {
		var e ast.Expr
		switch f.Kind {
		case FactCond:
			e = f.Cond
		case FactRange:
			e = f.Range.X
		default:
			return false
		}
		ok := true
		mentions := false
		// a local that only names the source field (v := recv.F; v != nil) reads as the field
		e = a.fn.InlineLocals(e, 2)
		ast.Inspect(e, func(n ast.Node) bool {
			if sel, isSel := n.(*ast.SelectorExpr); isSel {
				if id, isId := ast.Unparen(sel.X).(*ast.Ident); isId && a.info.ObjectOf(id) == a.recv {
					if sel.Sel.Name == name {
						mentions = true
					} else {
						ok = false
					}
					return false
				}
			}
			return true
		})
		if !ok || !mentions {
			// a receiver-nil guard is fine as well
			if f.Kind == FactCond && a.recv != nil && (isNilCompare(a.info, f.Cond, a.recv, token.EQL) || isNilCompare(a.info, f.Cond, a.recv, token.NEQ)) {
				continue
			}
			return false
		}
	}
	return true
}

// checkElementStore: X[i] = v. For a slice X: X was made with len(S) and i is the range
// index over S. For a map X: X was made.
func (a *copyAnalysis) checkElementStore(ix *ast.IndexExpr, at ast.Node, key string) {
	p, r, fn, info := a.p, a.r, a.fn, a.info
	xt := info.TypeOf(ix.X)
	if xt == nil {
		return
	}
	xpath := pathOf(info, ix.X)
	// find a dominating assignment X = make(...)
	var mk *ast.CallExpr
	ast.Inspect(fn.Body, func(n ast.Node) bool {
		as, ok := n.(*ast.AssignStmt)
		if !ok || len(as.Lhs) != len(as.Rhs) {
			return true
		}
		for i, l := range as.Lhs {
			if pathOf(info, l) != xpath {
				continue
			}
			if call, ok := ast.Unparen(as.Rhs[i]).(*ast.CallExpr); ok && isBuiltinCall(info, call, "make") && fn.Dominates(as, at) {
				mk = call
			}
		}
		return true
	})
	switch xt.Underlying().(type) {
	case *types.Map:
		if mk == nil {
			r.Add("E5.c2-store", fn.Name, key+" map store", p.Pos(at), Violated, "store into map "+exprStr(ix.X)+" that is not made on every path to the store (nil map panics)", true)
		} else {
			r.Add("E5.c2-store", fn.Name, key+" map store", p.Pos(at), OK, "map is made before the store", true)
		}
	case *types.Slice:
		if mk == nil || len(mk.Args) < 2 {
			r.Add("E5.c2-store", fn.Name, key+" slice store", p.Pos(at), Violated, "indexed store into slice "+exprStr(ix.X)+" that is not made with a length on every path to the store", true)
			return
		}
		// length argument len(S)
		lenCall, ok := ast.Unparen(mk.Args[1]).(*ast.CallExpr)
		if !ok || !isBuiltinCall(info, lenCall, "len") {
			r.Add("E5.c2-store", fn.Name, key+" slice store", p.Pos(at), Undecided, "slice made with a length that is not len(source)", true)
			return
		}
		src := pathOf(info, lenCall.Args[0])
		// i must be the key of an enclosing range over src
		idxObj := baseObj(info, ix.Index)
		okIdx := false
		if _, isId := ast.Unparen(ix.Index).(*ast.Ident); isId {
			for _, f := range fn.FactsAt(at) {
				if f.Kind == FactRange && f.Range.Key != nil {
					if kid, ok := f.Range.Key.(*ast.Ident); ok && info.ObjectOf(kid) == idxObj && pathOf(info, f.Range.X) == src {
						okIdx = true
					}
				}
			}
		}
		// … or the counter of an enclosing `for i := 0; i < len(src); i++`
		if !okIdx && idxObj != nil {
			if b := fn.countingLoopBound(at, idxObj); b != nil && pathOf(info, b) == src && src != "" {
				okIdx = true
			}
		}
		if okIdx {
			r.Add("E5.c2-store", fn.Name, key+" slice store", p.Pos(at), OK, "slice made with len(source) and indexed by the source's ranging index", true)
		} else {
			r.Add("E5.c2-store", fn.Name, key+" slice store", p.Pos(at), Violated, "index "+exprStr(ix.Index)+" is not the ranging index of the slice whose length sized "+exprStr(ix.X), true)
		}
	}
}

// checkContainerResult: Copy on a named slice/map type.
func (a *copyAnalysis) checkContainerResult(res ast.Expr, rs *ast.ReturnStmt, baseT types.Type) {
	p, r, fn, info := a.p, a.r, a.fn, a.info
	switch baseT.Underlying().(type) {
	case *types.Slice, *types.Map:
	default:
		// scalar-like named type: nothing to share
		r.Add("E5.b-alias", fn.Name, "scalar result", p.Pos(rs), OK, "receiver type holds no container", false)
		return
	}
	if al, what := a.aliasOfRecv(res, map[types.Object]bool{}); al {
		r.Add("E5.b-alias", fn.Name, "container result", p.Pos(rs), Violated, "returns "+what+" instead of a fresh container", true)
		return
	}
	// resolve make
	e := ast.Unparen(res)
	var v types.Object
	if id, ok := e.(*ast.Ident); ok {
		v = info.ObjectOf(id)
		if d := fn.SingleDef(v); d != nil {
			e = ast.Unparen(d)
		} else {
			// multiple assignments: accept if each is make / literal / append-to-self
			e = nil
			okAll := len(fn.Assignments(v)) > 0
			for _, asn := range fn.Assignments(v) {
				as, isA := asn.(*ast.AssignStmt)
				if !isA || len(as.Lhs) != 1 || len(as.Rhs) != 1 {
					okAll = false
					break
				}
				rhs := ast.Unparen(as.Rhs[0])
				if c, isC := rhs.(*ast.CallExpr); isC {
					if isBuiltinCall(info, c, "make") {
						continue
					}
					if isBuiltinCall(info, c, "append") && len(c.Args) >= 1 {
						if id0, isId := ast.Unparen(c.Args[0]).(*ast.Ident); isId && info.ObjectOf(id0) == v {
							continue
						}
					}
				}
				if _, isL := rhs.(*ast.CompositeLit); isL {
					continue
				}
				okAll = false
			}
			if okAll {
				e = &ast.CompositeLit{}
			}
		}
	}
	fresh := false
	if call, ok := e.(*ast.CallExpr); ok && isBuiltinCall(info, call, "make") {
		fresh = true
	}
	if _, ok := e.(*ast.CompositeLit); ok {
		fresh = true
	}
	if !fresh {
		r.Add("E5.b-alias", fn.Name, "container result", p.Pos(rs), Undecided, "cannot show that the returned container is freshly made: "+exprStr(res), true)
		return
	}
	// element stores
	et := elemType(baseT)
	deepElems := et != nil && needsCopy(et, 0)
	bad := ""
	ast.Inspect(fn.Body, func(n ast.Node) bool {
		switch x := n.(type) {
		case *ast.AssignStmt:
			for i, l := range x.Lhs {
				ix, ok := ast.Unparen(l).(*ast.IndexExpr)
				if !ok {
					continue
				}
				id, ok := ast.Unparen(ix.X).(*ast.Ident)
				if !ok || v == nil || info.ObjectOf(id) != v {
					continue
				}
				a.checkElementStore(ix, x, "result")
				if deepElems && len(x.Lhs) == len(x.Rhs) {
					if al, what := a.aliasOfRecv(x.Rhs[i], map[types.Object]bool{}); al {
						bad = "element stored is " + what + " (shared, not copied)"
					}
				}
			}
		case *ast.CallExpr:
			if isBuiltinCall(info, x, "copy") && len(x.Args) == 2 && deepElems {
				if id, ok := ast.Unparen(x.Args[0]).(*ast.Ident); ok && v != nil && info.ObjectOf(id) == v {
					bad = "elements are copied shallowly with copy() although they hold containers"
				}
			}
			if isBuiltinCall(info, x, "append") && deepElems && len(x.Args) > 1 {
				if id, ok := ast.Unparen(x.Args[0]).(*ast.Ident); ok && v != nil && info.ObjectOf(id) == v {
					for _, arg := range x.Args[1:] {
						if al, what := a.aliasOfRecv(arg, map[types.Object]bool{}); al {
							bad = "appended element is " + what + " (shared, not copied)"
						}
					}
				}
			}
		}
		return true
	})
	if bad != "" {
		r.Add("E5.b-alias", fn.Name, "container result", p.Pos(rs), Violated, bad, true)
	} else {
		r.Add("E5.b-alias", fn.Name, "container result", p.Pos(rs), OK, "fresh container; elements are copies or hold no containers", true)
	}
}

// declaredEmpty: v is declared `var v T` (no initial value) and never assigned as a whole.
func (a *copyAnalysis) declaredEmpty(v types.Object, baseT types.Type) bool {
	as := a.fn.Assignments(v)
	n := 0
	for _, x := range as {
		switch s := x.(type) {
		case *ast.ValueSpec:
			if len(s.Values) != 0 {
				return false
			}
			n++
		case *ast.UnaryExpr:
			// &v: returned by address
		default:
			return false
		}
	}
	t := v.Type()
	return n == 1 && types.Identical(t, baseT)
}

// allPathsCross: every CFG path from the function entry to `at` executes one of nodes first.
func allPathsCross(fn *Func, at ast.Node, nodes []ast.Node) bool {
	g := fn.CFG()
	tb := fn.BlockOf(at)
	if g == nil || tb == nil || len(g.Blocks) == 0 {
		return false
	}
	blocked := map[*cfg.Block]bool{}
	atNode := fn.CFGNodeOf(at)
	for _, n := range nodes {
		b := fn.BlockOf(n)
		if b == nil {
			return false
		}
		if b == tb {
			// must come before `at` within the block
			cn := fn.CFGNodeOf(n)
			in, ia := -1, -1
			for i, x := range b.Nodes {
				if x == cn {
					in = i
				}
				if x == atNode {
					ia = i
				}
			}
			if in >= 0 && ia >= 0 && in < ia {
				return true
			}
			continue
		}
		blocked[b] = true
	}
	entry := g.Blocks[0]
	if blocked[entry] {
		return true
	}
	seen := map[*cfg.Block]bool{entry: true}
	work := []*cfg.Block{entry}
	for len(work) > 0 {
		b := work[len(work)-1]
		work = work[:len(work)-1]
		if b == tb {
			return false
		}
		for _, sc := range b.Succs {
			if !seen[sc] && !blocked[sc] {
				seen[sc] = true
				work = append(work, sc)
			}
		}
	}
	return true
}
