package main

// E1 — obligation rows: "in function F, every CFG path to emission point P crosses the
// success edge of each guard G" (edge-sensitive dominance through GuardsAt), plus the
// dual "the condition guarding P is exactly this disjunction" and "no further data filter
// narrows P". Rows are reviewed tables (e1_tables.go); emissions and guards are matched on
// resolved constructs (callee objects, field names, literal types), not on source text.

import (
	"fmt"
	"go/ast"
	"go/parser"
	"go/token"
	"go/types"
	"os"
	"regexp"
	"sort"
	"strconv"
	"strings"
)

// ---- emission selectors -------------------------------------------------------------

type emitKind int

const (
	emAppendCall  emitKind = iota // append(xs, f(...)) where f has the given name
	emAppendLit                   // append(xs, T{...}) / &T{…} of the given type [with Field == const]
	emCall                        // a call of the function/method with the given name
	emReturnTrue                  // return true
	emReturnLit                   // return … T{…} … (literal of the given type among results)
	emReturnCall                  // return f(...)
	emAssignField                 // x.<Field> = …
	emLit                         // any composite literal of the given type
	emReturnFalse                 // return false
	emReturnIdent                 // return <ident named name> as first result
	emAppendIdent                 // append(xs, <ident named name>)
	emAssignIdent                 // <ident named name> = e   [argIs: text of e]
	emReturnText                  // return <expr whose text is name>, …
	emAssignIndex                 // x.<field>[k] = v (store into the map/slice field named `field`)
)

type emitSel struct {
	kind     emitKind
	name     string   // function name or "pkgSuffix.Type"
	field    string   // for emAppendLit: "Field=ConstName"; for emAssignField: field name
	argIs    string   // optional: for emCall — some argument's text must contain this
	text     string   // optional: the emitted literal/call text must contain this (e.g. a constant message)
	args     []string // optional, for emCall: positional argument texts ("" = any) that must be contained
	notText  string   // optional: the emitted node must not mention this identifier/literal text
	fromCall string   // optional, for emAssignIdent: the assigned value is the (first) result of a call of this function, directly or through a single-definition local
	ctor     bool     // set by the row engine on its fallback pass: a literal may be built by a called constructor
}

func splitType(s string) (pkg, name string) {
	i := strings.LastIndex(s, ".")
	return s[:i], s[i+1:]
}

func litMatches(fn *Func, e ast.Expr, sel emitSel) bool {
	info := fn.Info()
	e = ast.Unparen(e)
	if u, ok := e.(*ast.UnaryExpr); ok && u.Op == token.AND {
		e = ast.Unparen(u.X)
	}
	cl, ok := e.(*ast.CompositeLit)
	if !ok {
		return false
	}
	pkg, name := splitType(sel.name)
	t := info.TypeOf(cl)
	if t == nil || !typeIs(t, pkg, name) {
		return false
	}
	if sel.field == "" {
		return true
	}
	kv := strings.SplitN(sel.field, "=", 2)
	v := litField(cl, kv[0])
	if v == nil {
		return false
	}
	switch x := ast.Unparen(v).(type) {
	case *ast.SelectorExpr:
		return x.Sel.Name == kv[1]
	case *ast.Ident:
		switch kv[1] {
		case "$var": // some local variable (as opposed to a field of something)
			v, ok := info.ObjectOf(x).(*types.Var)
			return ok && !v.IsField() && v.Parent() != fn.Pkg.Types.Scope()
		case "$key": // the key variable of an enclosing range (or counting) loop
			o := info.ObjectOf(x)
			for c := ast.Node(cl); c != nil; c = fn.Prog.parents[c] {
				switch l := c.(type) {
				case *ast.RangeStmt:
					if k, ok := l.Key.(*ast.Ident); ok && info.ObjectOf(k) == o {
						return true
					}
				case *ast.ForStmt:
					if rs := countingAsRange(l); rs != nil {
						if k, ok := rs.Key.(*ast.Ident); ok && info.ObjectOf(k) == o {
							return true
						}
					}
				}
			}
			return false
		}
		return x.Name == kv[1]
	case *ast.BasicLit:
		s, _ := constString(info, x)
		return s == kv[1]
	}
	return false
}

func callNamed(info *types.Info, e ast.Expr, name string) *ast.CallExpr {
	call, ok := ast.Unparen(e).(*ast.CallExpr)
	if !ok {
		return nil
	}
	if f := calleeOf(info, call); f != nil && (fname(f) == name || (name == "Sort" && isSortFuncName(f))) {
		return call
	}
	return nil
}

// findEmissions returns the emission nodes of a row in fn.
func findEmissions(fn *Func, sel emitSel) []ast.Node {
	return findEmissionsIn(fn, fn.Body, sel)
}

// findEmissionsIn: the same over a given (possibly substituted) body of fn.
func findEmissionsIn(fn *Func, body ast.Node, sel emitSel) []ast.Node {
	info := fn.Info()
	var out []ast.Node
	ast.Inspect(body, func(n ast.Node) bool {
		if lit, ok := n.(*ast.FuncLit); ok && lit != fn.Lit {
			return false
		}
		switch sel.kind {
		case emAppendCall, emAppendLit, emAppendIdent:
			// an indexed fill of a pre-sized slice (xs[i] = T{…}) emits like an append
			if as, isAs := n.(*ast.AssignStmt); isAs && sel.kind == emAppendLit && len(as.Lhs) == 1 && len(as.Rhs) == 1 && as.Tok == token.ASSIGN {
				if ix, isIx := ast.Unparen(as.Lhs[0]).(*ast.IndexExpr); isIx {
					if _, isSlice := info.TypeOf(ix.X).Underlying().(*types.Slice); isSlice && litMatches(fn, as.Rhs[0], sel) {
						out = append(out, as)
					}
				}
				return true
			}
			call, ok := n.(*ast.CallExpr)
			if !ok || !isBuiltinCall(info, call, "append") {
				return true
			}
			for _, a := range call.Args[1:] {
				if sel.kind == emAppendCall {
					if inner := callNamed(info, a, sel.name); inner != nil {
						if sel.argIs != "" {
							hit := false
							for _, ia := range inner.Args {
								if sameText(fn, exprStr(ia), sel.argIs) || sameText(fn, exprStr(constFold(fn, ia)), sel.argIs) {
									hit = true
								}
							}
							if !hit {
								continue
							}
						}
						out = append(out, call)
					}
				}
				if sel.kind == emAppendLit && (litMatches(fn, a, sel) || (sel.ctor && ctorLitMatches(fn, a, sel))) {
					out = append(out, call)
				}
				if sel.kind == emAppendIdent {
					if id, ok := ast.Unparen(a).(*ast.Ident); ok && identIs(fn, id, sel.name) {
						out = append(out, call)
					}
				}
			}
		case emLit:
			if e, ok := n.(ast.Expr); ok {
				if _, isLit := ast.Unparen(e).(*ast.CompositeLit); isLit && litMatches(fn, e, sel) {
					out = append(out, n)
				}
			}
		case emCall:
			if e, ok := n.(ast.Expr); ok {
				if call := callNamed(info, e, sel.name); call != nil && n == ast.Node(call) {
					if sel.argIs != "" {
						hit := false
						for _, a := range call.Args {
							if containsText(fn, exprStr(a), sel.argIs) {
								hit = true
							}
						}
						if !hit {
							return true
						}
					}
					if sel.args != nil {
						for i, want := range sel.args {
							if want == "" {
								continue
							}
							if i >= len(call.Args) {
								return true
							}
							if containsText(fn, exprStr(call.Args[i]), want) {
								continue
							}
							// the argument is a parameter of a local closure: what its call sites pass
							viaClosure := false
							for _, txt := range closureParamArgs(fn, call.Args[i]) {
								if containsText(rootFunc(fn), txt, want) {
									viaClosure = true
								}
							}
							if !viaClosure {
								return true
							}
						}
					}
					out = append(out, call)
				}
			}
		case emReturnTrue, emReturnFalse:
			if rs, ok := n.(*ast.ReturnStmt); ok && len(rs.Results) >= 1 {
				last := rs.Results[len(rs.Results)-1]
				want := "true"
				if sel.kind == emReturnFalse {
					want = "false"
				}
				if id, ok := ast.Unparen(last).(*ast.Ident); ok && (id.Name == "true" || id.Name == "false") {
					if id.Name == want {
						out = append(out, rs)
					}
				} else if bt, ok := info.TypeOf(last).Underlying().(*types.Basic); ok && bt.Kind() == types.Bool {
					// `return cond`: returns true exactly under cond (false under !cond)
					root := rootFunc(fn)
					if root.extraGuard == nil {
						root.extraGuard = map[ast.Node]*Formula{}
					}
					root.extraGuard[rs] = decompose(last, sel.kind == emReturnTrue, nil)
					out = append(out, rs)
				}
			}
		case emReturnText:
			if rs, ok := n.(*ast.ReturnStmt); ok && len(rs.Results) >= 1 && sameText(fn, cmpText(rs.Results[0]), sel.name) {
				out = append(out, rs)
			}
		case emReturnIdent:
			if rs, ok := n.(*ast.ReturnStmt); ok && len(rs.Results) >= 1 {
				if id, ok := ast.Unparen(rs.Results[0]).(*ast.Ident); ok && identIs(fn, id, sel.name) {
					out = append(out, rs)
				}
			}
		case emReturnLit:
			if rs, ok := n.(*ast.ReturnStmt); ok {
				for _, res := range rs.Results {
					if litMatches(fn, res, sel) || (sel.ctor && ctorLitMatches(fn, res, sel)) {
						out = append(out, rs)
					}
				}
			}
		case emReturnCall:
			if rs, ok := n.(*ast.ReturnStmt); ok {
				for _, res := range rs.Results {
					if inner := callNamed(info, res, sel.name); inner != nil {
						if sel.argIs != "" {
							hit := false
							for _, ia := range inner.Args {
								if sameText(fn, exprStr(ia), sel.argIs) {
									hit = true
								}
							}
							if !hit {
								continue
							}
						}
						out = append(out, rs)
					}
				}
			}
		case emAssignIdent:
			if as, ok := n.(*ast.AssignStmt); ok && sel.fromCall != "" {
				// x = f(…) / x, _ = f(…) / m, _ := f(…); x = m
				isFrom := func(e ast.Expr) bool {
					e = ast.Unparen(e)
					if id, ok := e.(*ast.Ident); ok {
						o := info.ObjectOf(id)
						for _, a := range fn.Assignments(o) {
							if s2, ok := a.(*ast.AssignStmt); ok && len(s2.Rhs) == 1 && len(fn.Assignments(o)) == 1 {
								if isIdentObj(info, s2.Lhs[0], o) && callNamed(info, s2.Rhs[0], sel.fromCall) != nil {
									return true
								}
							}
						}
						return false
					}
					return callNamed(info, e, sel.fromCall) != nil
				}
				if id, ok := ast.Unparen(as.Lhs[0]).(*ast.Ident); ok && as.Tok == token.ASSIGN && identIs(fn, id, sel.name) {
					if (len(as.Rhs) == 1 && isFrom(as.Rhs[0])) || (len(as.Lhs) == len(as.Rhs) && isFrom(as.Rhs[0])) {
						out = append(out, as)
					}
				}
				return true
			}
			if as, ok := n.(*ast.AssignStmt); ok && len(as.Lhs) == len(as.Rhs) {
				for i, l := range as.Lhs {
					if id, ok := ast.Unparen(l).(*ast.Ident); ok && (sel.name == "" || identIs(fn, id, sel.name)) {
						if sel.argIs == "" || sameText(fn, exprStr(as.Rhs[i]), sel.argIs) || sameText(fn, exprStr(fn.InlineLocals(as.Rhs[i], 1)), sel.argIs) ||
							sameText(fn, exprStr(fn.InlineLocals(as.Rhs[i], 2)), sel.argIs) || sameText(fn, exprStr(fn.InlineLocals(as.Rhs[i], 3)), sel.argIs) {
							out = append(out, as)
						}
					}
				}
			}
			// text built with a strings.Builder / bytes.Buffer instead of `s += …`:
			// fmt.Fprintf(&b, …), b.WriteString(…)
			if es, ok := n.(*ast.ExprStmt); ok && sel.name != "" && sel.argIs == "" {
				if call, ok := es.X.(*ast.CallExpr); ok {
					var dst ast.Expr
					switch calleeFull(info, call) {
					case "fmt.Fprintf", "fmt.Fprint", "fmt.Fprintln":
						if len(call.Args) > 0 {
							if u, ok := ast.Unparen(call.Args[0]).(*ast.UnaryExpr); ok && u.Op == token.AND {
								dst = u.X
							} else {
								dst = call.Args[0]
							}
						}
					default:
						if s, ok := call.Fun.(*ast.SelectorExpr); ok && (s.Sel.Name == "WriteString" || s.Sel.Name == "WriteByte" || s.Sel.Name == "WriteRune") {
							dst = s.X
						}
					}
					if id, ok := dst.(*ast.Ident); ok && isTextAccumType(info.TypeOf(id)) {
						if _, isStr := info.TypeOf(id).Underlying().(*types.Basic); !isStr && identIs(fn, id, sel.name) {
							out = append(out, es)
						}
					}
				}
			}
		case emAssignIndex:
			if as, ok := n.(*ast.AssignStmt); ok {
				for _, l := range as.Lhs {
					if ix, ok := ast.Unparen(l).(*ast.IndexExpr); ok && lastSel(ix.X) == sel.field {
						out = append(out, as)
					}
				}
			}
		case emAssignField:
			if as, ok := n.(*ast.AssignStmt); ok {
				for i, l := range as.Lhs {
					if s, ok := ast.Unparen(l).(*ast.SelectorExpr); ok && canonId(s.Sel.Name) == sel.field {
						if sel.argIs == "" || (len(as.Lhs) == len(as.Rhs) && containsText(fn, exprStr(as.Rhs[i]), sel.argIs)) {
							out = append(out, as)
						}
					}
				}
			}
		}
		return true
	})
	return out
}

// identIs: the identifier is the row's variable `name` — by name, or, when the function no
// longer declares any variable of that name (it was renamed), any local variable.
func identIs(fn *Func, id *ast.Ident, name string) bool {
	if id.Name == name || canonId(id.Name) == name {
		return true
	}
	if localNames(fn)[name] {
		return false
	}
	v, ok := fn.Info().ObjectOf(id).(*types.Var)
	return ok && !v.IsField() && v.Pkg() != nil && v.Parent() != v.Pkg().Scope()
}

// ---- guards -----------------------------------------------------------------------------

type guardKind int

const (
	gCall        guardKind = iota // call of function `name` evaluated to pol
	gField                        // bool field/variable named `name` evaluated to pol
	gNil                          // <…>.name == nil is pol (pol=false: proven non-nil)
	gOkLookup                     // comma-ok of a lookup in map field `name` (or type assertion to type `name`) is pol
	gCmp                          // comparison whose normalised text is `name` evaluated to pol
	gInRange                      // inside a range loop over <…>.name
	gAny                          // any of sub
	gHasPrefix                    // strings.HasPrefix(...) is pol
	gDomAssign                    // dominated by an assignment <…>.name = <rhs text>
	gNonNilVar                    // the variable/path named `name` is proven non-nil (P5 engine)
	gDomCall                      // dominated by a call of function `name`
	gVia                          // every path from the success edge of sub[0] to the emission crosses an assignment to <…>.name
	gLastUse                      // nothing reachable after the emission reads <…>.name (the emission is the last access)
	gParamSame                    // `name` is a parameter of the function that is never re-assigned
	gFlagFrom                     // a boolean that is true only where field .name was seen true (the field itself, a local flag set under it, or a helper returning such a flag)
	gInRangeFrom                  // inside a loop over <…>.name[rhs:] (a range over the slice expression, or a counting loop starting at rhs)
)

type guard struct {
	kind guardKind
	name string
	pol  bool
	rhs  string
	sub  []guard
}

func gc(name string) guard    { return guard{kind: gCall, name: name, pol: true} }
func gcNot(name string) guard { return guard{kind: gCall, name: name, pol: false} }

// gcText: the call of `name` whose whole text is `text` (the predicate asked of that very subject)
func gcText(name, text string) guard { return guard{kind: gCall, name: name, rhs: text, pol: true} }
func gf(name string) guard           { return guard{kind: gField, name: name, pol: true} }
func gfNot(name string) guard        { return guard{kind: gField, name: name, pol: false} }
func gNonNil(name string) guard      { return guard{kind: gNil, name: name, pol: false} }
func gIsNil(name string) guard       { return guard{kind: gNil, name: name, pol: true} }
func gOk(name string) guard          { return guard{kind: gOkLookup, name: name, pol: true} }
func gNotOk(name string) guard       { return guard{kind: gOkLookup, name: name, pol: false} }
func gOkOn(name, subject string) guard {
	return guard{kind: gOkLookup, name: name, pol: true, rhs: subject}
}
func gcmp(text string) guard             { return guard{kind: gCmp, name: text, pol: true} }
func gcmpNot(text string) guard          { return guard{kind: gCmp, name: text, pol: false} }
func gany(gs ...guard) guard             { return guard{kind: gAny, sub: gs} }
func grange(name string) guard           { return guard{kind: gInRange, name: name} }
func gprefix() guard                     { return guard{kind: gHasPrefix, pol: true} }
func gassign(lhs, rhs string) guard      { return guard{kind: gDomAssign, name: lhs, rhs: rhs} }
func gvarNonNil(name string) guard       { return guard{kind: gNonNilVar, name: name} }
func gvia(from guard, lhs string) guard  { return guard{kind: gVia, name: lhs, sub: []guard{from}} }
func gdomcallArg(name, arg string) guard { return guard{kind: gDomCall, name: name, rhs: arg} }
func gdomcall(name string) guard         { return guard{kind: gDomCall, name: name} }
func glastuse(name string) guard         { return guard{kind: gLastUse, name: name} }
func gparam(name string) guard           { return guard{kind: gParamSame, name: name} }
func gflag(field string) guard           { return guard{kind: gFlagFrom, name: field, pol: true} }
func grangeFrom(name, lo string) guard   { return guard{kind: gInRangeFrom, name: name, rhs: lo} }

func (g guard) String() string {
	switch g.kind {
	case gLastUse:
		return "last access of ." + g.name
	case gParamSame:
		return "parameter " + g.name + " unchanged"
	case gFlagFrom:
		return "flag from ." + g.name
	case gInRangeFrom:
		return "range ." + g.name + "[" + g.rhs + ":]"
	}
	p := ""
	if !g.pol {
		p = "!"
	}
	switch g.kind {
	case gCall:
		return p + g.name + "(…)"
	case gField:
		return p + "." + g.name
	case gNil:
		if g.pol {
			return "." + g.name + " == nil"
		}
		return "." + g.name + " != nil"
	case gOkLookup:
		return p + "ok(" + g.name + ")"
	case gCmp:
		return p + "(" + g.name + ")"
	case gInRange:
		return "range ." + g.name
	case gHasPrefix:
		return p + "strings.HasPrefix(…)"
	case gDomAssign:
		return "." + g.name + " = " + g.rhs
	case gNonNilVar:
		return g.name + " != nil on every path"
	case gDomCall:
		return "after " + g.name + "(…)"
	case gVia:
		return "from " + g.sub[0].String() + " only via an assignment to " + g.name
	case gAny:
		var s []string
		for _, x := range g.sub {
			s = append(s, x.String())
		}
		return "(" + strings.Join(s, " ∨ ") + ")"
	}
	return "?"
}

func lastSel(e ast.Expr) string {
	switch x := ast.Unparen(e).(type) {
	case *ast.SelectorExpr:
		return canonId(x.Sel.Name)
	case *ast.Ident:
		return canonId(x.Name)
	case *ast.CallExpr:
		return lastSel(x.Fun)
	case *ast.IndexExpr:
		return lastSel(x.X)
	case *ast.StarExpr:
		return lastSel(x.X)
	}
	return ""
}

// aliasSel: for a local defined once as a pure selector chain (`ext := bodySchema.Extensions`),
// the last selector of that definition.
func aliasSel(fn *Func, e ast.Expr) string {
	id, ok := ast.Unparen(e).(*ast.Ident)
	if !ok {
		return ""
	}
	def := fn.SingleDef(fn.Info().ObjectOf(id))
	if def == nil {
		return ""
	}
	if s, ok := ast.Unparen(def).(*ast.SelectorExpr); ok {
		return canonId(s.Sel.Name)
	}
	return ""
}

// paramsAsArgs: e with each parameter of the (unexported, never-escaping) enclosing helper
// replaced by the argument expression that all of its call sites pass for it (same text at
// every site); nil if nothing was replaced.
func paramsAsArgs(fn *Func, e ast.Expr) ast.Expr {
	root := rootOf(fn)
	if root.Obj == nil {
		return nil
	}
	sites := inheritSites(fn)
	if len(sites) == 0 {
		return nil
	}
	sig := root.Obj.Type().(*types.Signature)
	info := fn.Info()
	out := e
	changed := false
	for i := 0; i < sig.Params().Len(); i++ {
		pv := sig.Params().At(i)
		mentioned := false
		ast.Inspect(e, func(z ast.Node) bool {
			if id, ok := z.(*ast.Ident); ok && info.ObjectOf(id) == pv {
				mentioned = true
			}
			return !mentioned
		})
		if !mentioned {
			continue
		}
		var arg ast.Expr
		same := true
		for _, cs := range sites {
			if i >= len(cs.call.Args) {
				same = false
				break
			}
			if arg == nil {
				arg = cs.call.Args[i]
			} else if exprStr(arg) != exprStr(cs.call.Args[i]) {
				same = false
			}
		}
		if !same || arg == nil {
			continue
		}
		out = substExpr(out, pv, arg, info)
		changed = true
	}
	if !changed {
		return nil
	}
	return out
}

// constFold: e with identifiers of module-declared basic constants replaced by their
// literal values (`attr.Name == countAttrName` reads `attr.Name == "count"`).
func constFold(fn *Func, e ast.Expr) ast.Expr {
	info := fn.Info()
	var fold func(x ast.Expr) ast.Expr
	fold = func(x ast.Expr) ast.Expr {
		switch v := ast.Unparen(x).(type) {
		case *ast.Ident, *ast.SelectorExpr:
			var id *ast.Ident
			if i, ok := v.(*ast.Ident); ok {
				id = i
			} else {
				id = v.(*ast.SelectorExpr).Sel
			}
			if c, ok := info.ObjectOf(id).(*types.Const); ok && c.Pkg() != nil && strings.HasPrefix(c.Pkg().Path(), modPath) {
				if b, ok := c.Type().Underlying().(*types.Basic); ok && b.Info()&(types.IsString|types.IsNumeric) != 0 && b.Info()&types.IsUntyped != 0 {
					kind := token.INT
					if b.Info()&types.IsString != 0 {
						kind = token.STRING
					} else if b.Info()&types.IsFloat != 0 {
						kind = token.FLOAT
					}
					return &ast.BasicLit{Kind: kind, Value: c.Val().ExactString()}
				}
			}
		case *ast.BinaryExpr:
			l, r := fold(v.X), fold(v.Y)
			if l != v.X || r != v.Y {
				return &ast.BinaryExpr{X: l, Op: v.Op, Y: r}
			}
		case *ast.CallExpr:
			changed := false
			args := make([]ast.Expr, len(v.Args))
			for i, a := range v.Args {
				args[i] = fold(a)
				if args[i] != a {
					changed = true
				}
			}
			if changed {
				return &ast.CallExpr{Fun: v.Fun, Args: args}
			}
		}
		return x
	}
	return fold(e)
}

type cmpCanon struct {
	text string
	neg  bool
}

// intCmpCanon: canonical spellings "A >= B + d" / "A == B + d" (both orientations) of an
// integer comparison, with neg = the comparison is the negation of that spelling.
func intCmpCanon(be *ast.BinaryExpr) []cmpCanon {
	split := func(e ast.Expr) (ast.Expr, int64, bool) {
		e = ast.Unparen(e)
		if b, ok := e.(*ast.BinaryExpr); ok && (b.Op == token.ADD || b.Op == token.SUB) {
			if lit, ok := ast.Unparen(b.Y).(*ast.BasicLit); ok && lit.Kind == token.INT {
				if v, err := strconv.ParseInt(lit.Value, 0, 64); err == nil {
					if b.Op == token.SUB {
						v = -v
					}
					return b.X, v, true
				}
			}
		}
		return e, 0, true
	}
	ea, ka, _ := split(be.X)
	eb, kb, _ := split(be.Y)
	A, B := cmpText(ea), cmpText(eb)
	d := kb - ka // ea OP eb + d
	mk := func(l, r string, d int64, op string) string {
		switch {
		case d == 0:
			return l + " " + op + " " + r
		case d > 0:
			return fmt.Sprintf("%s %s %s + %d", l, op, r, d)
		default:
			return fmt.Sprintf("%s %s %s - %d", l, op, r, -d)
		}
	}
	var out []cmpCanon
	switch be.Op {
	case token.GEQ: // A >= B+d ; also B <= A-d  i.e. !(B >= A - d + 1)
		out = append(out, cmpCanon{mk(A, B, d, ">="), false}, cmpCanon{mk(B, A, -d+1, ">="), true})
	case token.GTR: // A >= B+d+1 ; B < A-d i.e. !(B >= A-d)
		out = append(out, cmpCanon{mk(A, B, d+1, ">="), false}, cmpCanon{mk(B, A, -d, ">="), true})
	case token.LSS: // !(A >= B+d) ; B > A-d i.e. B >= A-d+1
		out = append(out, cmpCanon{mk(A, B, d, ">="), true}, cmpCanon{mk(B, A, -d+1, ">="), false})
	case token.LEQ: // !(A >= B+d+1) ; B >= A-d
		out = append(out, cmpCanon{mk(A, B, d+1, ">="), true}, cmpCanon{mk(B, A, -d, ">="), false})
	case token.EQL:
		out = append(out, cmpCanon{mk(A, B, d, "=="), false}, cmpCanon{mk(B, A, -d, "=="), false})
	case token.NEQ:
		out = append(out, cmpCanon{mk(A, B, d, "=="), true}, cmpCanon{mk(B, A, -d, "=="), true})
	}
	// a length is never negative: len(x) != 0 ⇔ len(x) > 0 ⇔ len(x) >= 1, len(x) == 0 ⇔ len(x) < 1
	isLen := func(e ast.Expr) bool {
		c, ok := ast.Unparen(e).(*ast.CallExpr)
		if !ok || len(c.Args) != 1 {
			return false
		}
		id, ok := c.Fun.(*ast.Ident)
		return ok && (id.Name == "len" || id.Name == "cap")
	}
	if isLen(ea) && B == "0" {
		switch {
		case be.Op == token.NEQ && d == 0, be.Op == token.GTR && d == 0, be.Op == token.GEQ && d == 1:
			out = append(out, cmpCanon{mk(A, B, 0, "=="), true}, cmpCanon{mk(A, B, 1, ">="), false}, cmpCanon{mk(B, A, 0, ">="), true})
		case be.Op == token.EQL && d == 0, be.Op == token.LSS && d == 1, be.Op == token.LEQ && d == 0:
			out = append(out, cmpCanon{mk(A, B, 0, "=="), false}, cmpCanon{mk(A, B, 1, ">="), true}, cmpCanon{mk(B, A, 0, ">="), false})
		}
	}
	return out
}

// cmpText: normalised text of a comparison (package qualifiers dropped).
func cmpText(e ast.Expr) string {
	s := exprStr(e)
	for _, q := range []string{"schemahelper.", "schema.", "lang.", "hclsyntax.", "hcl.", "cty.", "reference."} {
		s = strings.ReplaceAll(s, q, "")
	}
	return s
}

// atomMatches: does atom a establish guard g?
func atomMatches(fn *Func, a *Atom, g guard) bool {
	info := fn.Info()
	a = fn.viewAtom(a)
	if a.E == nil {
		if g.kind == gOkLookup && a.TypeX != nil && a.Pol == g.pol {
			if g.rhs != "" && !sameText(fn, cmpText(a.TypeX), g.rhs) && !sameText(fn, cmpText(fn.InlineLocals(a.TypeX, 3)), g.rhs) {
				return false // the switch is over something other than the stated subject
			}
			for _, t := range a.Types {
				if lastSel(t) == g.name {
					return true
				}
			}
		}
		return false
	}
	e := ast.Unparen(a.E)
	switch g.kind {
	case gCall:
		if call, ok := e.(*ast.CallExpr); ok {
			if f := calleeOf(info, call); f != nil && fname(f) == g.name {
				if g.rhs != "" && !sameText(fn, cmpText(call), g.rhs) && !sameText(fn, cmpText(fn.InlineLocals(call, 2)), g.rhs) {
					return false // the named predicate, but asked of something else
				}
				return a.Pol == g.pol
			}
		}
	case gHasPrefix:
		if call, ok := e.(*ast.CallExpr); ok && calleeFull(info, call) == "strings.HasPrefix" {
			return a.Pol == g.pol
		}
	case gFlagFrom:
		return a.Pol && flagDerivedFrom(fn, e, g.name, 0)
	case gField:
		switch x := e.(type) {
		case *ast.SelectorExpr:
			if canonId(x.Sel.Name) == g.name {
				return a.Pol == g.pol
			}
		case *ast.Ident:
			if canonId(x.Name) == g.name || aliasSel(fn, x) == g.name {
				return a.Pol == g.pol
			}
		}
	case gNil:
		if be, ok := e.(*ast.BinaryExpr); ok && (be.Op == token.EQL || be.Op == token.NEQ) {
			var other ast.Expr
			if isNilIdent(info, be.Y) {
				other = be.X
			} else if isNilIdent(info, be.X) {
				other = be.Y
			}
			if other != nil && (lastSel(other) == g.name || aliasSel(fn, other) == g.name) {
				isNil := (be.Op == token.EQL) == a.Pol
				return isNil == g.pol
			}
		}
	case gCmp:
		if c := bytesEqualAsCmp(info, e); c != nil {
			e = c
		}
		// emptiness of a string spelled through its length: len(s) < 1, len(s) == 0 also read as s == ""
		if be1, ok := e.(*ast.BinaryExpr); ok {
			if se := stringEmptinessAsCmp(info, be1); se != nil {
				if sameText(fn, cmpText(se), g.name) {
					return a.Pol == g.pol
				}
				if sb, ok := se.(*ast.BinaryExpr); ok {
					if pe := paramsAsArgs(fn, sb); pe != nil && sameText(fn, cmpText(pe), g.name) {
						return a.Pol == g.pol
					}
				}
			}
		}
		if be0, ok := e.(*ast.BinaryExpr); ok {
			if sameText(fn, cmpText(e), g.name) {
				return a.Pol == g.pol
			}
			// == and != are symmetric
			if be0.Op == token.EQL || be0.Op == token.NEQ {
				sw := &ast.BinaryExpr{X: be0.Y, Op: be0.Op, Y: be0.X}
				if sameText(fn, cmpText(sw), g.name) {
					return a.Pol == g.pol
				}
				if pe := paramsAsArgs(fn, sw); pe != nil && sameText(fn, cmpText(pe), g.name) {
					return a.Pol == g.pol
				}
			}
			// inside an extracted helper: parameters stand for the arguments every call site passes
			if pe := paramsAsArgs(fn, be0); pe != nil && sameText(fn, cmpText(pe), g.name) {
				return a.Pol == g.pol
			}
			// named constants of the module stand for their values
			if fe := constFold(fn, be0); fe != ast.Expr(be0) && sameText(fn, cmpText(fe), g.name) {
				return a.Pol == g.pol
			}
			for _, alt := range inlinedVariants(fn, be0) {
				if sameText(fn, cmpText(alt), g.name) {
					return a.Pol == g.pol
				}
				if ab, ok := ast.Unparen(alt).(*ast.BinaryExpr); ok {
					if se := stringEmptinessAsCmp(info, ab); se != nil && sameText(fn, cmpText(se), g.name) {
						return a.Pol == g.pol
					}
				}
			}
			// integer comparisons up to ±1 rewriting and orientation: i+1 > n ≡ i >= n ≡ !(i < n) ≡ n <= i
			if t := info.TypeOf(be0.X); t != nil {
				if b, ok := t.Underlying().(*types.Basic); ok && b.Info()&types.IsInteger != 0 {
					if rowE, err := parser.ParseExpr(g.name); err == nil {
						if rb, ok := ast.Unparen(rowE).(*ast.BinaryExpr); ok {
							// the comparison as written, and with single-definition locals inlined
							forms := []*ast.BinaryExpr{be0}
							for _, alt := range inlinedVariants(fn, be0) {
								if ab, ok := ast.Unparen(alt).(*ast.BinaryExpr); ok {
									forms = append(forms, ab)
								}
							}
							for _, form := range forms {
								for _, cc := range intCmpCanon(form) {
									for _, rc := range intCmpCanon(rb) {
										if sameText(fn, cc.text, rc.text) {
											return (a.Pol != cc.neg) == (g.pol != rc.neg)
										}
									}
								}
							}
						}
					}
				}
			}
			// len(x) == 0  ≡  !(len(x) > 0);  len(x) != 0  ≡  len(x) > 0
			if c, isC := ast.Unparen(be0.X).(*ast.CallExpr); isC && isLenCall(info, c) && exprStr(be0.Y) == "0" && (be0.Op == token.EQL || be0.Op == token.NEQ) {
				if sameText(fn, cmpText(&ast.BinaryExpr{X: be0.X, Op: token.GTR, Y: be0.Y}), g.name) {
					if be0.Op == token.EQL {
						return a.Pol != g.pol
					}
					return a.Pol == g.pol
				}
			}
			if c, isC := ast.Unparen(be0.X).(*ast.CallExpr); isC && isLenCall(info, c) && exprStr(be0.Y) == "0" && be0.Op == token.GTR {
				if sameText(fn, cmpText(&ast.BinaryExpr{X: be0.X, Op: token.EQL, Y: be0.Y}), g.name) {
					return a.Pol != g.pol
				}
			}
			// negated spelling: a == b false ≡ a != b true
			if be := e.(*ast.BinaryExpr); true {
				neg := map[token.Token]token.Token{token.EQL: token.NEQ, token.NEQ: token.EQL, token.LSS: token.GEQ, token.GEQ: token.LSS, token.GTR: token.LEQ, token.LEQ: token.GTR}
				if nop, ok := neg[be.Op]; ok {
					alt := cmpText(&ast.BinaryExpr{X: be.X, Op: nop, Y: be.Y})
					if sameText(fn, alt, g.name) {
						return a.Pol != g.pol
					}
				}
			}
		}
	case gOkLookup:
		if id, ok := e.(*ast.Ident); ok {
			o := info.ObjectOf(id)
			for _, asn := range fn.Assignments(o) {
				var rhs ast.Expr
				switch s := asn.(type) {
				case *ast.AssignStmt:
					if len(s.Rhs) == 1 && len(s.Lhs) >= 2 && ast.Unparen(s.Lhs[len(s.Lhs)-1]) != nil && isIdentObj(info, s.Lhs[len(s.Lhs)-1], o) {
						rhs = s.Rhs[0]
					}
				case *ast.ValueSpec:
					if len(s.Values) == 1 && len(s.Names) == 2 {
						rhs = s.Values[0]
					}
				}
				if rhs == nil {
					continue
				}
				switch r := ast.Unparen(rhs).(type) {
				case *ast.IndexExpr:
					if lastSel(r.X) == g.name {
						return a.Pol == g.pol
					}
				case *ast.TypeAssertExpr:
					if r.Type != nil && lastSel(r.Type) == g.name {
						if g.rhs != "" && !sameText(fn, cmpText(r.X), g.rhs) && !sameText(fn, cmpText(fn.InlineLocals(r.X, 3)), g.rhs) {
							continue
						}
						return a.Pol == g.pol
					}
				case *ast.CallExpr:
					if f := calleeOf(info, r); f != nil && fname(f) == g.name {
						return a.Pol == g.pol
					}
				}
			}
		}
	}
	return false
}

// guardHolds decides guard g at node `at`.
func guardHolds(p5c *p5, fn *Func, at ast.Node, g guard) bool {
	switch g.kind {
	case gAny:
		// a dominating disjunctive fact all of whose alternatives match some sub-guard,
		// or any single sub-guard holding
		for _, s := range g.sub {
			if guardHolds(p5c, fn, at, s) {
				return true
			}
		}
		anySub := func(a *Atom) bool {
			for _, s := range g.sub {
				if s.kind != gAny && s.kind != gInRange && s.kind != gInRangeFrom && s.kind != gDomAssign && s.kind != gNonNilVar && atomMatches(fn, a, s) {
					return true
				}
			}
			return false
		}
		if fn.GuardsAt(at).Holds(anySub) {
			return true
		}
		return fn.HoldsOnAllPaths(at, anySub)
	case gInRange:
		for _, f := range fn.FactsAt(at) {
			if f.Kind != FactRange {
				continue
			}
			if lastSel(f.Range.X) == g.name {
				return true
			}
			// the ranged collection is a local defined once: for _, x := range xs where xs := d.f()
			if id, ok := ast.Unparen(f.Range.X).(*ast.Ident); ok {
				if def := fn.SingleDef(fn.Info().ObjectOf(id)); def != nil && lastSel(def) == g.name {
					return true
				}
			}
		}
		// a counting loop bounded by the collection's length: for i := …; i < len(xs); i++
		for c := ast.Node(at); c != nil; c = fn.Prog.parents[c] {
			fs, ok := fn.Prog.parents[c].(*ast.ForStmt)
			if !ok || fs.Body != c || fs.Cond == nil {
				continue
			}
			found := false
			var conj func(e ast.Expr)
			conj = func(e ast.Expr) {
				b, ok := ast.Unparen(e).(*ast.BinaryExpr)
				if !ok {
					return
				}
				if b.Op == token.LAND {
					conj(b.X)
					conj(b.Y)
					return
				}
				if b.Op != token.LSS && b.Op != token.LEQ {
					return
				}
				bound := ast.Unparen(b.Y)
				if id, ok := bound.(*ast.Ident); ok {
					if def := fn.SingleDef(fn.Info().ObjectOf(id)); def != nil {
						bound = ast.Unparen(def)
					}
				}
				if c, ok := bound.(*ast.CallExpr); ok && isLenCall(fn.Info(), c) && (lastSel(c.Args[0]) == g.name || aliasSel(fn, c.Args[0]) == g.name) {
					found = true
				}
			}
			conj(fs.Cond)
			if found {
				return true
			}
		}
		return false
	case gDomAssign:
		found := false
		ast.Inspect(fn.Body, func(n ast.Node) bool {
			as, ok := n.(*ast.AssignStmt)
			if !ok || len(as.Lhs) != len(as.Rhs) {
				return true
			}
			for i, l := range as.Lhs {
				if strings.HasSuffix(exprStr(l), g.name) && exprStr(as.Rhs[i]) == g.rhs && fn.Dominates(as, at) {
					found = true
				}
			}
			return true
		})
		return found
	case gVia:
		// find condition blocks whose success edge establishes sub[0]; from each, search
		// forward to `at` avoiding assignments to <…>.name
		g0 := g.sub[0]
		cfgG := fn.CFG()
		atNode := fn.CFGNodeOf(at)
		for _, b := range cfgG.Blocks {
			if len(b.Succs) != 2 || len(b.Nodes) == 0 {
				continue
			}
			cond, ok := b.Nodes[len(b.Nodes)-1].(ast.Expr)
			if !ok {
				continue
			}
			for k := 0; k < 2; k++ {
				f := decompose(cond, k == 0, nil)
				if !f.Holds(func(a *Atom) bool { return atomMatches(fn, a, g0) }) {
					continue
				}
				reached := false
				cfgForward(fn, b.Succs[k], 0, func(n ast.Node) bool {
					if as, ok := n.(*ast.AssignStmt); ok {
						for _, l := range as.Lhs {
							if strings.HasSuffix(exprStr(l), g.name) {
								return true
							}
						}
					}
					if n == atNode {
						reached = true
						return true
					}
					return false
				})
				if reached {
					return false
				}
			}
		}
		return true
	case gDomCall:
		found := false
		ast.Inspect(fn.Body, func(n ast.Node) bool {
			if call, ok := n.(*ast.CallExpr); ok {
				if f := calleeOf(fn.Info(), call); f != nil && (fname(f) == g.name || (g.name == "Sort" && isSortFuncName(f))) && fn.Dominates(call, at) && call != at {
					if g.rhs == "" {
						found = true
					} else {
						for _, a := range call.Args {
							if sameText(fn, exprStr(a), g.rhs) {
								// "after the last element was added": nothing may be appended to the
								// sorted slice between this call and the use
								late := false
								info := fn.Info()
								ast.Inspect(fn.Body, func(k ast.Node) bool {
									as, ok := k.(*ast.AssignStmt)
									if !ok || len(as.Lhs) != 1 || len(as.Rhs) != 1 || late {
										return !late
									}
									if c2, ok := ast.Unparen(as.Rhs[0]).(*ast.CallExpr); ok && isBuiltinCall(info, c2, "append") && exprStr(as.Lhs[0]) == exprStr(a) {
										if reachesStmt(fn, call, as, nil) && reachesStmt(fn, as, at, nil) {
											late = true
										}
									}
									return true
								})
								if !late {
									found = true
								}
							}
						}
					}
				}
			}
			return true
		})
		return found
	case gLastUse:
		// no read of a selector ….name is reachable from the emission (other than the
		// emission's own statement)
		later := false
		ast.Inspect(rootOf(fn).Body, func(n ast.Node) bool {
			if later {
				return false
			}
			sel, ok := n.(*ast.SelectorExpr)
			if !ok || canonId(sel.Sel.Name) != g.name {
				return true
			}
			if nodeContains(at, sel) {
				return true
			}
			// a pure write `x.name = …` is not a read
			if as, ok := fn.Prog.Parent(sel).(*ast.AssignStmt); ok {
				for _, l := range as.Lhs {
					if ast.Unparen(l) == ast.Expr(sel) {
						return true
					}
				}
			}
			if fn.Prog.EnclosingFunc(sel) == fn && reachesStmt(fn, at, sel, nil) {
				later = true
			}
			return true
		})
		return !later
	case gInRangeFrom:
		info := fn.Info()
		isSliceFrom := func(e ast.Expr) bool {
			e = ast.Unparen(e)
			if id, ok := e.(*ast.Ident); ok {
				if def := fn.SingleDef(info.ObjectOf(id)); def != nil {
					e = ast.Unparen(def)
				}
			}
			sl, ok := e.(*ast.SliceExpr)
			if !ok || sl.High != nil || sl.Low == nil || lastSel(sl.X) != g.name {
				return false
			}
			return exprStr(constFold(fn, sl.Low)) == g.rhs
		}
		for _, f := range fn.FactsAt(at) {
			if f.Kind == FactRange && isSliceFrom(f.Range.X) {
				return true
			}
		}
		// for i := lo; i < len(xs); i++
		for c := ast.Node(at); c != nil; c = fn.Prog.parents[c] {
			fs, ok := fn.Prog.parents[c].(*ast.ForStmt)
			if !ok || fs.Body != c || fs.Cond == nil || fs.Init == nil {
				continue
			}
			as, ok := fs.Init.(*ast.AssignStmt)
			if !ok || len(as.Rhs) != 1 || exprStr(constFold(fn, as.Rhs[0])) != g.rhs {
				continue
			}
			if b, ok := ast.Unparen(fs.Cond).(*ast.BinaryExpr); ok && b.Op == token.LSS {
				if call, ok := ast.Unparen(b.Y).(*ast.CallExpr); ok && isBuiltinCall(info, call, "len") && len(call.Args) == 1 && lastSel(call.Args[0]) == g.name {
					return true
				}
			}
		}
		return false
	case gParamSame:
		root := rootOf(fn)
		if root.Obj == nil {
			return false
		}
		sig := root.Obj.Type().(*types.Signature)
		for i := 0; i < sig.Params().Len(); i++ {
			pv := sig.Params().At(i)
			if pv.Name() == g.name {
				return len(root.Assignments(pv)) == 0 && len(fn.Assignments(pv)) == 0
			}
		}
		// renamed parameter: any never-assigned parameter of the same position cannot be
		// identified; fail closed only if a variable of that name exists and is assigned
		return !localNames(fn)[g.name]
	case gNonNilVar:
		// find the identifier named g.name used inside `at`
		var target ast.Expr
		ast.Inspect(fn.Body, func(n ast.Node) bool {
			if id, ok := n.(*ast.Ident); ok && id.Name == g.name && target == nil {
				if _, isVar := fn.Info().ObjectOf(id).(*types.Var); isVar {
					target = id
				}
			}
			return true
		})
		if target == nil {
			return false
		}
		return p5c.nonNilAt(fn, target, at)
	}
	if fn.GuardsAt(at).Holds(func(a *Atom) bool { return atomMatches(fn, a, g) }) {
		return true
	}
	return fn.HoldsOnAllPaths(at, func(a *Atom) bool { return atomMatches(fn, a, g) })
}

// isSortFuncName: any of the standard library's sorting entry points (a row that asks for
// "sorted" does not care which one).
func isSortFuncName(f *types.Func) bool {
	if f.Pkg() == nil || (f.Pkg().Path() != "sort" && f.Pkg().Path() != "slices") {
		return false
	}
	switch f.Name() {
	case "Sort", "Stable", "Slice", "SliceStable", "Strings", "Ints", "SortFunc", "SortStableFunc":
		return true
	}
	return false
}

// ---- rows ---------------------------------------------------------------------------------

type row struct {
	prop      string
	also      []string // further properties this row is a necessary condition of
	id        string   // stable row id (part of the obligation key)
	pkg       string   // package suffix, e.g. "decoder"
	fn        string   // function name (bare, without package/receiver) — "" = any function of pkg
	recv      string   // receiver type name ("" = any)
	disj      []string // if set: the nearest enclosing if-condition is exactly this disjunction (normalised comparison texts)
	emit      emitSel
	need      []guard
	min       int               // minimum number of emission sites expected
	pos       []string          // if set: every cursor-position predicate (ContainsPos) guarding the emission is one of these texts
	noSafe    []string          // calls that do count as data filters for this row's exact check (normally position / error tests do not)
	exact     []string          // if set: the set of comparison/field atoms allowed as *data filters* at the emission (no others)
	live      map[string]bool   // if set: with these atoms fixed (text -> truth) the emission must still be reachable (the guards may not be stronger)
	fieldIs   map[string]string // if set: the emitted composite literal sets these fields to these values (text, single-definition locals inlined)
	anySyntax bool              // the emission serves HCL-JSON as well: no guard may require a successful assertion to a native-syntax (hclsyntax) node type
	why       string
}

func bareFuncName(fn *Func) string {
	if fn.Obj != nil {
		return fname(fn.Obj)
	}
	return fn.Name
}

// safeAtom: guards that never narrow what is emitted for a schema-known item — nil
// checks, error checks, comma-ok of type assertions, position tests.
// rowP5: the nil analysis of the current run (set by runRows): a nil test of something that
// analysis proves non-nil at the test is dead code, not a filter.
var rowP5 *p5

func safeAtom(fn *Func, a *Atom) bool {
	info := fn.Info()
	if a.E == nil {
		return true
	}
	e := ast.Unparen(a.E)
	if be, ok := e.(*ast.BinaryExpr); ok && rowP5 != nil && a.E.Pos().IsValid() && (isNilIdent(info, be.X) || isNilIdent(info, be.Y)) {
		other := be.X
		if isNilIdent(info, be.X) {
			other = be.Y
		}
		if _, isId := ast.Unparen(other).(*ast.Ident); isId && fn.BlockOf(a.E) != nil {
			if path := fn.Canon(other); path != "" && rowP5.nullableReason(fn, other, 0) != "" && rowP5.pathNonNil(fn, other, path, a.E, 0) {
				if os.Getenv("HCLVERIF_ROWDEBUG") != "" {
					fmt.Printf("ROWDEBUG dead nil test %s at %s (%s)\n", exprStr(a.E), fn.Prog.Pos(a.E), rowP5.nullableReason(fn, other, 0))
				}
				return true
			}
		}
	}
	// the condition of a counting loop bounds the iteration; it is not a data filter
	for c := ast.Node(a.E); c != nil; c = fn.Prog.parents[c] {
		par := fn.Prog.parents[c]
		if fs, ok := par.(*ast.ForStmt); ok && fs.Cond == c {
			return true
		}
		if _, ok := par.(ast.Expr); !ok {
			break
		}
	}
	switch x := e.(type) {
	case *ast.BinaryExpr:
		if isNilIdent(info, x.X) || isNilIdent(info, x.Y) {
			other := x.X
			if isNilIdent(info, x.X) {
				other = x.Y
			}
			// a nil test of a schema field (x.Body == nil, x.DependentBody != nil, …) selects among
			// schemas: it is a data filter. Nil tests of locals, errors and syntax nodes are not.
			if sel, ok := ast.Unparen(other).(*ast.SelectorExpr); ok {
				if tv := info.TypeOf(sel); tv != nil && roleOfType(tv) == roleCONS {
					return false
				}
			}
			// a nil test of a slice or map tells "nil" from "empty": it filters data, it is
			// not an absence check
			if tv := info.TypeOf(other); tv != nil {
				switch tv.Underlying().(type) {
				case *types.Slice, *types.Map:
					if _, isSel := ast.Unparen(other).(*ast.SelectorExpr); !isSel {
						return false
					}
				}
			}
			// … also through a local that merely names that field (body := x.Body; body != nil)
			if id, ok := ast.Unparen(other).(*ast.Ident); ok {
				if def := fn.SingleDef(info.ObjectOf(id)); def != nil {
					if sel, ok := ast.Unparen(def).(*ast.SelectorExpr); ok {
						if tv := info.TypeOf(sel); tv != nil && roleOfType(tv) == roleCONS {
							return false
						}
					}
				}
			}
			// … and so does a nil test of a local that holds a schema looked up so far
			if id, ok := ast.Unparen(other).(*ast.Ident); ok {
				if v, isVar := info.ObjectOf(id).(*types.Var); isVar && !rootOf(fn).isParam(v) && !fn.isParam(v) && len(fn.Assignments(v)) >= 2 {
					if tv := info.TypeOf(id); tv != nil && roleOfType(tv) == roleCONS {
						return false
					}
				}
			}
			return true
		}
	case *ast.CallExpr:
		name := lastSel(x.Fun)
		if name == "ContainsPos" || name == "HasErrors" {
			return true
		}
	case *ast.Ident:
		// ok of a type assertion
		o := info.ObjectOf(x)
		for _, asn := range fn.Assignments(o) {
			if s, ok := asn.(*ast.AssignStmt); ok && len(s.Rhs) == 1 {
				switch ast.Unparen(s.Rhs[0]).(type) {
				case *ast.TypeAssertExpr, *ast.CallExpr:
					return true // ok of a type assertion / of a lookup helper's result
				}
			}
		}
	}
	return false
}

func runRows(prop string) func(p *Prog, r *Report) {
	return func(p *Prog, r *Report) {
		p5c := &p5{p: p, r: newReport("scratch"), callers: buildCallers(p), enumOK: map[*Func]bool{}, implCache: map[*Func][]implication{},
			nilWithFalse: map[*types.Func]map[int]bool{}, nilWithErr: map[*types.Func]map[int]bool{}, mayNil: map[*types.Func]map[int]string{},
			tolerant: map[*types.Func]bool{}, tolDone: map[*types.Func]bool{}}
		p5c.computeSummaries()
		rowP5 = p5c
		nRows := 0
		for _, rw := range e1Rows {
			if rw.prop != prop && !containsStr(rw.also, prop) {
				continue
			}
			nRows++
			sites := 0
			// the named function, plus (for emissions a refactoring moved) the same-package
			// helpers it reaches through at most two static calls
			var named []*Func
			for _, fn := range p.Funcs {
				if fn.Parent != nil || !strings.HasSuffix(fn.Pkg.PkgPath, rw.pkg) {
					continue
				}
				if rw.fn != "" && bareFuncName(fn) != rw.fn {
					continue
				}
				if rw.recv != "" {
					ok := false
					if fn.Obj != nil {
						if sig := fn.Obj.Type().(*types.Signature); sig.Recv() != nil {
							if n := namedOf(sig.Recv().Type()); n != nil && canonId(n.Obj().Name()) == rw.recv {
								ok = true
							}
						}
					}
					if !ok {
						continue
					}
				}
				named = append(named, fn)
			}
			depthOf := map[*Func]int{}
			if rw.fn != "" {
				depthOf = helperClosure(p, named, 3)
			} else {
				for _, f := range named {
					depthOf[f] = 0
				}
			}
			// direct sites first; helpers are searched only while the confirmed number of
			// sites is not met in the named function itself
			direct := 0
			for _, fn := range p.Funcs {
				if d, ok := depthOf[rootOf(fn)]; ok && d == 0 {
					direct += len(rowEmissions(fn, rw))
				}
			}
			fallback := direct < rw.min
			if fallback {
				rw.emit.ctor = true
			}
			for _, fn := range p.Funcs {
				d, ok := depthOf[rootOf(fn)]
				if !ok || (d > 0 && !fallback) {
					continue
				}
				for _, hit := range rowEmissions(fn, rw) {
					em := hit.node
					rootOf(fn).sigma = hit.sigma
					sites++
					if rw.disj != nil {
						if msg := checkDisjunction(p, fn, em, rw.disj); msg != "" {
							r.Add("E1.row", fn.Name, rw.id, p.Pos(em), Violated, rw.why+" — "+msg, true)
							continue
						}
					}
					var missing []string
					for _, g := range rw.need {
						if !guardHoldsInh(p5c, fn, em, g, 4) {
							missing = append(missing, g.String())
						}
					}
					construct := rw.id
					if len(missing) > 0 {
						r.Add("E1.row", fn.Name, construct, p.Pos(em), Violated,
							fmt.Sprintf("%s — not every path to this point crosses: %s", rw.why, strings.Join(missing, "; ")), true)
						continue
					}
					if rw.exact != nil {
						var extra []string
						var judge func(fx *Func, f *Formula)
						helperSeen := map[*Func]bool{}
						judge = func(fx *Func, f *Formula) {
							for _, a := range f.AllAtoms() {
								if a == nil || a.Expanded {
									continue
								}
								// the ok flag of an unexported helper of this package: what makes the helper
								// answer false filters the emission just the same
								if a.E != nil && a.Pol {
									named := false
									if h := okFlagHelper(fx, a); h != nil {
										for _, g := range rw.need {
											gs := []guard{g}
											if g.kind == gAny {
												gs = g.sub
											}
											for _, gg := range gs {
												if gg.kind == gOkLookup && gg.name == bareFuncName(h) {
													named = true // the row itself names this helper's verdict as its condition
												}
											}
										}
									}
									if h := okFlagHelper(fx, a); h != nil && !named && !helperSeen[h] && len(helperSeen) < 3 {
										helperSeen[h] = true
										ast.Inspect(h.Body, func(z ast.Node) bool {
											if _, isLit := z.(*ast.FuncLit); isLit {
												return false
											}
											rs, ok := z.(*ast.ReturnStmt)
											if !ok || len(rs.Results) < 2 {
												return true
											}
											if id, ok := ast.Unparen(rs.Results[len(rs.Results)-1]).(*ast.Ident); ok && id.Name == "false" {
												judge(h, h.GuardsAt(rs))
											}
											return true
										})
									}
								}
								unrelatedA := a.E != nil && fx == fn && !a.Pol && unrelatedAssertion(fx, a, em)
								if unrelatedA {
									extra = append(extra, "not a successful assertion that has nothing to do with what is emitted here ("+cmpText(a.E)+" of "+assertionText(fx, a)+")")
									continue
								}
								if safeAtom(fx, a) {
									unsafe := false
									if c, ok := ast.Unparen(a.E).(*ast.CallExpr); ok && a.E != nil {
										for _, nm := range rw.noSafe {
											if lastSel(c.Fun) == nm {
												unsafe = true
											}
										}
									}
									if !unsafe {
										continue
									}
								}
								allowed := false
								for _, g := range rw.need {
									if g.kind == gAny {
										for _, s := range g.sub {
											if atomMatches(fx, a, s) {
												allowed = true
											}
										}
									} else if atomMatches(fx, a, g) {
										allowed = true
									} else if g.kind == gNil && atomMatchesEitherPol(fx, a, g) {
										// the nil test the row names, met in its other polarity on the way here
										allowed = true
									}
								}
								// what makes a helper answer true, when the row names that helper's
								// verdict as its condition, is that condition spelled out
								if !allowed && a.From != nil {
									if _, isFlag := ast.Unparen(a.From).(*ast.Ident); isFlag {
										flag := &Atom{E: a.From, Pol: true}
										for _, g := range rw.need {
											if g.kind == gAny {
												for _, sg := range g.sub {
													if atomMatches(fx, flag, sg) {
														allowed = true
													}
												}
											} else if atomMatches(fx, flag, g) {
												allowed = true
											}
										}
										for _, ex := range rw.exact {
											if sameText(fx, cmpText(a.From), ex) {
												allowed = true
											}
										}
									}
								}
								txt := cmpText(fx.viewExpr(a.E))
								txtFolded := cmpText(constFold(fx, fx.viewExpr(a.E)))
								txtInlined := cmpText(fx.InlineLocals(fx.viewExpr(a.E), 2))
								for _, ex := range rw.exact {
									if sameText(fx, txt, ex) || sameText(fx, txtFolded, ex) || sameText(fx, txtInlined, ex) || lastSel(fx.viewExpr(a.E)) == ex {
										allowed = true
									}
									if !allowed && lastSel(fx.InlineLocals(fx.viewExpr(a.E), 2)) == ex {
										allowed = true
									}
									// part of the inlined body of a predicate the row allows by name
									if a.From != nil && lastSel(a.From) == ex {
										allowed = true
									}
									// the same comparison spelled differently (orientation, ±1, len(x) != 0 for len(x) > 0)
									if !allowed && strings.ContainsAny(ex, "<>=") && atomMatchesEitherPol(fx, a, gcmp(ex)) {
										allowed = true
									}
								}
								if !allowed {
									pol := ""
									if !a.Pol {
										pol = "not "
									}
									extra = append(extra, pol+txt)
								}
							}
						}
						judge(fn, fn.GuardsAt(em))
						// an emission found in a helper: the filters at its call sites count too
						if d := depthOf[rootOf(fn)]; d > 0 {
							var up func(f *Func, d int)
							up = func(f *Func, d int) {
								if d <= 0 {
									return
								}
								for _, cs := range inheritSites(f) {
									if _, in := depthOf[rootOf(cs.fn)]; !in {
										continue
									}
									judge(cs.fn, cs.fn.GuardsAt(cs.call))
									up(cs.fn, d-1)
								}
							}
							up(fn, d)
						}
						judgeExit := func(xs ast.Stmt, what string, emAtoms map[string]bool) {
							for _, a := range guardsAtBranch(p, fn, xs).AllAtoms() {
								if os.Getenv("HCLVERIF_ROWDEBUG") != "" && a != nil && a.E != nil {
									fmt.Printf("ROWDEBUG0 %s %s atom=%s expanded=%v em=%v\n", rw.id, p.Pos(xs), exprStr(a.E), a.Expanded, emAtoms[atomIdent(fn, a.E)])
								}
								if a == nil || a.E == nil || a.Expanded || emAtoms[atomIdent(fn, a.E)] {
									continue
								}
								unrelated := unrelatedAssertion(fn, a, em)
								if os.Getenv("HCLVERIF_ROWDEBUG") != "" {
									fmt.Printf("ROWDEBUG %s %s atom=%s unrelated=%v safe=%v\n", rw.id, p.Pos(xs), exprStr(a.E), unrelated, safeAtom(fn, a))
								}
								if safeAtom(fn, a) && !unrelated {
									continue
								}
								allowed := false
								for _, g := range rw.need {
									if g.kind == gAny {
										for _, sg := range g.sub {
											if atomMatchesEitherPol(fn, a, sg) {
												allowed = true
											}
										}
									} else if atomMatchesEitherPol(fn, a, g) {
										allowed = true
									}
								}
								txt := cmpText(a.E)
								for _, ex := range rw.exact {
									if sameText(fn, txt, ex) || lastSel(a.E) == ex {
										allowed = true
									}
									if !allowed && strings.ContainsAny(ex, "<>=") && atomMatchesEitherPol(fn, a, gcmp(ex)) {
										allowed = true
									}
								}
								if unrelated {
									allowed = false
									txt = "a successful assertion that has nothing to do with what is emitted here (" + txt + ")"
								}
								if !allowed {
									extra = append(extra, "items with "+txt+" "+what+" at "+p.Pos(xs)+")")
								}
							}
						}
						if len(extra) == 0 {
							// early exits of the enclosing loop that skip this emission for some items
							for _, rs := range enclosingRanges(p, em, fn.Body) {
								emAtoms := map[string]bool{}
								for _, a := range fn.GuardsAt(em).AllAtoms() {
									if a != nil && a.E != nil {
										emAtoms[atomIdent(fn, a.E)] = true
									}
								}
								ast.Inspect(rs.Body, func(k ast.Node) bool {
									switch x := k.(type) {
									case *ast.FuncLit:
										return false
									case *ast.ForStmt, *ast.RangeStmt:
										if k != ast.Node(rs) {
											return false
										}
									case *ast.BranchStmt:
										if x.Pos() > em.Pos() || (x.Tok != token.CONTINUE && x.Tok != token.BREAK) || x.Label != nil {
											return true
										}
										// break inside a switch binds to the switch
										if x.Tok == token.BREAK {
											for q := p.Parent(x); q != nil && q != ast.Node(rs); q = p.Parent(q) {
												if _, isSw := q.(*ast.SwitchStmt); isSw {
													return true
												}
												if _, isSw := q.(*ast.TypeSwitchStmt); isSw {
													return true
												}
											}
										}
										judgeExit(x, "leave the loop early ("+x.Tok.String(), emAtoms)
									}
									return true
								})
							}
						}
						if len(extra) == 0 && fn.Lit == nil && bareFuncName(fn) != rw.fn && len(enclosingRanges(p, em, fn.Body)) == 0 {
							// the emission sits in a helper that is called once per item: a return
							// in front of it (on a path that could otherwise go on to it) skips the
							// emission for some items, as a continue in the caller's loop would
							emAtoms := map[string]bool{}
							for _, a := range fn.GuardsAt(em).AllAtoms() {
								if a != nil && a.E != nil {
									emAtoms[atomIdent(fn, a.E)] = true
								}
							}
							ast.Inspect(fn.Body, func(k ast.Node) bool {
								switch x := k.(type) {
								case *ast.FuncLit:
									return false
								case *ast.ReturnStmt:
									if x.Pos() > em.Pos() || nodeContains(x, em) {
										return true
									}
									judgeExit(x, "leave the helper early (return", emAtoms)
								}
								return true
							})
						}
						if len(extra) > 0 {
							r.Add("E1.row", fn.Name, construct, p.Pos(em), Violated,
								fmt.Sprintf("%s — an additional filter narrows what is emitted here: %s", rw.why, strings.Join(dedup(extra), "; ")), true)
							continue
						}
					}
					if rw.fieldIs != nil {
						var lit *ast.CompositeLit
						ast.Inspect(em, func(z ast.Node) bool {
							if cl, ok := z.(*ast.CompositeLit); ok && lit == nil {
								if len(cl.Elts) > 0 {
									if _, isKV := cl.Elts[0].(*ast.KeyValueExpr); isKV {
										lit = cl
									}
								}
							}
							return lit == nil
						})
						litFn := fn
						if lit == nil {
							// the literal is built by a helper whose result is emitted here
							ast.Inspect(em, func(z ast.Node) bool {
								id, ok := z.(*ast.Ident)
								if !ok || lit != nil {
									return lit == nil
								}
								o := fn.Info().ObjectOf(id)
								if o == nil {
									return true
								}
								for _, asn := range fn.Assignments(o) {
									as, ok := asn.(*ast.AssignStmt)
									if !ok || len(as.Rhs) != 1 {
										continue
									}
									hc, ok := ast.Unparen(as.Rhs[0]).(*ast.CallExpr)
									if !ok {
										continue
									}
									hf := calleeOf(fn.Info(), hc)
									if hf == nil {
										continue
									}
									ht := p.FuncOf[hf]
									if ht == nil || ht.Body == nil {
										continue
									}
									ast.Inspect(ht.Body, func(y ast.Node) bool {
										if ret, ok := y.(*ast.ReturnStmt); ok && len(ret.Results) > 0 && lit == nil {
											r0 := ast.Unparen(ret.Results[0])
											if u, ok := r0.(*ast.UnaryExpr); ok && u.Op == token.AND {
												r0 = ast.Unparen(u.X)
											}
											if cl, ok := r0.(*ast.CompositeLit); ok && len(cl.Elts) > 0 {
												if _, isKV := cl.Elts[0].(*ast.KeyValueExpr); isKV {
													lit, litFn = cl, ht
												}
											}
										}
										return true
									})
								}
								return true
							})
						}
						var wrong []string
						var fnames []string
						for f := range rw.fieldIs {
							fnames = append(fnames, f)
						}
						sort.Strings(fnames)
						for _, f := range fnames {
							want := rw.fieldIs[f]
							var got ast.Expr
							if lit != nil {
								got = litField(lit, f)
							}
							if got == nil {
								wrong = append(wrong, f+" is not set (want "+want+")")
								continue
							}
							if !sameText(litFn, cmpText(got), want) && !sameText(litFn, cmpText(litFn.InlineLocals(got, 3)), want) {
								wrong = append(wrong, f+" is "+cmpText(got)+" (want "+want+")")
							}
						}
						if len(wrong) > 0 {
							r.Add("E1.row", fn.Name, construct, p.Pos(em), Violated, rw.why+" — "+strings.Join(wrong, "; "), true)
							continue
						}
					}
					if rw.anySyntax {
						gate := ""
						for _, a := range fn.GuardsAt(em).AllAtoms() {
							if a == nil || a.E == nil || (a.Expanded && okFlagHelper(fn, a) == nil) {
								continue
							}
							if g := nativeSyntaxGate(fn, a); g != "" {
								gate = g
							}
						}
						if gate != "" {
							r.Add("E1.row", fn.Name, construct, p.Pos(em), Violated, rw.why+" — this point is reached only after "+gate+" succeeded: expressions of the JSON syntax are never of that type, so JSON documents no longer get here", true)
							continue
						}
					}
					if rw.pos != nil {
						var extraPos []string
						for _, a := range fn.GuardsAt(em).AllAtoms() {
							if a == nil || a.E == nil {
								continue
							}
							c, ok := ast.Unparen(fn.viewExpr(a.E)).(*ast.CallExpr)
							if !ok || lastSel(c.Fun) != "ContainsPos" {
								continue
							}
							allowed := false
							for _, w := range rw.pos {
								if sameText(fn, cmpText(c), w) || sameText(fn, cmpText(fn.InlineLocals(c, 1)), w) || sameText(fn, cmpText(fn.InlineLocals(c, 2)), w) {
									allowed = true
								}
							}
							if !allowed {
								extraPos = append(extraPos, cmpText(c))
							}
						}
						if len(extraPos) > 0 {
							r.Add("E1.row", fn.Name, construct, p.Pos(em), Violated,
								fmt.Sprintf("%s — a further cursor-position test narrows where this is produced: %s", rw.why, strings.Join(dedup(extraPos), "; ")), true)
							continue
						}
					}
					if rw.live != nil {
						canT, _ := possible(fn.GuardsAt(em), func(a *Atom) (bool, bool) {
							if a.E == nil {
								return false, false
							}
							if v, known := liveLookup(fn, rw.live, atomKey(fn, a)); known {
								return v, true
							}
							// the ok flag of a helper: can the helper still answer true under the fixed atoms
							// (its parameters read as the arguments of this call)?
							if h := okFlagHelper(fn, a); h != nil {
								if call := okFlagCall(fn, a); call != nil {
									hl := map[string]bool{}
									k := 0
									for _, f := range h.Type.Params.List {
										for _, nm := range f.Names {
											if k < len(call.Args) {
												arg := exprStr(call.Args[k])
												for lk, lv := range rw.live {
													hl[replaceWord(lk, arg, nm.Name)] = lv
												}
											}
											k++
										}
									}
									canTrue := false
									nTrue := 0
									ast.Inspect(h.Body, func(z ast.Node) bool {
										if _, isLit := z.(*ast.FuncLit); isLit {
											return false
										}
										rs, ok := z.(*ast.ReturnStmt)
										if !ok || len(rs.Results) < 2 {
											return true
										}
										last := ast.Unparen(rs.Results[len(rs.Results)-1])
										if id, ok := last.(*ast.Ident); ok && id.Name == "false" {
											return true
										}
										nTrue++
										t, _ := possible(h.GuardsAt(rs), func(ha *Atom) (bool, bool) {
											if ha.E == nil {
												return false, false
											}
											return liveLookup(h, hl, atomKey(h, ha))
										})
										if t {
											canTrue = true
										}
										return true
									})
									if nTrue > 0 && !canTrue {
										return false, true
									}
								}
							}
							return false, false
						})
						if !canT {
							var ks []string
							for k, v := range rw.live {
								ks = append(ks, fmt.Sprintf("%s is %v", k, v))
							}
							sort.Strings(ks)
							r.Add("E1.row", fn.Name, construct, p.Pos(em), Violated, rw.why+" — the guards are too strong: with "+strings.Join(ks, " and ")+" this point can no longer be reached", true)
							continue
						}
					}
					var gs []string
					for _, g := range rw.need {
						gs = append(gs, g.String())
					}
					r.Add("E1.row", fn.Name, construct, p.Pos(em), OK, rw.why+" ⇐ "+strings.Join(gs, " ∧ "), true)
				}
				rootOf(fn).sigma = nil
			}
			if sites < rw.min {
				r.Add("E1.row-anchor", rw.pkg+"."+rw.fn, rw.id, "-", Violated,
					fmt.Sprintf("row %q matched %d emission site(s), fewer than the %d confirmed by hand: the anchored construct moved or disappeared", rw.id, sites, rw.min), false)
			}
		}
		r.ExpectMin("E1.rows", nRows, 1)
		r.Clauses = append(r.Clauses, fmt.Sprintf("E1 %d reviewed obligation rows for %s: each emission point (append / call / return / literal, matched by resolved callee, literal type and field constant) is reached only through the success edges of its guards on every CFG path", nRows, prop))
	}
}

// rowEmissions: the emissions of rw in fn (selector plus the optional text filter), directly
// and under literal-table expansion.
func rowEmissions(fn *Func, rw row) []emHit {
	var hits []emHit
	for _, em := range findEmissions(fn, rw.emit) {
		hits = append(hits, emHit{node: em, view: em})
	}
	hits = append(hits, tableEmissions(fn, rw.emit)...)
	var out []emHit
	for _, h := range hits {
		if rw.emit.text != "" {
			hit := false
			var look func(x ast.Node, depth int)
			look = func(x ast.Node, depth int) {
				ast.Inspect(x, func(n ast.Node) bool {
					if bl, ok := n.(*ast.BasicLit); ok && strings.Contains(bl.Value, rw.emit.text) {
						hit = true
					}
					if id, ok := n.(*ast.Ident); ok {
						if id.Name == rw.emit.text {
							hit = true
						}
						// an element of the named collection: the variable of a range over it
						if depth > 0 && !hit {
							if o := fn.Info().ObjectOf(id); o != nil {
								for _, a := range fn.Assignments(o) {
									if rs, ok := a.(*ast.RangeStmt); ok && rs.Value != nil {
										if vid, ok := rs.Value.(*ast.Ident); ok && fn.Info().ObjectOf(vid) == o {
											look(rs.X, depth-1)
										}
									}
									// what a local was defined from (x := e; x, ok := pick(coll, …))
									if as, ok := a.(*ast.AssignStmt); ok && len(fn.Assignments(o)) == 1 {
										for _, rhs := range as.Rhs {
											look(rhs, depth-1)
										}
									}
								}
							}
						}
					}
					return true
				})
			}
			look(h.view, 1)
			if !hit {
				continue
			}
		}
		if rw.emit.notText != "" {
			hit := false
			ast.Inspect(h.view, func(n ast.Node) bool {
				if bl, ok := n.(*ast.BasicLit); ok && strings.Contains(bl.Value, rw.emit.notText) {
					hit = true
				}
				if id, ok := n.(*ast.Ident); ok && id.Name == rw.emit.notText {
					hit = true
				}
				return true
			})
			if hit {
				continue
			}
		}
		out = append(out, h)
	}
	return out
}

// checkDisjunction: the nearest enclosing if statement whose body contains em has a
// condition that is exactly the disjunction of the given comparisons.
func checkDisjunction(p *Prog, fn *Func, em ast.Node, want []string) string {
	var ifs *ast.IfStmt
	var caseAlts []string
	for x := p.Parent(em); x != nil; x = p.Parent(x) {
		if s, ok := x.(*ast.IfStmt); ok && nodeContains(s.Body, em) {
			ifs = s
			break
		}
		// `switch tag { case A, B: … }` is the disjunction tag == A || tag == B
		if cc, ok := x.(*ast.CaseClause); ok && cc.List != nil {
			if sw, ok := fn.enclosingSwitch(cc).(*ast.SwitchStmt); ok && sw.Tag != nil {
				caseAlts = []string{}
				for _, v := range cc.List {
					caseAlts = append(caseAlts, cmpText(&ast.BinaryExpr{X: sw.Tag, Op: token.EQL, Y: v}))
				}
				break
			}
		}
	}
	if ifs == nil && caseAlts == nil {
		// the condition stayed at the call site(s) of an extracted helper
		if sites := inheritSites(fn); len(sites) > 0 && fn.Lit == nil {
			for _, cs := range sites {
				if msg := checkDisjunction(p, cs.fn, cs.call, want); msg != "" {
					return msg
				}
			}
			return ""
		}
		return "the emission is not conditional any more (expected under: " + strings.Join(want, " || ") + ")"
	}
	var alts []string
	var split func(e ast.Expr)
	split = func(e ast.Expr) {
		e = ast.Unparen(e)
		if be, ok := e.(*ast.BinaryExpr); ok && be.Op == token.LOR {
			split(be.X)
			split(be.Y)
			return
		}
		// a nil test in front of the alternatives (x != nil && (a || b)) is a defensive
		// guard, not an alternative: the alternatives are those of the other conjunct
		if be, ok := e.(*ast.BinaryExpr); ok && be.Op == token.LAND {
			isNilTest := func(x ast.Expr) bool {
				c, ok := ast.Unparen(x).(*ast.BinaryExpr)
				return ok && c.Op == token.NEQ && (isNilIdent(fn.Info(), c.X) || isNilIdent(fn.Info(), c.Y))
			}
			if isNilTest(be.X) {
				split(be.Y)
				return
			}
			if isNilTest(be.Y) {
				split(be.X)
				return
			}
		}
		// a named boolean: `ok := a || b; if ok {`
		if id, isId := e.(*ast.Ident); isId {
			if def := fn.SingleDef(fn.Info().ObjectOf(id)); def != nil {
				if _, isB := ast.Unparen(def).(*ast.BinaryExpr); isB {
					split(def)
					return
				}
			}
		}
		alts = append(alts, cmpText(e))
	}
	condText := ""
	if caseAlts != nil {
		alts = caseAlts
		condText = "case " + strings.Join(caseAlts, ", ")
	} else {
		split(ifs.Cond)
		condText = cmpText(ifs.Cond)
	}
	have := map[string]bool{}
	for _, a := range alts {
		have[a] = true
	}
	var missing, extra []string
	for _, w := range want {
		found := false
		for _, a := range alts {
			if sameText(fn, a, w) {
				found = true
			}
		}
		if !found {
			missing = append(missing, w)
		}
	}
	for _, a := range alts {
		found := false
		for _, w := range want {
			if sameText(fn, a, w) {
				found = true
			}
		}
		if !found {
			extra = append(extra, a)
		}
	}
	_ = have
	if len(missing) == 0 && len(extra) == 0 {
		return ""
	}
	msg := "the guarding condition is " + condText
	if len(missing) > 0 {
		msg += "; missing alternative(s): " + strings.Join(missing, ", ")
	}
	if len(extra) > 0 {
		msg += "; unexpected alternative(s): " + strings.Join(extra, ", ")
	}
	return msg
}

func isIdentObj(info *types.Info, e ast.Expr, o types.Object) bool {
	id, ok := ast.Unparen(e).(*ast.Ident)
	return ok && info.ObjectOf(id) == o
}

func containsStr(xs []string, x string) bool {
	for _, y := range xs {
		if y == x {
			return true
		}
	}
	return false
}

// atomKey: normalised text of an atom's expression: "<Field> == nil" for nil comparisons
// (receiver-independent), cmpText otherwise.
func atomKey(fn *Func, a *Atom) string {
	info := fn.Info()
	e := ast.Unparen(a.E)
	if be, ok := e.(*ast.BinaryExpr); ok && (be.Op == token.EQL || be.Op == token.NEQ) {
		var other ast.Expr
		if isNilIdent(info, be.Y) {
			other = be.X
		} else if isNilIdent(info, be.X) {
			other = be.Y
		}
		if other != nil {
			op := "=="
			if be.Op == token.NEQ {
				op = "!="
			}
			return exprStr(other) + " " + op + " nil"
		}
	}
	return cmpText(e)
}

// liveLookup: value of an atom under a row's live assignment; keys may be written with the
// full operand text or with its last selector only, as == or != nil.
func liveLookup(fn *Func, live map[string]bool, key string) (bool, bool) {
	try := func(k string) (bool, bool) {
		if v, ok := live[k]; ok {
			return v, true
		}
		for lk, v := range live {
			if sameText(fn, k, lk) {
				return v, true
			}
		}
		// opposite spelling
		if strings.HasSuffix(k, " == nil") {
			if v, ok := live[strings.TrimSuffix(k, " == nil")+" != nil"]; ok {
				return !v, true
			}
		}
		if strings.HasSuffix(k, " != nil") {
			if v, ok := live[strings.TrimSuffix(k, " != nil")+" == nil"]; ok {
				return !v, true
			}
		}
		return false, false
	}
	if v, ok := try(key); ok {
		return v, true
	}
	if strings.HasSuffix(key, " nil") {
		parts := strings.SplitN(key, " ", 2)
		if i := strings.LastIndex(parts[0], "."); i >= 0 {
			return try(parts[0][i+1:] + " " + parts[1])
		}
	}
	return false, false
}

// possible: which truth values can the formula take when some atoms are fixed by assign
// (value, known) and all others are free?
func possible(f *Formula, assign func(a *Atom) (bool, bool)) (canTrue, canFalse bool) {
	if f == nil {
		return true, false
	}
	switch f.Op {
	case 0:
		if f.Atom == nil {
			return true, true
		}
		v, known := assign(f.Atom)
		if !known {
			// the negated spelling
			return true, true
		}
		// the atom states: E evaluates to Pol
		holds := v == f.Atom.Pol
		return holds, !holds
	case 1:
		ct, cf := true, false
		for _, s := range f.Sub {
			t, fl := possible(s, assign)
			ct = ct && t
			cf = cf || fl
		}
		return ct, cf
	default:
		ct, cf := false, true
		for _, s := range f.Sub {
			t, fl := possible(s, assign)
			ct = ct || t
			cf = cf && fl
		}
		return ct, cf
	}
}

// ---- rename-tolerant text comparison -----------------------------------------------------

var tokRe = regexp.MustCompile("\"(?:[^\"\\\\]|\\\\.)*\"|`[^`]*`|'(?:[^'\\\\]|\\\\.)*'|[A-Za-z_][A-Za-z0-9_]*|[^A-Za-z_\"'`]+")

func isIdentTok(t string) bool {
	c := t[0]
	return c == '_' || (c >= 'A' && c <= 'Z') || (c >= 'a' && c <= 'z')
}

// localNames: receiver, parameters and local variables declared in fn's outermost function.
func localNames(fn *Func) map[string]bool {
	root := fn
	for root.Parent != nil {
		root = root.Parent
	}
	if root.locals != nil {
		return root.locals
	}
	out := map[string]bool{}
	root.localTypes = map[string][]types.Type{}
	root.localObjs = map[string][]types.Object{}
	info := root.Info()
	if root.Decl != nil {
		if root.Decl.Recv != nil {
			for _, f := range root.Decl.Recv.List {
				for _, n := range f.Names {
					out[n.Name] = true
					if o := info.ObjectOf(n); o != nil {
						root.localTypes[n.Name] = append(root.localTypes[n.Name], o.Type())
					}
				}
			}
		}
	}
	var node ast.Node = root.Body
	if root.Decl != nil {
		node = root.Decl
	}
	ast.Inspect(node, func(n ast.Node) bool {
		if id, ok := n.(*ast.Ident); ok {
			if v, ok := info.Defs[id].(*types.Var); ok && !v.IsField() {
				out[id.Name] = true
				root.localTypes[id.Name] = append(root.localTypes[id.Name], v.Type())
				root.localObjs[id.Name] = append(root.localObjs[id.Name], v)
			}
		}
		return true
	})
	// type-switch bindings are implicit objects: collect their names too
	ast.Inspect(node, func(n ast.Node) bool {
		if ts, ok := n.(*ast.TypeSwitchStmt); ok {
			if as, ok := ts.Assign.(*ast.AssignStmt); ok && len(as.Lhs) == 1 {
				if id, ok := as.Lhs[0].(*ast.Ident); ok {
					out[id.Name] = true
				}
			}
		}
		return true
	})
	root.locals = out
	return out
}

// sameText: code text equals the row's text, up to a consistent renaming of local variables
// of fn into names that no longer exist in fn (the row was written with the old names). A
// name that still exists in fn is never matched by a different one, so swapping one live
// variable for another is not hidden.
func sameText(fn *Func, code, row string) bool {
	if code == row {
		return true
	}
	ct, rt := tokRe.FindAllString(code, -1), tokRe.FindAllString(row, -1)
	if len(ct) != len(rt) {
		return false
	}
	return tokensMatch(fn, ct, rt, map[string]string{})
}

func tokensMatch(fn *Func, ct, rt []string, m map[string]string) bool {
	locals := localNames(fn)
	used := map[string]bool{}
	for _, v := range m {
		used[v] = true
	}
	for i := range ct {
		c, r := ct[i], rt[i]
		if c == r {
			continue
		}
		if !isIdentTok(c) || !isIdentTok(r) {
			return false
		}
		// a selector (the name behind a dot) is a field or method, never a renamed local
		if i > 0 && strings.HasSuffix(strings.TrimRight(ct[i-1], " \t"), ".") {
			return false
		}
		if !locals[c] {
			return false
		}
		if locals[r] && !shadowSource(fn, c, r) {
			return false // the row's name still exists in the function: not a rename
		}
		if prev, ok := m[c]; ok {
			if prev != r {
				return false
			}
			continue
		}
		if used[r] {
			return false
		}
		m[c] = r
		used[r] = true
	}
	return true
}

// containsText: some window of the code text matches the row text under sameText.
func containsText(fn *Func, code, row string) bool {
	if strings.Contains(code, row) {
		return true
	}
	ct, rt := tokRe.FindAllString(code, -1), tokRe.FindAllString(row, -1)
	if len(rt) == 0 || len(rt) > len(ct) {
		return false
	}
	for i := 0; i+len(rt) <= len(ct); i++ {
		if tokensMatch(fn, ct[i:i+len(rt)], rt, map[string]string{}) {
			return true
		}
	}
	return false
}

// shadowSource: the variable named c is defined from a lookup / call on the variable named r
// (v, ok := r[k]). The row may have been written when that variable shadowed r under r's own
// name; renaming it away from r is a rename, not a swap.
func shadowSource(fn *Func, c, r string) bool {
	root := rootFunc(fn)
	localNames(fn)
	info := root.Info()
	for _, o := range root.localObjs[c] {
		for f := range allFuncsOf(root) {
			for _, asn := range f.Assignments(o) {
				as, ok := asn.(*ast.AssignStmt)
				if !ok || len(as.Rhs) != 1 {
					continue
				}
				if b := identOfExpr(as.Rhs[0]); b != nil && b.Name == r {
					if _, isVar := info.ObjectOf(b).(*types.Var); isVar {
						return true
					}
				}
				if ix, ok := ast.Unparen(as.Rhs[0]).(*ast.IndexExpr); ok {
					if b, ok := ast.Unparen(ix.X).(*ast.Ident); ok && b.Name == r {
						return true
					}
				}
			}
		}
	}
	return false
}

func allFuncsOf(root *Func) map[*Func]bool {
	out := map[*Func]bool{root: true}
	for _, f := range root.Prog.Funcs {
		if f.Lit != nil && rootFunc(f) == root {
			out[f] = true
		}
	}
	return out
}

// inlinedVariants: the comparison with single-definition pure locals replaced by their
// definitions (each one alone, and all together).
func inlinedVariants(fn *Func, be *ast.BinaryExpr) []ast.Expr {
	info := fn.Info()
	type cand struct {
		o   types.Object
		def ast.Expr
	}
	var cs []cand
	seen := map[types.Object]bool{}
	ast.Inspect(be, func(z ast.Node) bool {
		id, ok := z.(*ast.Ident)
		if !ok {
			return true
		}
		o := info.ObjectOf(id)
		v, ok := o.(*types.Var)
		if !ok || v.IsField() || seen[o] || v.Pkg() == nil || v.Parent() == v.Pkg().Scope() {
			return true
		}
		seen[o] = true
		root := rootFunc(fn)
		var def ast.Expr
		for f := range allFuncsOf(root) {
			if d := f.SingleDef(o); d != nil {
				def = d
			}
		}
		if def == nil {
			return true
		}
		pure := true
		ast.Inspect(def, func(k ast.Node) bool {
			switch x := k.(type) {
			case *ast.CallExpr:
				if !isLenCall(info, x) {
					if f := calleeOf(info, x); f == nil || !pureMethods[f.Name()] {
						pure = false
					}
				}
			case *ast.FuncLit, *ast.TypeAssertExpr:
				pure = false
			}
			return pure
		})
		if pure {
			cs = append(cs, cand{o, def})
		}
		return true
	})
	var out []ast.Expr
	all := ast.Expr(be)
	for _, c := range cs {
		out = append(out, substExpr(be, c.o, c.def, info))
		all = substExpr(all, c.o, c.def, info)
	}
	if len(cs) > 1 {
		out = append(out, all)
	}
	return out
}

// atomMatchesEitherPol: the atom is about the same test as guard g (whatever the outcome).
func atomMatchesEitherPol(fn *Func, a *Atom, g guard) bool {
	if atomMatches(fn, a, g) {
		return true
	}
	b := *a
	b.Pol = !a.Pol
	return atomMatches(fn, &b, g)
}

// guardsAtBranch: go/cfg turns break/continue/return-less branches into edges, so a branch
// statement is not a CFG node. Its guards are those of the condition of the innermost
// enclosing if statement plus that condition's outcome on the branch's side.
func guardsAtBranch(p *Prog, fn *Func, x ast.Stmt) *Formula {
	for cur := p.Parent(x); cur != nil; cur = p.Parent(cur) {
		// a case of a tagless switch: its own conditions hold, those of the cases before it do not
		if cc, isCase := cur.(*ast.CaseClause); isCase {
			if body, ok := p.Parent(cc).(*ast.BlockStmt); ok {
				if sw, ok := p.Parent(body).(*ast.SwitchStmt); ok && sw.Tag == nil && sw.Init == nil {
					var parts []*Formula
					var head ast.Expr
					for _, c := range sw.Body.List {
						c2 := c.(*ast.CaseClause)
						if head == nil && len(c2.List) > 0 {
							head = c2.List[0]
						}
						if c2 == cc {
							break
						}
						for _, e := range c2.List {
							parts = append(parts, fn.expandHelperCalls(fn.expandOkFlags(fn.expandBoolVars(decompose(e, false, nil), 2), 1), 2))
						}
					}
					if len(cc.List) > 0 {
						var alts []*Formula
						for _, e := range cc.List {
							alts = append(alts, fn.expandHelperCalls(fn.expandOkFlags(fn.expandBoolVars(decompose(e, true, nil), 2), 1), 2))
						}
						if len(alts) == 1 {
							parts = append(parts, alts[0])
						} else {
							parts = append(parts, fOr(alts...))
						}
					}
					if head != nil {
						parts = append([]*Formula{fn.GuardsAt(head)}, parts...)
					}
					return fAnd(parts...)
				}
			}
		}
		ifs, ok := cur.(*ast.IfStmt)
		if !ok {
			if _, isFn := cur.(*ast.FuncLit); isFn {
				break
			}
			continue
		}
		pol := nodeContains(ifs.Body, x)
		if !pol && (ifs.Else == nil || !nodeContains(ifs.Else, x)) {
			continue
		}
		inner := fn.expandHelperCalls(fn.expandBoolVars(decompose(ifs.Cond, pol, nil), 2), 2)
		return fAnd(fn.GuardsAt(ifs.Cond), inner)
	}
	// a branch statement at the end of a block, behind guard clauses that leave the block:
	// it is reached exactly when none of them fired
	if blk, ok := p.Parent(x).(*ast.BlockStmt); ok {
		var parts []*Formula
		for _, st := range blk.List {
			if st == ast.Stmt(x) {
				break
			}
			is, ok := st.(*ast.IfStmt)
			if !ok || is.Else != nil || len(is.Body.List) == 0 {
				continue
			}
			switch last := is.Body.List[len(is.Body.List)-1].(type) {
			case *ast.ReturnStmt:
			case *ast.BranchStmt:
				if last.Tok != token.CONTINUE && last.Tok != token.BREAK && last.Tok != token.GOTO {
					continue
				}
			default:
				continue
			}
			if len(parts) == 0 {
				parts = append(parts, fn.GuardsAt(is.Cond))
			}
			parts = append(parts, fn.expandHelperCalls(fn.expandBoolVars(decompose(is.Cond, false, nil), 2), 2))
		}
		if len(parts) > 0 {
			return fAnd(parts...)
		}
	}
	return fn.GuardsAt(x)
}

// nativeSyntaxGate: the atom requires that an assertion to a pointer-to-hclsyntax type
// succeeded (its ok flag is true, or its result is non-nil); returns a description or "".
func nativeSyntaxGate(fn *Func, a *Atom) string {
	info := fn.Info()
	isNative := func(ta *ast.TypeAssertExpr) string {
		if ta == nil || ta.Type == nil {
			return ""
		}
		if pt, ok := info.TypeOf(ta.Type).(*types.Pointer); ok {
			if nt := namedOf(pt); nt != nil && nt.Obj().Pkg() != nil && strings.HasSuffix(nt.Obj().Pkg().Path(), "hclsyntax") {
				return exprStr(ta)
			}
		}
		return ""
	}
	assertionOf := func(o types.Object, wantIdx int) string {
		res := ""
		n := 0
		for f := fn; f != nil; f = f.Parent {
			for _, asn := range f.Assignments(o) {
				n++
				s, ok := asn.(*ast.AssignStmt)
				if !ok || len(s.Rhs) != 1 || len(s.Lhs) != 2 {
					continue
				}
				id, ok := s.Lhs[wantIdx].(*ast.Ident)
				if !ok || info.ObjectOf(id) != o {
					continue
				}
				if ta, ok := ast.Unparen(s.Rhs[0]).(*ast.TypeAssertExpr); ok {
					res = isNative(ta)
				}
			}
		}
		if n != 1 {
			return ""
		}
		return res
	}
	e := ast.Unparen(a.E)
	switch x := e.(type) {
	case *ast.Ident:
		if a.Pol {
			if o := info.ObjectOf(x); o != nil {
				if g := assertionOf(o, 1); g != "" {
					return g
				}
			}
			// the ok flag of a helper that answers true only for native-syntax nodes
			if h := okFlagHelper(fn, a); h != nil {
				nTrue, nGated := 0, 0
				hinfo := h.Info()
				ast.Inspect(h.Body, func(z ast.Node) bool {
					if _, isLit := z.(*ast.FuncLit); isLit {
						return false
					}
					rs, ok := z.(*ast.ReturnStmt)
					if !ok || len(rs.Results) < 2 {
						return true
					}
					if id, ok := ast.Unparen(rs.Results[len(rs.Results)-1]).(*ast.Ident); !ok || id.Name != "true" {
						return true
					}
					nTrue++
					gated := false
					for q := h.Prog.Parent(rs); q != nil && q != ast.Node(h.Body); q = h.Prog.Parent(q) {
						if cc, ok := q.(*ast.CaseClause); ok {
							if _, isTS := h.Prog.Parent(h.Prog.Parent(cc)).(*ast.TypeSwitchStmt); isTS && len(cc.List) > 0 {
								all := true
								for _, t := range cc.List {
									pt, ok := hinfo.TypeOf(t).(*types.Pointer)
									if !ok {
										all = false
										continue
									}
									if nt := namedOf(pt); nt == nil || nt.Obj().Pkg() == nil || !strings.HasSuffix(nt.Obj().Pkg().Path(), "hclsyntax") {
										all = false
									}
								}
								if all {
									gated = true
								}
							}
						}
					}
					if !gated {
						for _, ha := range h.GuardsAt(rs).AllAtoms() {
							if ha != nil && ha.E != nil && !ha.Expanded && nativeSyntaxGate(h, ha) != "" {
								gated = true
							}
						}
					}
					if gated {
						nGated++
					}
					return true
				})
				if nTrue > 0 && nTrue == nGated {
					return "the helper " + bareFuncName(h) + " (which answers true only for native-syntax nodes)"
				}
			}
		}
	case *ast.BinaryExpr:
		if x.Op == token.NEQ || x.Op == token.EQL {
			other := x.X
			if isNilIdent(info, x.X) {
				other = x.Y
			} else if !isNilIdent(info, x.Y) {
				return ""
			}
			if (x.Op == token.NEQ) == a.Pol {
				if id, ok := ast.Unparen(other).(*ast.Ident); ok {
					if o := info.ObjectOf(id); o != nil {
						return assertionOf(o, 0)
					}
				}
			}
		}
	}
	return ""
}

// unrelatedAssertion: the atom is the ok flag of a type assertion on an expression that has
// nothing to do with what the emission emits (`_, ok := item.Value.(*T)` deciding whether the
// item's *key* is looked at): skipping the element on it filters data.
func unrelatedAssertion(fn *Func, a *Atom, em ast.Node) bool {
	info := fn.Info()
	id, ok := ast.Unparen(a.E).(*ast.Ident)
	if !ok {
		return false
	}
	var subject ast.Expr
	n := 0
	for _, asn := range fn.Assignments(info.ObjectOf(id)) {
		n++
		if s, ok := asn.(*ast.AssignStmt); ok && len(s.Rhs) == 1 && len(s.Lhs) == 2 {
			if ta, ok := ast.Unparen(s.Rhs[0]).(*ast.TypeAssertExpr); ok && ta.Type != nil {
				subject = ta.X
			}
		}
	}
	if subject == nil || n != 1 {
		return false
	}
	st := exprStr(subject)
	// what the emission is built from (through single-definition locals)
	related := false
	ast.Inspect(em, func(z ast.Node) bool {
		e, ok := z.(ast.Expr)
		if !ok || related {
			return !related
		}
		if strings.Contains(exprStr(e), st) || strings.Contains(exprStr(fn.InlineLocals(e, 4)), st) {
			related = true
		}
		return !related
	})
	if !related {
		// through the definitions of the emission's variables (any arity: x, y := f(subject))
		seen := map[types.Object]bool{}
		var follow func(n ast.Node, depth int)
		follow = func(n ast.Node, depth int) {
			ast.Inspect(n, func(z ast.Node) bool {
				if related {
					return false
				}
				id, ok := z.(*ast.Ident)
				if !ok {
					return true
				}
				o := info.ObjectOf(id)
				v, isVar := o.(*types.Var)
				if !isVar || v.IsField() || seen[o] || depth <= 0 {
					return true
				}
				seen[o] = true
				for f := fn; f != nil; f = f.Parent {
					for _, asn := range f.Assignments(o) {
						var rhs []ast.Expr
						switch s := asn.(type) {
						case *ast.AssignStmt:
							rhs = s.Rhs
						case *ast.RangeStmt:
							rhs = []ast.Expr{s.X}
						case *ast.ValueSpec:
							rhs = s.Values
						}
						for _, e := range rhs {
							if containsWord(exprStr(e), st) {
								related = true
							}
							follow(e, depth-1)
						}
					}
				}
				return true
			})
		}
		follow(em, 4)
	}
	if related {
		return false
	}
	// a variable of the emission defined by an assertion / selection on the subject's root
	root := st
	if i := strings.LastIndex(st, "."); i > 0 {
		root = st[:i]
	}
	_ = root
	return true
}

// atomIdent: the text of a guard expression; a bare identifier is qualified by its
// declaration position (two different variables both called `ok` are different guards).
func atomIdent(fn *Func, e ast.Expr) string {
	if id, ok := ast.Unparen(e).(*ast.Ident); ok {
		if o := fn.Info().ObjectOf(id); o != nil {
			return fmt.Sprintf("%s@%d", id.Name, o.Pos())
		}
	}
	return exprStr(e)
}

func assertionText(fn *Func, a *Atom) string {
	if id, ok := ast.Unparen(a.E).(*ast.Ident); ok {
		for _, asn := range fn.Assignments(fn.Info().ObjectOf(id)) {
			if s, ok := asn.(*ast.AssignStmt); ok && len(s.Rhs) == 1 {
				return exprStr(s.Rhs[0])
			}
		}
	}
	return "?"
}

func containsWord(s, w string) bool {
	for i := 0; ; {
		j := strings.Index(s[i:], w)
		if j < 0 {
			return false
		}
		j += i
		before := j == 0 || !(isIdentByte(s[j-1]))
		after := j+len(w) >= len(s) || !(isIdentByte(s[j+len(w)]))
		if before && after {
			return true
		}
		i = j + 1
	}
}

func isIdentByte(b byte) bool {
	return b == '_' || b >= '0' && b <= '9' || b >= 'a' && b <= 'z' || b >= 'A' && b <= 'Z'
}

// okFlagHelper: the atom is the ok flag (last result, a bool) of a call of an unexported
// function of the same package that has a body; returns that function.
func okFlagHelper(fn *Func, a *Atom) *Func {
	info := fn.Info()
	id, ok := ast.Unparen(a.E).(*ast.Ident)
	if !ok {
		return nil
	}
	o := info.ObjectOf(id)
	if o == nil {
		return nil
	}
	var res *Func
	n := 0
	for f := fn; f != nil; f = f.Parent {
		for _, asn := range f.Assignments(o) {
			n++
			s, ok := asn.(*ast.AssignStmt)
			if !ok || len(s.Rhs) != 1 || len(s.Lhs) < 2 {
				continue
			}
			if lid, ok := s.Lhs[len(s.Lhs)-1].(*ast.Ident); !ok || info.ObjectOf(lid) != o {
				continue
			}
			call, ok := ast.Unparen(s.Rhs[0]).(*ast.CallExpr)
			if !ok {
				continue
			}
			cf := calleeOf(info, call)
			if cf == nil || cf.Exported() || cf.Pkg() != fn.Pkg.Types {
				continue
			}
			if sig, ok := cf.Type().(*types.Signature); ok && sig.Recv() == nil {
				if t := fn.Prog.FuncOf[cf]; t != nil && t.Body != nil {
					res = t
				}
			}
		}
	}
	if n != 1 {
		return nil
	}
	return res
}

// okFlagCall: the call whose last result the ok-flag atom holds.
func okFlagCall(fn *Func, a *Atom) *ast.CallExpr {
	id, ok := ast.Unparen(a.E).(*ast.Ident)
	if !ok {
		return nil
	}
	o := fn.Info().ObjectOf(id)
	for f := fn; f != nil; f = f.Parent {
		for _, asn := range f.Assignments(o) {
			if s, ok := asn.(*ast.AssignStmt); ok && len(s.Rhs) == 1 {
				if c, ok := ast.Unparen(s.Rhs[0]).(*ast.CallExpr); ok {
					return c
				}
			}
		}
	}
	return nil
}

// flagDerivedFrom: is the boolean e true only where field .field was seen true? Accepted
// shapes: the field itself; a local flag whose every non-false assignment is `true` under
// the field (or another derived flag); a call of a module function whose every non-false
// return is one of these.
func flagDerivedFrom(fn *Func, e ast.Expr, field string, depth int) bool {
	if depth > 3 {
		return false
	}
	info := fn.Info()
	under := func(f *Func, at ast.Node) bool {
		return f.GuardsAt(at).Holds(func(a *Atom) bool { return atomMatches(f, a, gf(field)) })
	}
	isBoolLit := func(x ast.Expr, name string) bool {
		id, ok := ast.Unparen(x).(*ast.Ident)
		return ok && id.Name == name && info.Uses[id] == types.Universe.Lookup(name)
	}
	switch x := ast.Unparen(e).(type) {
	case *ast.SelectorExpr:
		return canonId(x.Sel.Name) == field
	case *ast.Ident:
		o := info.ObjectOf(x)
		if _, isVar := o.(*types.Var); !isVar || fn.isParam(o) {
			return false
		}
		n := 0
		for f := fn; f != nil; f = f.Parent {
			for _, asn := range f.Assignments(o) {
				var rhs ast.Expr
				switch s := asn.(type) {
				case *ast.AssignStmt:
					if len(s.Lhs) != len(s.Rhs) {
						return false
					}
					for i, l := range s.Lhs {
						if isIdentObj(info, l, o) {
							rhs = s.Rhs[i]
						}
					}
				case *ast.ValueSpec:
					if len(s.Values) == 0 {
						continue // zero value: false
					}
					for i, id := range s.Names {
						if info.ObjectOf(id) == o && i < len(s.Values) {
							rhs = s.Values[i]
						}
					}
				default:
					return false
				}
				if rhs == nil {
					return false
				}
				if isBoolLit(rhs, "false") {
					continue
				}
				n++
				if isBoolLit(rhs, "true") {
					if !under(f, asn) {
						return false
					}
					continue
				}
				if !flagDerivedFrom(f, rhs, field, depth+1) {
					return false
				}
			}
		}
		return n > 0
	case *ast.CallExpr:
		cf := calleeOf(info, x)
		if cf == nil {
			return false
		}
		t := fn.Prog.FuncOf[cf]
		if t == nil || t.Body == nil {
			return false
		}
		n, bad := 0, false
		ast.Inspect(t.Body, func(nd ast.Node) bool {
			if _, isLit := nd.(*ast.FuncLit); isLit {
				return false
			}
			ret, ok := nd.(*ast.ReturnStmt)
			if !ok {
				return true
			}
			if len(ret.Results) != 1 {
				bad = true
				return true
			}
			r := ret.Results[0]
			tinfo := t.Info()
			if id, ok := ast.Unparen(r).(*ast.Ident); ok && id.Name == "false" && tinfo.Uses[id] == types.Universe.Lookup("false") {
				return true
			}
			n++
			if id, ok := ast.Unparen(r).(*ast.Ident); ok && id.Name == "true" && tinfo.Uses[id] == types.Universe.Lookup("true") {
				if !under(t, ret) {
					bad = true
				}
				return true
			}
			if !flagDerivedFrom(t, r, field, depth+1) {
				bad = true
			}
			return true
		})
		return n > 0 && !bad
	}
	return false
}

// bytesEqualAsCmp: bytes.Equal(x, []byte("lit")) read as string(x) == "lit".
func bytesEqualAsCmp(info *types.Info, e ast.Expr) ast.Expr {
	call, ok := ast.Unparen(e).(*ast.CallExpr)
	if !ok || len(call.Args) != 2 || calleeFull(info, call) != "bytes.Equal" {
		return nil
	}
	for i := 0; i < 2; i++ {
		conv, ok := ast.Unparen(call.Args[i]).(*ast.CallExpr)
		if !ok || len(conv.Args) != 1 {
			continue
		}
		if tv, ok := info.Types[conv.Fun]; !ok || !tv.IsType() {
			continue
		}
		lit, ok := ast.Unparen(conv.Args[0]).(*ast.BasicLit)
		if !ok || lit.Kind != token.STRING {
			continue
		}
		return &ast.BinaryExpr{X: &ast.CallExpr{Fun: ast.NewIdent("string"), Args: []ast.Expr{call.Args[1-i]}}, Op: token.EQL, Y: lit}
	}
	return nil
}

// stringEmptinessAsCmp: len(s) == 0, len(s) < 1, len(s) <= 0 read as s == "" (and
// len(s) != 0, len(s) > 0, len(s) >= 1 as s != "") for a string s; nil otherwise.
func stringEmptinessAsCmp(info *types.Info, be *ast.BinaryExpr) ast.Expr {
	call, ok := ast.Unparen(be.X).(*ast.CallExpr)
	if !ok || !isLenCall(info, call) {
		return nil
	}
	t := info.TypeOf(call.Args[0])
	if t == nil {
		return nil
	}
	if b, ok := t.Underlying().(*types.Basic); !ok || b.Info()&types.IsString == 0 {
		return nil
	}
	c, ok := constInt(info, be.Y)
	if !ok {
		return nil
	}
	empty := &ast.BasicLit{Kind: token.STRING, Value: `""`}
	switch {
	case (be.Op == token.EQL && c == 0) || (be.Op == token.LSS && c == 1) || (be.Op == token.LEQ && c == 0):
		return &ast.BinaryExpr{X: call.Args[0], Op: token.EQL, Y: empty}
	case (be.Op == token.NEQ && c == 0) || (be.Op == token.GTR && c == 0) || (be.Op == token.GEQ && c == 1):
		return &ast.BinaryExpr{X: call.Args[0], Op: token.NEQ, Y: empty}
	}
	return nil
}

// closureParamArgs: e is a parameter of the local closure fn (bound once to a name, called
// by that name): the texts of what its call sites pass for it.
func closureParamArgs(fn *Func, e ast.Expr) []string {
	if fn.Lit == nil || fn.Parent == nil {
		return nil
	}
	id, ok := ast.Unparen(e).(*ast.Ident)
	if !ok {
		return nil
	}
	info := fn.Info()
	o := info.ObjectOf(id)
	k, idx := 0, -1
	for _, fld := range fn.Lit.Type.Params.List {
		for _, nm := range fld.Names {
			if info.ObjectOf(nm) == o {
				idx = k
			}
			k++
		}
	}
	if idx < 0 {
		return nil
	}
	as, ok := fn.Prog.parents[fn.Lit].(*ast.AssignStmt)
	if !ok || len(as.Lhs) != 1 {
		return nil
	}
	nid, ok := as.Lhs[0].(*ast.Ident)
	if !ok {
		return nil
	}
	no := info.ObjectOf(nid)
	var out []string
	ast.Inspect(rootFunc(fn).Body, func(z ast.Node) bool {
		call, ok := z.(*ast.CallExpr)
		if !ok || idx >= len(call.Args) {
			return true
		}
		if u, ok := ast.Unparen(call.Fun).(*ast.Ident); ok && u != nid && info.ObjectOf(u) == no {
			out = append(out, exprStr(call.Args[idx]))
		}
		return true
	})
	return out
}
