package main

// What each property's check does NOT decide (copied into every evidence file).
var notDecided = map[string][]string{
	"C01": {"termination of third-party code (hcl, cty, sort) and of user-supplied hooks/validators; termination on cyclic schemas or cyclic cty types (schemas and types are assumed to be finite trees — a schema that contains itself also makes its own Copy diverge)",
		"integer overflow; stack depth; panics inside hcl/cty beyond the modelled accessor contracts"},
	"C02": {"the candidate set itself (prefix filtering is under C07/C08/C15 rows)", "unicode column semantics beyond byte/column shift agreement",
		"that every range lies inside the file for every input (ranges derived from parser nodes are trusted)"},
	"C03": {"history independence through memory reachable only via third-party values (hcl AST nodes are assumed read-only)"},
	"C04": {"writes performed inside third-party callees other than sort/append/copy (assumed read-only on their arguments)", "user hooks and validators"},
	"C05": {"data races inside hcl/cty on shared AST nodes; the memory-model argument (no write to shared memory ⇒ race free) is stated, not mechanised"},
	"C06": {"that the edit range starts at or before and reaches the cursor for every input (partly under C02)", "tab-stop numbering inside non-constant format strings", "behaviour of user-supplied completion hooks"},
	"C07": {"the values computed by the guards (e.g. that isBlockDeclarable counts correctly for every body)", "ordering among equal labels"},
	"C08": {"candidate text contents; results of cty type conversion; completeness of reference candidates with respect to every target shape"},
	"C09": {"inferred cty types value-by-value", "that source order equals index order beyond derivation of the step key from the loop index", "ranges of JSON blocks (synthesised)"},
	"C10": {"traversal-to-address conversion results; constraint sets value-by-value; that hcl's Variables() reports every traversal"},
	"C11": {"the predicate Target.Matches itself is not evaluated: symmetry is decided as 'same predicate, no extra filter on either side'"},
	"C12": {"hover content text; that the most specific element is chosen among nested candidates beyond the containment induction"},
	"C13": {"pairwise disjointness of token ranges by value (ranges derive from disjoint syntax nodes: trusted)", "modifier sets value-by-value"},
	"C14": {"range nesting of children inside parents (a property of the parser's ranges)", "symbol kinds of JSON expressions"},
	"C15": {"diagnostic message text and exact ranges beyond derivation from the offending node", "user-supplied validators"},
	"C16": {"injectivity of the JSON encoding of key values (cty → JSON)", "that dependencyKeysFromBlock reads the right value for every expression form"},
	"C17": {},
	"C18": {"what the parser recovers around the cursor for a given broken input", "that every result position derives from parser ranges beyond the hand-built positions examined"},
	"C19": {"equality of the two syntaxes' results (depends on hcl's JSON parser and on runtime values): only the shape conditions of hcl-lang's JSON-specific branches are decided"},
	"C20": {"'always a valid index' as arithmetic over all paths (the guard structure implying it is checked; the join after the clamp is not mechanised)",
		"what recoverLeftBytes returns for every byte sequence (CRLF, missing comma)"},
}
