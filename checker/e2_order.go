package main

// E2 — iteration-order engine (C03 and the ordering clauses of C07/C09/C10/C13/C14/C16).
//
// A slice is "map-ordered" from the point where it is appended to inside a range over a
// map (or over another map-ordered slice), or where it receives the result of a function
// whose summary says the result is map-ordered. A map-ordered slice must cross a sort
// call on every path before it escapes from an API entry point; functions that return
// one unsorted get the summary "unordered result i" and the obligation moves to every
// caller (fixed point over the module).

import (
	"fmt"
	"go/ast"
	"go/token"
	"go/types"
	"sort"
	"strings"

	"golang.org/x/tools/go/cfg"
)

type e2State struct {
	p *Prog
	r *Report
	// unordered[fn] = set of result indices that may be returned in map order
	unordered map[*types.Func]map[unKey]string
	// sortsRecv[fn] = receiver fields the method sorts in place (possibly through an alias
	// sharing the backing array), e.g. DependencyKeys.MarshalJSON
	sortsRecv map[*types.Func][]string
	// sortsParam[fn] = set of parameter indices the function sorts in place
	sortsParam map[*types.Func]map[int]bool
	changed    bool
	// for reporting: collected once in the final pass
	final                                        bool
	nMapRanges, nClassK, nClassM, nClassA, nDiag int
	methodImpls                                  map[string][]*types.Func // interface method name -> module methods
}

// unKey identifies a map-ordered part of a function result: result index and the field
// path below it ("" = the result itself).
type unKey struct {
	idx int
	sub string
}

// diagLike: collections the property declares unordered.
func diagLike(t types.Type) bool {
	if t == nil {
		return false
	}
	s := t.String()
	return strings.HasSuffix(s, "hcl/v2.Diagnostics") || strings.HasSuffix(s, "lang.DiagnosticsMap") ||
		s == "error" || s == "[]error" || strings.HasSuffix(s, "go-multierror.Error") || strings.HasSuffix(s, "*github.com/hashicorp/go-multierror.Error")
}

func isSortCall(info *types.Info, call *ast.CallExpr) (arg ast.Expr, ok bool) {
	full := calleeFull(info, call)
	switch full {
	case "sort.Strings", "sort.Ints", "sort.Sort", "sort.Stable", "sort.Slice", "sort.SliceStable", "slices.Sort", "slices.SortFunc", "slices.SortStableFunc":
		if len(call.Args) == 0 {
			return nil, false
		}
		a := ast.Unparen(call.Args[0])
		// sort.Sort(T(x)) → x
		if c, isCall := a.(*ast.CallExpr); isCall && len(c.Args) == 1 {
			if tv, ok := info.Types[c.Fun]; ok && tv.IsType() {
				a = ast.Unparen(c.Args[0])
			}
		}
		return a, true
	}
	return nil, false
}

type taintSrc struct {
	path string
	node ast.Node // statement where the slice becomes map-ordered
	why  string
	typ  types.Type
}

func runE2(p *Prog, r *Report) {
	st := &e2State{p: p, r: r, unordered: map[*types.Func]map[unKey]string{}, sortsRecv: map[*types.Func][]string{}, methodImpls: map[string][]*types.Func{}}
	for _, fn := range p.Funcs {
		if fn.Obj != nil && fn.Decl.Recv != nil {
			st.methodImpls[fn.Obj.Name()] = append(st.methodImpls[fn.Obj.Name()], fn.Obj)
		}
	}
	st.sortsParam = map[*types.Func]map[int]bool{}
	for _, fn := range p.Funcs {
		st.summariseParamSorts(fn)
	}
	for _, fn := range p.Funcs {
		st.summariseSorts(fn)
	}
	// fixed point of summaries
	for iter := 0; iter < 20; iter++ {
		st.changed = false
		for _, fn := range p.Funcs {
			st.analyse(fn)
		}
		if !st.changed {
			break
		}
	}
	st.final = true
	for _, fn := range p.Funcs {
		st.analyse(fn)
	}
	// entry points: exported API returning unordered results
	var names []string
	for f, idx := range st.unordered {
		for k, why := range idx {
			i := k.idx
			fn := p.FuncOf[f]
			if fn == nil {
				continue
			}
			if why2, ok := e2NotAnEntry[fn.Name]; ok {
				r.Add("E2.unsorted-escape", fn.Name, fmt.Sprintf("result %d", i), p.Pos(fn.Decl), Excepted, why2, true)
				names = append(names, fmt.Sprintf("%s[%d]", fn.Name, i))
			} else if isPublicAPI(f) {
				r.Add("E2.unsorted-escape", fn.Name, fmt.Sprintf("result %d", i), p.Pos(fn.Decl), Violated,
					"public API returns a slice in Go map iteration order without sorting it: "+why, true)
			} else {
				names = append(names, fmt.Sprintf("%s[%d]", fn.Name, i))
			}
		}
	}
	sort.Strings(names)
	r.Counts["E2.internal-collectors-returning-unsorted(callers must sort)"] = len(names)
	r.ExpectMin("E2.map-ranges", st.nMapRanges, 35)
	r.Clauses = append(r.Clauses,
		"E2 every range over a map (and over a slice filled in map order) is classified; slices appended to in such loops cross a sort call on every path before they are returned by a public API, stored into a result, or iterated into another ordered result; internal collectors that return unsorted slices put the obligation on all their callers (fixed point)",
		"E2 no return/break/outer assignment inside a map range depends on which element was seen first (reviewed position-exclusive exceptions aside)")
	r.NotDecided = append(r.NotDecided, "cross-type order of JSON blocks returned by hcl's PartialContent (follows BodySchema.ToHCLSchema's map-ordered list); a path-insensitive taint cannot tell it from the source order within one type, so it is reviewed, not checked")
	r.NotDecided = append(r.NotDecided, "tie-freedom of sort keys on real data (a stable sort keeps map order among equal keys)")
	r.Assume("attribute ranges of one parsed hclsyntax body are pairwise disjoint (first-match returns on ContainsPos are position-exclusive)")
}

func isPublicAPI(f *types.Func) bool {
	if !f.Exported() || f.Pkg() == nil {
		return false
	}
	if strings.Contains(f.Pkg().Path(), "/internal/") {
		return false
	}
	sig := f.Type().(*types.Signature)
	if sig.Recv() != nil {
		n := namedOf(sig.Recv().Type())
		if n == nil {
			return false
		}
		// methods on unexported types are reachable through exported interfaces only;
		// those are dispatched in-module (Expression implementations)
		if !n.Obj().Exported() {
			return false
		}
	}
	return true
}

// callees returns the possible module callees of a call (static or by interface method
// name over module implementations).
func (st *e2State) callees(info *types.Info, call *ast.CallExpr) []*types.Func {
	f := calleeOf(info, call)
	if f == nil {
		return nil
	}
	sig := f.Type().(*types.Signature)
	if sig.Recv() != nil {
		if _, isIface := sig.Recv().Type().Underlying().(*types.Interface); isIface {
			var out []*types.Func
			for _, m := range st.methodImpls[f.Name()] {
				ms := m.Type().(*types.Signature)
				if types.Implements(ms.Recv().Type(), sig.Recv().Type().Underlying().(*types.Interface)) ||
					types.Implements(types.NewPointer(ms.Recv().Type()), sig.Recv().Type().Underlying().(*types.Interface)) {
					out = append(out, m)
				}
			}
			return out
		}
	}
	return []*types.Func{f}
}

func (st *e2State) callUnordered(info *types.Info, call *ast.CallExpr) map[unKey]string {
	out := map[unKey]string{}
	for _, c := range st.callees(info, call) {
		for i, why := range st.unordered[c] {
			if strings.Contains(why, " returns it in map order (") {
				out[i] = why
				continue
			}
			out[i] = fmt.Sprintf("%s returns it in map order (%s)", funcName(c), short(why, 80))
		}
	}
	if len(out) == 0 {
		return nil
	}
	return out
}

func (st *e2State) markUnordered(fn *Func, idx int, sub string, why string) {
	if fn.Obj == nil {
		return
	}
	m := st.unordered[fn.Obj]
	if m == nil {
		m = map[unKey]string{}
		st.unordered[fn.Obj] = m
	}
	if _, ok := m[unKey{idx, sub}]; !ok {
		m[unKey{idx, sub}] = why
		st.changed = true
	}
}

func (st *e2State) analyse(fn *Func) {
	info := fn.Info()
	p := st.p
	fn.CFG()
	// 1. order-nondeterministic iterables: maps, and slices tainted in this function.
	var srcs []taintSrc
	tainted := map[string]bool{}
	addSrc := func(path string, node ast.Node, why string, t types.Type) {
		if path == "" || (t != nil && diagLike(t)) {
			return
		}
		srcs = append(srcs, taintSrc{path, node, why, t})
		tainted[path] = true
	}
	// 1a. results of unordered callees
	ast.Inspect(fn.Body, func(n ast.Node) bool {
		if lit, ok := n.(*ast.FuncLit); ok && lit != fn.Lit {
			return false
		}
		as, ok := n.(*ast.AssignStmt)
		if !ok {
			return true
		}
		// x, y := f()
		if len(as.Rhs) == 1 {
			if call, ok := ast.Unparen(as.Rhs[0]).(*ast.CallExpr); ok {
				if un := st.callUnordered(info, call); un != nil {
					for k, why := range un {
						if k.idx < len(as.Lhs) {
							if lp := pathOf(info, as.Lhs[k.idx]); lp != "" {
								var t types.Type
								if k.sub == "" {
									t = info.TypeOf(as.Lhs[k.idx])
								}
								addSrc(lp+k.sub, as, why, t)
							}
						}
					}
				}
				// x = append(x, f()...)
				if isBuiltinCall(info, call, "append") {
					for _, arg := range call.Args[1:] {
						if c2, ok := ast.Unparen(arg).(*ast.CallExpr); ok {
							if un := st.callUnordered(info, c2); un != nil {
								if why, ok := un[unKey{0, ""}]; ok && len(as.Lhs) == 1 {
									addSrc(pathOf(info, as.Lhs[0]), as, why, info.TypeOf(as.Lhs[0]))
								}
							}
						}
						// append(x, y...) with y tainted handled below through iteration
					}
				}
			}
		}
		return true
	})
	// 1a'. other uses of an unordered call result: returned directly, or embedded in a
	// literal / passed on without ever being bound to a variable that could be sorted
	ast.Inspect(fn.Body, func(n ast.Node) bool {
		if lit, ok := n.(*ast.FuncLit); ok && lit != fn.Lit {
			return false
		}
		call, ok := n.(*ast.CallExpr)
		if !ok {
			return true
		}
		un := st.callUnordered(info, call)
		if un == nil {
			return true
		}
		par := p.Parent(call)
		for {
			if pe, ok := par.(*ast.ParenExpr); ok {
				par = p.Parent(pe)
				continue
			}
			break
		}
		switch pp := par.(type) {
		case *ast.AssignStmt, *ast.ExprStmt, *ast.RangeStmt:
			return true
		case *ast.ReturnStmt:
			if len(pp.Results) == 1 {
				for k, why := range un {
					st.markUnordered(fn, k.idx, k.sub, why)
				}
			} else {
				for i, res := range pp.Results {
					if ast.Unparen(res) == ast.Expr(call) {
						for k, why := range un {
							if k.idx == 0 {
								st.markUnordered(fn, i, k.sub, why)
							}
						}
					}
				}
			}
			return true
		case *ast.CallExpr:
			if isBuiltinCall(info, pp, "append") {
				if _, ok := p.Parent(pp).(*ast.AssignStmt); ok {
					return true
				}
			}
			if isBuiltinCall(info, pp, "len") {
				return true
			}
			// handed straight to a function outside the module: the same as going through a
			// local first (x := f(); ext(x)), which is judged by what comes back, not here
			if cf := calleeOf(info, pp); cf != nil && cf.Pkg() != nil && !strings.HasPrefix(cf.Pkg().Path(), modPath) {
				for _, a := range pp.Args {
					if ast.Unparen(a) == ast.Expr(call) {
						return true
					}
				}
			}
		}
		why, ok := "", false
		for k, w := range un {
			if k.idx == 0 {
				why, ok = w, true
			}
		}
		if ok && st.final && !diagLike(info.TypeOf(call)) {
			st.r.Add("E2.unsorted-escape", fn.Name, "result of "+exprStr(call.Fun)+" used in place", p.Pos(call), Violated,
				"the map-ordered result of this call ("+why+") is embedded or passed on without being sorted", true)
		}
		return true
	})
	propagate := func() {
		// 1c. x = append(x, y...) / x = y with y tainted → x tainted (copy of order)
		for round := 0; round < 3; round++ {
			ast.Inspect(fn.Body, func(n ast.Node) bool {
				if lit, ok := n.(*ast.FuncLit); ok && lit != fn.Lit {
					return false
				}
				as, ok := n.(*ast.AssignStmt)
				if !ok || len(as.Lhs) != len(as.Rhs) {
					return true
				}
				for i, rhs := range as.Rhs {
					lp := pathOf(info, as.Lhs[i])
					if lp == "" || tainted[lp] {
						continue
					}
					rhs = ast.Unparen(rhs)
					if call, ok := rhs.(*ast.CallExpr); ok && isBuiltinCall(info, call, "append") {
						for _, arg := range call.Args[1:] {
							ap := taintedPath(tainted, pathOf(info, arg))
							if ap != "" && !st.sortedBefore(fn, ap, srcs, as) {
								addSrc(lp, as, "appended from map-ordered "+exprStr(arg), info.TypeOf(as.Lhs[i]))
							}
						}
						continue
					}
					rp := taintedPath(tainted, pathOf(info, rhs))
					if rp != "" && !st.sortedBefore(fn, rp, srcs, as) {
						addSrc(lp, as, "assigned from map-ordered "+exprStr(rhs), info.TypeOf(as.Lhs[i]))
					}
				}
				return true
			})
		}
	}
	propagate()
	// 1b. loops over maps / tainted slices: iterate to a local fixed point since a
	// tainted slice may be ranged over later in the same function
	type loopInfo struct {
		rs  *ast.RangeStmt
		why string
	}
	seenLoop := map[*ast.RangeStmt]bool{}
	for round := 0; round < 5; round++ {
		progress := false
		ast.Inspect(fn.Body, func(n ast.Node) bool {
			if lit, ok := n.(*ast.FuncLit); ok && lit != fn.Lit {
				return false
			}
			rs, ok := n.(*ast.RangeStmt)
			if !ok || seenLoop[rs] {
				return true
			}
			t := info.TypeOf(rs.X)
			if t == nil {
				return true
			}
			why := ""
			if _, isMap := t.Underlying().(*types.Map); isMap {
				why = "range over map " + exprStr(rs.X)
				if round == 0 && st.final {
					st.nMapRanges++
				}
			} else if tp := taintedPath(tainted, pathOf(info, rs.X)); tp != "" && !st.sortedBefore(fn, tp, srcs, rs) {
				why = "range over map-ordered slice " + exprStr(rs.X)
			} else if call, ok := ast.Unparen(rs.X).(*ast.CallExpr); ok {
				if un := st.callUnordered(info, call); un != nil {
					if w, ok := un[unKey{0, ""}]; ok {
						why = "range over " + w
					}
				}
			}
			if why == "" {
				return true
			}
			seenLoop[rs] = true
			progress = true
			st.classifyLoop(fn, rs, why, addSrc)
			return true
		})
		if !progress {
			break
		}
	}
	propagate()
	if len(srcs) == 0 {
		return
	}
	// 2. escapes of tainted slices
	reported := map[string]bool{}
	for _, src := range srcs {
		esc := st.escapes(fn, src)
		for _, e := range esc {
			k := src.path + "|" + e.kind + "|" + fmt.Sprint(e.idx)
			if reported[k] {
				continue
			}
			reported[k] = true
			switch e.kind {
			case "return":
				st.markUnordered(fn, e.idx, e.sub, src.why)
				if st.final && fn.Obj == nil {
					st.r.Add("E2.unsorted-escape", fn.Name, pathName(src.path)+" returned from literal", p.Pos(e.node), Undecided, "function literal returns a map-ordered slice: "+src.why, true)
				}
			case "sorted":
				if st.final {
					st.nClassA++
					st.r.Add("E2.append-then-sort", fn.Name, pathName(src.path), p.Pos(e.node), OK, src.why+"; sorted before it escapes", true)
					st.judgeStability(fn, src)
				}
			default:
				if st.final {
					st.r.Add("E2.unsorted-escape", fn.Name, pathName(src.path)+" "+e.kind, p.Pos(e.node), Violated,
						fmt.Sprintf("slice %s is in Go map iteration order (%s) and %s without crossing a sort", pathName(src.path), src.why, e.desc), true)
				}
			}
		}
	}
}

// taintedPath returns the tainted path that covers p: p itself, or a struct value p is a
// field of.
func taintedPath(tainted map[string]bool, p string) string {
	if p == "" {
		return ""
	}
	if tainted[p] {
		return p
	}
	for t := range tainted {
		if strings.HasPrefix(p, t+".") {
			return t
		}
	}
	return ""
}

// pathCovers: expression path e denotes the tainted slice itself or a struct value that
// contains it (e.g. returning `content` returns content.Blocks).
func pathCovers(e, tainted string) bool {
	if e == "" {
		return false
	}
	return e == tainted || strings.HasPrefix(tainted, e+".")
}

func pathName(path string) string {
	// strip @pos decorations
	var sb strings.Builder
	skip := false
	for _, c := range path {
		if c == '@' {
			skip = true
			continue
		}
		if skip {
			if c >= '0' && c <= '9' {
				continue
			}
			skip = false
		}
		sb.WriteRune(c)
	}
	return sb.String()
}

// sortedBefore: is there a sort call on path that dominates node `at` and comes after
// every taint source of that path that can reach `at`? (used for "range over tainted
// slice" — conservative: requires a dominating sort located after all sources in
// dominance order)
func (st *e2State) sortedBefore(fn *Func, path string, srcs []taintSrc, at ast.Node) bool {
	info := fn.Info()
	if rs, ok := at.(*ast.RangeStmt); ok {
		at = rs.X // the CFG holds the range operand, not the statement
	}
	var sorts []ast.Node
	ast.Inspect(fn.Body, func(n ast.Node) bool {
		if call, ok := n.(*ast.CallExpr); ok {
			if st.sortsPath(info, call, path) {
				sorts = append(sorts, call)
			}
		}
		return true
	})
	for _, s := range sorts {
		if !fn.Dominates(s, at) {
			continue
		}
		ok := true
		for _, src := range srcs {
			if src.path != path {
				continue
			}
			// source must not be able to reach `at` while bypassing s
			if st.reachesAvoiding(fn, src.node, at, path) {
				ok = false
			}
		}
		if ok {
			return true
		}
	}
	return false
}

// reachesAvoiding: can control flow from just after `from` reach `to` without executing a
// sort call on path?
func (st *e2State) reachesAvoiding(fn *Func, from, to ast.Node, path string) bool {
	for _, e := range st.walk(fn, from, path, func(n ast.Node) bool { return n == fn.CFGNodeOf(to) }) {
		_ = e
		return true
	}
	return false
}

// walk explores CFG nodes reachable after `from` without crossing a sort on path, and
// returns the nodes for which hit() is true.
func (st *e2State) walk(fn *Func, from ast.Node, path string, hit func(ast.Node) bool) []ast.Node {
	info := fn.Info()
	fromNode := fn.CFGNodeOf(from)
	fb := fn.BlockOf(from)
	if fb == nil {
		return nil
	}
	isSortOn := func(n ast.Node) bool {
		found := false
		ast.Inspect(n, func(x ast.Node) bool {
			if _, ok := x.(*ast.FuncLit); ok {
				return false
			}
			if call, ok := x.(*ast.CallExpr); ok {
				if st.sortsPath(info, call, path) {
					found = true
				}
			}
			return true
		})
		return found
	}
	var hits []ast.Node
	seen := map[*cfg.Block]bool{}
	var visit func(b *cfg.Block, startIdx int)
	visit = func(b *cfg.Block, startIdx int) {
		for i := startIdx; i < len(b.Nodes); i++ {
			n := b.Nodes[i]
			if isSortOn(n) {
				return
			}
			if hit(n) {
				hits = append(hits, n)
			}
		}
		for _, s := range b.Succs {
			if !seen[s] {
				seen[s] = true
				visit(s, 0)
			}
		}
	}
	idx := 0
	for i, n := range fb.Nodes {
		if n == fromNode {
			idx = i + 1
		}
	}
	visit(fb, idx)
	return hits
}

type escape struct {
	kind string
	sub  string
	idx  int
	node ast.Node
	desc string
}

// escapes finds the uses through which a tainted slice leaves the function unsorted.
func (st *e2State) escapes(fn *Func, src taintSrc) []escape {
	info := fn.Info()
	var out []escape
	sortedSomewhere := false
	mentions := func(e ast.Expr) bool {
		found := false
		ast.Inspect(e, func(n ast.Node) bool {
			if _, ok := n.(*ast.FuncLit); ok {
				return false
			}
			if ex, ok := n.(ast.Expr); ok && pathOf(info, ex) != "" {
				if !pathCovers(pathOf(info, ex), src.path) {
					return false // a maximal access path that is not the tainted one
				}
				// exclude len(x), cap(x), x == nil
				par := st.p.Parent(n)
				if call, ok := par.(*ast.CallExpr); ok && (isBuiltinCall(info, call, "len") || isBuiltinCall(info, call, "cap")) {
					return false
				}
				found = true
				return false
			}
			return true
		})
		return found
	}
	// is there any sort on this path in the function?
	ast.Inspect(fn.Body, func(n ast.Node) bool {
		if call, ok := n.(*ast.CallExpr); ok {
			if st.sortsPath(info, call, src.path) {
				sortedSomewhere = true
			}
		}
		return true
	})
	hitNodes := st.walk(fn, src.node, src.path, func(n ast.Node) bool {
		switch x := n.(type) {
		case *ast.ReturnStmt:
			for _, res := range x.Results {
				if mentions(res) {
					return true
				}
			}
			// named results
			if len(x.Results) == 0 {
				return st.namedResultIndex(fn, src.path) >= 0
			}
		case *ast.AssignStmt:
			for i, rhs := range x.Rhs {
				if !mentions(rhs) {
					continue
				}
				// self-append is not an escape
				if len(x.Lhs) == len(x.Rhs) && pathOf(info, x.Lhs[i]) == src.path {
					continue
				}
				return true
			}
		case *ast.ExprStmt:
			return mentions(x.X)
		case *ast.RangeStmt:
		case ast.Expr:
			// conditions, range operands
			if call, ok := ast.Unparen(x).(*ast.CallExpr); ok {
				for _, a := range call.Args {
					if mentions(a) {
						return true
					}
				}
			}
		case *ast.DeferStmt, *ast.GoStmt:
			return true
		}
		return false
	})
	for _, n := range hitNodes {
		switch x := n.(type) {
		case *ast.ReturnStmt:
			if len(x.Results) == 0 {
				out = append(out, escape{"return", "", st.namedResultIndex(fn, src.path), x, "is returned"})
				continue
			}
			for i, res := range x.Results {
				if mentions(res) {
					sub := ""
					if rp := pathOf(info, res); rp != "" && strings.HasPrefix(src.path, rp+".") {
						sub = src.path[len(rp):]
					}
					out = append(out, escape{"return", sub, i, x, "is returned"})
				}
			}
		case *ast.AssignStmt:
			// x = append(x, tainted...) / y := tainted handled as taint propagation (1c);
			// stores into fields of results are escapes
			for i, rhs := range x.Rhs {
				if !mentions(rhs) {
					continue
				}
				if len(x.Lhs) != len(x.Rhs) {
					continue
				}
				if pathOf(info, x.Lhs[i]) == src.path {
					continue
				}
				lhs := ast.Unparen(x.Lhs[i])
				if _, isId := lhs.(*ast.Ident); isId {
					// propagation into another local: handled by 1c (append / plain copy);
					// a call taking the slice as argument is checked below
					if call, ok := ast.Unparen(rhs).(*ast.CallExpr); ok && !isBuiltinCall(info, call, "append") && !isConversion(info, call) {
						out = append(out, st.callEscape(fn, src, call, x)...)
					}
					continue
				}
				if diagLike(info.TypeOf(lhs)) {
					continue
				}
				out = append(out, escape{"stored into " + exprStr(lhs), "", 0, x, "is stored into " + exprStr(lhs)})
			}
		case *ast.ExprStmt:
			if call, ok := ast.Unparen(x.X).(*ast.CallExpr); ok {
				out = append(out, st.callEscape(fn, src, call, x)...)
			}
		case ast.Expr:
			if call, ok := ast.Unparen(x).(*ast.CallExpr); ok {
				out = append(out, st.callEscape(fn, src, call, n)...)
			}
		default:
			out = append(out, escape{"deferred/spawned use", "", 0, n, "is used in a defer/go statement"})
		}
	}
	if len(out) == 0 && sortedSomewhere {
		out = append(out, escape{"sorted", "", 0, src.node, ""})
	}
	return out
}

// sortsPath: does this call sort the slice denoted by path (directly, or as a receiver
// field a module method sorts in place)?
func (st *e2State) sortsPath(info *types.Info, call *ast.CallExpr, path string) bool {
	if arg, ok := isSortCall(info, call); ok {
		return pathOf(info, arg) == path
	}
	f := calleeOf(info, call)
	if f == nil {
		return false
	}
	fields := st.sortsRecv[f]
	if len(fields) == 0 {
		return false
	}
	sel, ok := ast.Unparen(call.Fun).(*ast.SelectorExpr)
	if !ok {
		return false
	}
	rp := pathOf(info, sel.X)
	for _, fld := range fields {
		if rp != "" && rp+"."+fld == path {
			return true
		}
	}
	return false
}

// summariseSorts records, for a method, the receiver fields it sorts in place: a sort
// call on recv.F, or on a local alias x.F assigned from recv.F by a dominating statement.
func (st *e2State) summariseSorts(fn *Func) {
	if fn.Decl == nil || fn.Decl.Recv == nil || len(fn.Decl.Recv.List[0].Names) != 1 || fn.Obj == nil {
		return
	}
	info := fn.Info()
	recv := info.ObjectOf(fn.Decl.Recv.List[0].Names[0])
	recvField := func(e ast.Expr) string {
		sel, ok := ast.Unparen(e).(*ast.SelectorExpr)
		if !ok {
			return ""
		}
		id, ok := ast.Unparen(sel.X).(*ast.Ident)
		if !ok || info.ObjectOf(id) != recv {
			return ""
		}
		return sel.Sel.Name
	}
	ast.Inspect(fn.Body, func(n ast.Node) bool {
		call, ok := n.(*ast.CallExpr)
		if !ok {
			return true
		}
		// a helper that sorts one of its parameters in place, handed a receiver field
		if cf := calleeOf(info, call); cf != nil {
			for k := range st.sortsParam[cf] {
				if k < len(call.Args) {
					if f := recvField(call.Args[k]); f != "" {
						st.sortsRecv[fn.Obj] = append(st.sortsRecv[fn.Obj], f)
					}
				}
			}
		}
		arg, ok := isSortCall(info, call)
		if !ok {
			return true
		}
		if f := recvField(arg); f != "" {
			st.sortsRecv[fn.Obj] = append(st.sortsRecv[fn.Obj], f)
			return true
		}
		ap := pathOf(info, arg)
		if ap == "" {
			return true
		}
		// alias: ap = recv.F dominating the sort, and the only assignment to ap
		var src string
		cnt := 0
		ast.Inspect(fn.Body, func(m ast.Node) bool {
			as, ok := m.(*ast.AssignStmt)
			if !ok || len(as.Lhs) != len(as.Rhs) {
				return true
			}
			for i, l := range as.Lhs {
				if pathOf(info, l) == ap {
					cnt++
					if f := recvField(as.Rhs[i]); f != "" && fn.Dominates(as, call) {
						src = f
					}
				}
			}
			return true
		})
		if cnt == 1 && src != "" {
			st.sortsRecv[fn.Obj] = append(st.sortsRecv[fn.Obj], src)
		}
		return true
	})
}

func isConversion(info *types.Info, call *ast.CallExpr) bool {
	tv, ok := info.Types[call.Fun]
	return ok && tv.IsType()
}

func (st *e2State) namedResultIndex(fn *Func, path string) int {
	if fn.Type.Results == nil {
		return -1
	}
	i := 0
	for _, f := range fn.Type.Results.List {
		for _, nm := range f.Names {
			if pathOf(fn.Info(), nm) == path {
				return i
			}
			i++
		}
		if len(f.Names) == 0 {
			i++
		}
	}
	return -1
}

// callEscape: the tainted slice is passed to a call. Pure readers (len, json.Marshal is
// NOT one) are listed; module callees are accepted when they only read order-insensitively
// — which we cannot know in general, so unknown module callees make the escape explicit.
func (st *e2State) callEscape(fn *Func, src taintSrc, call *ast.CallExpr, at ast.Node) []escape {
	info := fn.Info()
	full := calleeFull(info, call)
	if _, ok := isSortCall(info, call); ok {
		return nil
	}
	switch full {
	case "fmt.Sprintf", "fmt.Errorf", "strings.Join", "encoding/json.Marshal":
		return []escape{{"formatted by " + full, "", 0, at, "is rendered by " + full}}
	}
	if isBuiltinCall(info, call, "len") || isBuiltinCall(info, call, "cap") {
		return nil
	}
	return []escape{{"passed to " + exprStr(call.Fun), "", 0, at, "is passed to " + exprStr(call.Fun)}}
}

// classifyLoop judges the body of an order-nondeterministic loop.
func (st *e2State) classifyLoop(fn *Func, rs *ast.RangeStmt, why string, addSrc func(string, ast.Node, string, types.Type)) {
	info := fn.Info()
	p := st.p
	loopVars := map[types.Object]bool{}
	for _, e := range []ast.Expr{rs.Key, rs.Value} {
		if id, ok := e.(*ast.Ident); ok && id.Name != "_" {
			if o := info.ObjectOf(id); o != nil {
				loopVars[o] = true
			}
		}
	}
	declaredInside := func(o types.Object) bool {
		return o != nil && o.Pos() >= rs.Body.Pos() && o.Pos() <= rs.Body.End()
	}
	// loop-dependent: mentions loop vars or variables declared inside the body
	loopDep := func(e ast.Expr) bool {
		dep := false
		ast.Inspect(e, func(n ast.Node) bool {
			if id, ok := n.(*ast.Ident); ok {
				o := info.ObjectOf(id)
				if loopVars[o] || (declaredInside(o) && isVar(o)) {
					dep = true
				}
			}
			return true
		})
		return dep
	}
	construct := "range " + exprStr(rs.X)
	appends, mapStores, issues := 0, 0, 0
	type latch struct {
		o  types.Object
		as *ast.AssignStmt
		id *ast.Ident
	}
	var latches []latch
	report := func(n ast.Node, kind, detail string) {
		issues++
		if !st.final {
			return
		}
		key := construct + " " + kind
		if ex := e2Exceptions[fn.Name+"|"+construct+"|"+kind]; ex != "" {
			st.r.Add("E2.order-sensitive-exit", fn.Name, key, p.Pos(n), Excepted, ex, true)
			return
		}
		st.r.Add("E2.order-sensitive-exit", fn.Name, key, p.Pos(n), Violated, detail+" ("+why+")", true)
	}
	var inspect func(n ast.Node) bool
	inspect = func(n ast.Node) bool {
		switch x := n.(type) {
		case *ast.FuncLit:
			return false
		case *ast.AssignStmt:
			// `switch v := x.(type)`: the symbol is bound per clause, inside the iteration
			if ts, ok := p.Parent(x).(*ast.TypeSwitchStmt); ok && ts.Assign == ast.Stmt(x) {
				return true
			}
			for i, l := range x.Lhs {
				l = ast.Unparen(l)
				if id, ok := l.(*ast.Ident); ok && id.Name == "_" {
					continue
				}
				lo := baseObj(info, l)
				if x.Tok == token.DEFINE && declaredInside(lo) {
					continue
				}
				if declaredInside(lo) && isVar(lo) {
					continue // local to the iteration
				}
				var rhs ast.Expr
				if len(x.Lhs) == len(x.Rhs) {
					rhs = x.Rhs[i]
				} else if len(x.Rhs) == 1 {
					rhs = x.Rhs[0]
				}
				if ix, ok := l.(*ast.IndexExpr); ok {
					if _, isSlice := info.TypeOf(ix.X).Underlying().(*types.Slice); isSlice && !declaredInside(baseObj(info, ix.X)) {
						// names[i] = name; i++  — an indexed fill in iteration order
						appends++
						addSrc(pathOf(info, ix.X), x, why, info.TypeOf(ix.X))
						continue
					}
					if _, isMap := info.TypeOf(ix.X).Underlying().(*types.Map); isMap {
						mapStores++
						if !loopDep(ix.Index) {
							report(x, "map store under loop-independent key", "store into "+exprStr(ix.X)+" under a key that does not depend on the iteration: the surviving value depends on iteration order")
						} else if ac, isC := ast.Unparen(rhs).(*ast.CallExpr); rhs != nil && isC && isBuiltinCall(info, ac, "append") && len(ac.Args) > 0 && exprStr(ac.Args[0]) == exprStr(l) {
							// m[k] = append(m[k], v): nothing is overwritten; the bucket is in iteration order
							appends++
							addSrc(pathOf(info, ix.X), x, why, info.TypeOf(ix.X))
						} else if rhs != nil && loopDep(rhs) && !declaredInside(baseObj(info, ix.X)) && !st.keyDistinctPerIteration(fn, rs, ix.Index, loopVars) {
							report(x, "map store under a derived key", "store of an iteration-dependent value into "+exprStr(ix.X)+" under the key "+exprStr(ix.Index)+", which two iterations may share: the surviving value depends on iteration order")
						}
						continue
					}
				}
				if rhs != nil {
					if call, ok := ast.Unparen(rhs).(*ast.CallExpr); ok && isBuiltinCall(info, call, "append") && len(call.Args) > 0 &&
						pathOf(info, call.Args[0]) == pathOf(info, l) && pathOf(info, l) != "" {
						appends++
						addSrc(pathOf(info, l), x, why, info.TypeOf(l))
						continue
					}
				}
				if x.Tok != token.ASSIGN && x.Tok != token.DEFINE {
					// op-assign: += etc. commutative for numbers; string += is order dependent
					if b, ok := info.TypeOf(l).Underlying().(*types.Basic); ok && b.Info()&types.IsNumeric != 0 {
						continue
					}
					report(x, "string accumulation", "non-commutative accumulation into "+exprStr(l))
					continue
				}
				if diagLike(info.TypeOf(l)) {
					continue
				}
				if rhs != nil && !loopDep(rhs) {
					// same value whichever iteration executes it (e.g. found = true, ctx = WithX(ctx))
					if lid, isID := l.(*ast.Ident); isID && x.Tok == token.ASSIGN && lo != nil && !mentionsObj(info, rhs, lo) {
						latches = append(latches, latch{lo, x, lid})
					}
					continue
				}
				if _, bare := l.(*ast.Ident); !bare && loopVars[lo] {
					// a store into the current element itself (v.F = …, through the loop's own
					// value variable): every iteration writes its own element
					continue
				}
				if _, bare := l.(*ast.Ident); bare && lo != nil && st.iterationLocalUse(fn, rs, lo) {
					// declared outside, but every read lies in the body behind an assignment of the
					// same iteration and nothing reads it after the loop: a per-iteration temporary
					continue
				}
				if be, ok := ast.Unparen(rhs).(*ast.BinaryExpr); ok && rhs != nil && (be.Op == token.LOR || be.Op == token.LAND) &&
					pathOf(info, l) != "" && (pathOf(info, be.X) == pathOf(info, l) || pathOf(info, be.Y) == pathOf(info, l)) {
					// found = found || p(item): a boolean fold, the same whichever order the items come in
					continue
				}
				report(x, "assignment to "+exprStr(l), "assignment of an iteration-dependent value to "+exprStr(l)+", declared outside the loop: the surviving value depends on iteration order")
			}
		case *ast.IncDecStmt:
			return true
		case *ast.ReturnStmt:
			dep := false
			for _, res := range x.Results {
				if diagLike(info.TypeOf(res)) {
					continue
				}
				if loopDep(res) {
					dep = true
				}
			}
			if dep && st.positionExclusive(fn, x, rs, loopVars) {
				if st.final {
					st.r.Add("E2.first-match", fn.Name, construct+" return", p.Pos(x), Excepted,
						"first-match return guarded by a cursor-position predicate on the loop element; element ranges of one parsed body are disjoint, so at most one iteration can match (stated assumption)", true)
				}
				return true
			}
			if dep {
				report(x, "return", "returns an iteration-dependent value from inside the loop: which element wins depends on iteration order")
			}
		case *ast.BranchStmt:
			if x.Tok == token.BREAK && st.breaksLoop(x, rs) {
				// a break is fine if nothing order-sensitive was produced; judged by the
				// assignments above. A break after an append is order-sensitive.
				if appends > 0 {
					report(x, "break", "break out of the loop after appending: the set of elements seen depends on iteration order")
				}
			}
		case *ast.ExprStmt:
			if call, ok := ast.Unparen(x.X).(*ast.CallExpr); ok {
				if isBuiltinCall(info, call, "delete") || isBuiltinCall(info, call, "panic") {
					return true
				}
				if _, ok := isSortCall(info, call); ok {
					return true
				}
				// a call statement with iteration-dependent arguments may have ordered
				// side effects
				if okLocal, _ := iterationLocalCall(p, fn, call, declaredInside); okLocal {
					if st.final {
						st.r.Add("E2.call-in-loop", fn.Name, construct+" call "+calleeFull(info, call), p.Pos(x), OK,
							"the callee writes only through parameters, and the written arguments are variables of the iteration", true)
					}
					return true
				}
				if st.final {
					full := calleeFull(info, call)
					if ex := e2Exceptions[fn.Name+"|"+construct+"|call "+full]; ex != "" {
						st.r.Add("E2.call-in-loop", fn.Name, construct+" call "+full, p.Pos(x), Excepted, ex, true)
					} else {
						st.r.Add("E2.call-in-loop", fn.Name, construct+" call "+full, p.Pos(x), Undecided,
							"call statement inside an order-nondeterministic loop; its side effects may be ordered ("+why+")", true)
					}
				}
			}
		case *ast.RangeStmt:
			if x != rs {
				// nested loop: same body rules apply (its appends are order-tainted too)
			}
		case *ast.GoStmt, *ast.DeferStmt, *ast.SendStmt:
			report(x, "go/defer/send", "concurrency or deferral inside an order-nondeterministic loop")
		}
		return true
	}
	ast.Inspect(rs.Body, inspect)
	// sticky state: a variable from outside the loop that some iterations set (to a value that
	// is the same whoever sets it) and that the body also reads before setting it — whether an
	// element sees it set depends on which elements came before
	doneLatch := map[types.Object]bool{}
	for _, la := range latches {
		if doneLatch[la.o] {
			continue
		}
		doneLatch[la.o] = true
		var asns []ast.Node
		lhs := map[*ast.Ident]bool{}
		for _, lb := range latches {
			if lb.o == la.o {
				asns = append(asns, lb.as)
				lhs[lb.id] = true
			}
		}
		// set on every iteration before any read: nothing is carried
		var stale *ast.Ident
		ast.Inspect(rs.Body, func(z ast.Node) bool {
			if _, isLit := z.(*ast.FuncLit); isLit {
				return false
			}
			id, ok := z.(*ast.Ident)
			if !ok || info.ObjectOf(id) != la.o || lhs[id] || stale != nil {
				return true
			}
			// the read only decides whether to leave the loop / skip the element's own latch
			// assignment (if found { break }): judged as an exit, not here
			if ifs, isIf := p.Parent(id).(*ast.IfStmt); isIf && ast.Unparen(ifs.Cond) == ast.Expr(id) && onlyLeaves(ifs.Body) {
				return true
			}
			if ue, isNot := p.Parent(id).(*ast.UnaryExpr); isNot && ue.Op == token.NOT {
				if ifs, isIf := p.Parent(ue).(*ast.IfStmt); isIf && ast.Unparen(ifs.Cond) == ast.Expr(ue) {
					// if !found { found = true; … }: first-iteration work
					return true
				}
			}
			for _, a := range asns {
				if fn.Dominates(a, id) {
					return true
				}
			}
			stale = id
			return true
		})
		if stale != nil {
			report(stale, "sticky "+la.o.Name(), la.o.Name()+" is declared outside the loop, set by some iterations and read by the body at "+p.Pos(stale)+" before this iteration has set it: what an element sees depends on which elements came before it")
		}
	}
	if st.final {
		cls := "M (map-to-map / commutative fold)"
		if appends > 0 {
			cls = "A/K (appends; sort obligation tracked per slice)"
		}
		st.r.Add("E2.loop", fn.Name, construct, p.Pos(rs), OK, fmt.Sprintf("class %s: %d appends, %d map stores, %d order-sensitive exits reported separately", cls, appends, mapStores, issues), appends > 0)
	}
}

// positionExclusive: the return is dominated by the success edge of a predicate that
// tests the cursor position (a value of type hcl.Pos) against the loop element.
func (st *e2State) positionExclusive(fn *Func, ret ast.Node, rs *ast.RangeStmt, loopVars map[types.Object]bool) bool {
	info := fn.Info()
	pred := func(a *Atom) bool {
		if a == nil || a.E == nil || !a.Pol {
			return false
		}
		if a.E.Pos() < rs.Body.Pos() || a.E.End() > rs.Body.End() {
			return false
		}
		call, ok := ast.Unparen(a.E).(*ast.CallExpr)
		if !ok {
			return false
		}
		hasPos, hasLoopVar := false, false
		for _, arg := range call.Args {
			if typeIs(info.TypeOf(arg), "hcl/v2", "Pos") {
				hasPos = true
			}
		}
		ast.Inspect(call, func(n ast.Node) bool {
			if id, ok := n.(*ast.Ident); ok && loopVars[info.ObjectOf(id)] {
				hasLoopVar = true
			}
			return true
		})
		return hasPos && hasLoopVar
	}
	// success edge of the predicate on every path — nested `if pred {` and the de-nested
	// `if !pred { continue }` alike
	if fn.GuardsAt(ret).Holds(pred) {
		return true
	}
	return fn.HoldsOnAllPaths(ret, pred)
}

func isVar(o types.Object) bool {
	v, ok := o.(*types.Var)
	return ok && !v.IsField()
}

func (st *e2State) breaksLoop(br *ast.BranchStmt, rs *ast.RangeStmt) bool {
	if br.Label != nil {
		return true
	}
	for x := st.p.Parent(br); x != nil; x = st.p.Parent(x) {
		switch x.(type) {
		case *ast.ForStmt, *ast.SwitchStmt, *ast.TypeSwitchStmt, *ast.SelectStmt:
			return false
		case *ast.RangeStmt:
			return x == ast.Node(rs)
		}
	}
	return false
}

// e2Exceptions: reviewed exceptions, one construct each, keyed function|construct|kind.
var e2Exceptions = map[string]string{}

// e2NotAnEntry: exported functions whose map-ordered result is not a query result; the
// engine still carries their "unordered" summary to every in-module caller.
var e2NotAnEntry = map[string]string{
	"schema.(*BodySchema).ToHCLSchema": "builds the schema lists hcl consumes as sets (attributes are looked up by name). One order-sensitive effect is NOT decided here: hcl's JSON body groups the returned blocks by type in the order of this list (source order within a type), so ast.DecodeBody(json).Blocks has map order across block types; the in-module consumers were reviewed (they sort, group by type, or filter one type) — recorded under not_decided",
}

// stableSortExceptions: unstable sorts of map-ordered input whose comparator cannot tie,
// keyed function|slice. One line of reason each (reviewed).
var stableSortExceptions = map[string]string{
	"decoder.(*PathDecoder).SemanticTokensInFile|tokens": "ordered by start byte; tokens of one file are pairwise disjoint and non-empty (the C13 clause this sort serves, decided by the C13 rules), so two tokens never start at the same byte",
	"schema.NestedTargetablesForValue|nestedTargetables": "ordered by address; the elements are built one per key of a single Go map (attribute names of an object type / keys of a map value) or one per list index, so the addresses are pairwise different",
}

// judgeStability — E2.stable-sort: the sort that puts a map-ordered slice into its final order
// must leave nothing to the input permutation. A stable sort does (ties keep the order in
// which one iteration appended them); sort.Strings / sort.Ints do (equal elements are
// indistinguishable); an unstable sort.Sort / sort.Slice does only if its comparator never
// ties, which is a fact about the data and has to be stated per site.
func (st *e2State) judgeStability(fn *Func, src taintSrc) {
	info := fn.Info()
	p := st.p
	seen := map[*ast.CallExpr]bool{}
	ast.Inspect(fn.Body, func(n ast.Node) bool {
		call, ok := n.(*ast.CallExpr)
		if !ok || seen[call] || !st.sortsPath(info, call, src.path) {
			return true
		}
		seen[call] = true
		full := calleeFull(info, call)
		key := pathName(src.path) + " by " + full
		switch full {
		case "sort.Stable", "sort.SliceStable", "slices.SortStableFunc":
			// a stable sort leaves ties in input order, which here is map order: a comparator
			// that orders by an attribute looked up in a side table (less: m[xs[i]] < m[xs[j]])
			// ties for distinct elements that share the attribute
			if len(call.Args) == 2 {
				if lit, ok := comparatorLit(fn, call.Args[1]); ok && lit.Type.Params != nil {
					params := map[types.Object]bool{}
					for _, f := range lit.Type.Params.List {
						for _, nm := range f.Names {
							params[info.ObjectOf(nm)] = true
						}
					}
					derived := ""
					// a comparator that (also) orders the elements themselves separates any two
					// distinct elements: nothing is left to the input order
					elemOrdered := false
					ast.Inspect(lit.Body, func(k ast.Node) bool {
						be, ok := k.(*ast.BinaryExpr)
						if !ok || (be.Op != token.LSS && be.Op != token.GTR && be.Op != token.LEQ && be.Op != token.GEQ) {
							return true
						}
						isElem := func(e ast.Expr) bool {
							e = ast.Unparen(e)
							if c, ok := e.(*ast.CallExpr); ok && len(c.Args) == 1 {
								if tv, ok := info.Types[c.Fun]; ok && tv.IsType() {
									e = ast.Unparen(c.Args[0])
								}
							}
							ix, ok := e.(*ast.IndexExpr)
							if !ok || pathOf(info, ix.X) != src.path {
								return false
							}
							id, ok := ast.Unparen(ix.Index).(*ast.Ident)
							return ok && params[info.ObjectOf(id)]
						}
						if isElem(be.X) && isElem(be.Y) {
							elemOrdered = true
						}
						return true
					})
					ast.Inspect(lit.Body, func(k ast.Node) bool {
						if elemOrdered {
							return false
						}
						ix, ok := k.(*ast.IndexExpr)
						if !ok || derived != "" {
							return derived == ""
						}
						if _, isMap := info.TypeOf(ix.X).Underlying().(*types.Map); !isMap {
							return true
						}
						usesParam := false
						ast.Inspect(ix.Index, func(z ast.Node) bool {
							if id, ok := z.(*ast.Ident); ok && params[info.ObjectOf(id)] {
								usesParam = true
							}
							return !usesParam
						})
						if usesParam {
							derived = exprStr(ix)
						}
						return true
					})
					if derived != "" {
						st.r.Add("E2.stable-sort", fn.Name, key, p.Pos(call), Violated,
							"the slice is in map iteration order ("+src.why+") and the stable sort orders it by an attribute looked up in a side table ("+derived+"): distinct elements that share the attribute tie and stay in map iteration order", true)
						return true
					}
				}
			}
			st.r.Add("E2.stable-sort", fn.Name, key, p.Pos(call), OK, "stable: equal keys keep the order in which they were appended", true)
		case "sort.Strings", "sort.Ints", "sort.Float64s", "slices.Sort":
			st.r.Add("E2.stable-sort", fn.Name, key, p.Pos(call), OK, "elements that compare equal are identical", true)
		case "sort.Sort", "sort.Slice", "slices.SortFunc":
			if full == "sort.Slice" && len(call.Args) == 2 && sliceOfMapKeysOrderedByElement(fn, call, src.path) {
				st.r.Add("E2.stable-sort", fn.Name, key, p.Pos(call), OK, "the elements are the keys of one Go map (pairwise distinct) and the comparator orders the elements themselves: no two compare equal", true)
				return true
			}
			if ex := stableSortExceptions[fn.Name+"|"+pathName(src.path)]; ex != "" {
				st.r.Add("E2.stable-sort", fn.Name, key, p.Pos(call), Excepted, ex, true)
			} else {
				st.r.Add("E2.stable-sort", fn.Name, key, p.Pos(call), Violated,
					"the slice is in map iteration order ("+src.why+") and is put in order by an unstable sort: elements whose keys compare equal come out in an order that depends on the input permutation, i.e. on map iteration order", true)
			}
		default:
			// a module method that sorts its receiver in place: judged where it sorts
		}
		return true
	})
}

// summariseParamSorts records the parameters a function sorts in place: a sort call on the
// parameter itself, or on a local that is defined once as a plain copy of it (same backing
// array) by a statement dominating the sort.
func (st *e2State) summariseParamSorts(fn *Func) {
	if fn.Obj == nil || fn.Body == nil || fn.Lit != nil {
		return
	}
	info := fn.Info()
	sig, ok := fn.Obj.Type().(*types.Signature)
	if !ok {
		return
	}
	paramIdx := func(e ast.Expr) int {
		id, ok := ast.Unparen(e).(*ast.Ident)
		if !ok {
			return -1
		}
		o := info.ObjectOf(id)
		for k := 0; k < sig.Params().Len(); k++ {
			if sig.Params().At(k) == o && len(fn.Assignments(o)) == 0 {
				return k
			}
		}
		return -1
	}
	ast.Inspect(fn.Body, func(n ast.Node) bool {
		if _, isLit := n.(*ast.FuncLit); isLit {
			return false
		}
		call, ok := n.(*ast.CallExpr)
		if !ok {
			return true
		}
		arg, ok := isSortCall(info, call)
		if !ok {
			return true
		}
		k := paramIdx(arg)
		if k < 0 {
			if id, ok := ast.Unparen(arg).(*ast.Ident); ok {
				if o := info.ObjectOf(id); o != nil {
					if def := fn.SingleDef(o); def != nil {
						if as := fn.Assignments(o); len(as) == 1 && fn.Dominates(as[0], call) {
							k = paramIdx(def)
						}
					}
				}
			}
		}
		if k >= 0 {
			if st.sortsParam[fn.Obj] == nil {
				st.sortsParam[fn.Obj] = map[int]bool{}
			}
			st.sortsParam[fn.Obj][k] = true
		}
		return true
	})
}

// sliceOfMapKeysOrderedByElement: every append to the slice `path` in fn adds the key
// variable of a range over a Go map (one map: the keys are pairwise distinct), and the
// comparator of the sort call compares xs[i] with xs[j] themselves (possibly converted).
func sliceOfMapKeysOrderedByElement(fn *Func, call *ast.CallExpr, path string) bool {
	info := fn.Info()
	lit, ok := comparatorLit(fn, call.Args[1])
	if !ok || lit.Type.Params == nil {
		return false
	}
	params := map[types.Object]bool{}
	for _, f := range lit.Type.Params.List {
		for _, nm := range f.Names {
			params[info.ObjectOf(nm)] = true
		}
	}
	elemOrdered := false
	keyField := "" // "" : the elements themselves are the keys
	ast.Inspect(lit.Body, func(k ast.Node) bool {
		be, ok := k.(*ast.BinaryExpr)
		if !ok || (be.Op != token.LSS && be.Op != token.GTR) {
			return true
		}
		isElem := func(e ast.Expr) bool {
			e = ast.Unparen(e)
			if c, ok := e.(*ast.CallExpr); ok && len(c.Args) == 1 {
				if tv, ok := info.Types[c.Fun]; ok && tv.IsType() {
					e = ast.Unparen(c.Args[0])
				}
			}
			// xs[i].F: the element's field F (which must be the one carrying the map key)
			if sel, ok := e.(*ast.SelectorExpr); ok {
				if _, isIx := ast.Unparen(sel.X).(*ast.IndexExpr); isIx {
					if keyField == "" || keyField == sel.Sel.Name {
						keyField = sel.Sel.Name
						e = ast.Unparen(sel.X)
					}
				}
			}
			ix, ok := e.(*ast.IndexExpr)
			if !ok || pathOf(info, ix.X) != path {
				return false
			}
			id, ok := ast.Unparen(ix.Index).(*ast.Ident)
			return ok && params[info.ObjectOf(id)]
		}
		if isElem(be.X) && isElem(be.Y) {
			elemOrdered = true
		}
		return true
	})
	if !elemOrdered {
		return false
	}
	// a comparator with a single comparison only (no secondary key that could be read as a tie-break of a non-total primary)
	nAppends, good := 0, true
	var theMap string
	ast.Inspect(fn.Body, func(k ast.Node) bool {
		as, ok := k.(*ast.AssignStmt)
		if !ok || len(as.Lhs) != 1 || len(as.Rhs) != 1 || pathOf(info, as.Lhs[0]) != path {
			return true
		}
		c, ok := ast.Unparen(as.Rhs[0]).(*ast.CallExpr)
		if !ok {
			return true
		}
		if isBuiltinCall(info, c, "make") {
			return true
		}
		if !isBuiltinCall(info, c, "append") || len(c.Args) != 2 || c.Ellipsis.IsValid() || pathOf(info, c.Args[0]) != path {
			good = false
			return true
		}
		nAppends++
		appended := ast.Unparen(c.Args[1])
		if keyField != "" {
			// T{…, F: key, …}
			cl, ok := appended.(*ast.CompositeLit)
			if !ok {
				good = false
				return true
			}
			appended = nil
			if fv := litField(cl, keyField); fv != nil {
				appended = ast.Unparen(fv)
			}
		}
		kid, ok := appended.(*ast.Ident)
		if !ok {
			good = false
			return true
		}
		ko := info.ObjectOf(kid)
		as2 := fn.Assignments(ko)
		if len(as2) != 1 {
			good = false
			return true
		}
		rs, ok := as2[0].(*ast.RangeStmt)
		if !ok {
			good = false
			return true
		}
		if id, ok := rs.Key.(*ast.Ident); !ok || info.ObjectOf(id) != ko {
			good = false
			return true
		}
		if _, isMap := info.TypeOf(rs.X).Underlying().(*types.Map); !isMap {
			good = false
			return true
		}
		m := pathOf(info, rs.X)
		if m == "" || (theMap != "" && theMap != m) {
			good = false
		}
		theMap = m
		return true
	})
	return good && nAppends == 1
}

// keyDistinctPerIteration: the map key written in the body of the order-nondeterministic loop
// rs cannot be the same in two iterations — it is an injective function of the range key (of a
// map, or the index of a slice): the key itself, converted, bound to a local first, wrapped in
// composite literals next to loop-independent values, or encoded by a canonical encoder.
func (st *e2State) keyDistinctPerIteration(fn *Func, rs *ast.RangeStmt, key ast.Expr, loopVars map[types.Object]bool) bool {
	ok, has := st.injectiveInRangeKey(fn, rs, key, loopVars, 0)
	return ok && has
}

var injectiveEncoders = map[string]bool{
	"github.com/hashicorp/hcl-lang/schema.NewSchemaKey": true,
	"strconv.Itoa": true, "strconv.Quote": true,
}

func (st *e2State) injectiveInRangeKey(fn *Func, rs *ast.RangeStmt, e ast.Expr, loopVars map[types.Object]bool, depth int) (ok, hasKey bool) {
	info := fn.Info()
	e = ast.Unparen(e)
	if depth > 6 {
		return false, false
	}
	if tv, isT := info.Types[e]; isT && tv.Value != nil {
		return true, false
	}
	switch x := e.(type) {
	case *ast.BasicLit:
		return true, false
	case *ast.Ident:
		o := info.ObjectOf(x)
		if kid, isID := rs.Key.(*ast.Ident); isID && rs.Key != nil && info.ObjectOf(kid) == o {
			return true, true
		}
		if loopVars[o] {
			return false, false
		}
		if o != nil && o.Pos() >= rs.Body.Pos() && o.Pos() <= rs.Body.End() {
			if def := fn.SingleDef(o); def != nil {
				return st.injectiveInRangeKey(fn, rs, def, loopVars, depth+1)
			}
			return false, false
		}
		if _, isVar := o.(*types.Var); isVar && len(fn.Assignments(o)) > 1 {
			return false, false
		}
		return true, false // loop-independent
	case *ast.CompositeLit:
		has := false
		for _, el := range x.Elts {
			if kv, isKV := el.(*ast.KeyValueExpr); isKV {
				el = kv.Value
			}
			o, h := st.injectiveInRangeKey(fn, rs, el, loopVars, depth+1)
			if !o {
				return false, false
			}
			has = has || h
		}
		return true, has
	case *ast.CallExpr:
		if tv, isT := info.Types[x.Fun]; isT && tv.IsType() && len(x.Args) == 1 {
			return st.injectiveInRangeKey(fn, rs, x.Args[0], loopVars, depth+1)
		}
		if injectiveEncoders[calleeFull(info, x)] {
			has := false
			for _, a := range x.Args {
				o, h := st.injectiveInRangeKey(fn, rs, a, loopVars, depth+1)
				if !o {
					return false, false
				}
				has = has || h
			}
			return true, has
		}
	}
	return false, false
}

func mentionsObj(info *types.Info, e ast.Expr, o types.Object) bool {
	hit := false
	ast.Inspect(e, func(n ast.Node) bool {
		if id, ok := n.(*ast.Ident); ok && info.ObjectOf(id) == o {
			hit = true
		}
		return true
	})
	return hit
}

// onlyLeaves: the block consists of a break / continue / return (possibly after plain calls)
func onlyLeaves(b *ast.BlockStmt) bool {
	if b == nil || len(b.List) == 0 {
		return false
	}
	switch b.List[len(b.List)-1].(type) {
	case *ast.BranchStmt, *ast.ReturnStmt:
		return true
	}
	return false
}

// iterationLocalUse: every read of the local o in fn lies inside the body of rs and is
// dominated by an assignment to o that also lies inside that body; o is not captured by a
// function literal nor has its address taken.
func (st *e2State) iterationLocalUse(fn *Func, rs *ast.RangeStmt, o types.Object) bool {
	v, ok := o.(*types.Var)
	if !ok || v.IsField() || fn.isParam(o) || v.Parent() == nil || (v.Pkg() != nil && v.Parent() == v.Pkg().Scope()) {
		return false
	}
	info := fn.Info()
	var inBody []ast.Node
	lhs := map[*ast.Ident]bool{}
	for _, a := range fn.Assignments(o) {
		as, isAs := a.(*ast.AssignStmt)
		if !isAs {
			continue
		}
		if as.Tok != token.ASSIGN && as.Tok != token.DEFINE {
			return false
		}
		for _, l := range as.Lhs {
			if id, ok := ast.Unparen(l).(*ast.Ident); ok && info.ObjectOf(id) == o {
				lhs[id] = true
			}
		}
		if a.Pos() >= rs.Body.Pos() && a.End() <= rs.Body.End() {
			inBody = append(inBody, a)
		}
	}
	if len(inBody) == 0 {
		return false
	}
	good := true
	var walk func(n ast.Node, inLit bool)
	walk = func(n ast.Node, inLit bool) {
		ast.Inspect(n, func(z ast.Node) bool {
			if !good {
				return false
			}
			switch x := z.(type) {
			case *ast.FuncLit:
				if x != fn.Lit {
					walk(x.Body, true)
					return false
				}
			case *ast.UnaryExpr:
				if id, ok := ast.Unparen(x.X).(*ast.Ident); ok && x.Op == token.AND && info.ObjectOf(id) == o {
					good = false
				}
			case *ast.Ident:
				if info.ObjectOf(x) != o || lhs[x] || info.Defs[x] != nil {
					return true
				}
				if inLit || x.Pos() < rs.Body.Pos() || x.End() > rs.Body.End() {
					good = false
					return false
				}
				dom := false
				for _, a := range inBody {
					if fn.Dominates(a, x) {
						dom = true
					}
				}
				if !dom {
					good = false
				}
			}
			return true
		})
	}
	var root ast.Node = fn.Body
	if fn.Parent != nil && fn.Lit != nil {
		root = fn.Lit.Body
	}
	walk(root, false)
	return good
}
