package main

// E16 — lost updates on struct values.
//
// A struct *value* (not a pointer) that has already been copied out of a local variable —
// appended to a slice, returned, stored — is a separate object from then on. A later store
// into a field of the local (v.f = …) is observable only if v is copied out again afterwards.
// The rule reports a field store S such that
//   * v was copied out on some path before S, and
//   * every copy-out of v that can follow S is guarded by a condition that contradicts one of
//     the (stable) conditions under which S itself runs,
// i.e. the update is computed and thrown away.

import (
	"fmt"
	"go/ast"
	"go/token"
	"go/types"

	"golang.org/x/tools/go/cfg"
)

func runLostUpdate(p *Prog, r *Report) {
	nVars, nStores := 0, 0
	for _, fn := range p.Funcs {
		if fn.Body == nil || fn.Lit != nil {
			continue
		}
		info := fn.Info()
		// candidate locals: struct-typed (non-pointer) module types declared in the function
		cands := map[types.Object]bool{}
		ast.Inspect(fn.Body, func(m ast.Node) bool {
			if _, isLit := m.(*ast.FuncLit); isLit {
				return false
			}
			id, ok := m.(*ast.Ident)
			if !ok {
				return true
			}
			o, ok := info.Defs[id].(*types.Var)
			if !ok || o.IsField() {
				return true
			}
			if _, isStruct := o.Type().Underlying().(*types.Struct); isStruct && isModuleType(o.Type()) {
				cands[o] = true
			}
			return true
		})
		for v := range cands {
			type ev struct {
				node   ast.Node
				stmt   ast.Node
				escape bool
				store  bool
				field  string
			}
			var evs []ev
			addrTaken := false
			ast.Inspect(fn.Body, func(m ast.Node) bool {
				if _, isLit := m.(*ast.FuncLit); isLit {
					// captured by a closure: give up on this variable
					ast.Inspect(m, func(z ast.Node) bool {
						if id, ok := z.(*ast.Ident); ok && info.ObjectOf(id) == v {
							addrTaken = true
						}
						return true
					})
					return false
				}
				switch x := m.(type) {
				case *ast.UnaryExpr:
					if x.Op == token.AND && baseObj(info, x.X) == v {
						addrTaken = true
					}
				case *ast.AssignStmt:
					for _, l := range x.Lhs {
						if sel, ok := ast.Unparen(l).(*ast.SelectorExpr); ok && baseObj(info, sel) == v {
							if _, isId := ast.Unparen(l).(*ast.Ident); !isId {
								evs = append(evs, ev{node: l, stmt: x, store: true, field: exprStr(l)})
							}
						}
					}
				}
				return true
			})
			if addrTaken {
				continue
			}
			// escapes: the bare identifier v used as a value (not as the base of a selector / LHS)
			ast.Inspect(fn.Body, func(m ast.Node) bool {
				id, ok := m.(*ast.Ident)
				if !ok || info.ObjectOf(id) != v || info.Defs[id] != nil {
					return true
				}
				par := p.Parent(id)
				switch px := par.(type) {
				case *ast.SelectorExpr:
					if px.X == ast.Expr(id) {
						// method call with value receiver copies v too, but reads only: ignore
						return true
					}
				case *ast.AssignStmt:
					for _, l := range px.Lhs {
						if l == ast.Expr(id) {
							return true // whole-variable assignment, not an escape
						}
					}
				}
				var st ast.Node = id
				for x := ast.Node(id); x != nil; x = p.Parent(x) {
					if _, isStmt := x.(ast.Stmt); isStmt {
						st = x
						break
					}
				}
				evs = append(evs, ev{node: id, stmt: st, escape: true})
				return true
			})
			// whole-variable (re)definitions kill earlier copies/updates
			kills := map[ast.Node]bool{}
			for _, a := range fn.Assignments(v) {
				kills[fn.CFGNodeOf(a)] = true
			}
			hasStore, hasEscape := false, false
			for _, e := range evs {
				hasStore = hasStore || e.store
				hasEscape = hasEscape || e.escape
			}
			if !hasStore || !hasEscape {
				continue
			}
			nVars++
			ord := map[string]int{}
			for _, s := range evs {
				if !s.store {
					continue
				}
				nStores++
				ord[s.field]++
				construct := "store " + s.field
				if n := ord[s.field]; n > 1 {
					construct += "#" + fmt.Sprint(n)
				}
				// (1) an escape can precede the store
				before := false
				for _, e := range evs {
					if e.escape && e.stmt != s.stmt && reachesStmt(fn, e.stmt, s.stmt, kills) {
						before = true
					}
				}
				if !before {
					r.Add("E16.lost-update", fn.Name, construct+" of "+v.Name(), p.Pos(s.node), OK, "the value has not been copied out before this store", false)
					continue
				}
				// (2) every escape reachable after the store contradicts the store's guards
				sg := stableAtoms(fn, s.stmt)
				observable := false
				anyAfter := false
				for _, e := range evs {
					if !e.escape {
						continue
					}
					if e.stmt != s.stmt && !reachesStmt(fn, s.stmt, e.stmt, kills) {
						continue
					}
					if e.stmt == s.stmt {
						continue
					}
					anyAfter = true
					if !contradicts(sg, stableAtoms(fn, e.stmt)) {
						observable = true
					}
				}
				// whole-variable re-assignment after the store does not observe it either
				if observable {
					r.Add("E16.lost-update", fn.Name, construct+" of "+v.Name(), p.Pos(s.node), OK, "the updated value is copied out again afterwards", true)
				} else {
					why := "no copy of " + v.Name() + " is made after this store"
					if anyAfter {
						why = "every later copy of " + v.Name() + " runs under a condition that excludes the one this store runs under"
					}
					r.Add("E16.lost-update", fn.Name, construct+" of "+v.Name(), p.Pos(s.node), Violated,
						v.Name()+" was already copied out by value (appended / returned) before this store, and "+why+": the update is lost", true)
				}
			}
		}
	}
	r.Counts["E16.struct-locals-copied-and-updated"] = nVars
	r.Counts["E16.field-stores-examined"] = nStores
	r.ExpectMin("E16.struct-locals-copied-and-updated", nVars, 5)
	r.Clauses = append(r.Clauses, "E16 no field of a struct value is updated after the value was copied out unless the updated value is copied out again on a path compatible with the update's own conditions")
}

// reachesStmt: is there a CFG path from statement a to statement b (a before b in the same
// block, or through successor blocks)?
func reachesStmt(fn *Func, a, b ast.Node, kills map[ast.Node]bool) bool {
	ba, bb := fn.BlockOf(a), fn.BlockOf(b)
	if ba == nil || bb == nil {
		return false
	}
	ca, cb := fn.CFGNodeOf(a), fn.CFGNodeOf(b)
	// scan: returns (found, blocked)
	scan := func(nodes []ast.Node) (bool, bool) {
		for _, n := range nodes {
			if n == cb {
				return true, true
			}
			if kills[n] {
				return false, true
			}
		}
		return false, false
	}
	ia := -1
	for i, n := range ba.Nodes {
		if n == ca {
			ia = i
		}
	}
	if ia < 0 {
		return false
	}
	if found, stop := scan(ba.Nodes[ia+1:]); stop {
		return found
	}
	seen := map[int32]bool{}
	work := append([]*cfg.Block{}, ba.Succs...)
	for len(work) > 0 {
		blk := work[len(work)-1]
		work = work[:len(work)-1]
		if seen[blk.Index] {
			continue
		}
		seen[blk.Index] = true
		found, stop := scan(blk.Nodes)
		if found {
			return true
		}
		if stop {
			continue
		}
		work = append(work, blk.Succs...)
	}
	return false
}

type stableAtom struct {
	text string
	pol  bool
}

// stableAtoms: the conjunctive guard atoms at n whose operands are never re-assigned in fn
// (selectors on parameters / single-definition locals, comparisons of those).
func stableAtoms(fn *Func, n ast.Node) []stableAtom {
	info := fn.Info()
	var out []stableAtom
	for _, a := range fn.GuardsAt(n).Atoms() {
		if a.E == nil {
			continue
		}
		stable := true
		ast.Inspect(a.E, func(z ast.Node) bool {
			switch x := z.(type) {
			case *ast.CallExpr:
				stable = false
			case *ast.Ident:
				if v, ok := info.ObjectOf(x).(*types.Var); ok && !v.IsField() && v.Pkg() != nil && v.Parent() != v.Pkg().Scope() {
					if len(fn.Assignments(v)) > 1 {
						stable = false
					}
				}
			}
			return stable
		})
		if stable {
			out = append(out, stableAtom{exprStr(a.E), a.Pol})
		}
	}
	return out
}

func contradicts(a, b []stableAtom) bool {
	for _, x := range a {
		for _, y := range b {
			if x.text == y.text && x.pol != y.pol {
				return true
			}
		}
	}
	return false
}

// runDeadStore — E16.dead-store: an assignment to a local variable whose value can never be
// read (every path from it reaches a re-assignment or the function's end first) computes a
// value and throws it away; when it was meant to update something used earlier (a statement
// moved above the assignment it depends on) the result is silently stale.
func runDeadStore(p *Prog, r *Report) {
	n := 0
	for _, fn := range p.Funcs {
		if fn.Body == nil || fn.Lit != nil {
			continue
		}
		info := fn.Info()
		// locals captured by closures are skipped (their uses are not in this CFG)
		captured := map[types.Object]bool{}
		ast.Inspect(fn.Body, func(m ast.Node) bool {
			if lit, ok := m.(*ast.FuncLit); ok {
				ast.Inspect(lit, func(z ast.Node) bool {
					if id, ok := z.(*ast.Ident); ok {
						if o := info.ObjectOf(id); o != nil {
							captured[o] = true
						}
					}
					return true
				})
				return false
			}
			return true
		})
		named := map[types.Object]bool{}
		if fn.Type.Results != nil {
			for _, f := range fn.Type.Results.List {
				for _, nm := range f.Names {
					named[info.ObjectOf(nm)] = true
				}
			}
		}
		ast.Inspect(fn.Body, func(m ast.Node) bool {
			if _, isLit := m.(*ast.FuncLit); isLit {
				return false
			}
			as, ok := m.(*ast.AssignStmt)
			if !ok || as.Tok != token.ASSIGN {
				return true
			}
			for i, l := range as.Lhs {
				id, ok := ast.Unparen(l).(*ast.Ident)
				if !ok || id.Name == "_" {
					continue
				}
				o, ok := info.ObjectOf(id).(*types.Var)
				if !ok || o.IsField() || captured[o] || named[o] || o.Pkg() == nil || o.Parent() == o.Pkg().Scope() {
					continue
				}
				if fn.isParam(o) {
					continue
				}
				// address taken anywhere: aliased
				aliased := false
				for _, a := range fn.Assignments(o) {
					if _, isAddr := a.(*ast.UnaryExpr); isAddr {
						aliased = true
					}
				}
				if aliased {
					continue
				}
				n++
				if readReachable(fn, as, o) {
					continue
				}
				rhs := "…"
				if len(as.Lhs) == len(as.Rhs) {
					rhs = cmpText(as.Rhs[i])
				}
				// x, err = f() where only err is used is common and harmless for x: skip multi-value
				if len(as.Lhs) != len(as.Rhs) {
					continue
				}
				if why, ok := deadStoreExceptions[fn.Name+"|"+id.Name]; ok {
					r.Add("E16.dead-store", fn.Name, id.Name+" = "+rhs, p.Pos(as), Excepted, why, true)
					continue
				}
				r.Add("E16.dead-store", fn.Name, id.Name+" = "+rhs, p.Pos(as), Violated,
					"the value assigned to "+id.Name+" here is never read (every path re-assigns it or leaves the function first): whatever was meant to use it ran before this assignment or not at all", true)
			}
			return true
		})
	}
	r.Counts["E16.assignments-examined"] = n
	r.ExpectMin("E16.assignments-examined", n, 100)
	r.Clauses = append(r.Clauses, "E16 no plain assignment to a local variable is dead (its value is read on some path before the variable is re-assigned)")
}

// readReachable: some read of o is reachable from statement st without first crossing a
// whole re-assignment of o.
func readReachable(fn *Func, st ast.Node, o types.Object) bool {
	info := fn.Info()
	b0 := fn.BlockOf(st)
	if b0 == nil {
		return true
	}
	c0 := fn.CFGNodeOf(st)
	// classify a CFG node: reads o? kills o?
	classify := func(n ast.Node) (reads, kills bool) {
		lhs := map[*ast.Ident]bool{}
		ast.Inspect(n, func(z ast.Node) bool {
			if as, ok := z.(*ast.AssignStmt); ok {
				for _, l := range as.Lhs {
					if id, ok := ast.Unparen(l).(*ast.Ident); ok && info.ObjectOf(id) == o {
						if as.Tok == token.ASSIGN || as.Tok == token.DEFINE {
							lhs[id] = true
							kills = true
						}
					}
				}
			}
			return true
		})
		ast.Inspect(n, func(z ast.Node) bool {
			if _, isLit := z.(*ast.FuncLit); isLit {
				return false
			}
			if id, ok := z.(*ast.Ident); ok && info.ObjectOf(id) == o && !lhs[id] {
				reads = true
			}
			return true
		})
		return
	}
	scan := func(nodes []ast.Node) (found, stop bool) {
		for _, n := range nodes {
			rd, kl := classify(n)
			if rd {
				return true, true
			}
			if kl {
				return false, true
			}
		}
		return false, false
	}
	idx := -1
	for i, n := range b0.Nodes {
		if n == c0 {
			idx = i
		}
	}
	if idx < 0 {
		return true
	}
	if found, stop := scan(b0.Nodes[idx+1:]); stop {
		return found
	}
	seen := map[int32]bool{}
	work := append([]*cfg.Block{}, b0.Succs...)
	for len(work) > 0 {
		blk := work[len(work)-1]
		work = work[:len(work)-1]
		if seen[blk.Index] {
			continue
		}
		seen[blk.Index] = true
		// range statements read their operand in the loop head block (Stmt, not Nodes)
		found, stop := scan(blk.Nodes)
		if found {
			return true
		}
		if stop {
			continue
		}
		work = append(work, blk.Succs...)
	}
	return false
}

var deadStoreExceptions = map[string]string{
	"decoder.(*PathDecoder).symbolsForBody|bSchema": "`bSchema = bs.Body` is immediately followed by `bSchema = mergedSchema` (the merged schema always supersedes the static body): a harmless leftover, reviewed",
}
