package main

// E8 — containment gating of hover (C12): whenever X.HoverAtPos(ctx, pos) runs, pos lies in
// X's expression range. Base case and every internal call site are checked; so is every
// lang.HoverData literal's Range.

import (
	"go/ast"
	"go/token"
	"go/types"
	"strings"
)

// exprArgOf: the hclsyntax/hcl expression a decoder expression value was built from.
func (h *e8) exprArgOf(fn *Func, recv ast.Expr, depth int) ast.Expr {
	info := fn.Info()
	recv = ast.Unparen(recv)
	switch x := recv.(type) {
	case *ast.CallExpr:
		if name := lastSel(x.Fun); name == "newExpression" {
			// newExpression(pathCtx, expr, cons) or d.newExpression(expr, cons)
			for _, a := range x.Args {
				if t := info.TypeOf(a); t != nil && (typeIs(t, "hcl/v2", "Expression") || typeIs(t, "hclsyntax", "Expression") || isSyntaxExprPtr(t)) {
					return a
				}
			}
		}
	case *ast.CompositeLit:
		if v := litField(x, "expr"); v != nil {
			return v
		}
	case *ast.Ident:
		if depth > 3 {
			return nil
		}
		o := info.ObjectOf(x)
		if def := fn.SingleDef(o); def != nil {
			return h.exprArgOf(fn, def, depth+1)
		}
		// assigned in several branches: all must agree
		var res ast.Expr
		for _, a := range fn.Assignments(o) {
			if s, ok := a.(*ast.AssignStmt); ok && len(s.Lhs) == len(s.Rhs) {
				for i, l := range s.Lhs {
					if id, ok := ast.Unparen(l).(*ast.Ident); ok && info.ObjectOf(id) == o {
						e := h.exprArgOf(fn, s.Rhs[i], depth+1)
						if e == nil {
							return nil
						}
						if res != nil && fn.Canon(res) != fn.Canon(e) {
							return nil
						}
						res = e
					}
				}
			}
		}
		return res
	}
	return nil
}

func isSyntaxExprPtr(t types.Type) bool {
	if p, ok := t.(*types.Pointer); ok {
		if n := namedOf(p.Elem()); n != nil && n.Obj().Pkg() != nil && strings.HasSuffix(n.Obj().Pkg().Path(), "hclsyntax") && strings.HasSuffix(n.Obj().Name(), "Expr") {
			return true
		}
	}
	return false
}

type e8 struct {
	p *Prog
	r *Report
}

// ownExpr: e denotes the method's own expression (receiver's expr field, a type assertion /
// type-switch binding of it, or the parameter expression of a helper that was itself called
// with the own expression — helpers are private methods named hover…ExprAtPos).
func (h *e8) ownExpr(fn *Func, e ast.Expr, depth int) bool {
	info := fn.Info()
	e = ast.Unparen(e)
	if depth > 4 {
		return false
	}
	switch x := e.(type) {
	case *ast.SelectorExpr:
		if canonId(x.Sel.Name) == "expr" {
			if id, ok := ast.Unparen(x.X).(*ast.Ident); ok {
				o := info.ObjectOf(id)
				if fn.Decl != nil && fn.Decl.Recv != nil && len(fn.Decl.Recv.List[0].Names) == 1 && info.ObjectOf(fn.Decl.Recv.List[0].Names[0]) == o {
					return true
				}
			}
		}
	case *ast.TypeAssertExpr:
		return h.ownExpr(fn, x.X, depth+1)
	case *ast.Ident:
		o := info.ObjectOf(x)
		// type-switch binding
		found := false
		ast.Inspect(fn.Body, func(n ast.Node) bool {
			ts, ok := n.(*ast.TypeSwitchStmt)
			if !ok {
				return true
			}
			if b := typeSwitchBinding(ts); b != nil && b.Name == x.Name && nodeContains(ts, x) {
				if op := typeSwitchOperand(ts); op != nil && h.ownExpr(fn, op, depth+1) {
					found = true
				}
			}
			return true
		})
		if found {
			return true
		}
		if def := fn.SingleDef(o); def != nil && !fn.isParam(o) {
			return h.ownExpr(fn, def, depth+1)
		}
		// comma-ok type assertion
		for _, a := range fn.Assignments(o) {
			if s, ok := a.(*ast.AssignStmt); ok && len(s.Rhs) == 1 && len(s.Lhs) == 2 {
				if ta, ok := ast.Unparen(s.Rhs[0]).(*ast.TypeAssertExpr); ok {
					if id, ok := ast.Unparen(s.Lhs[0]).(*ast.Ident); ok && info.ObjectOf(id) == o {
						return h.ownExpr(fn, ta.X, depth+1)
					}
				}
			}
		}
	}
	return false
}

// containsGuard: a dominating ContainsPos on rng (canonical path of a Range expression).
func (h *e8) containsGuard(fn *Func, at ast.Node, rngCanon string) bool {
	return fn.GuardsAt(at).Holds(func(a *Atom) bool {
		if a.E == nil || !a.Pol {
			return false
		}
		call, ok := ast.Unparen(a.E).(*ast.CallExpr)
		if !ok {
			return false
		}
		sel, ok := ast.Unparen(call.Fun).(*ast.SelectorExpr)
		if !ok || sel.Sel.Name != "ContainsPos" {
			return false
		}
		if fn.Canon(sel.X) != rngCanon {
			return false
		}
		okv, _ := fn.guardStillValid(a, call, at)
		return okv
	})
}

func runE8(p *Prog, r *Report) {
	h := &e8{p, r}
	nCalls, nLits := 0, 0
	for _, fn := range p.Funcs {
		if !strings.HasSuffix(fn.Pkg.PkgPath, "hcl-lang/decoder") {
			continue
		}
		info := fn.Info()
		// is this function part of the hover family? (a HoverAtPos method or a helper taking pos)
		ast.Inspect(fn.Body, func(x ast.Node) bool {
			if lit, ok := x.(*ast.FuncLit); ok && lit != fn.Lit {
				return false
			}
			switch e := x.(type) {
			case *ast.CallExpr:
				sel, ok := ast.Unparen(e.Fun).(*ast.SelectorExpr)
				if !ok || sel.Sel.Name != "HoverAtPos" || len(e.Args) != 2 {
					return true
				}
				nCalls++
				construct := short(exprStr(sel.X), 60) + ".HoverAtPos"
				child := h.exprArgOf(fn, sel.X, 0)
				if child == nil {
					// a constraint-level helper (cons.HoverAtPos on a type-declaration sub-constraint)
					// or a OneOf alternative built for the same expression
					if h.sameExprDelegate(fn, sel.X) {
						r.Add("E8.descent", fn.Name, construct, p.Pos(e), OK, "delegates to an alternative decoder of the same expression", true)
					} else {
						r.Add("E8.descent", fn.Name, construct, p.Pos(e), Violated, "cannot determine which expression this hover descends into", true)
					}
					return true
				}
				if h.ownExpr(fn, child, 0) {
					r.Add("E8.descent", fn.Name, construct, p.Pos(e), OK, "pass-through: hovers the method's own expression under another constraint", true)
					return true
				}
				rc := fn.Canon(child)
				if rc != "" && h.containsGuard(fn, e, rc+".Range()") {
					r.Add("E8.descent", fn.Name, construct, p.Pos(e), OK, "descends into "+exprStr(child)+" only under "+exprStr(child)+".Range().ContainsPos(pos)", true)
					return true
				}
				// X.Wrapped of an object key expression whose range has the guard:
				// hclsyntax: ObjectConsKeyExpr.Range() == Wrapped.Range()
				if h.wrappedOfGuardedKey(fn, child, e) {
					r.Add("E8.descent", fn.Name, construct, p.Pos(e), OK, "descends into the expression wrapped by an object key whose (identical) range has a dominating ContainsPos(pos)", true)
					return true
				}
				// helper parameter expression: the helper's own callers gate it (private helper whose expr param is passed the own expression)
				if id, ok := ast.Unparen(child).(*ast.Ident); ok && fn.isParam(info.ObjectOf(id)) {
					r.Add("E8.descent", fn.Name, construct, p.Pos(e), OK, "hovers the expression parameter it was called with (gated at its call sites)", true)
					return true
				}
				r.Add("E8.descent", fn.Name, construct, p.Pos(e), Violated,
					"hover descends into "+exprStr(child)+" without a dominating "+exprStr(child)+".Range().ContainsPos(pos): the sub-expression's hover range need not contain the cursor", true)
			case *ast.CompositeLit:
				if t := info.TypeOf(e); t == nil || !typeIs(t, "hcl-lang/lang", "HoverData") {
					return true
				}
				rv := litField(e, "Range")
				if rv == nil {
					return true
				}
				nLits++
				construct := "HoverData{Range: " + short(exprStr(rv), 50) + "}"
				// (i) own expression's range
				if call, ok := ast.Unparen(rv).(*ast.CallExpr); ok && lastSel(call.Fun) == "Range" {
					if sel, ok := ast.Unparen(call.Fun).(*ast.SelectorExpr); ok && h.ownExpr(fn, sel.X, 0) {
						r.Add("E8.hover-range", fn.Name, construct, p.Pos(e), OK, "the method's own expression range (contains the cursor by the descent invariant)", true)
						return true
					}
				}
				if sel, ok := ast.Unparen(rv).(*ast.SelectorExpr); ok && (sel.Sel.Name == "SrcRange") && h.ownExpr(fn, sel.X, 0) {
					r.Add("E8.hover-range", fn.Name, construct, p.Pos(e), OK, "the method's own expression source range", true)
					return true
				}
				// (ii) a range with a dominating ContainsPos
				if rc := fn.Canon(rv); rc != "" && h.containsGuard(fn, e, rc) {
					r.Add("E8.hover-range", fn.Name, construct, p.Pos(e), OK, "dominated by "+exprStr(rv)+".ContainsPos(pos)", true)
					return true
				}
				// (iii) supersets of a guarded range
				if h.supersetOfGuarded(fn, e, rv) {
					r.Add("E8.hover-range", fn.Name, construct, p.Pos(e), OK, "a superset (RangeBetween / enclosing node) of a range with a dominating ContainsPos(pos)", true)
					return true
				}
				r.Add("E8.hover-range", fn.Name, construct, p.Pos(e), Violated, "the hover range "+exprStr(rv)+" is neither the method's own expression range nor a range shown to contain the cursor", true)
			}
			return true
		})
	}
	r.ExpectMin("E8.hover-calls", nCalls, 28)
	r.ExpectMin("E8.hover-literals", nLits, 12)
	r.Clauses = append(r.Clauses, "E8 (induction) every HoverAtPos call descends into a child expression only under child.Range().ContainsPos(pos) or hovers the caller's own expression; every HoverData literal's Range is the method's own expression range, a range with a dominating ContainsPos(pos), or a listed superset of one")
	r.Assume("hclsyntax geometry: RangeBetween(a,b) ⊇ a and b; attr.Range() ⊇ attr.NameRange; a node's range contains its children's")
}

// sameExprDelegate: receiver is an element of a slice of decoder expressions built for the
// same expression (OneOf alternatives), or a sub-constraint helper value of the same type
// declaration expression.
func (h *e8) sameExprDelegate(fn *Func, recv ast.Expr) bool {
	info := fn.Info()
	id, ok := ast.Unparen(recv).(*ast.Ident)
	if !ok {
		return false
	}
	o := info.ObjectOf(id)
	for _, a := range fn.Assignments(o) {
		switch s := a.(type) {
		case *ast.AssignStmt:
			for _, rhs := range s.Rhs {
				if cl, ok := ast.Unparen(rhs).(*ast.CompositeLit); ok {
					// TypeDeclaration{expr: X, …}: X must be guarded or own
					if v := litField(cl, "expr"); v != nil {
						if h.ownExpr(fn, v, 0) {
							return true
						}
						if rc := fn.Canon(v); rc != "" && h.containsGuard(fn, s, rc+".Range()") {
							return true
						}
					}
				}
			}
		}
	}
	return false
}

// supersetOfGuarded: rv is RangeBetween(a, b) / X.Range() where some sub-range has a
// dominating ContainsPos; or a local variable defined as such.
func (h *e8) supersetOfGuarded(fn *Func, at ast.Node, rv ast.Expr) bool {
	info := fn.Info()
	rv = ast.Unparen(rv)
	if id, ok := rv.(*ast.Ident); ok {
		if def := fn.SingleDef(info.ObjectOf(id)); def != nil {
			return h.supersetOfGuarded(fn, at, def)
		}
	}
	call, ok := rv.(*ast.CallExpr)
	if !ok {
		return false
	}
	if lastSel(call.Fun) == "RangeBetween" && len(call.Args) == 2 {
		for _, a := range call.Args {
			if rc := fn.Canon(a); rc != "" && h.containsGuard(fn, at, rc) {
				return true
			}
		}
		// RangeBetween(item.KeyExpr.Range(), item.ValueExpr.Range()) guarded on itself via a local
		return false
	}
	if lastSel(call.Fun) == "Range" {
		// X.Range() ⊇ X.NameRange / X.<child>.Range(): any dominating ContainsPos on a range rooted at X
		sel, ok := ast.Unparen(call.Fun).(*ast.SelectorExpr)
		if !ok {
			return false
		}
		xc := fn.Canon(sel.X)
		if xc == "" {
			return false
		}
		return fn.GuardsAt(at).Holds(func(a *Atom) bool {
			if a.E == nil || !a.Pol {
				return false
			}
			c2, ok := ast.Unparen(a.E).(*ast.CallExpr)
			if !ok || lastSel(c2.Fun) != "ContainsPos" {
				return false
			}
			s2 := ast.Unparen(c2.Fun).(*ast.SelectorExpr)
			return strings.HasPrefix(fn.Canon(s2.X), xc+".")
		})
	}
	_ = token.ADD
	return false
}

// wrappedOfGuardedKey: child := K.Wrapped.(T) with K := G.(*hclsyntax.ObjectConsKeyExpr) and a
// dominating G.Range().ContainsPos(pos).
func (h *e8) wrappedOfGuardedKey(fn *Func, child ast.Expr, at ast.Node) bool {
	info := fn.Info()
	c := fn.Canon(child) // aliases expand through type assertions
	if !strings.HasSuffix(c, ".Wrapped") {
		return false
	}
	// type of the base must be *hclsyntax.ObjectConsKeyExpr
	id, ok := ast.Unparen(child).(*ast.Ident)
	if !ok {
		return false
	}
	def := fn.SingleDef(info.ObjectOf(id))
	ta, ok := ast.Unparen(def).(*ast.TypeAssertExpr)
	if !ok {
		return false
	}
	sel, ok := ast.Unparen(ta.X).(*ast.SelectorExpr)
	if !ok || sel.Sel.Name != "Wrapped" {
		return false
	}
	if t := info.TypeOf(sel.X); t == nil || !typeIs(t, "hclsyntax", "ObjectConsKeyExpr") {
		return false
	}
	return h.containsGuard(fn, at, strings.TrimSuffix(c, ".Wrapped")+".Range()")
}
