package main

// Kind pairing (C15, and the premise of the validators' type assertions in C01/P4):
// every value that flows into the nodeSchema argument of walker.Walk / Walker.Visit /
// Validator.Visit for an *hclsyntax.Attribute / *Block / *Body node is the nil interface
// or a non-nil *schema.AttributeSchema / *BlockSchema / *BodySchema respectively.

import (
	"go/ast"
	"go/types"
	"strings"
)

var kindPairs = map[string]string{"Body": "BodySchema", "Attribute": "AttributeSchema", "Block": "BlockSchema"}

type pairingResult struct {
	violations int
	sites      int
}

var pairingCache = map[*Prog]*pairingResult{}

// nodeKindOf: the hclsyntax node kind of expression e at node `at` — from its static
// type, or from an enclosing type-switch case / comma-ok assertion on the same variable.
func nodeKindOf(fn *Func, e ast.Expr, at ast.Node) string {
	info := fn.Info()
	t := info.TypeOf(e)
	for k := range kindPairs {
		if t != nil && typeIs(t, "hclsyntax", k) {
			if _, isPtr := t.(*types.Pointer); isPtr {
				return k
			}
		}
	}
	path := fn.Canon(e)
	if path == "" {
		return ""
	}
	kind := ""
	fn.GuardsAt(at).Holds(func(a *Atom) bool {
		if a.TypeX != nil && a.Pol && fn.Canon(a.TypeX) == path && len(a.Types) == 1 {
			if tt := info.TypeOf(a.Types[0]); tt != nil {
				for k := range kindPairs {
					if typeIs(tt, "hclsyntax", k) {
						kind = k
					}
				}
			}
		}
		// ok from `x, ok := node.(*hclsyntax.K)`
		if a.E != nil {
			if id, ok := ast.Unparen(a.E).(*ast.Ident); ok && a.Pol {
				o := info.ObjectOf(id)
				for _, asn := range fn.Assignments(o) {
					if s, ok := asn.(*ast.AssignStmt); ok && len(s.Rhs) == 1 && len(s.Lhs) == 2 {
						if ta, ok := ast.Unparen(s.Rhs[0]).(*ast.TypeAssertExpr); ok && ta.Type != nil && fn.Canon(ta.X) == path {
							if tt := info.TypeOf(ta.Type); tt != nil {
								for k := range kindPairs {
									if typeIs(tt, "hclsyntax", k) {
										kind = k
									}
								}
							}
						}
					}
				}
			}
		}
		return false
	})
	return kind
}

func isSchemaIface(t types.Type) bool {
	return t != nil && typeIs(t, "hcl-lang/schema", "Schema")
}

func runKindPairing(p *Prog, r *Report) {
	res := &pairingResult{}
	pairingCache[p] = res
	c5 := &p5{p: p, r: newReport("scratch"), callers: buildCallers(p), enumOK: map[*Func]bool{}, implCache: map[*Func][]implication{},
		nilWithFalse: map[*types.Func]map[int]bool{}, nilWithErr: map[*types.Func]map[int]bool{}, mayNil: map[*types.Func]map[int]string{},
		tolerant: map[*types.Func]bool{}, tolDone: map[*types.Func]bool{}}
	c5.computeSummaries()
	for _, fn := range p.Funcs {
		info := fn.Info()
		ast.Inspect(fn.Body, func(n ast.Node) bool {
			if lit, ok := n.(*ast.FuncLit); ok && lit != fn.Lit {
				return false
			}
			call, ok := n.(*ast.CallExpr)
			if !ok {
				return true
			}
			f := calleeOf(info, call)
			if f == nil || f.Pkg() == nil || !strings.HasPrefix(f.Pkg().Path(), modPath) {
				return true
			}
			sig := f.Type().(*types.Signature)
			// find (node hclsyntax.Node, schema schema.Schema) adjacent parameters
			ni, si := -1, -1
			for i := 0; i < sig.Params().Len(); i++ {
				pt := sig.Params().At(i).Type()
				if typeIs(pt, "hclsyntax", "Node") {
					ni = i
				}
				if isSchemaIface(pt) {
					si = i
				}
			}
			if ni < 0 || si < 0 || len(call.Args) <= si {
				return true
			}
			res.sites++
			nodeArg, schArg := call.Args[ni], call.Args[si]
			construct := exprStr(call.Fun) + "(" + exprStr(nodeArg) + ", " + exprStr(schArg) + ")"
			kind := nodeKindOf(fn, nodeArg, call)
			fail := func(msg string) {
				res.violations++
				r.Add("E1.kind-pairing", fn.Name, construct, p.Pos(call), Violated, msg, true)
			}
			// pass-through of the function's own (node, schema) parameters: by induction
			no, so := baseObj(info, nodeArg), baseObj(info, schArg)
			if _, isId := ast.Unparen(schArg).(*ast.Ident); isId && so != nil && fn.isParam(so) && len(fn.Assignments(so)) == 0 &&
				no != nil && fn.isParam(no) && len(fn.Assignments(no)) == 0 {
				if _, isId2 := ast.Unparen(nodeArg).(*ast.Ident); isId2 {
					r.Add("E1.kind-pairing", fn.Name, construct, p.Pos(call), OK, "passes its own (node, schema) parameter pair through unchanged (pairing holds by induction over the callers)", true)
					return true
				}
			}
			if kind == "" {
				fail("cannot determine the hclsyntax node kind of " + exprStr(nodeArg))
				return true
			}
			want := kindPairs[kind]
			var judgeIn func(jf *Func, v ast.Expr, at ast.Node, depth int) string
			judgeIn = func(jf *Func, v ast.Expr, at ast.Node, depth int) string {
				jinfo := jf.Info()
				if isNilIdent(jinfo, v) {
					return ""
				}
				vt := jinfo.TypeOf(v)
				if vt == nil {
					return "untyped value"
				}
				if isSchemaIface(vt) && depth < 3 {
					switch x := ast.Unparen(v).(type) {
					case *ast.CallExpr:
						// a helper that selects the schema: judge everything it returns
						if cf := calleeOf(jinfo, x); cf != nil {
							if callee := p.FuncOf[cf]; callee != nil && callee.Body != nil {
								msg := ""
								ast.Inspect(callee.Body, func(m ast.Node) bool {
									if _, isLit := m.(*ast.FuncLit); isLit {
										return false
									}
									if rs, ok := m.(*ast.ReturnStmt); ok && len(rs.Results) >= 1 && msg == "" {
										msg = judgeIn(callee, rs.Results[0], rs, depth+1)
									}
									return msg == ""
								})
								return msg
							}
						}
					case *ast.Ident:
						o := jinfo.ObjectOf(x)
						if o != nil && !jf.isParam(o) {
							for _, asn := range jf.Assignments(o) {
								switch st := asn.(type) {
								case *ast.AssignStmt:
									if len(st.Lhs) != len(st.Rhs) {
										return "schema variable assigned from a multi-value expression"
									}
									for i, l := range st.Lhs {
										if lid, ok := ast.Unparen(l).(*ast.Ident); ok && jinfo.ObjectOf(lid) == o {
											if msg := judgeIn(jf, st.Rhs[i], st, depth+1); msg != "" {
												return msg + " at " + p.Pos(st)
											}
										}
									}
								case *ast.ValueSpec:
									for i, nid := range st.Names {
										if jinfo.ObjectOf(nid) == o && i < len(st.Values) {
											if msg := judgeIn(jf, st.Values[i], st, depth+1); msg != "" {
												return msg + " at " + p.Pos(st)
											}
										}
									}
								default:
									return "schema variable assigned in an unsupported way"
								}
							}
							return ""
						}
					}
				}
				if _, isPtr := vt.(*types.Pointer); !isPtr || !typeIs(vt, "hcl-lang/schema", want) {
					return "value of type " + vt.String() + " paired with an *hclsyntax." + kind + " node (want *schema." + want + " or nil)"
				}
				if !c5.nonNilAt(jf, v, at) {
					return "possibly nil *schema." + want + " converted to the schema interface (typed nil: validators test nodeSchema == nil and then dereference)"
				}
				return ""
			}
			judgeVal := func(v ast.Expr, at ast.Node) string { return judgeIn(fn, v, at, 0) }
			st := info.TypeOf(schArg)
			if isSchemaIface(st) {
				// interface-typed variable: judge every assignment
				id, isId := ast.Unparen(schArg).(*ast.Ident)
				if !isId {
					fail("schema argument is an interface-typed expression the engine cannot trace")
					return true
				}
				o := info.ObjectOf(id)
				if fn.isParam(o) {
					// schema parameter paired with a node derived from the node parameter
					// (e.g. Walk(ctx, nodeType.Body, blockBodySchema, w) is handled below;
					// here: w.Visit(ctx, node, nodeSchema) with node the switched value)
					r.Add("E1.kind-pairing", fn.Name, construct, p.Pos(call), OK, "schema parameter passed with the node it arrived with", true)
					return true
				}
				for _, asn := range fn.Assignments(o) {
					switch s := asn.(type) {
					case *ast.AssignStmt:
						if len(s.Lhs) != len(s.Rhs) {
							fail("schema variable assigned from a multi-value expression")
							return true
						}
						for i, l := range s.Lhs {
							if lid, ok := ast.Unparen(l).(*ast.Ident); ok && info.ObjectOf(lid) == o {
								if msg := judgeVal(s.Rhs[i], s); msg != "" {
									fail(msg + " at " + p.Pos(s))
									return true
								}
							}
						}
					case *ast.ValueSpec:
						for i, nid := range s.Names {
							if info.ObjectOf(nid) == o && i < len(s.Values) {
								if msg := judgeVal(s.Values[i], s); msg != "" {
									fail(msg + " at " + p.Pos(s))
									return true
								}
							}
						}
					default:
						fail("schema variable assigned in an unsupported way")
						return true
					}
				}
				r.Add("E1.kind-pairing", fn.Name, construct, p.Pos(call), OK, "every value assigned to "+id.Name+" is nil or a non-nil *schema."+want+" for an *hclsyntax."+kind+" node", true)
				return true
			}
			if msg := judgeVal(schArg, call); msg != "" {
				fail(msg)
				return true
			}
			r.Add("E1.kind-pairing", fn.Name, construct, p.Pos(call), OK, "non-nil *schema."+want+" paired with an *hclsyntax."+kind+" node", true)
			return true
		})
	}
	r.ExpectMin("E1.kind-pairing-sites", res.sites, 6)
	r.Clauses = append(r.Clauses, "kind pairing: every (node, schema) argument pair of walker.Walk / Walker.Visit / Validator.Visit pairs *hclsyntax.Attribute/Block/Body with nil or a provably non-nil *schema.AttributeSchema/BlockSchema/BodySchema (no typed nil), or passes the function's own pair through")
}

func pairingHolds(p *Prog) bool {
	res := pairingCache[p]
	if res == nil {
		runKindPairing(p, newReport("scratch"))
		res = pairingCache[p]
	}
	return res.violations == 0 && res.sites >= 6
}

func init() {
	validatorPremise := func(p *Prog, fn *Func, ta *ast.TypeAssertExpr) bool {
		info := fn.Info()
		// target must be the pair of the node kind established locally
		so := baseObj(info, ta.X)
		if so == nil || !fn.isParam(so) || len(fn.Assignments(so)) != 0 {
			return false
		}
		// find the node parameter
		var nodeParam ast.Expr
		for _, f := range fn.Type.Params.List {
			for _, n := range f.Names {
				if typeIs(info.TypeOf(n), "hclsyntax", "Node") {
					nodeParam = n
				}
			}
		}
		if nodeParam == nil {
			return false
		}
		kind := nodeKindOf(fn, nodeParam, ta)
		if kind == "" {
			return false
		}
		tt := info.TypeOf(ta.Type)
		if tt == nil || !typeIs(tt, "hcl-lang/schema", kindPairs[kind]) {
			return false
		}
		// nodeSchema == nil excluded
		if !fn.GuardsAt(ta).Holds(func(a *Atom) bool {
			return a.E != nil && ((isNilCompare(info, a.E, so, 0) || false) || (isNilCompareAny(info, a.E, so) && nilAtomNonNil(info, a, so)))
		}) {
			return false
		}
		return pairingHolds(p)
	}
	why := "the walker pairs node kinds with schema kinds (rule E1.kind-pairing, re-checked on every run); this assertion is dominated by the matching node-kind test and by nodeSchema != nil"
	for _, k := range []string{
		"validator.BlockLabelsLength.Visit|nodeSchema.(*schema.BlockSchema)",
		"validator.DeprecatedAttribute.Visit|nodeSchema.(*schema.AttributeSchema)",
		"validator.DeprecatedBlock.Visit|nodeSchema.(*schema.BlockSchema)",
		"validator.MaxBlocks.Visit|nodeSchema.(*schema.BodySchema)",
		"validator.MinBlocks.Visit|nodeSchema.(*schema.BodySchema)",
		"validator.MissingRequiredAttribute.Visit|nodeSchema.(*schema.BodySchema)",
	} {
		p4Exceptions[k] = p4Exception{why: why, premise: validatorPremise}
	}
	outer := func(p *Prog, fn *Func, ta *ast.TypeAssertExpr) bool {
		info := fn.Info()
		o := baseObj(info, ta.X)
		if o == nil {
			return false
		}
		def := fn.SingleDef(o)
		call, ok := ast.Unparen(def).(*ast.CallExpr)
		if def == nil || !ok {
			return false
		}
		if !strings.HasSuffix(calleeFull(info, call), "hclsyntax.Body).OutermostBlockAtPos") {
			return false
		}
		return hasNonNilFact(fn, o, ta)
	}
	whyOuter := "blocks returned by (*hclsyntax.Body).OutermostBlockAtPos are AsHCLBlock() views whose Body is the *hclsyntax.Body (read in hclsyntax/structure_at_pos.go); premise re-checked: single definition from that call, dominated by != nil"
	p4Exceptions["decoder.(*PathDecoder).CompletionAtPos|outerBlock.Body.(*hclsyntax.Body)"] = p4Exception{why: whyOuter, premise: outer}
	p4Exceptions["decoder.Reference.CompletionAtPos|outerBlock.Body.(*hclsyntax.Body)"] = p4Exception{why: whyOuter, premise: outer}

	ctxPremise := func(getter, setter string) func(p *Prog, fn *Func, ta *ast.TypeAssertExpr) bool {
		return func(p *Prog, fn *Func, ta *ast.TypeAssertExpr) bool {
			// (1) every in-module caller of the getter sits in a Visit method under a Body-kind test
			callers := buildCallers(p)
			n := 0
			for _, cs := range callers[fn.Obj] {
				n++
				var nodeParam ast.Expr
				if cs.fn.Type.Params != nil {
					for _, f := range cs.fn.Type.Params.List {
						for _, nm := range f.Names {
							if typeIs(cs.fn.Info().TypeOf(nm), "hclsyntax", "Node") {
								nodeParam = nm
							}
						}
					}
				}
				if nodeParam == nil || nodeKindOf(cs.fn, nodeParam, cs.call) != "Body" {
					return false
				}
			}
			// (2) in the walker, the Visit call for Body nodes receives a context that went
			// through the setter on every path
			okWalker := false
			for _, wf := range p.Funcs {
				if !strings.HasSuffix(wf.Pkg.PkgPath, "/walker") {
					continue
				}
				info := wf.Info()
				ast.Inspect(wf.Body, func(x ast.Node) bool {
					call, ok := x.(*ast.CallExpr)
					if !ok {
						return true
					}
					sel, ok := ast.Unparen(call.Fun).(*ast.SelectorExpr)
					if !ok || sel.Sel.Name != "Visit" || len(call.Args) != 3 {
						return true
					}
					if nodeKindOf(wf, call.Args[1], call) != "Body" {
						return true
					}
					ctxObj := baseObj(info, call.Args[0])
					found := false
					for _, asn := range wf.Assignments(ctxObj) {
						as, ok := asn.(*ast.AssignStmt)
						if !ok || len(as.Rhs) != 1 {
							continue
						}
						c2, ok := ast.Unparen(as.Rhs[0]).(*ast.CallExpr)
						if !ok || !strings.HasSuffix(calleeFull(info, c2), "schemacontext."+setter) {
							continue
						}
						if len(c2.Args) >= 1 && baseObj(info, c2.Args[0]) == ctxObj && wf.Dominates(as, call) {
							// later re-assignments must wrap the same variable
							clean := true
							for _, other := range wf.Assignments(ctxObj) {
								if other == asn || !wf.Dominates(as, other) {
									continue
								}
								oa, ok := other.(*ast.AssignStmt)
								if !ok || len(oa.Rhs) != 1 {
									clean = false
									continue
								}
								oc, ok := ast.Unparen(oa.Rhs[0]).(*ast.CallExpr)
								if !ok || len(oc.Args) == 0 || baseObj(info, oc.Args[0]) != ctxObj {
									clean = false
								}
							}
							if clean {
								found = true
							}
						}
					}
					if found {
						okWalker = true
					} else {
						okWalker = false
					}
					return true
				})
			}
			return okWalker && n > 0
		}
	}
	p4Exceptions["schemacontext.FoundBlocks|ctx.Value(foundBlocksCtxKey{}).(map[string]uint64)"] = p4Exception{
		why:     "the only in-module callers are validators' Body branches, and the walker passes Body visits a context that went through WithFoundBlocks on every path (premise re-checked)",
		premise: ctxPremise("FoundBlocks", "WithFoundBlocks")}
	p4Exceptions["schemacontext.DynamicBlocks|ctx.Value(dynamicBlocksCtxKey{}).(map[string]uint64)"] = p4Exception{
		why:     "the only in-module callers are validators' Body branches, and the walker passes Body visits a context that went through WithDynamicBlocks on every path (premise re-checked)",
		premise: ctxPremise("DynamicBlocks", "WithDynamicBlocks")}
}

func isNilCompareAny(info *types.Info, cond ast.Expr, obj types.Object) bool {
	be, ok := ast.Unparen(cond).(*ast.BinaryExpr)
	if !ok {
		return false
	}
	isObj := func(e ast.Expr) bool {
		id, ok := ast.Unparen(e).(*ast.Ident)
		return ok && info.ObjectOf(id) == obj
	}
	return (isObj(be.X) && isNilIdent(info, be.Y)) || (isObj(be.Y) && isNilIdent(info, be.X))
}

// nilAtomNonNil: the atom says obj != nil
func nilAtomNonNil(info *types.Info, a *Atom, obj types.Object) bool {
	be, ok := ast.Unparen(a.E).(*ast.BinaryExpr)
	if !ok {
		return false
	}
	if be.Op.String() == "!=" {
		return a.Pol
	}
	if be.Op.String() == "==" {
		return !a.Pol
	}
	return false
}
