package main

// E14 — termination (C01): loop progress for the non-range loops and structural descent for
// every recursive cycle of the module's call graph.

import (
	"fmt"
	"go/ast"
	"go/token"
	"go/types"
	"os"
	"sort"
	"strings"
)

type callEdge struct {
	from, to *Func
	call     *ast.CallExpr
	via      string // "static" | "interface I.M"
}

// rootOf maps function literals to their outermost enclosing declared function.
func rootOf(fn *Func) *Func {
	for fn.Parent != nil {
		fn = fn.Parent
	}
	return fn
}

func buildCallGraph(p *Prog) (map[*Func][]callEdge, []*Func) {
	// module named types for interface dispatch
	var named []*types.Named
	for _, pk := range p.Pkgs {
		sc := pk.Types.Scope()
		for _, nm := range sc.Names() {
			if tn, ok := sc.Lookup(nm).(*types.TypeName); ok {
				if n, ok := tn.Type().(*types.Named); ok {
					named = append(named, n)
				}
			}
		}
	}
	implCache := map[string][]*Func{}
	impls := func(iface *types.Interface, name string, key string) []*Func {
		if v, ok := implCache[key]; ok {
			return v
		}
		var out []*Func
		for _, n := range named {
			if _, isI := n.Underlying().(*types.Interface); isI {
				continue
			}
			for _, t := range []types.Type{n, types.NewPointer(n)} {
				if types.Implements(t, iface) {
					ms := types.NewMethodSet(t)
					if sel := ms.Lookup(n.Obj().Pkg(), name); sel != nil {
						if f, ok := sel.Obj().(*types.Func); ok {
							if fn := p.FuncOf[f]; fn != nil {
								out = append(out, fn)
							}
						}
					}
					break
				}
			}
		}
		implCache[key] = out
		return out
	}
	g := map[*Func][]callEdge{}
	var nodes []*Func
	for _, fn := range p.Funcs {
		if fn.Body == nil {
			continue
		}
		root := rootOf(fn)
		if fn.Lit == nil {
			nodes = append(nodes, fn)
		}
		info := fn.Info()
		ast.Inspect(fn.Body, func(n ast.Node) bool {
			if lit, ok := n.(*ast.FuncLit); ok && lit != fn.Lit {
				return false // visited as its own Func
			}
			call, ok := n.(*ast.CallExpr)
			if !ok {
				return true
			}
			f := calleeOf(info, call)
			if f == nil {
				return true
			}
			if tgt := p.FuncOf[f]; tgt != nil {
				g[root] = append(g[root], callEdge{root, tgt, call, "static"})
				return true
			}
			// interface method?
			if sig, ok := f.Type().(*types.Signature); ok && sig.Recv() != nil {
				if it, ok := sig.Recv().Type().Underlying().(*types.Interface); ok && isModuleType(sig.Recv().Type()) {
					key := types.TypeString(sig.Recv().Type(), nil) + "." + f.Name()
					for _, tgt := range impls(it, f.Name(), key) {
						g[root] = append(g[root], callEdge{root, tgt, call, "interface " + key})
					}
				}
			}
			return true
		})
	}
	return g, nodes
}

func sccs(nodes []*Func, g map[*Func][]callEdge) [][]*Func {
	index := map[*Func]int{}
	low := map[*Func]int{}
	on := map[*Func]bool{}
	var stack []*Func
	var out [][]*Func
	idx := 0
	var strong func(v *Func)
	strong = func(v *Func) {
		index[v] = idx
		low[v] = idx
		idx++
		stack = append(stack, v)
		on[v] = true
		for _, e := range g[v] {
			w := e.to
			if _, seen := index[w]; !seen {
				strong(w)
				if low[w] < low[v] {
					low[v] = low[w]
				}
			} else if on[w] && index[w] < low[v] {
				low[v] = index[w]
			}
		}
		if low[v] == index[v] {
			var comp []*Func
			for {
				w := stack[len(stack)-1]
				stack = stack[:len(stack)-1]
				on[w] = false
				comp = append(comp, w)
				if w == v {
					break
				}
			}
			out = append(out, comp)
		}
	}
	for _, v := range nodes {
		if _, seen := index[v]; !seen {
			strong(v)
		}
	}
	return out
}

// ---------------------------------------------------------------------------------------
// structural descent

type role int

const (
	roleNone role = iota
	roleAST
	roleCONS
	roleOTHER
)

func (r role) String() string { return [...]string{"-", "syntax", "schema/type", "data"}[r] }

func pkgRole(path, name string) role {
	switch {
	case strings.HasSuffix(path, "hashicorp/hcl/v2") || strings.HasSuffix(path, "hcl/v2/hclsyntax") || strings.HasSuffix(path, "hcl/v2/json"):
		switch name {
		case "Pos", "Range", "Diagnostics", "Diagnostic", "EvalContext", "File":
			return roleNone
		}
		return roleAST
	case strings.HasSuffix(path, "go-cty/cty"):
		if name == "Type" {
			return roleCONS
		}
		if name == "Value" {
			return roleOTHER
		}
		return roleNone
	case strings.HasSuffix(path, "hcl-lang/schema"):
		return roleCONS
	case strings.HasSuffix(path, "hcl-lang/decoder/internal/ast"):
		return roleAST
	case strings.HasSuffix(path, "hcl-lang/decoder/internal/schemahelper"):
		if name == "blockSchema" {
			return roleCONS
		}
	case strings.HasSuffix(path, "hcl-lang/reference"):
		switch name {
		case "Targets", "Target", "Origins":
			return roleOTHER
		}
	case strings.HasSuffix(path, "hcl-lang/lang"):
		if name == "Address" {
			return roleNone
		}
	case strings.HasSuffix(path, "hcl-lang/decoder"):
		// the outline: a finite tree built from the syntax tree
		switch name {
		case "Symbol", "BlockSymbol", "AttributeSymbol", "ExprSymbol":
			return roleOTHER
		}
	}
	return roleNone
}

func roleOfType(t types.Type) role {
	for i := 0; i < 6 && t != nil; i++ {
		switch u := t.(type) {
		case *types.Pointer:
			t = u.Elem()
			continue
		case *types.Slice:
			t = u.Elem()
			continue
		case *types.Array:
			t = u.Elem()
			continue
		case *types.Map:
			t = u.Elem()
			continue
		}
		break
	}
	n := namedOf(t)
	if n == nil || n.Obj().Pkg() == nil {
		return roleNone
	}
	if _, isBasic := n.Underlying().(*types.Basic); isBasic {
		return roleNone
	}
	return pkgRole(n.Obj().Pkg().Path(), n.Obj().Name())
}

// nativePkg: is a field / method declared in package path part of the role's own data model?
func nativePkg(path string, r role) bool {
	switch r {
	case roleAST:
		return strings.HasSuffix(path, "hashicorp/hcl/v2") || strings.HasSuffix(path, "hcl/v2/hclsyntax") || strings.HasSuffix(path, "hcl/v2/json")
	case roleCONS:
		return strings.HasSuffix(path, "hcl-lang/schema") || strings.HasSuffix(path, "go-cty/cty")
	case roleOTHER:
		return strings.HasSuffix(path, "hcl-lang/reference") || strings.HasSuffix(path, "go-cty/cty") || strings.HasSuffix(path, "hcl-lang/decoder")
	}
	return false
}

type segKind int

const (
	segField segKind = iota
	segIndex
	segProj // projection method / function: result strictly inside
	segCall // passed through another call: result not larger than the arguments (syntax only)
	segWrap // wrapped in a composite literal
)

type seg struct {
	kind segKind
	name string
	pkg  string // declaring package of the field / method
}

type datom struct {
	leaf bool
	root string // "recv" or "p:name"
	segs []seg
}

func (a datom) with(s seg) datom {
	if a.leaf {
		return a
	}
	n := datom{root: a.root, segs: append(append([]seg{}, a.segs...), s)}
	return n
}

func (a datom) String() string {
	if a.leaf {
		return "leaf"
	}
	s := a.root
	for _, g := range a.segs {
		switch g.kind {
		case segField:
			s += "." + g.name
		case segIndex:
			s += "[]"
		case segProj:
			s += "." + g.name + "()"
		case segCall:
			s += "→" + g.name + "(…)"
		case segWrap:
			s += "{}"
		}
	}
	return s
}

// selectField: atoms of `v.f` given the atoms of v. A value wrapped into field g of a struct
// literal is found again under f == g and is invisible under any other field.
func selectField(as []datom, f seg) []datom {
	if as == nil {
		return nil
	}
	out := make([]datom, 0, len(as))
	for _, a := range as {
		if !a.leaf && len(a.segs) > 0 {
			last := a.segs[len(a.segs)-1]
			if last.kind == segWrap && last.name != "" {
				if last.name == f.name {
					out = append(out, datom{root: a.root, segs: append([]seg{}, a.segs[:len(a.segs)-1]...)})
				}
				continue
			}
		}
		out = append(out, a.with(f))
	}
	if len(out) == 0 {
		return []datom{{leaf: true}}
	}
	return out
}

func mapAtoms(as []datom, s seg) []datom {
	if as == nil {
		return nil
	}
	out := make([]datom, 0, len(as))
	for _, a := range as {
		out = append(out, a.with(s))
	}
	return out
}

type carrier struct {
	root   string
	fields []string
	role   role
}

func (c carrier) String() string {
	s := c.root
	for _, f := range c.fields {
		s += "." + f
	}
	return s
}

func carriersOf(fn *Func) []carrier {
	var out []carrier
	if fn.Obj == nil {
		return nil
	}
	sig := fn.Obj.Type().(*types.Signature)
	if rv := sig.Recv(); rv != nil {
		rr := roleOfType(rv.Type())
		if st, ok := derefType(rv.Type()).Underlying().(*types.Struct); ok && isModuleType(rv.Type()) && rr == roleNone {
			for i := 0; i < st.NumFields(); i++ {
				f := st.Field(i)
				if r := roleOfType(f.Type()); r != roleNone {
					out = append(out, carrier{"recv", []string{f.Name()}, r})
				}
			}
		} else if rr != roleNone {
			out = append(out, carrier{"recv", nil, rr})
		}
	}
	for i := 0; i < sig.Params().Len(); i++ {
		pv := sig.Params().At(i)
		if r := roleOfType(pv.Type()); r != roleNone {
			out = append(out, carrier{"p:" + pv.Name(), nil, r})
			continue
		}
		// a parameter struct of the module that bundles syntax / schema values — possibly
		// behind pointers, slices and maps ("[]" steps): its fields carry
		var steps []string
		t := pv.Type()
		for k := 0; k < 4; k++ {
			switch u := t.Underlying().(type) {
			case *types.Pointer:
				t = u.Elem()
				continue
			case *types.Slice:
				t = u.Elem()
				steps = append(steps, "[]")
				continue
			case *types.Map:
				t = u.Elem()
				steps = append(steps, "[]")
				continue
			}
			break
		}
		nt := namedOf(t)
		if st, ok := t.Underlying().(*types.Struct); ok && isModuleType(t) && nt != nil && !nt.Obj().Exported() {
			// (unexported bundle types only: exported context types such as PathContext are
			// passed along unchanged and are not what a recursion descends on)
			for j := 0; j < st.NumFields(); j++ {
				f := st.Field(j)
				if r := roleOfType(f.Type()); r != roleNone {
					out = append(out, carrier{"p:" + pv.Name(), append(append([]string{}, steps...), f.Name()), r})
				}
			}
		}
	}
	return out
}

// segMatchesPathStep: a carrier path step is a field name or "[]" (an element).
func segMatchesPathStep(sg seg, step string) bool {
	if step == "[]" {
		return sg.kind == segIndex
	}
	return sg.kind == segField && sg.name == step
}

func isExprStruct(t types.Type) bool {
	st, ok := derefType(t).Underlying().(*types.Struct)
	if !ok {
		return false
	}
	hasE := false
	for i := 0; i < st.NumFields(); i++ {
		if canonId(st.Field(i).Name()) == "expr" {
			hasE = true
		}
	}
	return hasE && isModuleType(t)
}

type deriver struct {
	p           *Prog
	fn          *Func
	recv        types.Object
	pars        map[types.Object]string
	visiting    map[types.Object]bool
	summarising map[*Func]bool
}

func newDeriver(p *Prog, root *Func) *deriver {
	d := &deriver{p: p, fn: root, pars: map[types.Object]string{}, visiting: map[types.Object]bool{}, summarising: map[*Func]bool{}}
	info := root.Info()
	if root.Decl != nil {
		if root.Decl.Recv != nil && len(root.Decl.Recv.List) == 1 && len(root.Decl.Recv.List[0].Names) == 1 {
			d.recv = info.ObjectOf(root.Decl.Recv.List[0].Names[0])
		}
		for _, f := range root.Decl.Type.Params.List {
			for _, n := range f.Names {
				d.pars[info.ObjectOf(n)] = "p:" + n.Name
			}
		}
	}
	return d
}

var projMethods = map[string]bool{"ElementType": true, "AttributeType": true, "AttributeTypes": true, "TupleElementTypes": true, "TupleElementType": true,
	"ExprList": true, "ExprMap": true, "ExprCall": true, "AsValueMap": true, "AsValueSlice": true, "GetAttr": true, "MapElementType": true, "ListElementType": true, "SetElementType": true, "Variables": true}

var sameMethods = map[string]bool{"UnwrapExpression": true, "Copy": true, "AsHCLBlock": true, "AsHCLAttribute": true, "AsTraversal": true}

func (d *deriver) funcOfNode(n ast.Node) *Func {
	if f := d.p.EnclosingFunc(n); f != nil {
		return f
	}
	return d.fn
}

func (d *deriver) derive(e ast.Expr, depth int) []datom {
	r := d.derive0(e, depth)
	if r == nil && os.Getenv("HCLVERIF_TERMDEBUG") == "3" && e != nil {
		fmt.Printf("DERIVE-FAIL depth=%d %s @%s\n", depth, exprStr(e), d.p.Pos(e))
	}
	return r
}

func (d *deriver) derive0(e ast.Expr, depth int) []datom {
	if depth > 60 || e == nil {
		return nil
	}
	fn := d.funcOfNode(e)
	info := fn.Info()
	leaf := []datom{{leaf: true}}
	switch x := ast.Unparen(e).(type) {
	case *ast.Ident:
		if x.Name == "nil" {
			return leaf
		}
		o := info.ObjectOf(x)
		if o == nil {
			return nil
		}
		if o == d.recv {
			return []datom{{root: "recv"}}
		}
		if _, isConst := o.(*types.Const); isConst {
			return leaf
		}
		v, ok := o.(*types.Var)
		if !ok || v.IsField() {
			return nil
		}
		if v.Pkg() != nil && v.Parent() == v.Pkg().Scope() {
			return leaf
		}
		var owner *Func
		for f := fn; f != nil; f = f.Parent {
			if len(f.Assignments(o)) > 0 {
				owner = f
				break
			}
		}
		if d.visiting[o] {
			return []datom{} // self-reference (x = append(x, …)): contributes nothing new
		}
		d.visiting[o] = true
		defer delete(d.visiting, o)
		var out []datom
		if pth, ok := d.pars[o]; ok {
			out = append(out, datom{root: pth})
			if owner == nil {
				return out
			}
		}
		if owner == nil {
			if atoms, isClosureParam := d.closureParam(fn, o, depth); isClosureParam {
				return atoms
			}
			return d.typeSwitchBinding(fn, x, depth)
		}
		for _, a := range owner.Assignments(o) {
			var rhs []datom
			switch s := a.(type) {
			case *ast.AssignStmt:
				if len(s.Lhs) == len(s.Rhs) {
					for i, l := range s.Lhs {
						if id, ok := ast.Unparen(l).(*ast.Ident); ok && info.ObjectOf(id) == o {
							rhs = d.derive(s.Rhs[i], depth+1)
						}
					}
				} else if len(s.Rhs) == 1 {
					rhs = d.derive(s.Rhs[0], depth+1)
				}
			case *ast.RangeStmt:
				if id, ok := s.Key.(*ast.Ident); ok && info.ObjectOf(id) == o {
					rhs = leaf
					// map keys of role types do not occur
				} else {
					rhs = mapAtoms(d.derive(s.X, depth+1), seg{kind: segIndex, pkg: namedCollPkg(info.TypeOf(s.X))})
				}
			case *ast.ValueSpec:
				if len(s.Values) == len(s.Names) {
					for i, id := range s.Names {
						if info.ObjectOf(id) == o {
							rhs = d.derive(s.Values[i], depth+1)
						}
					}
				} else if len(s.Values) == 0 {
					rhs = leaf
				}
			default:
				return nil
			}
			if rhs == nil {
				return nil
			}
			out = append(out, rhs...)
		}
		// stores into parts of the local (x.f = v, x.f[i] = v, x[i] = v) contribute their values
		bad := false
		ast.Inspect(owner.Body, func(n ast.Node) bool {
			as, ok := n.(*ast.AssignStmt)
			if !ok || bad {
				return !bad
			}
			for i, l := range as.Lhs {
				l = ast.Unparen(l)
				if _, isId := l.(*ast.Ident); isId {
					continue
				}
				if baseObj(info, l) != o {
					continue
				}
				if len(as.Lhs) != len(as.Rhs) {
					bad = true
					return false
				}
				if tv := info.TypeOf(as.Rhs[i]); tv != nil && !mayCarry(tv) {
					continue
				}
				r := d.derive(as.Rhs[i], depth+1)
				if r == nil {
					bad = true
					return false
				}
				out = append(out, mapAtoms(r, seg{kind: segWrap})...)
			}
			return true
		})
		if bad {
			return nil
		}
		return out
	case *ast.SelectorExpr:
		if id, ok := x.X.(*ast.Ident); ok {
			if _, isPkg := info.ObjectOf(id).(*types.PkgName); isPkg {
				return leaf
			}
		}
		pkg := ""
		if o := info.ObjectOf(x.Sel); o != nil && o.Pkg() != nil {
			pkg = o.Pkg().Path()
		}
		return selectField(d.derive(x.X, depth+1), seg{kind: segField, name: x.Sel.Name, pkg: pkg})
	case *ast.IndexExpr:
		return mapAtoms(d.derive(x.X, depth+1), seg{kind: segIndex, pkg: namedCollPkg(info.TypeOf(x.X))})
	case *ast.SliceExpr:
		return d.derive(x.X, depth+1)
	case *ast.StarExpr:
		return d.derive(x.X, depth+1)
	case *ast.UnaryExpr:
		return d.derive(x.X, depth+1)
	case *ast.TypeAssertExpr:
		return d.derive(x.X, depth+1)
	case *ast.BasicLit, *ast.FuncLit:
		return leaf
	case *ast.CompositeLit:
		var out []datom
		var lst *types.Struct
		if tv := info.TypeOf(x); tv != nil {
			lst, _ = derefType(tv).Underlying().(*types.Struct)
		}
		for i, el := range x.Elts {
			v := el
			fld := ""
			if kv, ok := el.(*ast.KeyValueExpr); ok {
				v = kv.Value
				if k, ok := kv.Key.(*ast.Ident); ok && lst != nil {
					fld = k.Name
				}
			} else if lst != nil && i < lst.NumFields() {
				fld = lst.Field(i).Name()
			}
			if tv := info.TypeOf(v); tv != nil && !mayCarry(tv) {
				continue
			}
			a := d.derive(v, depth+1)
			if a == nil {
				return nil
			}
			// the wrap remembers which field holds the value: selecting that field undoes it,
			// selecting another field does not see it (selectField)
			out = append(out, mapAtoms(a, seg{kind: segWrap, name: fld})...)
		}
		if len(out) == 0 {
			return leaf
		}
		return out
	case *ast.CallExpr:
		if tv, ok := info.Types[x.Fun]; ok && tv.IsType() && len(x.Args) == 1 {
			return d.derive(x.Args[0], depth+1)
		}
		f := calleeOf(info, x)
		name, pkg := "", ""
		isMethod := false
		if f != nil {
			name = f.Name()
			if f.Pkg() != nil {
				pkg = f.Pkg().Path()
			}
			if sig, ok := f.Type().(*types.Signature); ok && sig.Recv() != nil {
				isMethod = true
			}
		}
		if name == "newEmptyExpressionAtPos" {
			return leaf
		}
		if isBuiltinCall(info, x, "append") {
			var out []datom
			for _, a := range x.Args {
				r := d.derive(a, depth+1)
				if r == nil {
					return nil
				}
				out = append(out, r...)
			}
			return out
		}
		if isBuiltinCall(info, x, "make") || isBuiltinCall(info, x, "new") || isBuiltinCall(info, x, "len") {
			return leaf
		}
		sel, hasSel := ast.Unparen(x.Fun).(*ast.SelectorExpr)
		if isMethod && hasSel {
			switch {
			case projMethods[name]:
				return mapAtoms(d.derive(sel.X, depth+1), seg{kind: segProj, name: name, pkg: pkg})
			case pureMethods[name] || sameMethods[name]:
				return d.derive(sel.X, depth+1)
			}
		}
		if !isMethod && len(x.Args) >= 1 {
			if projMethods[name] {
				return mapAtoms(d.derive(x.Args[0], depth+1), seg{kind: segProj, name: name, pkg: pkg})
			}
			if sameMethods[name] {
				return d.derive(x.Args[0], depth+1)
			}
		}
		// a method of a module interface every implementation of which just returns a field of
		// its receiver (a getter): a projection of the receiver
		if isMethod && hasSel && f != nil && len(x.Args) == 0 && d.interfaceGetter(f) {
			return mapAtoms(d.derive(sel.X, depth+1), seg{kind: segProj, name: name, pkg: pkg})
		}
		// a module function with a body: substitute the actuals into the atoms of what it returns
		if f != nil {
			if callee := d.p.FuncOf[f]; callee != nil && callee.Body != nil && len(d.summarising) < 4 && !d.summarising[callee] {
				if out, ok := d.viaSummary(callee, x, isMethod && hasSel, depth); ok {
					return out
				}
			}
		}
		// any other call: built from its role-carrying arguments and receiver
		var out []datom
		args := append([]ast.Expr{}, x.Args...)
		if isMethod && hasSel {
			args = append(args, sel.X)
		}
		resRole := roleNone
		if tv := info.TypeOf(x); tv != nil {
			if tup, ok := tv.(*types.Tuple); ok && tup.Len() > 0 {
				tv = tup.At(0).Type()
			}
			resRole = roleOfType(tv)
		}
		for _, a := range args {
			tv := info.TypeOf(a)
			if tv == nil || !mayCarry(tv) {
				continue
			}
			if resRole == roleAST && roleOfType(tv) != roleAST && roleOfType(tv) != roleNone {
				continue // syntax is only made of syntax
			}
			r := d.derive(a, depth+1)
			if r == nil {
				return nil
			}
			out = append(out, mapAtoms(r, seg{kind: segCall, name: name})...)
		}
		if len(out) == 0 {
			return leaf
		}
		return out
	}
	return nil
}

func (d *deriver) typeSwitchBinding(fn *Func, id *ast.Ident, depth int) []datom {
	info := fn.Info()
	o := info.ObjectOf(id)
	for f := fn; f != nil; f = f.Parent {
		var res []datom
		found := false
		ast.Inspect(f.Body, func(n ast.Node) bool {
			ts, ok := n.(*ast.TypeSwitchStmt)
			if !ok || found {
				return !found
			}
			as, ok := ts.Assign.(*ast.AssignStmt)
			if !ok || len(as.Lhs) != 1 {
				return true
			}
			for _, c := range ts.Body.List {
				if info.Implicits[c] == o {
					if ta, ok := ast.Unparen(as.Rhs[0]).(*ast.TypeAssertExpr); ok {
						res = d.derive(ta.X, depth+1)
						found = true
					}
				}
			}
			return true
		})
		if found {
			return res
		}
	}
	return nil
}

// exprValue resolves e (through single definitions and type assertions) to the expression
// that constructs the decoder-expression value: a newExpression call or a struct literal.
func (d *deriver) exprValue(e ast.Expr, depth int) ast.Expr {
	if depth > 6 || e == nil {
		return nil
	}
	fn := d.funcOfNode(e)
	info := fn.Info()
	switch x := ast.Unparen(e).(type) {
	case *ast.CallExpr:
		if f := calleeOf(info, x); f != nil && fname(f) == "newExpression" {
			return x
		}
	case *ast.CompositeLit:
		if tv := info.TypeOf(x); tv != nil && isExprStruct(tv) {
			return x
		}
	case *ast.TypeAssertExpr:
		return d.exprValue(x.X, depth+1)
	case *ast.Ident:
		o := info.ObjectOf(x)
		for f := fn; f != nil; f = f.Parent {
			as := f.Assignments(o)
			if len(as) == 1 {
				if def := f.SingleDef(o); def != nil {
					return d.exprValue(def, depth+1)
				}
			}
			if len(as) > 0 {
				break
			}
		}
	}
	return nil
}

// fieldActual: the expression that initialises field `name` of the decoder-expression value
// constructed by v (newExpression(ctx, expr, cons) or T{expr: …, cons: …}).
func fieldActual(info *types.Info, v ast.Expr, name string) ast.Expr {
	switch x := v.(type) {
	case *ast.CallExpr:
		n := len(x.Args)
		if n >= 2 {
			if name == "expr" {
				return x.Args[n-2]
			}
			if name == "cons" {
				return x.Args[n-1]
			}
		}
	case *ast.CompositeLit:
		for _, el := range x.Elts {
			if kv, ok := el.(*ast.KeyValueExpr); ok {
				if k, ok := kv.Key.(*ast.Ident); ok && canonId(k.Name) == name {
					return kv.Value
				}
			}
		}
	}
	return nil
}

type relKind int

const (
	relAbsent relKind = iota
	relUnknown
	relSame
	relLeaf
	relStrict
)

func (k relKind) String() string {
	return [...]string{"absent", "unknown", "same", "fresh leaf", "strictly smaller"}[k]
}

func carrierRoleOfRoot(a datom, callerCarriers []carrier) role {
	best, br := -1, roleNone
	for _, c := range callerCarriers {
		if c.root != a.root || len(c.fields) > len(a.segs) {
			continue
		}
		ok := true
		for i, f := range c.fields {
			if !segMatchesPathStep(a.segs[i], f) {
				ok = false
			}
		}
		if ok && len(c.fields) > best {
			best, br = len(c.fields), c.role
		}
	}
	return br
}

// relate: how does the callee's value of role r (given by atoms) compare with what the
// caller received? Sizes: syntax = number of parsed nodes (the fresh empty-expression leaf
// counts 0); schema/type = lexicographic (cty type constructors, schema constructors).
func relate(atoms []datom, callerCarriers []carrier, r role) (relKind, string) {
	if atoms == nil {
		return relUnknown, "value not derivable from the caller's arguments"
	}
	type cls struct {
		strict bool
		same   bool
		key    string
	}
	var cs []cls
	for _, a := range atoms {
		if a.leaf {
			continue
		}
		// which caller carrier is this inside?
		best := -1
		var bestRole role
		for _, c := range callerCarriers {
			if c.root != a.root || len(c.fields) > len(a.segs) {
				continue
			}
			ok := true
			for i, f := range c.fields {
				if !segMatchesPathStep(a.segs[i], f) {
					ok = false
				}
			}
			if ok && len(c.fields) > best {
				best, bestRole = len(c.fields), c.role
			}
		}
		if best < 0 {
			// inside the receiver / a parameter that is not a carrier of any role (context): ignore
			// for syntax (no syntax lives there), unknown otherwise
			if r == roleAST {
				continue
			}
			return relUnknown, a.String() + " is not inside a " + r.String() + " argument of the caller"
		}
		if bestRole != r {
			if r == roleAST {
				continue // schema or data values contain no syntax nodes
			}
			return relUnknown, a.String() + " derives a " + r.String() + " value from the caller's " + bestRole.String() + " argument (e.g. the type of an evaluated expression)"
		}
		rest := a.segs[best:]
		switch r {
		case roleAST:
			strict := false
			pure := true
			for _, s := range rest {
				switch s.kind {
				case segCall, segWrap:
					pure = false
				case segField, segProj:
					if pure || nativePkg(s.pkg, r) {
						strict = true
					}
				case segIndex:
					if pure {
						strict = true
					}
				}
			}
			cs = append(cs, cls{strict: strict, same: !strict, key: a.String()})
		default:
			ctyProj, down, wraps := 0, 0, 0
			pure := true
			for _, s := range rest {
				switch s.kind {
				case segCall:
					return relUnknown, a.String() + " passes through " + s.name + "(…), which may build a larger " + r.String() + " value"
				case segWrap:
					wraps++
					pure = false
				case segProj:
					if strings.HasSuffix(s.pkg, "go-cty/cty") {
						ctyProj++
					} else {
						down++
					}
				case segField:
					if pure || nativePkg(s.pkg, r) {
						down++
					}
				case segIndex:
					// element of a collection: not larger; a named collection that is itself a
					// constructor (schema.OneOf, reference.Targets) loses that constructor
					if s.pkg != "" && nativePkg(s.pkg, r) {
						down++
					}
				}
			}
			switch {
			case ctyProj > 0:
				cs = append(cs, cls{strict: true, key: a.String()})
			case wraps-down < 0:
				cs = append(cs, cls{strict: true, key: a.String()})
			case wraps-down == 0:
				cs = append(cs, cls{same: true, key: a.String()})
			default:
				return relUnknown, a.String() + " is wrapped in more constructors than were stripped"
			}
		}
	}
	if len(cs) == 0 {
		return relLeaf, ""
	}
	if r != roleAST && len(cs) > 1 {
		// several parts: only sound when they are the distinct elements of one projected collection
		for _, c := range cs[1:] {
			if c.key != cs[0].key {
				return relUnknown, "value assembled from several parts of the caller's " + r.String() + " argument (" + cs[0].key + ", " + c.key + ")"
			}
		}
	}
	for _, c := range cs {
		if !c.strict {
			return relSame, ""
		}
	}
	return relStrict, ""
}

func dynTypesOf(p *Prog, d *deriver, recvExpr ast.Expr) map[*types.Named]bool {
	v := d.exprValue(recvExpr, 0)
	if v == nil {
		// built by a helper with several return statements, or from a constraint chosen by a helper
		return dynTypesMulti(p, d, recvExpr, 0)
	}
	if c, ok := v.(*ast.CallExpr); ok {
		if n := len(c.Args); n >= 1 {
			if nm := ctorTypeFor(p, d.funcOfNode(c).Info().TypeOf(c.Args[n-1])); nm == nil {
				if m := dynTypesMulti(p, d, c, 0); m != nil {
					return m
				}
			}
		}
	}
	out := map[*types.Named]bool{}
	switch x := v.(type) {
	case *ast.CompositeLit:
		if n := namedOf(d.funcOfNode(x).Info().TypeOf(x)); n != nil {
			out[n] = true
		}
	case *ast.CallExpr:
		if n := len(x.Args); n >= 1 {
			if nm := ctorTypeFor(p, d.funcOfNode(x).Info().TypeOf(x.Args[n-1])); nm != nil {
				out[nm] = true
				return out
			}
		}
		ne := p.FindFunc("decoder.newExpression")
		if ne == nil {
			return nil
		}
		info := ne.Info()
		ast.Inspect(ne.Body, func(n ast.Node) bool {
			if out == nil {
				return false
			}
			if rs, ok := n.(*ast.ReturnStmt); ok {
				for _, res := range rs.Results {
					if cl, ok := ast.Unparen(res).(*ast.CompositeLit); ok {
						if nm := namedOf(info.TypeOf(cl)); nm != nil {
							out[nm] = true
						}
					} else {
						out = nil
						return false
					}
				}
			}
			return true
		})
	}
	return out
}

// dynTypesMulti: the decoder expression types e can hold, following helper functions through
// all of their return statements; nil = unknown.
func dynTypesMulti(p *Prog, d *deriver, e ast.Expr, depth int) map[*types.Named]bool {
	if depth > 4 || e == nil {
		return nil
	}
	fn := d.funcOfNode(e)
	if fn == nil {
		return nil
	}
	info := fn.Info()
	out := map[*types.Named]bool{}
	switch x := ast.Unparen(e).(type) {
	case *ast.CompositeLit:
		if tv := info.TypeOf(x); tv != nil && isExprStruct(tv) {
			if n := namedOf(tv); n != nil {
				out[n] = true
				return out
			}
		}
		return nil
	case *ast.TypeAssertExpr:
		return dynTypesMulti(p, d, x.X, depth+1)
	case *ast.Ident:
		o := info.ObjectOf(x)
		for f := fn; f != nil; f = f.Parent {
			as := f.Assignments(o)
			if len(as) == 1 {
				switch s := as[0].(type) {
				case *ast.AssignStmt:
					if len(s.Rhs) == 1 {
						return dynTypesMulti(p, d, s.Rhs[0], depth+1)
					}
					for i, l := range s.Lhs {
						if isIdentObj(f.Info(), l, o) && i < len(s.Rhs) {
							return dynTypesMulti(p, d, s.Rhs[i], depth+1)
						}
					}
				case *ast.ValueSpec:
					if len(s.Values) == 1 {
						return dynTypesMulti(p, d, s.Values[0], depth+1)
					}
				}
			}
			if len(as) > 0 {
				break
			}
		}
		return nil
	case *ast.CallExpr:
		f := calleeOf(info, x)
		if f == nil {
			return nil
		}
		if fname(f) == "newExpression" && len(x.Args) >= 1 {
			cts := consTypesOf(p, d, x.Args[len(x.Args)-1], depth+1)
			if cts == nil {
				return nil
			}
			for _, ct := range cts {
				nm := ctorTypeFor(p, ct)
				if nm == nil {
					return nil
				}
				out[nm] = true
			}
			return out
		}
		callee := p.FuncOf[f]
		if callee == nil || callee.Body == nil {
			return nil
		}
		okAll, any := true, false
		ast.Inspect(callee.Body, func(n ast.Node) bool {
			if _, isLit := n.(*ast.FuncLit); isLit {
				return false
			}
			rs, ok := n.(*ast.ReturnStmt)
			if !ok || !okAll {
				return okAll
			}
			if len(rs.Results) == 0 {
				okAll = false
				return false
			}
			if isNilIdent(callee.Info(), rs.Results[0]) {
				return true
			}
			m := dynTypesMulti(p, d, rs.Results[0], depth+1)
			if m == nil {
				okAll = false
				return false
			}
			any = true
			for k := range m {
				out[k] = true
			}
			return true
		})
		if !okAll || !any {
			return nil
		}
		return out
	}
	return nil
}

// consTypesOf: the concrete constraint types e can hold (nil = unknown).
func consTypesOf(p *Prog, d *deriver, e ast.Expr, depth int) []types.Type {
	if depth > 5 || e == nil {
		return nil
	}
	fn := d.funcOfNode(e)
	if fn == nil {
		return nil
	}
	info := fn.Info()
	e = ast.Unparen(e)
	if tv := info.TypeOf(e); tv != nil {
		if _, isI := tv.Underlying().(*types.Interface); !isI {
			return []types.Type{tv}
		}
	}
	switch x := e.(type) {
	case *ast.Ident:
		o := info.ObjectOf(x)
		for f := fn; f != nil; f = f.Parent {
			if def := f.SingleDef(o); def != nil {
				return consTypesOf(p, d, def, depth+1)
			}
			if len(f.Assignments(o)) > 0 {
				// several definitions: union
				var out []types.Type
				for _, dd := range defsOfIdent(f, o) {
					if dd == nil {
						return nil
					}
					ts := consTypesOf(p, d, dd, depth+1)
					if ts == nil {
						return nil
					}
					out = append(out, ts...)
				}
				return out
			}
		}
		return nil
	case *ast.CallExpr:
		if tv, ok := info.Types[x.Fun]; ok && tv.IsType() && len(x.Args) == 1 {
			return consTypesOf(p, d, x.Args[0], depth+1)
		}
		f := calleeOf(info, x)
		if f == nil {
			return nil
		}
		callee := p.FuncOf[f]
		if callee == nil || callee.Body == nil {
			return nil
		}
		var out []types.Type
		okAll := true
		ast.Inspect(callee.Body, func(n ast.Node) bool {
			if _, isLit := n.(*ast.FuncLit); isLit {
				return false
			}
			rs, ok := n.(*ast.ReturnStmt)
			if !ok || !okAll {
				return okAll
			}
			if len(rs.Results) == 0 {
				okAll = false
				return false
			}
			if isNilIdent(callee.Info(), rs.Results[0]) {
				return true
			}
			ts := consTypesOf(p, d, rs.Results[0], depth+1)
			if ts == nil {
				okAll = false
				return false
			}
			out = append(out, ts...)
			return true
		})
		if !okAll || len(out) == 0 {
			return nil
		}
		return out
	}
	return nil
}

type termEdge struct {
	from, to  *Func
	call      *ast.CallExpr
	atomsOf   map[string][]datom // callee carrier -> atoms of the actual
	rel       map[role]relKind
	why       map[role]string
	construct string
}

// leafIsSmaller: the call passes a fresh empty-expression leaf while a dominating type test
// shows that the caller's own expression is a parsed node of another kind than the leaf's
// (*hclsyntax.LiteralValueExpr): the leaf (size 0) is strictly smaller.
func leafIsSmaller(p *Prog, d *deriver, call *ast.CallExpr) bool {
	fn := d.funcOfNode(call)
	info := fn.Info()
	ok := false
	for _, a := range fn.GuardsAt(call).Atoms() {
		if a.TypeX == nil && a.E != nil && a.Pol {
			// ok of `v, ok := X.(*T)`
			if id, isId := ast.Unparen(a.E).(*ast.Ident); isId {
				o := info.ObjectOf(id)
				for f := fn; f != nil; f = f.Parent {
					for _, asn := range f.Assignments(o) {
						if s, isA := asn.(*ast.AssignStmt); isA && len(s.Lhs) == 2 && len(s.Rhs) == 1 {
							if ta, isTA := ast.Unparen(s.Rhs[0]).(*ast.TypeAssertExpr); isTA && ta.Type != nil && isIdentObj(info, s.Lhs[1], o) {
								at := d.derive(ta.X, 0)
								tt := info.TypeOf(ta.Type)
								if len(at) == 1 && !at[0].leaf && tt != nil && roleOfType(tt) == roleAST && !strings.HasSuffix(types.TypeString(tt, nil), "hclsyntax.LiteralValueExpr") {
									ok = true
								}
							}
						}
					}
				}
			}
			continue
		}
		if a.TypeX == nil || !a.Pol {
			continue
		}
		// operand must be a syntax carrier of the caller
		at := d.derive(a.TypeX, 0)
		if len(at) != 1 || at[0].leaf {
			continue
		}
		all := true
		for _, t := range a.Types {
			tt := info.TypeOf(t)
			if tt == nil || roleOfType(tt) != roleAST || strings.HasSuffix(types.TypeString(tt, nil), "hclsyntax.LiteralValueExpr") {
				all = false
			}
		}
		if all && len(a.Types) > 0 {
			ok = true
		}
	}
	return ok
}

func runTermination(p *Prog, r *Report) {
	g, nodes := buildCallGraph(p)
	derivers := map[*Func]*deriver{}
	getD := func(f *Func) *deriver {
		if derivers[f] == nil {
			derivers[f] = newDeriver(p, f)
		}
		return derivers[f]
	}
	for f, es := range g {
		var kept []callEdge
		for _, e := range es {
			if e.via != "static" {
				if sel, ok := ast.Unparen(e.call.Fun).(*ast.SelectorExpr); ok {
					if dt := dynTypesOf(p, getD(f), sel.X); dt != nil {
						if rv := recvObj(e.to); rv != nil {
							if n := namedOf(rv.Type()); n != nil && !dt[n] {
								continue
							}
						}
					}
				}
			}
			kept = append(kept, e)
		}
		g[f] = kept
	}
	comps := sccs(nodes, g)
	nSCC, nSites := 0, 0
	for _, comp := range comps {
		in := map[*Func]bool{}
		for _, f := range comp {
			in[f] = true
		}
		rec := len(comp) > 1
		if !rec {
			for _, e := range g[comp[0]] {
				if e.to == comp[0] {
					rec = true
				}
			}
		}
		if !rec {
			continue
		}
		nSCC++
		sort.Slice(comp, func(i, j int) bool { return comp[i].Name < comp[j].Name })
		// classify every edge inside the component
		var edges []*termEdge
		ord := map[string]int{}
		siteSeen := map[*ast.CallExpr]string{}
		for _, f := range comp {
			es := append([]callEdge{}, g[f]...)
			sort.SliceStable(es, func(i, j int) bool { return es[i].call.Pos() < es[j].call.Pos() })
			for _, e := range es {
				if !in[e.to] {
					continue
				}
				d := getD(f)
				cf := carriersOf(f)
				construct, seen := siteSeen[e.call]
				if !seen {
					base := "recursive call " + cmpText(e.call.Fun)
					ord[f.Name+base]++
					construct = base
					if n := ord[f.Name+base]; n > 1 {
						construct = fmt.Sprintf("%s#%d", base, n)
					}
					siteSeen[e.call] = construct
					nSites++
				}
				g2 := e.to
				cg := carriersOf(g2)
				sig := g2.Obj.Type().(*types.Signature)
				var recvExpr ast.Expr
				if sel, ok := ast.Unparen(e.call.Fun).(*ast.SelectorExpr); ok && sig.Recv() != nil {
					recvExpr = sel.X
				}
				var ctor ast.Expr
				if recvExpr != nil {
					ctor = d.exprValue(recvExpr, 0)
				}
				byRole := map[role][]datom{}
				perCarrier := map[string][]datom{}
				unknownWhy := map[role]string{}
				present := map[role]bool{}
				for _, c := range cg {
					present[c.role] = true
					var atoms []datom
					if c.root == "recv" {
						switch {
						case recvExpr == nil:
							atoms = nil
						case ctor != nil && len(c.fields) == 1:
							if fa := fieldActual(d.funcOfNode(ctor).Info(), ctor, c.fields[0]); fa != nil {
								atoms = d.derive(fa, 0)
							} else {
								atoms = []datom{{leaf: true}}
							}
						default:
							atoms = d.derive(recvExpr, 0)
							for _, fld := range c.fields {
								atoms = selectField(atoms, seg{kind: segField, name: fld, pkg: g2.Pkg.PkgPath})
							}
						}
					} else {
						pname := c.root[2:]
						idx := -1
						for i := 0; i < sig.Params().Len(); i++ {
							if sig.Params().At(i).Name() == pname {
								idx = i
							}
						}
						if idx >= 0 && idx < len(e.call.Args) && !(sig.Variadic() && idx == sig.Params().Len()-1) {
							arg := e.call.Args[idx]
							if len(c.fields) == 0 {
								atoms = d.derive(arg, 0)
							} else {
								// a bundled field: read it from the literal that built the bundle when
								// that is visible, otherwise derive the bundle and step into the field
								src := ast.Unparen(arg)
								argFn := d.funcOfNode(e.call)
								if id, ok := src.(*ast.Ident); ok && argFn != nil {
									if def := argFn.SingleDef(argFn.Info().ObjectOf(id)); def != nil {
										src = ast.Unparen(def)
									}
								}
								if u, ok := src.(*ast.UnaryExpr); ok && u.Op == token.AND {
									src = ast.Unparen(u.X)
								}
								if cl, ok := src.(*ast.CompositeLit); ok && argFn != nil && len(c.fields) == 1 {
									if fa := fieldActual(argFn.Info(), cl, c.fields[0]); fa != nil {
										atoms = d.derive(fa, 0)
									} else {
										atoms = []datom{{leaf: true}}
									}
								} else {
									atoms = d.derive(arg, 0)
									for _, fld := range c.fields {
										if fld == "[]" {
											atoms = mapAtoms(atoms, seg{kind: segIndex})
										} else {
											atoms = selectField(atoms, seg{kind: segField, name: fld, pkg: g2.Pkg.PkgPath})
										}
									}
								}
							}
						}
					}
					if atoms == nil {
						unknownWhy[c.role] = "argument for " + c.String() + " of " + bareFuncName(g2) + " is not derivable"
					}
					byRole[c.role] = append(byRole[c.role], atoms...)
					perCarrier[c.String()] = atoms
				}
				if os.Getenv("HCLVERIF_TERMDEBUG") == "2" {
					for ro, as := range byRole {
						var ss []string
						for _, a := range as {
							ss = append(ss, a.String())
						}
						fmt.Printf("ATOMS %s -> %s @%s role=%s: %s\n", f.Name, g2.Name, p.Pos(e.call), ro, strings.Join(ss, " ; "))
					}
				}
				te := &termEdge{from: f, to: g2, call: e.call, rel: map[role]relKind{}, why: map[role]string{}, construct: construct, atomsOf: perCarrier}
				for _, ro := range []role{roleAST, roleCONS, roleOTHER} {
					switch {
					case !present[ro]:
						te.rel[ro] = relAbsent
					case unknownWhy[ro] != "":
						te.rel[ro], te.why[ro] = relUnknown, unknownWhy[ro]
					default:
						te.rel[ro], te.why[ro] = relate(byRole[ro], cf, ro)
					}
				}
				if why := flagFuel(p, d, e.call, recvExpr); why != "" {
					te.rel[roleAST] = relStrict
					te.why[roleAST] = why
				}
				if te.rel[roleAST] == relLeaf && leafIsSmaller(p, d, e.call) {
					te.rel[roleAST] = relStrict
					te.why[roleAST] = "fresh empty leaf while the caller's expression is a parsed node of another kind"
				}
				edges = append(edges, te)
			}
		}
		if os.Getenv("HCLVERIF_TERMDEBUG") != "" {
			for _, e := range edges {
				fmt.Printf("EDGE %s -> %s @%s  ast=%s cons=%s data=%s  %s | %s\n", e.from.Name, e.to.Name, p.Pos(e.call), e.rel[roleAST], e.rel[roleCONS], e.rel[roleOTHER], e.why[roleAST], e.why[roleCONS])
			}
		}
		// a self-recursive function may descend on one chosen parameter (its principal carrier)
		// while others are passed along: measure that parameter alone
		if len(comp) == 1 {
			f := comp[0]
			for _, ro := range []role{roleAST, roleCONS, roleOTHER} {
				allStrict := true
				for _, e := range edges {
					if e.rel[ro] != relStrict {
						allStrict = false
					}
				}
				if allStrict {
					continue
				}
				for _, c := range carriersOf(f) {
					if c.role != ro {
						continue
					}
					good := len(edges) > 0
					for _, e := range edges {
						at, have := e.atomsOf[c.String()]
						if !have || at == nil {
							good = false
							break
						}
						if k, _ := relate(at, []carrier{c}, ro); k != relStrict {
							good = false
							break
						}
					}
					if good {
						for _, e := range edges {
							e.rel[ro] = relStrict
							e.why[ro] = "measured on " + c.String()
						}
						break
					}
				}
			}
		}
		// lexicographic decomposition
		verdict := map[*termEdge]string{} // "" = fine
		okWhy := map[*termEdge]string{}
		var solve func(es []*termEdge, roles []role)
		solve = func(es []*termEdge, roles []role) {
			// restrict to edges on cycles
			adj := map[*Func][]*termEdge{}
			var ns []*Func
			seenN := map[*Func]bool{}
			for _, e := range es {
				adj[e.from] = append(adj[e.from], e)
				for _, v := range []*Func{e.from, e.to} {
					if !seenN[v] {
						seenN[v] = true
						ns = append(ns, v)
					}
				}
			}
			gg := map[*Func][]callEdge{}
			for _, e := range es {
				gg[e.from] = append(gg[e.from], callEdge{from: e.from, to: e.to})
			}
			for _, c := range sccs(ns, gg) {
				inC := map[*Func]bool{}
				for _, v := range c {
					inC[v] = true
				}
				var ces []*termEdge
				for _, e := range es {
					if inC[e.from] && inC[e.to] && (len(c) > 1 || e.from == e.to) {
						ces = append(ces, e)
					}
				}
				if len(ces) == 0 {
					continue
				}
				if len(roles) == 0 {
					for _, e := range ces {
						verdict[e] = "lies on a cycle of calls none of which passes a smaller argument"
					}
					continue
				}
				ro := roles[0]
				var rest []*termEdge
				bad := false
				for _, e := range ces {
					switch e.rel[ro] {
					case relUnknown:
						verdict[e] = ro.String() + " argument may grow: " + e.why[ro]
						bad = true
					case relStrict:
						if okWhy[e] == "" {
							okWhy[e] = ro.String() + " argument strictly smaller"
							if e.why[ro] != "" {
								okWhy[e] += " (" + e.why[ro] + ")"
							}
						}
					default:
						rest = append(rest, e)
					}
				}
				if bad {
					// keep analysing the rest so that all problems are reported
				}
				solve(rest, roles[1:])
			}
		}
		solve(edges, []role{roleAST, roleCONS, roleOTHER})
		// one obligation per call site
		type agg struct {
			f     *Func
			call  *ast.CallExpr
			cons  string
			bad   []string
			good  []string
			nTgts int
		}
		bySite := map[*ast.CallExpr]*agg{}
		var orderS []*ast.CallExpr
		for _, e := range edges {
			a := bySite[e.call]
			if a == nil {
				a = &agg{f: e.from, call: e.call, cons: e.construct}
				bySite[e.call] = a
				orderS = append(orderS, e.call)
			}
			a.nTgts++
			if v := verdict[e]; v != "" {
				a.bad = append(a.bad, bareFuncName(e.to)+": "+v)
			} else if w := okWhy[e]; w != "" {
				a.good = append(a.good, w)
			} else {
				a.good = append(a.good, fmt.Sprintf("not larger (syntax %s, schema/type %s, data %s) and on no cycle without a strictly descending call", e.rel[roleAST], e.rel[roleCONS], e.rel[roleOTHER]))
			}
		}
		for _, c := range orderS {
			a := bySite[c]
			if ex, ok := termExceptions[a.f.Name+"|"+lastSel(c.Fun)]; ok {
				r.Add("E14.descent", a.f.Name, a.cons, p.Pos(c), Excepted, ex, true)
				continue
			}
			if len(a.bad) > 0 {
				sort.Strings(a.bad)
				r.Add("E14.descent", a.f.Name, a.cons, p.Pos(c), Undecided, "no termination argument: "+strings.Join(dedup(a.bad), "; "), true)
			} else {
				sort.Strings(a.good)
				r.Add("E14.descent", a.f.Name, a.cons, p.Pos(c), OK, fmt.Sprintf("%d callee(s) in the cycle: %s", a.nTgts, strings.Join(dedup(a.good), "; ")), true)
			}
		}
	}
	// hcl-lang constructs no syntax nodes except the empty-expression leaf
	nLit := 0
	for _, fn := range p.Funcs {
		if fn.Body == nil || fn.Lit != nil {
			continue
		}
		info := fn.Info()
		ast.Inspect(fn.Body, func(n ast.Node) bool {
			cl, ok := n.(*ast.CompositeLit)
			if !ok {
				return true
			}
			nm := namedOf(info.TypeOf(cl))
			if nm == nil || nm.Obj().Pkg() == nil {
				return true
			}
			pth := nm.Obj().Pkg().Path()
			if !(strings.HasSuffix(pth, "hcl/v2/hclsyntax") || strings.HasSuffix(pth, "hcl/v2/json")) {
				if !(strings.HasSuffix(pth, "hashicorp/hcl/v2") && (nm.Obj().Name() == "Block" || nm.Obj().Name() == "Attribute" || nm.Obj().Name() == "BodyContent")) {
					return true
				}
			}
			nLit++
			if strings.HasSuffix(fn.Name, "decoder.newEmptyExpressionAtPos") {
				r.Add("E14.no-syntax-construction", fn.Name, exprStr(cl.Type), p.Pos(cl), OK, "the empty-expression leaf (no children)", true)
			} else {
				r.Add("E14.no-syntax-construction", fn.Name, exprStr(cl.Type), p.Pos(cl), Undecided, "hcl-lang builds a syntax node here: the premise 'a call returns no larger syntax than it was given' of the descent rule needs review", true)
			}
			return true
		})
	}
	// premise of the validationWalker exception
	for _, fn := range p.Funcs {
		if fn.Body == nil {
			continue
		}
		info := fn.Info()
		ast.Inspect(fn.Body, func(n ast.Node) bool {
			cl, ok := n.(*ast.CompositeLit)
			if !ok || !typeIs(info.TypeOf(cl), "hcl-lang/decoder", "validationWalker") {
				return true
			}
			par := p.Parent(cl)
			okp := false
			if c, ok := par.(*ast.CallExpr); ok {
				if f := calleeOf(info, c); f != nil && fname(f) == "Walk" {
					okp = true
				}
			}
			if as, isAs := par.(*ast.AssignStmt); isAs && len(as.Lhs) == 1 && len(as.Rhs) == 1 {
				// held in a local that is only ever passed as the walker argument of Walk
				if id, ok := ast.Unparen(as.Lhs[0]).(*ast.Ident); ok {
					if o := info.ObjectOf(id); o != nil && len(fn.Assignments(o)) == 1 {
						okp = true
						nUse := 0
						ast.Inspect(rootOf(fn).Body, func(z ast.Node) bool {
							uid, isId := z.(*ast.Ident)
							if !isId || info.Uses[uid] != o {
								return true
							}
							nUse++
							c, isCall := p.Parent(uid).(*ast.CallExpr)
							if !isCall {
								okp = false
								return true
							}
							if f := calleeOf(info, c); f == nil || fname(f) != "Walk" {
								okp = false
							}
							return true
						})
						if nUse == 0 {
							okp = false
						}
					}
				}
			}
			if _, isRet := par.(*ast.ReturnStmt); isRet && fn.Obj != nil {
				// a constructor: every call of it must itself be the walker argument of Walk
				sites := buildCallers(p)[fn.Obj]
				okp = len(sites) > 0
				for _, cs := range sites {
					pc, isCall := p.Parent(cs.call).(*ast.CallExpr)
					if !isCall {
						okp = false
						continue
					}
					if f := calleeOf(cs.fn.Info(), pc); f == nil || fname(f) != "Walk" {
						okp = false
					}
				}
			}
			if okp {
				r.Add("E14.walker-not-a-validator", fn.Name, "validationWalker{…}", p.Pos(cl), OK, "constructed only as the walker argument of walker.Walk", true)
			} else {
				r.Add("E14.walker-not-a-validator", fn.Name, "validationWalker{…}", p.Pos(cl), Undecided, "a validationWalker value is used other than as the walker of walker.Walk: it could end up among the validators it iterates", true)
			}
			return true
		})
	}
	runLoopProgress(p, r)
	r.Assume("termination: syntax trees, schemas (constraints, body/block schemas) and cty types are finite trees; hcl-lang builds no syntax node except the childless empty-expression leaf (checked); a call returns no syntax that was not inside its syntax arguments; third-party functions and user hooks terminate; interface calls are resolved to all implementers in the module (refined by the constructed receiver type where it is visible)")
	r.Counts["E14.recursive-components"] = nSCC
	r.Counts["E14.recursive-call-sites"] = nSites
	r.ExpectMin("E14.recursive-components", nSCC, 25)
	r.ExpectMin("E14.syntax-literals", nLit, 1)
	r.Clauses = append(r.Clauses, "E14 termination: in every recursive component of the module's call graph (static calls + interface dispatch to all implementers, refined by the constructed receiver type) the calls are ordered lexicographically by (syntax tree, schema/type, data): after removing the calls that pass a strictly smaller syntax argument no call may pass a possibly larger one, the remaining cycles must descend in schema/type size (cty constructors, then schema constructors), and so on; a fresh empty-expression leaf is smaller than any parsed node of another kind; hcl-lang builds no syntax nodes other than that leaf; the two non-range loops advance by at least one byte per iteration")
}

var termExceptions = map[string]string{
	"decoder.validationWalker.Visit|Visit": "interface dispatch over-approximation: vw.validators holds the validators of PathContext.Validators (package validator and user-supplied ones); validationWalker is unexported, implements validator.Validator only by coincidence of signature and is constructed solely as the walker argument of walker.Walk (premise re-checked: E14.walker-not-a-validator)",
}

// runLoopProgress: every `for cond {}` loop (non-range) has a loop variable compared with a
// bound in cond, stepped towards the bound by a provably positive amount at the top level of
// the body; `for {}` without condition is not accepted.
func runLoopProgress(p *Prog, r *Report) {
	callers := buildCallers(p)
	n := 0
	for _, fn := range p.Funcs {
		if fn.Body == nil {
			continue
		}
		info := fn.Info()
		ast.Inspect(fn.Body, func(m ast.Node) bool {
			if lit, ok := m.(*ast.FuncLit); ok && lit != fn.Lit {
				return false
			}
			fs, ok := m.(*ast.ForStmt)
			if !ok {
				return true
			}
			n++
			construct := "for " + exprStrOrEmpty(fs.Cond)
			if fs.Cond == nil {
				if why := treeDescentLoop(p, fn, fs); why != "" {
					r.Add("E14.loop-progress", fn.Name, construct, p.Pos(fs), OK, why, true)
					return true
				}
				r.Add("E14.loop-progress", fn.Name, construct, p.Pos(fs), Undecided, "loop without a condition", true)
				return true
			}
			// each conjunct `v <op> bound` with a plain variable on the left ends the loop when it
			// fails: one of them with a progress argument is enough
			try := func(skip int) (Status, string) {
				seen := 0
				var be *ast.BinaryExpr
				var id *ast.Ident
				var conj func(e ast.Expr)
				conj = func(e ast.Expr) {
					b, ok := ast.Unparen(e).(*ast.BinaryExpr)
					if !ok || be != nil {
						return
					}
					_ = skip
					if b.Op == token.LAND {
						conj(b.X)
						conj(b.Y)
						return
					}
					switch b.Op {
					case token.LSS, token.LEQ, token.GTR, token.GEQ:
						if i, ok := ast.Unparen(b.X).(*ast.Ident); ok {
							if seen == skip {
								be, id = b, i
							}
							seen++
						}
					}
				}
				conj(fs.Cond)
				if be == nil {
					if why := treeDescentLoop(p, fn, fs); why != "" {
						return OK, why
					}
					return Undecided, "loop condition does not compare a variable with a bound"
				}
				o := info.ObjectOf(id)
				down := be.Op.String() == ">" || be.Op.String() == ">="
				up := be.Op.String() == "<" || be.Op.String() == "<="
				var steps []*ast.AssignStmt
				other := false
				var post ast.Stmt = fs.Post
				check := func(s ast.Stmt, top bool) {
					switch s := s.(type) {
					case *ast.AssignStmt:
						for _, l := range s.Lhs {
							if lid, ok := ast.Unparen(l).(*ast.Ident); ok && info.ObjectOf(lid) == o {
								if top && ((down && s.Tok.String() == "-=") || (up && s.Tok.String() == "+=")) {
									steps = append(steps, s)
								} else {
									other = true
								}
							}
						}
					case *ast.IncDecStmt:
						if lid, ok := ast.Unparen(s.X).(*ast.Ident); ok && info.ObjectOf(lid) == o {
							if top && ((down && s.Tok.String() == "--") || (up && s.Tok.String() == "++")) {
								steps = append(steps, &ast.AssignStmt{Lhs: []ast.Expr{s.X}, Rhs: []ast.Expr{mkInt(1)}})
							} else {
								other = true
							}
						}
					}
				}
				for _, s := range fs.Body.List {
					check(s, true)
					// nested assignments
					ast.Inspect(s, func(k ast.Node) bool {
						if k == ast.Node(s) {
							return true
						}
						if st, ok := k.(ast.Stmt); ok {
							check(st, false)
						}
						return true
					})
				}
				nBody := len(steps)
				if post != nil {
					check(post, true)
				}
				stepInPost := len(steps) == 1 && nBody == 0
				// the step must be the last top-level statement (every iteration that does not leave reaches it)
				if len(steps) != 1 || other {
					return Undecided, "no single unconditional step of the loop variable towards its bound"
				}
				st := steps[0]
				if stepInPost {
					if _, isInc := post.(*ast.IncDecStmt); isInc {
						return OK, "the post statement moves the loop variable towards its bound by 1 on every iteration (continue included)"
					}
				}
				if st.Pos().IsValid() {
					// continue statements before the step would skip it
					skip := false
					for _, s := range fs.Body.List {
						if s == ast.Stmt(st) {
							break
						}
						ast.Inspect(s, func(k ast.Node) bool {
							if _, isLoop := k.(*ast.ForStmt); isLoop {
								return false
							}
							if _, isLoop := k.(*ast.RangeStmt); isLoop {
								return false
							}
							if b, ok := k.(*ast.BranchStmt); ok && b.Tok.String() == "continue" {
								skip = true
							}
							return true
						})
					}
					if skip && !stepInPost {
						return Undecided, "a continue can skip the step of the loop variable"
					}
					ip := &idxProver{p: p, callers: callers, unsigned: map[string]bool{}, visiting: map[string]bool{}, fcName: map[string]string{}}
					goalE := &ast.BinaryExpr{X: mkInt(1), Op: token.LEQ, Y: st.Rhs[0]}
					ok, why := ip.prove(fn, st, []goal{{goalE, "1 <= " + exprStr(st.Rhs[0])}}, 0)
					if !ok {
						// step is the size of a rune decoded from a slice that is non-empty here:
						// utf8.Decode* returns size >= 1 for non-empty input
						if sid, isId := ast.Unparen(st.Rhs[0]).(*ast.Ident); isId {
							so := info.ObjectOf(sid)
							if as := fn.Assignments(so); len(as) == 1 {
								if def, isA := as[0].(*ast.AssignStmt); isA && len(def.Lhs) == 2 && len(def.Rhs) == 1 && isIdentObj(info, def.Lhs[1], so) {
									if c, isC := ast.Unparen(def.Rhs[0]).(*ast.CallExpr); isC && strings.HasPrefix(calleeFull(info, c), "unicode/utf8.Decode") && len(c.Args) == 1 && nodeContains(fs.Body, def) {
										g2 := &ast.BinaryExpr{X: mkInt(1), Op: token.LEQ, Y: mkLen(c.Args[0])}
										ok2, why2 := ip.prove(fn, def, []goal{{g2, "1 <= len(" + exprStr(c.Args[0]) + ")"}}, 0)
										if ok2 {
											ok, why = true, ""
											return OK, "the loop variable moves towards its bound by the size of a rune decoded from the non-empty slice " + exprStr(c.Args[0]) + " (>= 1 byte) on every iteration"
										}
										why = why2
									}
								}
							}
						}
					}
					if ok {
						return OK, "the loop variable moves towards its bound by " + exprStr(st.Rhs[0]) + " >= 1 on every iteration"
					} else {
						return Undecided, "step " + exprStr(st.Rhs[0]) + " not proved positive: " + why
					}
				} else {
					return OK, "the loop variable moves towards its bound by 1 on every iteration"
				}
			}
			var first *[2]interface{}
			decided := false
			for k := 0; k < 4 && !decided; k++ {
				st, msg := try(k)
				if st == OK {
					r.Add("E14.loop-progress", fn.Name, construct, p.Pos(fs), OK, msg, true)
					decided = true
					break
				}
				if first == nil {
					first = &[2]interface{}{st, msg}
				}
				if msg == "loop condition does not compare a variable with a bound" {
					break // no further conjunct
				}
			}
			if !decided && first != nil {
				r.Add("E14.loop-progress", fn.Name, construct, p.Pos(fs), first[0].(Status), first[1].(string), true)
			}
			return true
		})
	}
	r.Counts["E14.for-loops"] = n
	r.ExpectMin("E14.for-loops", n, 1)
}

func exprStrOrEmpty(e ast.Expr) string {
	if e == nil {
		return ""
	}
	return exprStr(e)
}

func recvObj(fn *Func) *types.Var {
	if fn.Obj == nil {
		return nil
	}
	if sig, ok := fn.Obj.Type().(*types.Signature); ok {
		return sig.Recv()
	}
	return nil
}

// viaSummary: atoms of the result of a call to a module function, obtained by deriving the
// function's returned expressions in terms of its own parameters and substituting the actuals.
func (d *deriver) viaSummary(callee *Func, call *ast.CallExpr, hasRecv bool, depth int) ([]datom, bool) {
	sd := newDeriver(d.p, callee)
	sd.summarising = d.summarising
	d.summarising[callee] = true
	defer delete(d.summarising, callee)
	var res []datom
	okAll := true
	found := false
	ast.Inspect(callee.Body, func(n ast.Node) bool {
		if _, isLit := n.(*ast.FuncLit); isLit {
			return false
		}
		rs, ok := n.(*ast.ReturnStmt)
		if !ok || !okAll {
			return okAll
		}
		if len(rs.Results) == 0 {
			okAll = false // named results: not handled
			return false
		}
		found = true
		a := sd.derive(rs.Results[0], depth+1)
		if a == nil {
			okAll = false
			return false
		}
		res = append(res, a...)
		return true
	})
	if !okAll || !found {
		return nil, false
	}
	// substitute
	sig := callee.Obj.Type().(*types.Signature)
	actual := map[string][]datom{}
	if hasRecv {
		if sel, ok := ast.Unparen(call.Fun).(*ast.SelectorExpr); ok {
			actual["recv"] = d.derive(sel.X, depth+1)
		}
	}
	for i := 0; i < sig.Params().Len() && i < len(call.Args); i++ {
		if sig.Variadic() && i == sig.Params().Len()-1 {
			break
		}
		actual["p:"+sig.Params().At(i).Name()] = nil
	}
	var out []datom
	cache := map[string][]datom{}
	for _, a := range res {
		if a.leaf {
			out = append(out, a)
			continue
		}
		base, have := cache[a.root]
		if !have {
			if a.root == "recv" {
				base = actual["recv"]
			} else {
				for i := 0; i < sig.Params().Len() && i < len(call.Args); i++ {
					if "p:"+sig.Params().At(i).Name() == a.root {
						base = d.derive(call.Args[i], depth+1)
					}
				}
			}
			cache[a.root] = base
		}
		if base == nil {
			return nil, false
		}
		for _, b := range base {
			if b.leaf {
				out = append(out, b)
				continue
			}
			nb := datom{root: b.root, segs: append(append([]seg{}, b.segs...), a.segs...)}
			out = append(out, nb)
		}
	}
	if len(out) == 0 {
		out = []datom{{leaf: true}}
	}
	return out, true
}

func namedCollPkg(t types.Type) string {
	if t == nil {
		return ""
	}
	if n, ok := t.(*types.Named); ok && n.Obj().Pkg() != nil {
		switch n.Underlying().(type) {
		case *types.Slice, *types.Map:
			return n.Obj().Pkg().Path()
		}
	}
	return ""
}

// ctorTypeFor: the decoder expression type newExpression constructs for a constraint of the
// given static type (nil if unknown / interface-typed).
func ctorTypeFor(p *Prog, consType types.Type) *types.Named {
	if consType == nil {
		return nil
	}
	if _, isI := consType.Underlying().(*types.Interface); isI {
		return nil
	}
	ne := p.FindFunc("decoder.newExpression")
	if ne == nil {
		return nil
	}
	info := ne.Info()
	var out *types.Named
	ast.Inspect(ne.Body, func(n ast.Node) bool {
		ts, ok := n.(*ast.TypeSwitchStmt)
		if !ok {
			return true
		}
		for _, c := range ts.Body.List {
			cc := c.(*ast.CaseClause)
			for _, t := range cc.List {
				if tt := info.TypeOf(t); tt != nil && types.Identical(tt, consType) {
					for _, st := range cc.Body {
						if rs, ok := st.(*ast.ReturnStmt); ok && len(rs.Results) == 1 {
							if cl, ok := ast.Unparen(rs.Results[0]).(*ast.CompositeLit); ok {
								out = namedOf(info.TypeOf(cl))
							}
						}
					}
				}
			}
		}
		return false
	})
	return out
}

// mayCarry: can a value of this type contain syntax / schema / data of the carrier roles?
func mayCarry(t types.Type) bool {
	if roleOfType(t) != roleNone {
		return true
	}
	switch u := t.Underlying().(type) {
	case *types.Basic:
		return false
	case *types.Pointer:
		return mayCarry(u.Elem())
	case *types.Slice:
		return mayCarry(u.Elem())
	case *types.Map:
		return mayCarry(u.Elem())
	case *types.Signature, *types.Chan:
		return false
	case *types.Struct:
		if n := namedOf(t); n != nil && n.Obj().Pkg() != nil {
			pth := n.Obj().Pkg().Path()
			if strings.HasSuffix(pth, "hashicorp/hcl/v2") { // Pos, Range, Diagnostics …
				return false
			}
			if !isModuleType(t) {
				return false
			}
			switch n.Obj().Name() {
			case "PathContext", "PathDecoder", "Decoder", "DecoderContext", "Path":
				return false
			}
		}
		for i := 0; i < u.NumFields(); i++ {
			if ft := u.Field(i).Type(); ft != t && roleOfType(ft) != roleNone {
				return true
			}
		}
		return false
	case *types.Interface:
		return isModuleType(t)
	}
	return false
}

// flagFuel: one-shot recursion. The call is dominated by `!R.f` on the caller's receiver R and
// the callee's receiver M (a local) had `M.f = true` stored before the call on every path:
// the callee cannot take this branch again, so the recursion depth through this call is 1.
func flagFuel(p *Prog, d *deriver, call *ast.CallExpr, recvExpr ast.Expr) string {
	if recvExpr == nil || d.recv == nil {
		return ""
	}
	fn := d.funcOfNode(call)
	info := fn.Info()
	mid, ok := ast.Unparen(recvExpr).(*ast.Ident)
	if ok {
		// M := R.h(…); M.Method(…): the same, with the helper's result kept in a local first
		if mo := info.ObjectOf(mid); mo != nil && len(fn.Assignments(mo)) == 1 {
			if def := fn.SingleDef(mo); def != nil {
				if _, isCall := ast.Unparen(def).(*ast.CallExpr); isCall {
					if _, isConv := info.Types[ast.Unparen(def).(*ast.CallExpr).Fun]; !isConv || !info.Types[ast.Unparen(def).(*ast.CallExpr).Fun].IsType() {
						if why := flagFuel(p, d, call, def); why != "" {
							return why
						}
					}
				}
			}
		}
	}
	if !ok {
		// the callee's receiver is built by a helper of the module: R.h(…).Method(…); every
		// value the helper returns must have the flag stored as true before the return
		hc, isCall := ast.Unparen(recvExpr).(*ast.CallExpr)
		if !isCall {
			return ""
		}
		hf := calleeOf(info, hc)
		if hf == nil {
			return ""
		}
		ht := p.FuncOf[hf]
		if ht == nil || ht.Body == nil {
			return ""
		}
		for _, a := range fn.GuardsAt(call).Atoms() {
			if a.E == nil || a.Pol {
				continue
			}
			sel, ok := ast.Unparen(a.E).(*ast.SelectorExpr)
			if !ok {
				continue
			}
			rid, ok := ast.Unparen(sel.X).(*ast.Ident)
			if !ok || info.ObjectOf(rid) != d.recv {
				continue
			}
			if bt, ok := info.TypeOf(sel).Underlying().(*types.Basic); !ok || bt.Kind() != types.Bool {
				continue
			}
			hinfo := ht.Info()
			nRet, good := 0, true
			ast.Inspect(ht.Body, func(n ast.Node) bool {
				if _, isLit := n.(*ast.FuncLit); isLit {
					return false
				}
				ret, ok := n.(*ast.ReturnStmt)
				if !ok {
					return true
				}
				nRet++
				if len(ret.Results) != 1 {
					good = false
					return true
				}
				vid, ok := ast.Unparen(ret.Results[0]).(*ast.Ident)
				if !ok {
					good = false
					return true
				}
				vo := hinfo.ObjectOf(vid)
				set := false
				ast.Inspect(ht.Body, func(m ast.Node) bool {
					as, ok := m.(*ast.AssignStmt)
					if !ok || len(as.Lhs) != 1 || len(as.Rhs) != 1 {
						return true
					}
					ls, ok := ast.Unparen(as.Lhs[0]).(*ast.SelectorExpr)
					if !ok || ls.Sel.Name != sel.Sel.Name {
						return true
					}
					if lid, ok := ast.Unparen(ls.X).(*ast.Ident); !ok || hinfo.ObjectOf(lid) != vo {
						return true
					}
					if v, ok := ast.Unparen(as.Rhs[0]).(*ast.Ident); ok && v.Name == "true" && ht.Dominates(as, ret) {
						set = true
					} else {
						good = false // the flag is also stored otherwise
					}
					return true
				})
				if !set {
					// or the value is born with the flag: v := T{…, f: true}
					if def := ht.SingleDef(vo); def != nil {
						d0 := ast.Unparen(def)
						if u, ok := d0.(*ast.UnaryExpr); ok && u.Op == token.AND {
							d0 = ast.Unparen(u.X)
						}
						if cl, ok := d0.(*ast.CompositeLit); ok {
							if fv := litField(cl, sel.Sel.Name); fv != nil {
								if v, ok := ast.Unparen(fv).(*ast.Ident); ok && v.Name == "true" {
									set = true
								}
							}
						}
					}
				}
				if !set || len(ht.Assignments(vo)) > 1 {
					good = false
				}
				return true
			})
			if good && nRet > 0 {
				return "one-shot recursion: guarded by !" + exprStr(a.E) + " and " + bareFuncName(ht) + " returns a receiver with " + sel.Sel.Name + " = true"
			}
		}
		return ""
	}
	mobj := info.ObjectOf(mid)
	for _, a := range fn.GuardsAt(call).Atoms() {
		if a.E == nil || a.Pol {
			continue
		}
		sel, ok := ast.Unparen(a.E).(*ast.SelectorExpr)
		if !ok {
			continue
		}
		rid, ok := ast.Unparen(sel.X).(*ast.Ident)
		if !ok || info.ObjectOf(rid) != d.recv {
			continue
		}
		if bt, ok := info.TypeOf(sel).Underlying().(*types.Basic); !ok || bt.Kind() != types.Bool {
			continue
		}
		// M.f = true dominating the call, M not reassigned in between
		found := false
		ast.Inspect(fn.Body, func(n ast.Node) bool {
			as, ok := n.(*ast.AssignStmt)
			if !ok || len(as.Lhs) != 1 || len(as.Rhs) != 1 {
				return true
			}
			ls, ok := ast.Unparen(as.Lhs[0]).(*ast.SelectorExpr)
			if !ok || ls.Sel.Name != sel.Sel.Name {
				return true
			}
			lid, ok := ast.Unparen(ls.X).(*ast.Ident)
			if !ok || info.ObjectOf(lid) != mobj {
				return true
			}
			if v, ok := ast.Unparen(as.Rhs[0]).(*ast.Ident); ok && v.Name == "true" && fn.Dominates(as, call) {
				found = true
			}
			return true
		})
		// the flag is only ever set to true (never reset) in the module
		if found && len(fn.Assignments(mobj)) == 1 {
			return "one-shot recursion: guarded by !" + exprStr(a.E) + " and the callee's receiver has " + sel.Sel.Name + " = true"
		}
	}
	return ""
}

// closureParam: o is a parameter of a local closure that is bound once to a name and only
// ever called by that name: it carries what the call sites pass for it.
func (d *deriver) closureParam(fn *Func, o types.Object, depth int) ([]datom, bool) {
	for f := fn; f != nil; f = f.Parent {
		if f.Lit == nil || f.Parent == nil {
			continue
		}
		info := f.Info()
		k, idx := 0, -1
		for _, fld := range f.Lit.Type.Params.List {
			for _, nm := range fld.Names {
				if info.ObjectOf(nm) == o {
					idx = k
				}
				k++
			}
		}
		if idx < 0 {
			continue
		}
		as, ok := f.Prog.parents[f.Lit].(*ast.AssignStmt)
		if !ok || as.Tok != token.DEFINE || len(as.Lhs) != 1 || len(as.Rhs) != 1 {
			return nil, true
		}
		nid, ok := as.Lhs[0].(*ast.Ident)
		if !ok {
			return nil, true
		}
		no := info.ObjectOf(nid)
		root := rootFunc(f)
		if no == nil || len(root.Assignments(no)) != 1 {
			return nil, true
		}
		var out []datom
		okAll, n := true, 0
		ast.Inspect(root.Body, func(z ast.Node) bool {
			u, isId := z.(*ast.Ident)
			if !isId || u == nid || info.ObjectOf(u) != no {
				return true
			}
			call, isCall := f.Prog.parents[u].(*ast.CallExpr)
			if !isCall || call.Fun != ast.Expr(u) || idx >= len(call.Args) {
				okAll = false
				return true
			}
			n++
			r := d.derive(call.Args[idx], depth+1)
			if r == nil {
				okAll = false
				return true
			}
			out = append(out, r...)
			return true
		})
		if !okAll || n == 0 {
			return nil, true
		}
		return out, true
	}
	return nil, false
}

// interfaceGetter: f is a method of an interface declared in the module, at least one type
// of the module implements it, and every such implementation's body is `return recv.<field>`.
func (d *deriver) interfaceGetter(f *types.Func) bool {
	sig, ok := f.Type().(*types.Signature)
	if !ok || sig.Recv() == nil || f.Pkg() == nil || !strings.HasPrefix(f.Pkg().Path(), modPath) {
		return false
	}
	iface, ok := sig.Recv().Type().Underlying().(*types.Interface)
	if !ok {
		return false
	}
	n := 0
	for _, g := range d.p.Funcs {
		if g.Decl == nil || g.Decl.Recv == nil || g.Obj == nil || g.Obj.Name() != f.Name() || g.Body == nil {
			continue
		}
		gs := g.Obj.Type().(*types.Signature)
		if gs.Recv() == nil {
			continue
		}
		rt := gs.Recv().Type()
		if !types.Implements(rt, iface) {
			if _, isPtr := rt.(*types.Pointer); isPtr || !types.Implements(types.NewPointer(rt), iface) {
				continue
			}
		}
		n++
		if len(g.Body.List) != 1 || len(g.Decl.Recv.List) != 1 || len(g.Decl.Recv.List[0].Names) != 1 {
			return false
		}
		ret, ok := g.Body.List[0].(*ast.ReturnStmt)
		if !ok || len(ret.Results) != 1 {
			return false
		}
		sel, ok := ast.Unparen(ret.Results[0]).(*ast.SelectorExpr)
		if !ok {
			return false
		}
		id, ok := ast.Unparen(sel.X).(*ast.Ident)
		if !ok || g.Info().ObjectOf(id) != g.Info().ObjectOf(g.Decl.Recv.List[0].Names[0]) {
			return false
		}
	}
	return n > 0
}

// treeDescentLoop: a condition-less loop that walks down a finite tree:
//
//	for { x := pick(cur, …); if x == nil { break }; …; cur = x.Children() }
//
// The loop-carried variable cur has exactly one assignment inside the loop, a top-level
// statement of the body with no continue before it; its right-hand side is a component
// (a field, or a getter of a module interface that returns a field) of a local x that is
// defined in the body as an element of cur (cur[i], a range value over cur, or the result of
// a module function every non-nil result of which is an element of the slice it was handed
// cur for); and the body leaves the loop when x is nil. Each iteration therefore replaces
// cur by the children of one of its elements: the depth of the (finite, acyclic) tree bounds
// the number of iterations.
func treeDescentLoop(p *Prog, fn *Func, fs *ast.ForStmt) string {
	info := fn.Info()
	d := newDeriver(p, rootFunc(fn))
	for si, st := range fs.Body.List {
		as, ok := st.(*ast.AssignStmt)
		if !ok || as.Tok != token.ASSIGN || len(as.Lhs) != 1 || len(as.Rhs) != 1 {
			continue
		}
		cid, ok := as.Lhs[0].(*ast.Ident)
		if !ok {
			continue
		}
		cur := info.ObjectOf(cid)
		if cur == nil || roleOfType(cur.Type()) == roleNone {
			continue // only the finite trees of the data model (syntax, schema, targets, symbols)
		}
		// the only assignment of cur inside the loop
		n := 0
		for _, a := range fn.Assignments(cur) {
			if nodeContains(fs.Body, a) {
				n++
			}
		}
		if n != 1 {
			continue
		}
		// no continue before it
		skip := false
		for _, prev := range fs.Body.List[:si] {
			ast.Inspect(prev, func(k ast.Node) bool {
				switch y := k.(type) {
				case *ast.ForStmt, *ast.RangeStmt, *ast.FuncLit:
					return false
				case *ast.BranchStmt:
					if y.Tok == token.CONTINUE {
						skip = true
					}
				}
				return true
			})
		}
		if skip {
			continue
		}
		// rhs: a component of x
		var xid *ast.Ident
		switch r := ast.Unparen(as.Rhs[0]).(type) {
		case *ast.SelectorExpr:
			if sel, isField := info.Selections[r]; isField && sel.Kind() == types.FieldVal {
				xid, _ = ast.Unparen(r.X).(*ast.Ident)
			}
		case *ast.CallExpr:
			if sel, ok := ast.Unparen(r.Fun).(*ast.SelectorExpr); ok && len(r.Args) == 0 {
				if f := calleeOf(info, r); f != nil && d.interfaceGetter(f) {
					xid, _ = ast.Unparen(sel.X).(*ast.Ident)
				}
			}
		}
		if xid == nil {
			continue
		}
		xo := info.ObjectOf(xid)
		if xo == nil || !(xo.Pos() > fs.Body.Pos() && xo.Pos() < fs.Body.End()) {
			continue
		}
		def := fn.SingleDef(xo)
		if def == nil {
			continue
		}
		elem := false
		switch y := ast.Unparen(def).(type) {
		case *ast.IndexExpr:
			elem = isIdentObj(info, y.X, cur)
		case *ast.CallExpr:
			if f := calleeOf(info, y); f != nil {
				if t := p.FuncOf[f]; t != nil && t.Body != nil {
					for ai, a := range y.Args {
						if isIdentObj(info, a, cur) && returnsElementOfParam(t, ai) {
							elem = true
						}
					}
				}
			}
		}
		if !elem {
			continue
		}
		// the loop is left when x is nil
		leaves := false
		for _, prev := range fs.Body.List[:si] {
			ifs, ok := prev.(*ast.IfStmt)
			if !ok || len(ifs.Body.List) == 0 {
				continue
			}
			be, ok := ast.Unparen(ifs.Cond).(*ast.BinaryExpr)
			if !ok || be.Op != token.EQL || !(isNilIdent(info, be.Y) && isIdentObj(info, be.X, xo) || isNilIdent(info, be.X) && isIdentObj(info, be.Y, xo)) {
				continue
			}
			switch l := ifs.Body.List[len(ifs.Body.List)-1].(type) {
			case *ast.BranchStmt:
				leaves = l.Tok == token.BREAK && l.Label == nil
			case *ast.ReturnStmt:
				leaves = true
			}
		}
		if leaves {
			return "every iteration replaces " + cid.Name + " by a component of one of its own elements (" + exprStr(as.Rhs[0]) + ") and the loop is left when no element is found: bounded by the depth of the tree"
		}
	}
	return ""
}

// returnsElementOfParam: every result 0 of t is nil, an element of parameter idx (p[i], the
// value variable of a range over p), or a local every definition of which is one of these.
func returnsElementOfParam(t *Func, idx int) bool {
	sig, ok := t.Obj.Type().(*types.Signature)
	if t.Obj == nil || !ok || idx >= sig.Params().Len() {
		return false
	}
	po := sig.Params().At(idx)
	info := t.Info()
	if len(t.Assignments(po)) != 0 {
		return false
	}
	var isElem func(e ast.Expr, depth int) bool
	isElem = func(e ast.Expr, depth int) bool {
		if depth > 3 {
			return false
		}
		e = ast.Unparen(e)
		if isNilIdent(info, e) {
			return true
		}
		switch y := e.(type) {
		case *ast.IndexExpr:
			return isIdentObj(info, y.X, po)
		case *ast.Ident:
			o := info.ObjectOf(y)
			if o == nil {
				return false
			}
			as := t.Assignments(o)
			if len(as) == 0 {
				return false
			}
			for _, a := range as {
				switch s := a.(type) {
				case *ast.RangeStmt:
					// over the parameter itself or over a collection field of it (p.Blocks)
					root, _ := pathSteps(s.X)
					if vid, ok := s.Value.(*ast.Ident); !ok || info.ObjectOf(vid) != o || root == nil || info.ObjectOf(root) != po {
						return false
					}
				case *ast.ValueSpec:
					if len(s.Values) != 0 {
						return false
					}
				case *ast.AssignStmt:
					if len(s.Lhs) != len(s.Rhs) {
						return false
					}
					for i, l := range s.Lhs {
						if isIdentObj(info, l, o) && !isElem(s.Rhs[i], depth+1) {
							return false
						}
					}
				default:
					return false
				}
			}
			return true
		}
		return false
	}
	n, good := 0, true
	ast.Inspect(t.Body, func(k ast.Node) bool {
		if _, isLit := k.(*ast.FuncLit); isLit {
			return false
		}
		ret, ok := k.(*ast.ReturnStmt)
		if !ok {
			return true
		}
		n++
		if len(ret.Results) < 1 || !isElem(ret.Results[0], 0) {
			good = false
		}
		return true
	})
	return n > 0 && good
}
