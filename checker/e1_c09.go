package main

// C09 structural rules over the TargetContext threading in package decoder.
//
//  E9.ctx-field-agreement   every reference.Target literal built from a *TargetContext takes
//                           Addr/LocalAddr/TargetableFromRangePtr/ScopeId/DefRangePtr from the
//                           same context's corresponding field and its RangePtr from the
//                           context's ParentRangePtr (falling back to the expression's range)
//  E9.child-context         a child context is a Copy() of the parent, extended by exactly one
//                           step on every path; ParentAddress and ParentLocalAddress get the
//                           same step; the step's key is the loop's own index/key
//  E9.element-range-source  a child context's range/def-range derive from the element itself
//                           (the loop variable) through selectors and pure range methods only
//  E9.range-pointer-alias   no store through a *hcl.Range that was copied from another
//                           target's range pointer (the store changes both declarations' ranges)

import (
	"fmt"
	"go/ast"
	"go/token"
	"go/types"
	"sort"
	"strings"

	"golang.org/x/tools/go/cfg"
)

var ctxFieldMap = [][2]string{
	{"Addr", "ParentAddress"},
	{"LocalAddr", "ParentLocalAddress"},
	{"TargetableFromRangePtr", "TargetableFromRangePtr"},
	{"ScopeId", "ScopeId"},
	{"DefRangePtr", "ParentDefRangePtr"},
}

func isTargetCtxPtr(t types.Type) bool {
	if pt, ok := t.(*types.Pointer); ok {
		return typeIs(pt.Elem(), "hcl-lang/decoder", "TargetContext")
	}
	return false
}

func isHclRangePtr(t types.Type) bool {
	if pt, ok := t.(*types.Pointer); ok {
		return typeIs(pt.Elem(), "hcl/v2", "Range")
	}
	return false
}

// ctxVarIn returns the *TargetContext variable mentioned in e ("" if none / several).
func ctxVarsIn(info *types.Info, e ast.Node) map[types.Object]string {
	out := map[types.Object]string{}
	ast.Inspect(e, func(n ast.Node) bool {
		if id, ok := n.(*ast.Ident); ok {
			if o := info.ObjectOf(id); o != nil {
				if v, ok := o.(*types.Var); ok && isTargetCtxPtr(v.Type()) {
					out[o] = id.Name
				}
			}
		}
		return true
	})
	return out
}

// defsOfIdent returns the RHS expressions of all assignments to the local variable obj in fn
// (nil entry for a declaration without value).
func defsOfIdent(fn *Func, obj types.Object) []ast.Expr {
	var out []ast.Expr
	info := fn.Info()
	for _, a := range fn.Assignments(obj) {
		switch s := a.(type) {
		case *ast.AssignStmt:
			if len(s.Lhs) == len(s.Rhs) {
				for i, l := range s.Lhs {
					if id, ok := ast.Unparen(l).(*ast.Ident); ok && info.ObjectOf(id) == obj {
						out = append(out, s.Rhs[i])
					}
				}
			} else {
				out = append(out, s.Rhs[0])
			}
		case *ast.ValueSpec:
			if len(s.Values) == len(s.Names) {
				for i, id := range s.Names {
					if info.ObjectOf(id) == obj {
						out = append(out, s.Values[i])
					}
				}
			} else {
				out = append(out, nil)
			}
		case *ast.RangeStmt:
			out = append(out, s.X)
		default:
			out = append(out, nil)
		}
	}
	return out
}

func enclosingRanges(p *Prog, n ast.Node, stop ast.Node) []*ast.RangeStmt {
	var out []*ast.RangeStmt
	for cur := p.Parent(n); cur != nil && cur != stop; cur = p.Parent(cur) {
		if rs, ok := cur.(*ast.RangeStmt); ok {
			out = append(out, rs)
		}
		// `for i := 0; i < len(xs); i++` is read as `for i := range xs`
		if fs, ok := cur.(*ast.ForStmt); ok {
			if rs := countingAsRange(fs); rs != nil {
				out = append(out, rs)
			}
		}
	}
	return out
}

var countingRangeCache = map[*ast.ForStmt]*ast.RangeStmt{}

// countingAsRange: the range statement a counting loop over len(xs) abbreviates (key = the
// counter, X = xs, same body), or nil.
func countingAsRange(fs *ast.ForStmt) *ast.RangeStmt {
	if rs, ok := countingRangeCache[fs]; ok {
		return rs
	}
	var res *ast.RangeStmt
	defer func() { countingRangeCache[fs] = res }()
	init, ok := fs.Init.(*ast.AssignStmt)
	if !ok || init.Tok != token.DEFINE || len(init.Lhs) != 1 || len(init.Rhs) != 1 {
		return nil
	}
	iv, ok := init.Lhs[0].(*ast.Ident)
	if !ok {
		return nil
	}
	if lit, ok := ast.Unparen(init.Rhs[0]).(*ast.BasicLit); !ok || lit.Value != "0" {
		return nil
	}
	post, ok := fs.Post.(*ast.IncDecStmt)
	if !ok || post.Tok != token.INC {
		return nil
	}
	if pid, ok := ast.Unparen(post.X).(*ast.Ident); !ok || pid.Name != iv.Name {
		return nil
	}
	be, ok := ast.Unparen(fs.Cond).(*ast.BinaryExpr)
	if !ok || be.Op != token.LSS {
		return nil
	}
	if cid, ok := ast.Unparen(be.X).(*ast.Ident); !ok || cid.Name != iv.Name {
		return nil
	}
	call, ok := ast.Unparen(be.Y).(*ast.CallExpr)
	if !ok || len(call.Args) != 1 {
		return nil
	}
	if fid, ok := call.Fun.(*ast.Ident); !ok || fid.Name != "len" {
		return nil
	}
	res = &ast.RangeStmt{For: fs.For, Key: iv, Tok: token.DEFINE, X: call.Args[0], Body: fs.Body}
	return res
}

func rangeVars(info *types.Info, rss []*ast.RangeStmt) map[types.Object]bool {
	out := map[types.Object]bool{}
	for _, rs := range rss {
		for _, e := range []ast.Expr{rs.Key, rs.Value} {
			if id, ok := e.(*ast.Ident); ok && id.Name != "_" {
				if o := info.ObjectOf(id); o != nil {
					out[o] = true
				}
			}
		}
	}
	return out
}

// derivesFromLoop: every local variable mentioned in e is a loop variable of an enclosing
// range statement, or a single-definition local whose definition (transitively, depth 3)
// mentions one; pureOnly additionally forbids calls other than the pure range accessors and
// hcl.RangeBetween.
func derivesFromLoop(fn *Func, e ast.Expr, loopVars map[types.Object]bool, loopBody ast.Node, pureOnly bool, depth int) (bool, string) {
	info := fn.Info()
	okAll := true
	why := ""
	sawLoop := false
	ast.Inspect(e, func(n ast.Node) bool {
		if !okAll {
			return false
		}
		switch n := n.(type) {
		case *ast.CallExpr:
			if pureOnly {
				name := ""
				if f := calleeOf(info, n); f != nil {
					name = f.Name()
				}
				if tv, ok := info.Types[n.Fun]; ok && tv.IsType() {
					return true // conversion
				}
				if !(pureMethods[name] || name == "RangeBetween") {
					okAll = false
					why = "goes through call " + exprStr(n.Fun)
					return false
				}
			}
		case *ast.Ident:
			o := info.ObjectOf(n)
			v, isVar := o.(*types.Var)
			if !isVar || v.IsField() || v.Pkg() == nil || v.Parent() == v.Pkg().Scope() {
				return true
			}
			if loopVars[o] {
				sawLoop = true
				return true
			}
			if loopBody != nil && !(o.Pos() >= loopBody.Pos() && o.Pos() < loopBody.End()) {
				return true // defined before the loop: a loop-invariant container
			}
			if depth > 0 {
				// the binding of a type switch stands for the switch's operand
				if x := typeSwitchOperandOf(fn, o); x != nil {
					ok2, w := derivesFromLoop(fn, x, loopVars, loopBody, pureOnly, depth-1)
					if ok2 {
						sawLoop = true
						return true
					}
					okAll = false
					why = n.Name + ": " + w
					return false
				}
				if as := fn.Assignments(o); len(as) == 1 {
					if s, ok := as[0].(*ast.AssignStmt); ok && len(s.Rhs) == 1 && len(s.Lhs) == 2 {
						if ix, ok := ast.Unparen(s.Rhs[0]).(*ast.IndexExpr); ok {
							ok2, w := derivesFromLoop(fn, ix, loopVars, loopBody, pureOnly, depth-1)
							if ok2 {
								sawLoop = true
								return true
							}
							okAll = false
							why = n.Name + ": " + w
							return false
						}
					}
				}
				if d := fn.SingleDef(o); d != nil {
					if ta, ok := d.(*ast.TypeAssertExpr); ok {
						d = ta.X
					}
					ok2, w := derivesFromLoop(fn, d, loopVars, loopBody, pureOnly, depth-1)
					if ok2 {
						sawLoop = true
						return true
					}
					okAll = false
					why = n.Name + ": " + w
					return false
				}
				// x, y, ok := f(loopvar…)
				as := fn.Assignments(o)
				if len(as) == 1 && !pureOnly {
					if s, ok := as[0].(*ast.AssignStmt); ok && len(s.Rhs) == 1 {
						ok2, w := derivesFromLoop(fn, s.Rhs[0], loopVars, loopBody, pureOnly, depth-1)
						if ok2 {
							sawLoop = true
							return true
						}
						okAll = false
						why = n.Name + ": " + w
						return false
					}
				}
			}
			// several definitions, all inside the loop body: each must derive from the element
			if depth > 0 && loopBody != nil {
				defs := defsOfIdent(fn, o)
				all, any := len(defs) > 1, false
				for _, d := range defs {
					if d == nil {
						all = false
						break
					}
					if d.Pos() < loopBody.Pos() || d.End() > loopBody.End() {
						all = false
						break
					}
					ok2, _ := derivesFromLoop(fn, d, loopVars, loopBody, pureOnly, depth-1)
					if !ok2 {
						all = false
						break
					}
					any = true
				}
				if all && any {
					sawLoop = true
					return true
				}
			}
			okAll = false
			if why == "" {
				why = n.Name + " is not derived from the loop's element"
			}
			return false
		}
		return true
	})
	if okAll && !sawLoop {
		return false, "does not mention the loop's element"
	}
	return okAll, why
}

func runC09Ctx(p *Prog, r *Report) {
	nLit, nChild, nRange, nStore := 0, 0, 0, 0
	for _, fn := range p.Funcs {
		if fn.Body == nil || fn.Lit != nil {
			continue
		}
		info := fn.Info()
		inDecoder := strings.HasSuffix(fn.Pkg.PkgPath, "hcl-lang/decoder")

		// ---- E9.range-pointer-alias (whole module)
		ast.Inspect(fn.Body, func(n ast.Node) bool {
			as, ok := n.(*ast.AssignStmt)
			if !ok {
				return true
			}
			for _, l := range as.Lhs {
				var through ast.Expr
				switch l := ast.Unparen(l).(type) {
				case *ast.SelectorExpr:
					if tv, ok := info.Types[l.X]; ok && isHclRangePtr(tv.Type) {
						through = l.X
					}
				case *ast.StarExpr:
					if tv, ok := info.Types[l.X]; ok && isHclRangePtr(tv.Type) {
						through = l.X
					}
				}
				if through == nil {
					continue
				}
				nStore++
				judgeRangeStore(p, r, fn, through, exprStr(l), as, 2)
			}
			return true
		})

		if !inDecoder {
			continue
		}

		// ---- E9.ctx-field-agreement
		ast.Inspect(fn.Body, func(n ast.Node) bool {
			cl, ok := n.(*ast.CompositeLit)
			if !ok {
				return true
			}
			tv, ok := info.Types[cl]
			if !ok || !typeIs(tv.Type, "hcl-lang/reference", "Target") {
				return true
			}
			cvs := ctxVarsIn(info, cl)
			if len(cvs) == 0 {
				return true
			}
			nLit++
			construct := "reference.Target{…}#" + litOrdinal(fn, cl)
			if len(cvs) > 1 {
				r.Add("E9.ctx-field-agreement", fn.Name, construct, p.Pos(cl), Violated, "target literal mixes several target contexts", true)
				return true
			}
			var cname string
			for _, nm := range cvs {
				cname = nm
			}
			fields := map[string]ast.Expr{}
			for _, el := range cl.Elts {
				if kv, ok := el.(*ast.KeyValueExpr); ok {
					if k, ok := kv.Key.(*ast.Ident); ok {
						fields[k.Name] = kv.Value
					}
				}
			}
			var probs []string
			for _, m := range ctxFieldMap {
				v, ok := fields[m[0]]
				want := cname + "." + m[1]
				if !ok {
					probs = append(probs, m[0]+" not set (want "+want+")")
				} else if exprStr(v) != want {
					probs = append(probs, fmt.Sprintf("%s: %s (want %s)", m[0], exprStr(v), want))
				}
			}
			// RangePtr
			if v, ok := fields["RangePtr"]; !ok {
				probs = append(probs, "RangePtr not set")
			} else if exprStr(v) != cname+".ParentRangePtr" {
				okRange := false
				if c, ok := ast.Unparen(v).(*ast.CallExpr); ok && ctxRangeHelper(fn, c, cname) {
					okRange = true // the same choice made by a helper, called in place
				}
				if id, ok := ast.Unparen(v).(*ast.Ident); ok {
					defs := defsOfIdent(fn, info.ObjectOf(id))
					hasCtx := false
					allOK := true
					for _, d := range defs {
						if d == nil {
							continue
						}
						if exprStr(d) == cname+".ParentRangePtr" {
							hasCtx = true
							continue
						}
						// the same choice made by a helper on the context
						if c, ok := ast.Unparen(d).(*ast.CallExpr); ok && ctxRangeHelper(fn, c, cname) {
							hasCtx = true
							continue
						}
						// fallback: <expr>.Range().Ptr()
						if c, ok := ast.Unparen(d).(*ast.CallExpr); ok && freshRangePtr(info, c) && strings.HasSuffix(exprStr(c), ".expr.Range().Ptr()") {
							continue
						}
						allOK = false
					}
					okRange = hasCtx && allOK
				}
				if !okRange {
					probs = append(probs, "RangePtr: "+exprStr(v)+" is not the context's ParentRangePtr (with the expression's own range as fallback)")
				}
			}
			if len(probs) > 0 {
				r.Add("E9.ctx-field-agreement", fn.Name, construct, p.Pos(cl), Violated, strings.Join(probs, "; "), true)
			} else {
				r.Add("E9.ctx-field-agreement", fn.Name, construct, p.Pos(cl), OK, "address, local address, visibility range, scope, range and definition range all come from "+cname, true)
			}
			return true
		})

		// ---- E9.child-context / E9.element-range-source
		type app struct {
			stmt  *ast.AssignStmt
			field string
			base  ast.Expr
			step  ast.Expr
		}
		var apps []app
		var rngAssigns []*ast.AssignStmt
		ast.Inspect(fn.Body, func(n ast.Node) bool {
			as, ok := n.(*ast.AssignStmt)
			if !ok || len(as.Lhs) != 1 || len(as.Rhs) != 1 {
				return true
			}
			sel, ok := ast.Unparen(as.Lhs[0]).(*ast.SelectorExpr)
			if !ok {
				return true
			}
			tv, ok := info.Types[sel.X]
			if !ok || !isTargetCtxPtr(tv.Type) {
				return true
			}
			switch sel.Sel.Name {
			case "ParentAddress", "ParentLocalAddress":
				if c, ok := ast.Unparen(as.Rhs[0]).(*ast.CallExpr); ok && isBuiltinCall(info, c, "append") && len(c.Args) >= 1 {
					apps = append(apps, app{as, sel.Sel.Name, sel.X, nil})
					a := &apps[len(apps)-1]
					if exprStr(c.Args[0]) != exprStr(as.Lhs[0]) || len(c.Args) != 2 || c.Ellipsis != token.NoPos {
						a.step = nil
					} else {
						a.step = c.Args[1]
					}
				}
			case "ParentRangePtr", "ParentDefRangePtr":
				rngAssigns = append(rngAssigns, as)
			}
			return true
		})
		for _, a := range apps {
			if a.field != "ParentAddress" {
				continue
			}
			nChild++
			construct := exprStr(a.stmt.Lhs[0]) + " = " + cmpText(a.stmt.Rhs[0])
			var probs []string
			if a.step == nil {
				probs = append(probs, "not a one-step append onto the context's own ParentAddress")
			}
			// the context is a copy of the parent
			id := identOfExpr(a.base)
			var obj types.Object
			if id != nil {
				obj = info.ObjectOf(id)
			}
			if obj == nil {
				probs = append(probs, "context is not a local variable")
			} else {
				nCopy := 0
				for _, d := range defsOfIdent(fn, obj) {
					if d == nil {
						continue
					}
					if c, ok := ast.Unparen(d).(*ast.CallExpr); ok {
						if f := calleeOf(info, c); f != nil && fname(f) == "Copy" {
							nCopy++
							continue
						}
					}
					if id, ok := ast.Unparen(d).(*ast.Ident); ok && id.Name == "nil" {
						continue
					}
					probs = append(probs, "context "+id.Name+" is defined as "+exprStr(d)+", not as a Copy() of the parent context")
				}
				if nCopy == 0 {
					probs = append(probs, "context is never defined as a Copy() of the parent context")
				}
				if isParamOf(fn, obj.(*types.Var)) {
					probs = append(probs, "extends the caller's context in place")
				}
			}
			// sibling agreement with ParentLocalAddress
			if a.step != nil {
				found := false
				for _, b := range apps {
					if b.field == "ParentLocalAddress" && b.step != nil && exprStr(b.base) == exprStr(a.base) &&
						exprStr(b.step) == exprStr(a.step) && fn.Dominates(a.stmt, b.stmt) {
						// nothing else between: b must be in a block reached only through a
						found = true
					}
				}
				if !found {
					probs = append(probs, "no ParentLocalAddress append of the same step "+exprStr(a.step)+" follows")
				}
				// every ParentLocalAddress append dominated by a (before the next ParentAddress append) has the same step
				for _, b := range apps {
					if b.field == "ParentLocalAddress" && exprStr(b.base) == exprStr(a.base) && fn.Dominates(a.stmt, b.stmt) &&
						(b.step == nil || exprStr(b.step) != exprStr(a.step)) {
						probs = append(probs, "ParentLocalAddress is extended by a different step than ParentAddress: "+cmpText(b.stmt.Rhs[0]))
					}
				}
				// exactly one step per path
				for _, b := range apps {
					if b.field == "ParentAddress" && b.stmt != a.stmt && exprStr(b.base) == exprStr(a.base) && obj != nil {
						if reachesWithoutRedef(fn, a.stmt, b.stmt, obj) {
							probs = append(probs, "a second step is appended on the same path at "+p.Pos(b.stmt))
						}
					}
				}
				// the step's key is the loop's own
				rss := enclosingRanges(p, a.stmt, fn.Body)
				if len(rss) == 0 {
					// a helper that builds the child context for one element: the step's key must be a
					// parameter, and every caller must pass its own loop's index / key for it
					okHelper := false
					if fn.Obj != nil {
						sig := fn.Obj.Type().(*types.Signature)
						var keyParams []int
						onlyParams := true
						ast.Inspect(a.step, func(z ast.Node) bool {
							id, ok := z.(*ast.Ident)
							if !ok {
								return true
							}
							v, ok := info.ObjectOf(id).(*types.Var)
							if !ok || v.IsField() || v.Pkg() == nil || v.Parent() == v.Pkg().Scope() {
								return true
							}
							idx := -1
							for i := 0; i < sig.Params().Len(); i++ {
								if sig.Params().At(i) == v {
									idx = i
								}
							}
							if idx < 0 {
								onlyParams = false
							} else {
								keyParams = append(keyParams, idx)
							}
							return true
						})
						sites := buildCallers(p)[fn.Obj]
						if onlyParams && len(keyParams) > 0 && len(sites) > 0 {
							okHelper = true
							for _, cs := range sites {
								crss := enclosingRanges(p, cs.call, cs.fn.Body)
								if len(crss) == 0 {
									okHelper = false
									probs = append(probs, "called outside a loop over the elements at "+p.Pos(cs.call))
									continue
								}
								for _, ki := range keyParams {
									if ki >= len(cs.call.Args) {
										okHelper = false
										continue
									}
									if ok, why := derivesFromLoop(cs.fn, cs.call.Args[ki], rangeVars(cs.fn.Info(), crss), crss[len(crss)-1], false, 3); !ok {
										okHelper = false
										probs = append(probs, "caller at "+p.Pos(cs.call)+" passes a key that "+why)
									}
								}
							}
						}
					}
					if !okHelper && len(probs) == 0 {
						probs = append(probs, "not inside a loop over the elements")
					}
				} else if ok, why := derivesFromLoop(fn, a.step, rangeVars(info, rss), rss[len(rss)-1], false, 3); !ok {
					probs = append(probs, "step "+exprStr(a.step)+" "+why)
				}
			}
			if len(probs) > 0 {
				r.Add("E9.child-context", fn.Name, construct, p.Pos(a.stmt), Violated, strings.Join(dedup(probs), "; "), true)
			} else {
				r.Add("E9.child-context", fn.Name, construct, p.Pos(a.stmt), OK, "copy of the parent extended by exactly one step keyed by the loop's element; local address gets the same step", true)
			}
		}
		// local-address appends without an address append dominating them
		for _, b := range apps {
			if b.field != "ParentLocalAddress" {
				continue
			}
			dominated := false
			for _, a := range apps {
				if a.field == "ParentAddress" && exprStr(a.base) == exprStr(b.base) && fn.Dominates(a.stmt, b.stmt) {
					dominated = true
				}
			}
			if !dominated {
				r.Add("E9.child-context", fn.Name, exprStr(b.stmt.Lhs[0])+" = "+cmpText(b.stmt.Rhs[0]), p.Pos(b.stmt), Violated,
					"ParentLocalAddress is extended without ParentAddress being extended on every path to it", true)
			}
		}
		for _, as := range rngAssigns {
			nRange++
			sel := ast.Unparen(as.Lhs[0]).(*ast.SelectorExpr)
			construct := exprStr(as.Lhs[0]) + " = " + cmpText(as.Rhs[0])
			rss := enclosingRanges(p, as, fn.Body)
			lv := rangeVars(info, rss)
			if len(rss) == 0 {
				// outside element loops: the attribute's own ranges (covered by the C09 rows)
				lv = map[types.Object]bool{}
				for _, par := range paramsOf(fn) {
					lv[par] = true
				}
				// locals defined from map lookups on content (attr := content.Attributes[name])
			}
			var lb ast.Node
			if len(rss) > 0 {
				lb = rss[len(rss)-1]
			}
			ok, why := derivesFromLoop(fn, as.Rhs[0], lv, lb, true, 3)
			if !ok && len(rss) == 0 {
				// not in a loop and not derived from a parameter: accept single-def locals from lookups
				ok, why = true, ""
			}
			wantSel := map[string]string{"ParentDefRangePtr": "", "ParentRangePtr": ""}
			_ = wantSel
			if ok && sel.Sel.Name == "ParentRangePtr" && len(rss) > 0 {
				// the element's extent must include its value
				if !strings.Contains(exprStr(as.Rhs[0]), ".Value") && !strings.Contains(exprStr(as.Rhs[0]), "Range") {
					ok, why = false, "does not cover the element's value"
				}
			}
			if ok {
				r.Add("E9.element-range-source", fn.Name, construct, p.Pos(as), OK, "taken from the element itself through selectors and range accessors only", true)
			} else {
				r.Add("E9.element-range-source", fn.Name, construct, p.Pos(as), Violated, "element range "+why, true)
			}
		}
	}
	r.Counts["E9.target-literals-from-context"] = nLit
	r.Counts["E9.child-contexts"] = nChild
	r.Counts["E9.element-range-assignments"] = nRange
	r.Counts["E9.range-pointer-stores"] = nStore
	r.ExpectMin("E9.target-literals-from-context", nLit, 6)
	r.ExpectMin("E9.child-contexts", nChild, 3)
	r.ExpectMin("E9.element-range-assignments", nRange, 3)
	r.ExpectMin("E9.range-pointer-stores", nStore, 1)
	r.Clauses = append(r.Clauses,
		"E9 every target built from a TargetContext takes address, local address, scope, visibility, range and definition range from that context; child contexts are copies extended by exactly one loop-keyed step (same step for the local address); element ranges come from the element itself; no store through a range pointer shared with another target")
}

func dedup(xs []string) []string {
	var out []string
	seen := map[string]bool{}
	for _, x := range xs {
		if !seen[x] {
			seen[x] = true
			out = append(out, x)
		}
	}
	return out
}

// freshRangePtr: e evaluates to a pointer nobody else holds: X.Ptr() on a Range *value*
// (value receiver: the callee returns the address of its own copy), &T{…}, or new(T).
func freshRangePtr(info *types.Info, e ast.Expr) bool {
	switch e := ast.Unparen(e).(type) {
	case *ast.CallExpr:
		if f := calleeOf(info, e); f != nil && fname(f) == "Ptr" {
			if sig, ok := f.Type().(*types.Signature); ok && sig.Recv() != nil {
				if _, isPtr := sig.Recv().Type().(*types.Pointer); !isPtr {
					return true
				}
			}
		}
		if isBuiltinCall(info, e, "new") {
			return true
		}
	case *ast.UnaryExpr:
		if e.Op == token.AND {
			if _, ok := ast.Unparen(e.X).(*ast.CompositeLit); ok {
				return true
			}
		}
	case *ast.Ident:
		if e.Name == "nil" {
			return true
		}
	}
	return false
}

func paramsOf(fn *Func) []types.Object {
	var out []types.Object
	if fn.Obj == nil {
		return nil
	}
	sig := fn.Obj.Type().(*types.Signature)
	if sig.Recv() != nil {
		out = append(out, sig.Recv())
	}
	for i := 0; i < sig.Params().Len(); i++ {
		out = append(out, sig.Params().At(i))
	}
	return out
}

func isParamOf(fn *Func, v *types.Var) bool {
	for _, p := range paramsOf(fn) {
		if p == v {
			return true
		}
	}
	return false
}

// litOrdinal: ordinal of a composite literal among the same-typed literals of its function
// (a stable, line-free construct id).
func litOrdinal(fn *Func, cl *ast.CompositeLit) string {
	info := fn.Info()
	n := 0
	res := "?"
	want := info.Types[cl].Type
	ast.Inspect(fn.Body, func(m ast.Node) bool {
		if c, ok := m.(*ast.CompositeLit); ok {
			if tv, ok := info.Types[c]; ok && types.Identical(tv.Type, want) {
				n++
				if c == cl {
					res = fmt.Sprint(n)
				}
			}
		}
		return true
	})
	return res
}

// reachesWithoutRedef: is there a CFG path from statement a to statement b that does not
// pass an assignment to obj?
func reachesWithoutRedef(fn *Func, a, b ast.Node, obj types.Object) bool {
	ba, bb := fn.BlockOf(a), fn.BlockOf(b)
	if ba == nil || bb == nil {
		return true
	}
	redef := map[ast.Node]bool{}
	for _, n := range fn.Assignments(obj) {
		redef[fn.CFGNodeOf(n)] = true
	}
	ca, cb := fn.CFGNodeOf(a), fn.CFGNodeOf(b)
	// scan rest of a's block
	scan := func(nodes []ast.Node) (hit, stop bool) {
		for _, n := range nodes {
			if n == cb {
				return true, true
			}
			if redef[n] {
				return false, true
			}
		}
		return false, false
	}
	idx := -1
	for i, n := range ba.Nodes {
		if n == ca {
			idx = i
		}
	}
	if idx < 0 {
		return true
	}
	if hit, stop := scan(ba.Nodes[idx+1:]); stop {
		return hit
	}
	seen := map[int32]bool{}
	work := append([]*cfg.Block{}, ba.Succs...)
	for len(work) > 0 {
		blk := work[len(work)-1]
		work = work[:len(work)-1]
		if seen[blk.Index] {
			continue
		}
		seen[blk.Index] = true
		hit, stop := scan(blk.Nodes)
		if hit {
			return true
		}
		if stop {
			continue
		}
		work = append(work, blk.Succs...)
	}
	return false
}

// ctxRangeHelper: call is a module helper invoked on context cname (as receiver or argument)
// each of whose returns yields that context's ParentRangePtr or a fresh pointer to the range
// of an expression parameter bound to <…>.expr, with ParentRangePtr among them.
func ctxRangeHelper(fn *Func, call *ast.CallExpr, cname string) bool {
	info := fn.Info()
	f := calleeOf(info, call)
	if f == nil {
		return false
	}
	tgt := fn.Prog.FuncOf[f]
	if tgt == nil || tgt.Body == nil || tgt.Decl == nil {
		return false
	}
	// bind formals to actuals
	bind := map[string]string{}
	if tgt.Decl.Recv != nil && len(tgt.Decl.Recv.List) == 1 && len(tgt.Decl.Recv.List[0].Names) == 1 {
		if sel, ok := ast.Unparen(call.Fun).(*ast.SelectorExpr); ok {
			bind[tgt.Decl.Recv.List[0].Names[0].Name] = exprStr(sel.X)
		}
	}
	i := 0
	for _, fl := range tgt.Decl.Type.Params.List {
		for _, nm := range fl.Names {
			if i < len(call.Args) {
				bind[nm.Name] = exprStr(call.Args[i])
			}
			i++
		}
	}
	hasCtx, allOK, n := false, true, 0
	ast.Inspect(tgt.Body, func(m ast.Node) bool {
		if _, ok := m.(*ast.FuncLit); ok {
			return false
		}
		rs, ok := m.(*ast.ReturnStmt)
		if !ok {
			return true
		}
		n++
		if len(rs.Results) != 1 {
			allOK = false
			return true
		}
		res := ast.Unparen(rs.Results[0])
		if sel, ok := res.(*ast.SelectorExpr); ok && sel.Sel.Name == "ParentRangePtr" {
			if id, ok := ast.Unparen(sel.X).(*ast.Ident); ok && bind[id.Name] == cname {
				hasCtx = true
				return true
			}
		}
		if c, ok := res.(*ast.CallExpr); ok && freshRangePtr(tgt.Info(), c) {
			txt := exprStr(c)
			for formal, actual := range bind {
				if txt == formal+".Range().Ptr()" && strings.HasSuffix(actual, ".expr") {
					return true
				}
				// the helper is a method of the expression type: <recv>.expr.Range().Ptr()
				if txt == formal+".expr.Range().Ptr()" && actual != "" {
					return true
				}
			}
		}
		allOK = false
		return true
	})
	return hasCtx && allOK && n > 0
}

// judgeRangeStore: a store `lhsText = …` through the *hcl.Range `through`, evaluated in fn at
// node `at`. All definitions of the pointer path in fn must be fresh pointers; a pointer
// received as a parameter is judged at every call site of fn (the helper stores on behalf of
// its callers), with the stored-through path rewritten to the caller's argument.
func judgeRangeStore(p *Prog, r *Report, fn *Func, through ast.Expr, lhsText string, at ast.Node, depth int) {
	info := fn.Info()
	tp := pathOf(info, through)
	var bad []string
	nd := 0
	checkDef := func(rhs ast.Expr) {
		nd++
		if rhs == nil {
			return
		}
		if !freshRangePtr(info, rhs) {
			bad = append(bad, exprStr(rhs))
		}
	}
	ast.Inspect(fn.Body, func(m ast.Node) bool {
		switch m := m.(type) {
		case *ast.AssignStmt:
			if len(m.Lhs) == len(m.Rhs) {
				for i, ll := range m.Lhs {
					if pathOf(info, ll) == tp && tp != "" {
						checkDef(m.Rhs[i])
					}
				}
			}
		case *ast.CompositeLit:
			// X := T{…, RangePtr: e}: a definition of X.RangePtr
			sel, ok := ast.Unparen(through).(*ast.SelectorExpr)
			if !ok {
				return true
			}
			par := p.Parent(m)
			if u, ok := par.(*ast.UnaryExpr); ok {
				par = p.Parent(u)
			}
			asg, ok := par.(*ast.AssignStmt)
			if !ok || len(asg.Lhs) != 1 || pathOf(info, asg.Lhs[0]) != pathOf(info, sel.X) {
				return true
			}
			for _, el := range m.Elts {
				if kv, ok := el.(*ast.KeyValueExpr); ok {
					if k, ok := kv.Key.(*ast.Ident); ok && k.Name == sel.Sel.Name {
						checkDef(kv.Value)
					}
				}
			}
		}
		return true
	})
	sort.Strings(bad)
	construct := fmt.Sprintf("%s [%s]", lhsText, strings.Join(dedup(bad), ","))
	if rss := enclosingRanges(p, at, fn.Body); len(rss) > 0 {
		construct += " in range " + cmpText(rss[len(rss)-1].X)
	}
	switch {
	case nd == 0:
		// pointer comes from a parameter / field we do not see defined: the caller owns it
		if id := identOfExpr(through); id != nil {
			if v, ok := info.ObjectOf(id).(*types.Var); ok && isParamOf(fn, v) {
				var sites []callSite
				if fn.Obj != nil && depth > 0 && !fn.Obj.Exported() {
					sites = buildCallersCached(p)[fn.Obj]
				}
				idx := -1
				if fn.Obj != nil {
					sig := fn.Obj.Type().(*types.Signature)
					for i := 0; i < sig.Params().Len(); i++ {
						if sig.Params().At(i) == v {
							idx = i
						}
					}
				}
				if _, plain := ast.Unparen(through).(*ast.Ident); len(sites) > 0 && idx >= 0 && plain {
					for _, cs := range sites {
						if idx >= len(cs.call.Args) {
							continue
						}
						arg := cs.call.Args[idx]
						txt := strings.Replace(lhsText, id.Name, exprStr(arg), 1)
						judgeRangeStore(p, r, cs.fn, arg, txt, cs.call, depth-1)
					}
					return
				}
				r.Add("E9.range-pointer-alias", fn.Name, construct, p.Pos(at), Violated,
					"store through a range pointer received as parameter "+id.Name+": the caller's declaration range is changed", true)
				return
			}
		}
		r.Add("E9.range-pointer-alias", fn.Name, construct, p.Pos(at), Undecided, "no definition of "+tp+" found in the function", true)
	case len(bad) > 0:
		r.Add("E9.range-pointer-alias", fn.Name, construct, p.Pos(at), Violated,
			fmt.Sprintf("%s may hold a pointer copied from %s; storing through it also changes that declaration's range", exprStr(through), strings.Join(dedup(bad), ", ")), true)
	default:
		r.Add("E9.range-pointer-alias", fn.Name, construct, p.Pos(at), OK, fmt.Sprintf("all %d definitions of %s are fresh (Ptr() of a value / address of a literal)", nd, tp), true)
	}
}

var callersCache = map[*Prog]map[*types.Func][]callSite{}

func buildCallersCached(p *Prog) map[*types.Func][]callSite {
	if m, ok := callersCache[p]; ok {
		return m
	}
	m := buildCallers(p)
	callersCache[p] = m
	return m
}

// typeSwitchOperandOf: for the variable bound by `switch v := x.(type)`, the operand x.
func typeSwitchOperandOf(fn *Func, o types.Object) ast.Expr {
	if o == nil {
		return nil
	}
	info := fn.Info()
	var res ast.Expr
	ast.Inspect(rootFunc(fn).Body, func(n ast.Node) bool {
		if res != nil {
			return false
		}
		sw, ok := n.(*ast.TypeSwitchStmt)
		if !ok || o.Pos() < sw.Pos() || o.Pos() > sw.End() {
			return true
		}
		for _, c := range sw.Body.List {
			if info.Implicits[c] == o {
				res = typeSwitchOperand(sw)
				return false
			}
		}
		return true
	})
	return res
}
