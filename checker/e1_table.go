package main

// Literal-table expansion. A behaviour-preserving refactoring replaces a sequence of
// near-identical blocks by a loop over a literal table:
//
//	exts := []ext{{schema.Extensions.Count, "count", CountAttributeSchema}, {…ForEach, "for_each", …}}
//	for _, e := range exts { if !e.enabled { continue }; … f(e.name, e.schema()) … }
//
// For rows the loop body is read once per table element with `e.<field>` replaced by that
// element's field expression: emissions are matched on the substituted body, and guard atoms
// are viewed through the same substitution. The table must be a literal that is only ranged
// over (never stored, passed or indexed), and the loop must not assign to the element.

import (
	"go/ast"
	"go/token"
	"go/types"
	"reflect"
)

type tableRow struct {
	loop   *ast.RangeStmt
	elem   types.Object        // the range value variable
	fields map[string]ast.Expr // field name -> expression in this element's literal
	idx    int
}

type emHit struct {
	node  ast.Node  // node in the function's own syntax (CFG position)
	view  ast.Node  // node as matched (substituted clone, or == node)
	sigma *tableRow // nil for a direct match
}

// tableRowsOf: the literal-table loops of fn with one tableRow per element.
func tableRowsOf(fn *Func) []*tableRow {
	info := fn.Info()
	var out []*tableRow
	ast.Inspect(fn.Body, func(n ast.Node) bool {
		if lit, ok := n.(*ast.FuncLit); ok && lit != fn.Lit {
			return false
		}
		rs, ok := n.(*ast.RangeStmt)
		if !ok || rs.Value == nil {
			return true
		}
		vid, ok := rs.Value.(*ast.Ident)
		if !ok || vid.Name == "_" {
			return true
		}
		elem := info.ObjectOf(vid)
		if elem == nil {
			return true
		}
		var lit *ast.CompositeLit
		switch x := ast.Unparen(rs.X).(type) {
		case *ast.CompositeLit:
			lit = x
		case *ast.Ident:
			o := info.ObjectOf(x)
			def := fn.SingleDef(o)
			if def == nil {
				return true
			}
			cl, ok := ast.Unparen(def).(*ast.CompositeLit)
			if !ok {
				return true
			}
			// the table is only ranged over (or measured)
			okUses := true
			ast.Inspect(fn.Body, func(m ast.Node) bool {
				id, ok := m.(*ast.Ident)
				if !ok || info.Uses[id] != o {
					return true
				}
				switch par := fn.Prog.Parent(id).(type) {
				case *ast.RangeStmt:
					if par.X != ast.Expr(id) {
						okUses = false
					}
				case *ast.CallExpr:
					if !isLenCall(info, par) {
						okUses = false
					}
				default:
					okUses = false
				}
				return true
			})
			if !okUses {
				return true
			}
			lit = cl
		default:
			return true
		}
		var st *types.Struct
		switch t := info.TypeOf(lit).Underlying().(type) {
		case *types.Slice:
			st, _ = t.Elem().Underlying().(*types.Struct)
		case *types.Array:
			st, _ = t.Elem().Underlying().(*types.Struct)
		}
		if st == nil || len(lit.Elts) == 0 {
			return true
		}
		// the loop does not assign to the element
		assigned := false
		ast.Inspect(rs.Body, func(m ast.Node) bool {
			switch s := m.(type) {
			case *ast.AssignStmt:
				for _, l := range s.Lhs {
					if baseObj(info, l) == elem {
						assigned = true
					}
				}
			case *ast.IncDecStmt:
				if baseObj(info, s.X) == elem {
					assigned = true
				}
			case *ast.UnaryExpr:
				if s.Op == token.AND && baseObj(info, s.X) == elem {
					assigned = true
				}
			}
			return true
		})
		if assigned {
			return true
		}
		var rows []*tableRow
		for i, el := range lit.Elts {
			ecl, ok := ast.Unparen(el).(*ast.CompositeLit)
			if !ok {
				return true
			}
			tr := &tableRow{loop: rs, elem: elem, fields: map[string]ast.Expr{}, idx: i}
			for j, fe := range ecl.Elts {
				if kv, ok := fe.(*ast.KeyValueExpr); ok {
					if k, ok := kv.Key.(*ast.Ident); ok {
						tr.fields[k.Name] = kv.Value
					}
				} else if j < st.NumFields() {
					tr.fields[st.Field(j).Name()] = fe
				}
			}
			rows = append(rows, tr)
		}
		out = append(out, rows...)
		return true
	})
	return out
}

var (
	nodeType = reflect.TypeOf((*ast.Node)(nil)).Elem()
	exprType = reflect.TypeOf((*ast.Expr)(nil)).Elem()
)

// substTable returns n with every `elem.<field>` replaced by the row's expression. Only the
// spine above a replacement is cloned; orig records clone -> original.
func substTable(info *types.Info, n ast.Node, tr *tableRow, orig map[ast.Node]ast.Node) ast.Node {
	if n == nil || reflect.ValueOf(n).IsNil() {
		return n
	}
	if sel, ok := n.(*ast.SelectorExpr); ok {
		if id, ok := ast.Unparen(sel.X).(*ast.Ident); ok && info.ObjectOf(id) == tr.elem {
			if repl, ok := tr.fields[sel.Sel.Name]; ok {
				return repl
			}
		}
	}
	if _, ok := n.(*ast.FuncLit); ok {
		return n
	}
	v := reflect.ValueOf(n)
	if v.Kind() != reflect.Ptr || v.Elem().Kind() != reflect.Struct {
		return n
	}
	var clone reflect.Value
	ensure := func() reflect.Value {
		if !clone.IsValid() {
			clone = reflect.New(v.Elem().Type())
			clone.Elem().Set(v.Elem())
		}
		return clone
	}
	sv := v.Elem()
	for i := 0; i < sv.NumField(); i++ {
		f := sv.Field(i)
		switch f.Kind() {
		case reflect.Interface, reflect.Ptr:
			if f.IsNil() {
				continue
			}
			child, ok := f.Interface().(ast.Node)
			if !ok {
				continue
			}
			if _, isObj := f.Interface().(*ast.Object); isObj {
				continue
			}
			nc := substTable(info, child, tr, orig)
			if nc != child {
				ncv := reflect.ValueOf(nc)
				if ncv.Type().AssignableTo(f.Type()) {
					ensure().Elem().Field(i).Set(ncv)
				}
			}
		case reflect.Slice:
			if f.Len() == 0 {
				continue
			}
			et := f.Type().Elem()
			if !(et.Implements(nodeType) || et == exprType) {
				continue
			}
			var ns reflect.Value
			for j := 0; j < f.Len(); j++ {
				ev := f.Index(j)
				if (ev.Kind() == reflect.Interface || ev.Kind() == reflect.Ptr) && ev.IsNil() {
					continue
				}
				child, ok := ev.Interface().(ast.Node)
				if !ok {
					continue
				}
				nc := substTable(info, child, tr, orig)
				if nc != child {
					ncv := reflect.ValueOf(nc)
					if !ncv.Type().AssignableTo(et) {
						continue
					}
					if !ns.IsValid() {
						ns = reflect.MakeSlice(f.Type(), f.Len(), f.Len())
						reflect.Copy(ns, f)
					}
					ns.Index(j).Set(ncv)
				}
			}
			if ns.IsValid() {
				ensure().Elem().Field(i).Set(ns)
			}
		}
	}
	if !clone.IsValid() {
		return n
	}
	out := clone.Interface().(ast.Node)
	orig[out] = n
	if e, ok := n.(ast.Expr); ok {
		if tv, ok := info.Types[e]; ok {
			info.Types[out.(ast.Expr)] = tv
		}
	}
	return out
}

// viewExpr: e as seen under the current table row of fn (identity without one).
func (fn *Func) viewExpr(e ast.Expr) ast.Expr {
	root := rootOf(fn)
	if root.sigma == nil || e == nil {
		return e
	}
	if v, ok := substTable(fn.Info(), e, root.sigma, map[ast.Node]ast.Node{}).(ast.Expr); ok {
		return v
	}
	return e
}

func (fn *Func) viewAtom(a *Atom) *Atom {
	root := rootOf(fn)
	if root.sigma == nil || a == nil || a.E == nil {
		return a
	}
	v := fn.viewExpr(a.E)
	if v == a.E {
		return a
	}
	b := *a
	b.E = v
	return &b
}

// tableEmissions: emissions of sel found in table loops of fn under each element's
// substitution (only matches that contain a substituted expression).
func tableEmissions(fn *Func, sel emitSel) []emHit {
	var hits []emHit
	for _, tr := range tableRowsOf(fn) {
		orig := map[ast.Node]ast.Node{}
		body, ok := substTable(fn.Info(), tr.loop.Body, tr, orig).(*ast.BlockStmt)
		if !ok || body == tr.loop.Body {
			continue
		}
		for _, em := range findEmissionsIn(fn, body, sel) {
			o, isClone := orig[em]
			if !isClone {
				continue
			}
			hits = append(hits, emHit{node: o, view: em, sigma: tr})
		}
	}
	return hits
}
