package main

// E3 — ownership / freshness engine (C04, C05; freshness clauses of C09/C16).
//
// Every write in the module (assignment through a pointer, map or slice; append into an
// existing backing array; delete; copy; in-place sort) must target memory allocated during
// the current call tree. Expressions are classified
//     immutable < deep-fresh < fresh(shallow) < shared
// with symbolic dependence on the function's own parameters, so that "writes through
// parameter k" and "result is as fresh as argument k" become summaries that are re-judged
// at every call site (fixed point over the module). A public API function that writes
// through a parameter is a violation.

import (
	"fmt"
	"go/ast"
	"go/token"
	"go/types"
	"os"
	"sort"
	"strings"
)

type own int

const (
	oImm own = iota
	oDeep
	oFresh
	oShared
)

func (o own) String() string {
	return [...]string{"immutable", "deep-fresh", "fresh(shallow)", "shared"}[o]
}

// cls: lvl with params treated as absent, plus three kinds of dependence on parameters
// (bit k = parameter k, bit 63 = receiver):
//
//	self  — the value IS argument k (or a sub-slice/alias of it)
//	inner — the value was loaded from inside argument k's pointee
//	holds — an owned container that holds pointers taken from argument k
type cls struct {
	lvl                own
	self, inner, holds uint64
}

func cl(l own) cls { return cls{lvl: l} }

func (a cls) join(b cls) cls {
	if b.lvl > a.lvl {
		a.lvl = b.lvl
	}
	a.self |= b.self
	a.inner |= b.inner
	a.holds |= b.holds
	return a
}

func (a cls) hasDeps() bool { return a.self|a.inner|a.holds != 0 }

// worst: level when every parameter is shared.
func (a cls) worst() own {
	l := a.lvl
	if a.self|a.inner != 0 {
		return oShared
	}
	if a.holds != 0 && l < oFresh {
		l = oFresh
	}
	return l
}

// load: class of a pointer-like value loaded from inside a value of class a.
func (a cls) load() cls {
	r := cls{inner: a.self | a.inner | a.holds}
	switch a.lvl {
	case oImm:
		r.lvl = oImm
	case oDeep:
		r.lvl = oDeep
	default:
		r.lvl = oShared
	}
	return r
}

// container: class of an owned object initialised with values of class e.
func containerOf(elems []cls) cls {
	r := cls{lvl: oDeep}
	for _, e := range elems {
		if e.lvl > oDeep {
			r.lvl = oFresh
		}
		r.holds |= e.self | e.inner | e.holds
	}
	return r
}

func paramBit(k int) uint64 {
	if k < 0 {
		return 1 << 63
	}
	if k > 60 {
		k = 60
	}
	return 1 << uint(k)
}

type paramWrite struct {
	deep      bool
	why       string
	originFn  string // function containing the actual write
	originKey string // its construct
	originPos string
}

type e3 struct {
	p            *Prog
	r            *Report
	result       map[*types.Func][]cls
	resultFields map[*types.Func]map[string]cls // per-field class of a struct (pointer) result 0
	writes       map[*types.Func]map[int]paramWrite
	demote       map[types.Object]map[string]cls
	changed      bool
	final        bool
	impls        map[string][]*types.Func
	nWrites      int
	busy         map[string]bool
	busyHits     int // number of times a cycle guard cut a classification short (such results are not memoised)
	memo         map[memoKey]cls
	rawIdent     map[memoKey]cls
	escapes      map[string][]escapeSite
	paramIdx     map[types.Object]int
	paramFn      map[types.Object]*Func
}

type escapeSite struct {
	pw  paramWrite
	via string
}

type memoKey struct {
	fn *Func
	e  ast.Expr
}

func pointerLike(t types.Type, depth int) bool {
	if t == nil || depth > 4 {
		return false
	}
	if n := namedOf(t); n != nil && n.Obj().Pkg() != nil {
		path := n.Obj().Pkg().Path()
		if strings.Contains(path, "zclconf/go-cty") {
			return false // cty values and types are immutable
		}
		// immutable values by the schema API's contract (stated in property C17/C04):
		// constraints, defaults, addresses
		name := n.Obj().Name()
		if strings.HasSuffix(path, "hcl-lang/schema") && (name == "Constraint" || name == "Default") {
			return false
		}
	}
	switch u := t.Underlying().(type) {
	case *types.Pointer, *types.Slice, *types.Map, *types.Chan, *types.Interface:
		return true
	case *types.Struct:
		for i := 0; i < u.NumFields(); i++ {
			if pointerLike(u.Field(i).Type(), depth+1) {
				return true
			}
		}
	case *types.Array:
		return pointerLike(u.Elem(), depth+1)
	}
	return false
}

// contractImm: slice types the schema API declares immutable values that may be shared
// between a schema value and its copy (addresses). Holding one does not make a container
// shallow; writing through one is judged like any other write.
func contractImm(t types.Type) bool {
	if t == nil {
		return false
	}
	return typeIs(t, "hcl-lang/lang", "Address") || typeIs(t, "hcl-lang/schema", "Address")
}

func pathSteps(e ast.Expr) (root *ast.Ident, steps string) {
	switch x := ast.Unparen(e).(type) {
	case *ast.Ident:
		return x, ""
	case *ast.SelectorExpr:
		r, s := pathSteps(x.X)
		return r, s + "." + x.Sel.Name
	case *ast.IndexExpr:
		r, s := pathSteps(x.X)
		return r, s + "[]"
	case *ast.StarExpr:
		return pathSteps(x.X)
	case *ast.SliceExpr:
		return pathSteps(x.X)
	case *ast.TypeAssertExpr:
		return pathSteps(x.X)
	case *ast.UnaryExpr:
		if x.Op == token.AND {
			return pathSteps(x.X)
		}
	}
	return nil, ""
}

// stored returns the contribution of values stored into sub-paths of a local variable to
// the class of expression e (rooted at that variable):
//
//	at     — a value stored exactly at e's path, or e lies below a stored value (loaded from it)
//	within — values stored strictly below e's path (e is a container holding them)
func (c *e3) stored(fn *Func, e ast.Expr) (at cls, within cls, any bool) {
	root, steps := pathSteps(e)
	if root == nil {
		return
	}
	o := fn.Info().ObjectOf(root)
	for d, v := range c.demote[o] {
		if strings.HasSuffix(d, "«addr»") {
			if strings.TrimSuffix(d, "«addr»") == steps {
				at = at.join(v)
				any = true
			}
			continue
		}
		switch {
		case d == steps:
			at = at.join(v)
			any = true
		case strings.HasPrefix(steps, d):
			at = at.join(v.load())
			any = true
		case strings.HasPrefix(d, steps):
			within = within.join(containerOf([]cls{v}))
			any = true
		}
	}
	return
}

func (c *e3) addDemotion(o types.Object, steps string, v cls) {
	if c.demote[o] == nil {
		c.demote[o] = map[string]cls{}
	}
	old, ok := c.demote[o][steps]
	nv := old.join(v)
	if !ok || nv != old {
		c.demote[o][steps] = nv
		c.changed = true
	}
}

// ownerFunc: the function (possibly an enclosing one) that declares local object o.
func (c *e3) ownerFunc(fn *Func, o types.Object) *Func {
	for f := fn; f != nil; f = f.Parent {
		lo, hi := f.Type.Pos(), f.Body.End()
		if f.Decl != nil {
			lo = f.Decl.Pos()
		}
		if o.Pos() >= lo && o.Pos() <= hi {
			// innermost function containing the declaration
			return f
		}
	}
	return fn
}

func (c *e3) paramClass(of *Func, o types.Object) (cls, bool) {
	info := of.Info()
	if of.Decl != nil && of.Decl.Recv != nil {
		for _, f := range of.Decl.Recv.List {
			for _, n := range f.Names {
				if info.ObjectOf(n) == o {
					return cls{self: paramBit(-1)}, true
				}
			}
		}
	}
	if of.Type.Params != nil {
		i := 0
		for _, f := range of.Type.Params.List {
			for _, n := range f.Names {
				if info.ObjectOf(n) == o {
					if of.Lit != nil {
						return cl(oShared), true // parameters of function literals: unknown callers
					}
					return cls{self: paramBit(i)}, true
				}
				i++
			}
			if len(f.Names) == 0 {
				i++
			}
		}
	}
	return cls{}, false
}

// baseClass: class of x when it is the base of a longer access path: what was stored
// strictly below x does not make x itself shared, so it is left out here and accounted
// for by the longer path's own lookup.
func (c *e3) baseClass(fn *Func, x ast.Expr, depth int) cls {
	x = ast.Unparen(x)
	switch b := x.(type) {
	case *ast.Ident:
		c.classify(fn, b, depth)
		if raw, ok := c.rawIdent[memoKey{fn, b}]; ok {
			at, _, _ := c.stored(fn, b)
			return raw.join(at)
		}
	case *ast.SelectorExpr:
		if sel, ok := fn.Info().Selections[b]; ok && sel.Kind() == types.FieldVal {
			return c.fieldClassEx(fn, b.X, b.Sel.Name, b, depth, true)
		}
	case *ast.IndexExpr:
		if tv, ok := fn.Info().Types[b.X]; !ok || !tv.IsType() {
			return c.elemClassEx(fn, b.X, depth, true)
		}
	case *ast.StarExpr:
		return c.baseClass(fn, b.X, depth+1).load()
	case *ast.SliceExpr:
		return c.baseClass(fn, b.X, depth+1)
	case *ast.TypeAssertExpr:
		return c.baseClass(fn, b.X, depth+1)
	}
	return c.classify(fn, x, depth)
}

func (c *e3) elemClass(fn *Func, x ast.Expr, depth int) cls {
	return c.elemClassEx(fn, x, depth, false)
}

func (c *e3) elemClassEx(fn *Func, x ast.Expr, depth int, asBase bool) cls {
	info := fn.Info()
	if t := info.TypeOf(x); t != nil {
		if et := elemType(t); et != nil && !pointerLike(et, 0) {
			return cl(oImm)
		}
	}
	r := c.baseClass(fn, x, depth+1).load()
	at, within, _ := c.stored(fn, &ast.IndexExpr{X: x, Index: ast.NewIdent("_")})
	r = r.join(at)
	if !asBase {
		r = r.join(within)
	}
	return r
}

func (c *e3) classify(fn *Func, e ast.Expr, depth int) cls {
	e = ast.Unparen(e)
	if depth > 40 {
		return cl(oShared)
	}
	k := memoKey{fn, e}
	if v, ok := c.memo[k]; ok {
		return v
	}
	before := c.busyHits
	v := c.classify1(fn, e, depth)
	if c.busyHits == before {
		c.memo[k] = v
	}
	return v
}

func (c *e3) classify1(fn *Func, e ast.Expr, depth int) cls {
	info := fn.Info()
	t := info.TypeOf(e)
	if t != nil && !pointerLike(t, 0) {
		return cl(oImm)
	}
	switch x := e.(type) {
	case *ast.Ident:
		o := info.ObjectOf(x)
		switch v := o.(type) {
		case *types.Nil:
			return cl(oImm)
		case *types.Var:
			if v.IsField() {
				return cl(oShared)
			}
			if v.Pkg() != nil && v.Parent() == v.Pkg().Scope() {
				return cl(oShared)
			}
			of := c.ownerFunc(fn, o)
			if pc, ok := c.paramClass(of, o); ok {
				if of != fn {
					return cl(oShared) // captured parameter of an enclosing function
				}
				return pc
			}
			key := fmt.Sprintf("v%p", o)
			if c.busy[key] {
				c.busyHits++
				return cl(oImm)
			}
			c.busy[key] = true
			defer delete(c.busy, key)
			as := of.Assignments(o)
			if len(as) == 0 {
				return cl(oShared)
			}
			res := cl(oImm)
			oi := of.Info()
			for _, a := range as {
				switch s := a.(type) {
				case *ast.AssignStmt:
					if len(s.Lhs) == len(s.Rhs) {
						for i, l := range s.Lhs {
							if id, ok := ast.Unparen(l).(*ast.Ident); ok && oi.ObjectOf(id) == o {
								res = res.join(c.classify(of, s.Rhs[i], depth+1))
							}
						}
					} else if len(s.Rhs) == 1 {
						for i, l := range s.Lhs {
							if id, ok := ast.Unparen(l).(*ast.Ident); ok && oi.ObjectOf(id) == o {
								res = res.join(c.tupleResult(of, s.Rhs[0], i, depth+1))
							}
						}
					}
				case *ast.ValueSpec:
					for i, id := range s.Names {
						if oi.ObjectOf(id) == o {
							if i < len(s.Values) {
								res = res.join(c.classify(of, s.Values[i], depth+1))
							} else if len(s.Values) == 1 && len(s.Names) > 1 {
								res = res.join(c.tupleResult(of, s.Values[0], i, depth+1))
							}
						}
					}
				case *ast.RangeStmt:
					if id, ok := s.Value.(*ast.Ident); ok && oi.ObjectOf(id) == o {
						res = res.join(c.elemClass(of, s.X, depth+1))
					}
				case *ast.UnaryExpr, *ast.IncDecStmt:
				default:
					res = res.join(cl(oShared))
				}
			}
			if of != fn && res.hasDeps() {
				return cl(oShared)
			}
			c.rawIdent[memoKey{fn, x}] = res
			at, within, _ := c.stored(fn, x)
			res = res.join(at).join(within)
			return res
		}
		return cl(oImm)
	case *ast.CompositeLit:
		var elems []cls
		for _, el := range x.Elts {
			v := el
			if kv, ok := el.(*ast.KeyValueExpr); ok {
				v = kv.Value
			}
			if contractImm(info.TypeOf(v)) {
				continue
			}
			elems = append(elems, c.classify(fn, v, depth+1))
		}
		return containerOf(elems)
	case *ast.FuncLit:
		return cl(oImm)
	case *ast.UnaryExpr:
		if x.Op == token.AND {
			if _, isLit := ast.Unparen(x.X).(*ast.CompositeLit); isLit {
				return c.classify(fn, x.X, depth+1)
			}
			// address of a local variable: an owned cell holding the variable's value
			return containerOf([]cls{c.classify(fn, x.X, depth+1)})
		}
		return cl(oImm)
	case *ast.StarExpr:
		return c.classify(fn, x.X, depth+1).load()
	case *ast.TypeAssertExpr:
		return c.classify(fn, x.X, depth+1)
	case *ast.SliceExpr:
		return c.classify(fn, x.X, depth+1)
	case *ast.IndexExpr:
		if tv, ok := info.Types[x.X]; ok && tv.IsType() {
			return cl(oImm)
		}
		return c.elemClass(fn, x.X, depth)
	case *ast.SelectorExpr:
		if id, ok := x.X.(*ast.Ident); ok {
			if _, isPkg := info.Uses[id].(*types.PkgName); isPkg {
				if _, isVar := info.ObjectOf(x.Sel).(*types.Var); isVar {
					return cl(oShared)
				}
				return cl(oImm)
			}
		}
		if sel, ok := info.Selections[x]; ok && sel.Kind() != types.FieldVal {
			return cl(oImm)
		}
		return c.fieldClass(fn, x.X, x.Sel.Name, x, depth)
	case *ast.CallExpr:
		return c.classifyCall(fn, x, depth)
	case *ast.BasicLit, *ast.BinaryExpr:
		return cl(oImm)
	}
	return cl(oShared)
}

// fieldClass: class of x.name (whole is the selector expression when it exists).
func (c *e3) fieldClass(fn *Func, x ast.Expr, name string, whole ast.Expr, depth int) cls {
	return c.fieldClassEx(fn, x, name, whole, depth, false)
}

func (c *e3) fieldClassEx(fn *Func, x ast.Expr, name string, whole ast.Expr, depth int, asBase bool) cls {
	info := fn.Info()
	key := "f" + pathOf(info, x) + "." + name + fmt.Sprintf("%p%v", fn, asBase)
	if c.busy[key] {
		c.busyHits++
		return cl(oImm)
	}
	c.busy[key] = true
	defer delete(c.busy, key)
	base := c.baseClass(fn, x, depth+1).load()
	// an owned container (a local struct value, or a pointer to a literal built here): the
	// field's class comes from its own initialiser, not from the container's other fields
	if fc, ok := c.fieldInit(fn, x, name, depth); ok {
		if os.Getenv("HCLVERIF_E3DEBUG") != "" && strings.Contains(fn.Name, os.Getenv("HCLVERIF_E3DEBUG")) {
			fmt.Printf("E3DEBUG fieldInit %s.%s -> lvl=%s self=%x inner=%x holds=%x\n", exprStr(x), name, fc.lvl, fc.self, fc.inner, fc.holds)
		}
		base = fc
	} else if whole != nil && contractImm(info.TypeOf(whole)) && base.lvl <= oFresh {
		// an address held by an owned container may still be the original's (copies share
		// addresses by contract) unless its initialiser is known
		base.lvl = oShared
	}
	if whole == nil {
		whole = &ast.SelectorExpr{X: x, Sel: ast.NewIdent(name)}
	}
	at, within, _ := c.stored(fn, whole)
	base = base.join(at)
	if !asBase {
		base = base.join(within)
	}
	return base
}

// fieldInit: x is a local variable; class of the initial value of its field `name` from
// its defining literal(s) / constructor call(s) / copies.
func (c *e3) fieldInit(fn *Func, x ast.Expr, name string, depth int) (cls, bool) {
	info := fn.Info()
	id, ok := ast.Unparen(x).(*ast.Ident)
	if !ok {
		return cls{}, false
	}
	o := info.ObjectOf(id)
	if o == nil {
		return cls{}, false
	}
	of := c.ownerFunc(fn, o)
	if _, isParam := c.paramClass(of, o); isParam {
		return cls{}, false
	}
	res := cl(oImm)
	n := 0
	for _, a := range of.Assignments(o) {
		var rhs ast.Expr
		switch s := a.(type) {
		case *ast.AssignStmt:
			if len(s.Lhs) == len(s.Rhs) {
				for i, l := range s.Lhs {
					if lid, ok := ast.Unparen(l).(*ast.Ident); ok && of.Info().ObjectOf(lid) == o {
						rhs = s.Rhs[i]
					}
				}
			} else if len(s.Rhs) == 1 && len(s.Lhs) == 2 {
				// x, ok := m[k]: x is an element of m
				if ix, ok := ast.Unparen(s.Rhs[0]).(*ast.IndexExpr); ok {
					if lid, ok := ast.Unparen(s.Lhs[0]).(*ast.Ident); ok && of.Info().ObjectOf(lid) == o {
						// (the comma-ok expression itself has a tuple type: only the precise
						// local-container reading applies, anything else keeps the load-from-x rule)
						fc, ok := c.fieldOfLocalElems(of, ix, name, depth+1)
						if !ok {
							return cls{}, false
						}
						n++
						res = res.join(fc)
						continue
					}
				}
			}
		case *ast.ValueSpec:
			for i, nid := range s.Names {
				if of.Info().ObjectOf(nid) == o && i < len(s.Values) {
					rhs = s.Values[i]
				}
			}
			if len(s.Values) == 0 {
				n++
				continue
			}
		case *ast.UnaryExpr:
			continue
		}
		if rhs == nil {
			return cls{}, false
		}
		n++
		fc, ok := c.fieldOfValue(of, rhs, name, depth+1)
		if !ok {
			return cls{}, false
		}
		res = res.join(fc)
	}
	if n == 0 {
		return cls{}, false
	}
	return res, true
}

func (c *e3) fieldOfValue(fn *Func, e ast.Expr, name string, depth int) (cls, bool) {
	info := fn.Info()
	e = ast.Unparen(e)
	if u, ok := e.(*ast.UnaryExpr); ok && u.Op == token.AND {
		e = ast.Unparen(u.X)
	}
	switch x := e.(type) {
	case *ast.CompositeLit:
		st, _ := info.TypeOf(x).Underlying().(*types.Struct)
		for i, el := range x.Elts {
			if kv, ok := el.(*ast.KeyValueExpr); ok {
				if k, ok := kv.Key.(*ast.Ident); ok && k.Name == name {
					return c.classify(fn, kv.Value, depth+1), true
				}
			} else if st != nil && i < st.NumFields() && st.Field(i).Name() == name {
				return c.classify(fn, el, depth+1), true
			}
		}
		return cl(oImm), true
	case *ast.CallExpr:
		// per-field summary of the callee(s)
		if cs := c.callees(info, x); len(cs) > 0 {
			res := cl(oImm)
			all := true
			for _, f := range cs {
				rf, ok := c.resultFields[f]
				if !ok {
					all = false
					break
				}
				res = res.join(c.instantiate(fn, x, f, rf[name], depth))
			}
			if all {
				return res, true
			}
		}
		if f := calleeOf(info, x); f != nil {
			if cf := c.p.FuncOf[f]; cf != nil && len(cf.Body.List) == 1 {
				if rs, ok := cf.Body.List[0].(*ast.ReturnStmt); ok && len(rs.Results) == 1 {
					if fc, ok := c.fieldOfValue(cf, rs.Results[0], name, depth+1); ok {
						return c.instantiate(fn, x, cf.Obj, fc, depth), true
					}
				}
			}
		}
	case *ast.IndexExpr:
		// an element of a container built in this function: its field is the join of that
		// field over everything stored into the container
		if fc, ok := c.fieldOfLocalElems(fn, x, name, depth); ok {
			return fc, true
		}
	case *ast.StarExpr:
		return c.classify(fn, x.X, depth+1).load(), true
	case *ast.Ident:
		if fc, ok := c.fieldInit(fn, x, name, depth+1); ok {
			return fc, true
		}
		return c.classify(fn, x, depth+1).load(), true
	}
	// any other expression: a field of a deep value is deep; otherwise loaded from it
	return c.classify(fn, e, depth+1).load(), true
}

// fieldOfLocalElems: ix indexes a local map/slice whose every definition is a fresh
// make()/literal and whose only other uses are element stores, reads, ranges, len and being
// returned; the class of field `name` of its elements is the join over the stored values.
func (c *e3) fieldOfLocalElems(fn *Func, ix *ast.IndexExpr, name string, depth int) (cls, bool) {
	info := fn.Info()
	id, ok := ast.Unparen(ix.X).(*ast.Ident)
	if !ok {
		return cls{}, false
	}
	o, ok := info.ObjectOf(id).(*types.Var)
	if !ok || o.IsField() || c.ownerFunc(fn, o) != fn {
		return cls{}, false
	}
	if _, isParam := c.paramClass(fn, o); isParam {
		return cls{}, false
	}
	for _, d := range defsOfIdent(fn, o) {
		if d == nil || !freshValue(info, d) {
			return cls{}, false
		}
	}
	key := fmt.Sprintf("fe%p.%s", o, name)
	if c.busy[key] {
		c.busyHits++
		return cl(oImm), true
	}
	c.busy[key] = true
	defer delete(c.busy, key)
	res := cl(oImm)
	okAll := true
	ast.Inspect(fn.Body, func(n ast.Node) bool {
		if !okAll {
			return false
		}
		uid, isId := n.(*ast.Ident)
		if !isId || info.Uses[uid] != o {
			return true
		}
		par := fn.Prog.Parent(uid)
		switch pp := par.(type) {
		case *ast.IndexExpr:
			if pp.X != ast.Expr(uid) {
				return true // used as an index
			}
			// a store m[k] = v, or m[k].f = … / a read
			if as, ok := fn.Prog.Parent(pp).(*ast.AssignStmt); ok {
				for i, l := range as.Lhs {
					if ast.Unparen(l) == ast.Expr(pp) && len(as.Lhs) == len(as.Rhs) {
						fc, ok := c.fieldOfValue(fn, as.Rhs[i], name, depth+1)
						if !ok {
							okAll = false
							return false
						}
						res = res.join(fc)
					}
				}
			}
		case *ast.RangeStmt, *ast.ReturnStmt:
		case *ast.CallExpr:
			if !isLenCall(info, pp) && !isBuiltinCall(info, pp, "delete") {
				okAll = false
			}
		case *ast.AssignStmt:
			// its own definition
			for _, l := range pp.Lhs {
				if ast.Unparen(l) == ast.Expr(uid) {
					return true
				}
			}
			okAll = false
		case *ast.ValueSpec:
		default:
			okAll = false
		}
		return true
	})
	if !okAll {
		return cls{}, false
	}
	// stores through element paths (m[k].name = v) recorded by the demotion table
	// (whole-element stores m[k] = v were followed precisely above; only deeper paths count)
	steps := "[]." + name
	for d, v := range c.demote[o] {
		d0 := strings.TrimSuffix(d, "«addr»")
		switch {
		case d0 == steps:
			res = res.join(v)
		case strings.HasPrefix(d0, steps):
			res = res.join(containerOf([]cls{v}))
		}
	}
	return res, true
}

// instantiate: turn a callee-relative class into the caller's terms at a call site.
func (c *e3) instantiate(fn *Func, call *ast.CallExpr, callee *types.Func, rc cls, depth int) cls {
	out := cls{lvl: rc.lvl}
	if !rc.hasDeps() {
		return out
	}
	argFor := func(k int) ast.Expr {
		if k == 63 {
			if sel, ok := ast.Unparen(call.Fun).(*ast.SelectorExpr); ok {
				return sel.X
			}
			return nil
		}
		if k < len(call.Args) {
			return call.Args[k]
		}
		// variadic tail
		if len(call.Args) > 0 {
			return call.Args[len(call.Args)-1]
		}
		return nil
	}
	for k := 0; k < 64; k++ {
		bit := uint64(1) << uint(k)
		if (rc.self|rc.inner|rc.holds)&bit == 0 {
			continue
		}
		arg := argFor(k)
		if arg == nil {
			out.lvl = oShared
			continue
		}
		a := c.classify(fn, arg, depth+1)
		if rc.self&bit != 0 {
			out = out.join(a)
		}
		if rc.inner&bit != 0 {
			out = out.join(a.load())
		}
		if rc.holds&bit != 0 {
			h := containerOf([]cls{a})
			if out.lvl > h.lvl {
				h.lvl = out.lvl
			}
			out = out.join(h)
		}
	}
	return out
}

func (c *e3) callees(info *types.Info, call *ast.CallExpr) []*types.Func {
	f := calleeOf(info, call)
	if f == nil || f.Pkg() == nil || !strings.HasPrefix(f.Pkg().Path(), modPath) {
		return nil
	}
	sig := f.Type().(*types.Signature)
	if sig.Recv() != nil {
		if iface, ok := sig.Recv().Type().Underlying().(*types.Interface); ok {
			var out []*types.Func
			for _, m := range c.impls[f.Name()] {
				ms := m.Type().(*types.Signature)
				if types.Implements(ms.Recv().Type(), iface) || types.Implements(types.NewPointer(ms.Recv().Type()), iface) {
					out = append(out, m)
				}
			}
			// a method called on a type parameter (generic helper): the constraint interface
			// mentions the type parameter itself, so Implements cannot be asked; every module
			// method of that name and shape is a possible callee
			if len(out) == 0 {
				if sel, ok := ast.Unparen(call.Fun).(*ast.SelectorExpr); ok {
					if _, isTP := info.TypeOf(sel.X).(*types.TypeParam); isTP {
						for _, m := range c.impls[f.Name()] {
							ms := m.Type().(*types.Signature)
							if ms.Params().Len() == sig.Params().Len() && ms.Results().Len() == sig.Results().Len() {
								out = append(out, m)
							}
						}
					}
				}
			}
			return out
		}
	}
	return []*types.Func{f}
}

func (c *e3) thirdParty(fn *Func, call *ast.CallExpr, i int, depth int) cls {
	info := fn.Info()
	full := calleeFull(info, call)
	tv := info.TypeOf(call)
	if tup, ok := tv.(*types.Tuple); ok && i < tup.Len() {
		tv = tup.At(i).Type()
	}
	if tv != nil && !pointerLike(tv, 0) {
		return cl(oImm)
	}
	switch {
	case strings.HasPrefix(full, "bytes.Trim"), strings.HasPrefix(full, "bytes.Fields"):
		if len(call.Args) > 0 {
			return c.classify(fn, call.Args[0], depth+1)
		}
	case strings.HasSuffix(full, "hcl/v2.Range).SliceBytes"):
		if len(call.Args) > 0 {
			return c.classify(fn, call.Args[0], depth+1)
		}
	case strings.HasSuffix(full, "hcl/v2.Body).PartialContent"), strings.HasSuffix(full, "hcl/v2.Body).Content"), strings.HasSuffix(full, "hcl/v2.Body).JustAttributes"):
		if i <= 1 {
			return cl(oDeep) // hcl builds a new BodyContent / attribute map for every call
		}
	case full == "encoding/json.Marshal", full == "errors.New", full == "fmt.Errorf", strings.HasPrefix(full, "context."),
		strings.HasPrefix(full, "net/url."), strings.HasPrefix(full, "(*net/url."), strings.HasPrefix(full, "(net/url."),
		strings.HasPrefix(full, "strings."), strings.HasPrefix(full, "bytes.") && i == 0 && false:
		return cl(oDeep)
	}
	if sel, ok := ast.Unparen(call.Fun).(*ast.SelectorExpr); ok && sel.Sel.Name == "Ptr" && len(call.Args) == 0 {
		return cl(oDeep) // Range.Ptr(): address of a copy
	}
	return cl(oShared)
}

func (c *e3) tupleResult(fn *Func, rhs ast.Expr, i int, depth int) cls {
	info := fn.Info()
	rhs = ast.Unparen(rhs)
	switch x := rhs.(type) {
	case *ast.CallExpr:
		cs := c.callees(info, x)
		if len(cs) == 0 {
			return c.thirdParty(fn, x, i, depth)
		}
		res := cl(oImm)
		for _, f := range cs {
			if c.p.FuncOf[f] == nil {
				res = res.join(cl(oShared))
				continue
			}
			if rc := c.result[f]; i < len(rc) {
				res = res.join(c.instantiate(fn, x, f, rc[i], depth))
			}
		}
		return res
	case *ast.IndexExpr:
		if i == 0 {
			return c.elemClass(fn, x.X, depth)
		}
		return cl(oImm)
	case *ast.TypeAssertExpr:
		if i == 0 {
			return c.classify(fn, x.X, depth+1)
		}
		return cl(oImm)
	}
	return cl(oShared)
}

func (c *e3) isCopyCall(info *types.Info, call *ast.CallExpr) bool {
	sel, ok := ast.Unparen(call.Fun).(*ast.SelectorExpr)
	if !ok || sel.Sel.Name != "Copy" || len(call.Args) != 0 {
		return false
	}
	f := calleeOf(info, call)
	return f != nil && f.Pkg() != nil && strings.HasPrefix(f.Pkg().Path(), modPath)
}

func (c *e3) classifyCall(fn *Func, call *ast.CallExpr, depth int) cls {
	info := fn.Info()
	if tv, ok := info.Types[call.Fun]; ok && tv.IsType() && len(call.Args) == 1 {
		return c.classify(fn, call.Args[0], depth+1)
	}
	if isBuiltinCall(info, call, "make") || isBuiltinCall(info, call, "new") {
		return cl(oDeep)
	}
	if isBuiltinCall(info, call, "append") && len(call.Args) >= 1 {
		r := c.classify(fn, call.Args[0], depth+1)
		if r.lvl == oImm && !r.hasDeps() {
			r.lvl = oDeep
		}
		for _, y := range call.Args[1:] {
			var cy cls
			if call.Ellipsis.IsValid() {
				cy = c.elemClass(fn, y, depth)
			} else {
				cy = c.classify(fn, y, depth+1)
			}
			if cy.lvl > oDeep && r.lvl <= oDeep {
				r.lvl = oFresh
			}
			r.holds |= cy.self | cy.inner | cy.holds
		}
		return r
	}
	cs := c.callees(info, call)
	if len(cs) == 0 {
		return c.thirdParty(fn, call, 0, depth)
	}
	res := cl(oImm)
	for _, f := range cs {
		if c.p.FuncOf[f] == nil {
			res = res.join(cl(oShared))
			continue
		}
		if rc := c.result[f]; len(rc) > 0 {
			res = res.join(c.instantiate(fn, call, f, rc[0], depth))
		}
	}
	return res
}

// writtenThrough: the pointer/slice/map expression whose pointee an assignment to lhs
// modifies; embedded names an embedded pointer field of the returned (struct value)
// expression that is the real pointer.
func (c *e3) writtenThrough(fn *Func, lhs ast.Expr) (ptr ast.Expr, embedded string) {
	info := fn.Info()
	switch x := ast.Unparen(lhs).(type) {
	case *ast.SelectorExpr:
		sel, ok := info.Selections[x]
		if !ok {
			return nil, ""
		}
		xt := info.TypeOf(x.X)
		if _, isPtr := xt.Underlying().(*types.Pointer); isPtr {
			return x.X, ""
		}
		if sel.Indirect() && len(sel.Index()) > 1 {
			if st, _ := xt.Underlying().(*types.Struct); st != nil {
				cur := st
				for _, idx := range sel.Index()[:len(sel.Index())-1] {
					f := cur.Field(idx)
					if _, isPtr := f.Type().Underlying().(*types.Pointer); isPtr {
						return x.X, f.Name()
					}
					if ns, ok := f.Type().Underlying().(*types.Struct); ok {
						cur = ns
					}
				}
			}
		}
		return c.writtenThrough(fn, x.X)
	case *ast.IndexExpr:
		if _, isArr := info.TypeOf(x.X).Underlying().(*types.Array); isArr {
			return c.writtenThrough(fn, x.X)
		}
		return x.X, ""
	case *ast.StarExpr:
		return x.X, ""
	}
	return nil, ""
}

func (c *e3) recordParamWrite(fn *Func, mask uint64, deep bool, why string, org paramWrite) {
	if fn.Obj == nil {
		return
	}
	m := c.writes[fn.Obj]
	if m == nil {
		m = map[int]paramWrite{}
		c.writes[fn.Obj] = m
	}
	for k := 0; k < 64; k++ {
		if mask&(1<<uint(k)) == 0 {
			continue
		}
		idx := k
		if k == 63 {
			idx = -1
		}
		old, ok := m[idx]
		if !ok || (deep && !old.deep) {
			w := why
			if ok {
				w = old.why
			}
			m[idx] = paramWrite{deep: deep || old.deep, why: w, originFn: org.originFn, originKey: org.originKey, originPos: org.originPos}
			if ok {
				m[idx] = paramWrite{deep: true, why: w, originFn: old.originFn, originKey: old.originKey, originPos: old.originPos}
			}
			c.changed = true
		}
	}
}

// judge decides one write through a pointer-like value of class v.
func (c *e3) judge(fn *Func, at ast.Node, v cls, rule, construct, what string) {
	p := c.p
	c.nWrites++
	if dbg := os.Getenv("HCLVERIF_E3DEBUG"); dbg != "" && c.final && strings.Contains(fn.Name, dbg) {
		fmt.Printf("E3DEBUG %s %s: lvl=%s self=%x inner=%x holds=%x\n", p.Pos(at), construct, v.lvl, v.self, v.inner, v.holds)
	}
	if v.worst() <= oFresh {
		if c.final {
			c.r.Add(rule, fn.Name, construct, p.Pos(at), OK, "target is "+v.worst().String()+": allocated during this call", v.worst() != oDeep)
		}
		return
	}
	if v.lvl <= oFresh && fn.Obj != nil && fn.Lit == nil {
		// shared only through this function's parameters
		org := paramWrite{originFn: fn.Name, originKey: construct, originPos: p.Pos(at)}
		c.recordParamWrite(fn, v.self, false, what+" at "+p.Pos(at), org)
		c.recordParamWrite(fn, v.inner, true, what+" at "+p.Pos(at), org)
		if c.final {
			c.r.Add(rule, fn.Name, construct, p.Pos(at), OK, "writes through a parameter: obligation moved to every call site", true)
		}
		return
	}
	if c.final {
		if ex, ok := e3Exceptions[fn.Name+"|"+construct]; ok {
			c.r.Add(rule, fn.Name, construct, p.Pos(at), Excepted, ex, true)
			return
		}
		c.r.Add(rule, fn.Name, construct, p.Pos(at), Violated,
			what+" modifies memory that may exist before the query (neither allocated in this call tree nor a deep copy)", true)
	}
}

func (c *e3) ptrClass(fn *Func, ptr ast.Expr, embedded string) cls {
	if embedded != "" {
		return c.fieldClass(fn, ptr, embedded, nil, 0)
	}
	return c.classify(fn, ptr, 0)
}

// storeDemotion records what was stored at a sub-path of a local variable.
func (c *e3) storeDemotion(fn *Func, lhs ast.Expr, rhs ast.Expr) {
	info := fn.Info()
	root, steps := pathSteps(lhs)
	if root == nil {
		return
	}
	if steps == "" {
		// *x = v: the pointee stays owned, its contents become v's
		if _, isStar := ast.Unparen(lhs).(*ast.StarExpr); !isStar {
			return
		}
		steps = "."
	}
	o := info.ObjectOf(root)
	if o == nil {
		return
	}
	v := ast.Unparen(rhs)
	if u, ok := v.(*ast.UnaryExpr); ok && u.Op == token.AND {
		v = ast.Unparen(u.X)
	}
	// field-sensitive for struct literals
	if lit, ok := v.(*ast.CompositeLit); ok {
		if _, isStruct := info.TypeOf(lit).Underlying().(*types.Struct); isStruct {
			for _, el := range lit.Elts {
				if kv, ok := el.(*ast.KeyValueExpr); ok {
					if k, ok := kv.Key.(*ast.Ident); ok {
						if contractImm(info.TypeOf(kv.Value)) {
							continue
						}
						if cv := c.classify(fn, kv.Value, 0); cv.worst() > oDeep {
							c.addDemotion(o, steps+"."+k.Name, cv)
						}
					}
				}
			}
			return
		}
	}
	// x.f = append(x.f, …): the elements are recorded by the append rule
	if call, ok := v.(*ast.CallExpr); ok && isBuiltinCall(info, call, "append") && len(call.Args) > 0 {
		if pathOf(info, call.Args[0]) == pathOf(info, lhs) && pathOf(info, lhs) != "" {
			return
		}
	}
	if contractImm(info.TypeOf(rhs)) {
		// the address itself may be shared; remember it for loads of exactly this path
		if cv := c.classify(fn, rhs, 0); cv.worst() > oDeep {
			c.addDemotion(o, steps+"«addr»", cv)
		}
		return
	}
	if cv := c.classify(fn, rhs, 0); cv.worst() > oDeep {
		c.addDemotion(o, steps, cv)
	}
}

func (c *e3) analyse(fn *Func) {
	info := fn.Info()
	p := c.p
	// result classes
	if fn.Obj != nil && fn.Type.Results != nil {
		n := 0
		for _, f := range fn.Type.Results.List {
			if len(f.Names) == 0 {
				n++
			} else {
				n += len(f.Names)
			}
		}
		rc := make([]cls, n)
		copy(rc, c.result[fn.Obj])
		ast.Inspect(fn.Body, func(x ast.Node) bool {
			if lit, ok := x.(*ast.FuncLit); ok && lit != fn.Lit {
				return false
			}
			rs, ok := x.(*ast.ReturnStmt)
			if !ok {
				return true
			}
			if len(rs.Results) == n {
				for i, res := range rs.Results {
					rc[i] = rc[i].join(c.classify(fn, res, 0))
				}
			} else if len(rs.Results) == 1 && n > 1 {
				for i := 0; i < n; i++ {
					rc[i] = rc[i].join(c.tupleResult(fn, rs.Results[0], i, 0))
				}
			} else if len(rs.Results) == 0 && n > 0 {
				i := 0
				for _, f := range fn.Type.Results.List {
					for _, nm := range f.Names {
						rc[i] = rc[i].join(c.classify(fn, nm, 0))
						i++
					}
				}
			}
			return true
		})
		// per-field summary of a struct (or pointer-to-struct) first result
		if n >= 1 {
			var rt types.Type
			if f0 := fn.Type.Results.List[0]; f0 != nil {
				rt = info.TypeOf(f0.Type)
			}
			if rt != nil {
				bt := rt
				if pt, ok := bt.Underlying().(*types.Pointer); ok {
					bt = pt.Elem()
				}
				if st, ok := bt.Underlying().(*types.Struct); ok && isModuleType(bt) {
					rf := map[string]cls{}
					for k, v := range c.resultFields[fn.Obj] {
						rf[k] = v
					}
					ast.Inspect(fn.Body, func(x ast.Node) bool {
						if lit, ok := x.(*ast.FuncLit); ok && lit != fn.Lit {
							return false
						}
						rs, ok := x.(*ast.ReturnStmt)
						if !ok || len(rs.Results) != n {
							return true
						}
						res := rs.Results[0]
						if isNilIdent(info, res) {
							return true
						}
						for i := 0; i < st.NumFields(); i++ {
							f := st.Field(i)
							if !pointerLike(f.Type(), 0) {
								continue
							}
							var fc cls
							if _, isId := ast.Unparen(res).(*ast.Ident); isId {
								fc = c.fieldClassEx(fn, res, f.Name(), nil, 0, false)
							} else if v, ok := c.fieldOfValue(fn, res, f.Name(), 0); ok {
								fc = v
							} else {
								fc = c.classify(fn, res, 0).load()
							}
							rf[f.Name()] = rf[f.Name()].join(fc)
						}
						return true
					})
					oldRF := c.resultFields[fn.Obj]
					if len(oldRF) != len(rf) {
						c.changed = true
					} else {
						for k, v := range rf {
							if oldRF[k] != v {
								c.changed = true
							}
						}
					}
					c.resultFields[fn.Obj] = rf
				}
			}
		}
		old := c.result[fn.Obj]
		if len(old) != len(rc) {
			c.changed = true
		} else {
			for i := range rc {
				if rc[i] != old[i] {
					c.changed = true
				}
			}
		}
		c.result[fn.Obj] = rc
	}
	ast.Inspect(fn.Body, func(x ast.Node) bool {
		if lit, ok := x.(*ast.FuncLit); ok && lit != fn.Lit {
			return false
		}
		switch s := x.(type) {
		case *ast.AssignStmt:
			for i, l := range s.Lhs {
				if ptr, emb := c.writtenThrough(fn, l); ptr != nil {
					desc := exprStr(ptr)
					if emb != "" {
						desc += "." + emb
					}
					pc := c.ptrClass(fn, ptr, emb)
					if sc, ok := c.strongFieldClass(fn, ptr, emb, s); ok {
						pc = sc
					}
					c.judge(fn, s, pc, "E3.write", "assignment to "+exprStr(l), "assignment to "+exprStr(l)+" (through "+desc+")")
					if len(s.Lhs) == len(s.Rhs) {
						c.storeDemotion(fn, l, s.Rhs[i])
					}
				}
				if len(s.Lhs) == len(s.Rhs) {
					if call, ok := ast.Unparen(s.Rhs[i]).(*ast.CallExpr); ok && isBuiltinCall(info, call, "append") && len(call.Args) >= 2 {
						c.judgeAppend(fn, s, call)
						c.appendAlias(fn, s, call, l)
						// appended shared elements demote the slice's elements
						if root, steps := pathSteps(l); root != nil {
							for _, y := range call.Args[1:] {
								var cy cls
								if call.Ellipsis.IsValid() {
									cy = c.elemClass(fn, y, 0)
								} else {
									cy = c.classify(fn, y, 0)
								}
								if cy.worst() > oDeep && !contractImm(info.TypeOf(y)) {
									if o := info.ObjectOf(root); o != nil {
										c.addDemotion(o, steps+"[]", cy)
									}
								}
							}
						}
					}
				}
			}
		case *ast.IncDecStmt:
			if ptr, emb := c.writtenThrough(fn, s.X); ptr != nil {
				c.judge(fn, s, c.ptrClass(fn, ptr, emb), "E3.write", "increment of "+exprStr(s.X), "increment of "+exprStr(s.X))
			}
		case *ast.CallExpr:
			c.judgeCall(fn, s)
			if isBuiltinCall(info, s, "append") && len(s.Args) >= 2 {
				if as, isAssign := p.Parent(s).(*ast.AssignStmt); !isAssign || len(as.Lhs) != len(as.Rhs) {
					c.judgeAppend(fn, s, s)
					c.appendAlias(fn, s, s, nil)
				}
			}
		}
		return true
	})
}

// appendAlias: y := append(x, …) with y a different variable than x leaves two live slices
// that may share one backing array (the next append to x overwrites y's tail). The first
// argument must then be a temporary: a call result (x.Copy(), make), a literal, a
// conversion of nil, or a full slice expression x[:n:n].
func (c *e3) appendAlias(fn *Func, at ast.Node, call *ast.CallExpr, lhs ast.Expr) {
	if !c.final {
		return
	}
	info := fn.Info()
	x := ast.Unparen(call.Args[0])
	xp := pathOf(info, x)
	if xp == "" {
		return // a temporary
	}
	if lhs != nil && pathOf(info, lhs) == xp {
		return // x = append(x, …)
	}
	if se, ok := x.(*ast.SliceExpr); ok && se.Slice3 {
		return
	}
	// `return append(x, …)` where x is a local of this function that only ever held storage
	// made here (make, a literal, nil, or its own appends): x dies with the return and
	// nothing else names its backing array
	if id, isId := x.(*ast.Ident); isId && lhs == nil {
		if _, isRet := c.p.Parent(call).(*ast.ReturnStmt); isRet {
			if vo, isVar := info.ObjectOf(id).(*types.Var); isVar && !vo.IsField() && !rootFunc(fn).isParam(vo) && !fn.isParam(vo) &&
				vo.Parent() != fn.Pkg.Types.Scope() && (fn.Lit == nil || (vo.Pos() > fn.Lit.Pos() && vo.Pos() < fn.Lit.End())) {
				defs := defsOfIdent(fn, vo)
				fresh := len(defs) > 0
				for _, d := range defs {
					if d == nil {
						continue // var x []T
					}
					switch y := ast.Unparen(d).(type) {
					case *ast.CompositeLit:
					case *ast.Ident:
						if !isNilIdent(info, y) {
							fresh = false
						}
					case *ast.CallExpr:
						if isBuiltinCall(info, y, "make") {
							break
						}
						if isBuiltinCall(info, y, "append") && len(y.Args) > 0 && isIdentObj(info, y.Args[0], vo) {
							break
						}
						if tv, ok := info.Types[y.Fun]; ok && tv.IsType() && len(y.Args) == 1 && isNilIdent(info, y.Args[0]) {
							break
						}
						fresh = false
					default:
						fresh = false
					}
				}
				addrTaken := false
				for _, a := range fn.Assignments(vo) {
					if _, isAddr := a.(*ast.UnaryExpr); isAddr {
						addrTaken = true
					}
				}
				if fresh && !addrTaken {
					return
				}
			}
		}
	}
	// an unexported wrapper `func f(xs T, …) T { …; return append(xs, …) }`: the duty to pass
	// a temporary moves to the callers, all of which are visible
	if id, isId := x.(*ast.Ident); isId && lhs == nil && fn.Lit == nil && fn.Obj != nil && !fn.Obj.Exported() {
		if _, isRet := c.p.Parent(call).(*ast.ReturnStmt); isRet {
			if po, isVar := info.ObjectOf(id).(*types.Var); isVar && fn.isParam(po) && len(fn.Assignments(po)) == 0 {
				sig := fn.Obj.Type().(*types.Signature)
				pi := -1
				for k := 0; k < sig.Params().Len(); k++ {
					if sig.Params().At(k) == po {
						pi = k
					}
				}
				if pi >= 0 && !sig.Variadic() {
					nSites, bad := 0, ""
					for _, g := range c.p.Funcs {
						if g.Body == nil {
							continue
						}
						ginfo := g.Info()
						ast.Inspect(g.Body, func(n ast.Node) bool {
							if lit, ok := n.(*ast.FuncLit); ok && lit != g.Lit {
								return false
							}
							cs, ok := n.(*ast.CallExpr)
							if !ok || calleeOf(ginfo, cs) != fn.Obj || pi >= len(cs.Args) {
								return true
							}
							nSites++
							a := ast.Unparen(cs.Args[pi])
							temp := pathOf(ginfo, a) == ""
							if se, ok := a.(*ast.SliceExpr); ok && se.Slice3 {
								temp = true
							}
							if !temp && bad == "" {
								bad = exprStr(a) + " at " + c.p.Pos(cs)
							}
							return true
						})
					}
					// a function value taken elsewhere would hide call sites
					escapes := false
					for _, g := range c.p.Funcs {
						if g.Body == nil || escapes {
							continue
						}
						ginfo := g.Info()
						ast.Inspect(g.Body, func(n ast.Node) bool {
							if u, ok := n.(*ast.Ident); ok && ginfo.Uses[u] == types.Object(fn.Obj) {
								if cs, isCall := c.p.Parent(u).(*ast.CallExpr); !isCall || cs.Fun != ast.Expr(u) {
									escapes = true
								}
							}
							return !escapes
						})
					}
					construct := "append(" + exprStr(x) + ", …) returned by a wrapper"
					if nSites > 0 && bad == "" && !escapes {
						c.r.Add("E3.append-alias", fn.Name, construct, c.p.Pos(at), OK, fmt.Sprintf("every one of the %d call sites passes a temporary for %s", nSites, id.Name), true)
						return
					}
					if bad != "" {
						c.r.Add("E3.append-alias", fn.Name, construct, c.p.Pos(at), Violated,
							"the wrapper appends to its parameter "+id.Name+" and returns the result; the caller passes "+bad+", a slice that stays live: both may share a backing array, so a later append through either overwrites the other's elements", true)
						return
					}
				}
			}
		}
	}
	// x must not be used again after this statement, nor be a parameter/field owned elsewhere
	construct := "append(" + exprStr(x) + ", …) bound to another variable"
	if ex, ok := e3Exceptions[fn.Name+"|"+construct]; ok {
		c.r.Add("E3.append-alias", fn.Name, construct, c.p.Pos(at), Excepted, ex, true)
		return
	}
	c.r.Add("E3.append-alias", fn.Name, construct, c.p.Pos(at), Violated,
		"the result of append("+exprStr(x)+", …) is not assigned back to "+exprStr(x)+": both slices stay live and may share a backing array, so a later append through either overwrites the other's elements", true)
}

func (c *e3) judgeAppend(fn *Func, at ast.Node, call *ast.CallExpr) {
	info := fn.Info()
	x := ast.Unparen(call.Args[0])
	if isNilIdent(info, x) {
		return
	}
	if cv, ok := x.(*ast.CallExpr); ok {
		if tv, ok := info.Types[cv.Fun]; ok && tv.IsType() && len(cv.Args) == 1 && isNilIdent(info, cv.Args[0]) {
			return
		}
	}
	if se, ok := x.(*ast.SliceExpr); ok && se.Slice3 {
		return
	}
	c.judge(fn, at, c.classify(fn, x, 0), "E3.append", "append into "+exprStr(x), "append into "+exprStr(x)+" (may store into its existing backing array)")
}

var thirdPartyMutators = map[string]int{
	"sort.Sort": 0, "sort.Stable": 0, "sort.Slice": 0, "sort.SliceStable": 0, "sort.Strings": 0, "sort.Ints": 0,
	"slices.Sort": 0, "slices.SortFunc": 0, "slices.SortStableFunc": 0, "slices.Reverse": 0,
}

func (c *e3) judgeCall(fn *Func, call *ast.CallExpr) {
	info := fn.Info()
	p := c.p
	if isBuiltinCall(info, call, "delete") || isBuiltinCall(info, call, "clear") {
		if len(call.Args) > 0 {
			c.judge(fn, call, c.classify(fn, call.Args[0], 0), "E3.write", "delete from "+exprStr(call.Args[0]), "delete from "+exprStr(call.Args[0]))
		}
		return
	}
	if isBuiltinCall(info, call, "copy") && len(call.Args) == 2 {
		c.judge(fn, call, c.classify(fn, call.Args[0], 0), "E3.write", "copy into "+exprStr(call.Args[0]), "copy into "+exprStr(call.Args[0]))
		return
	}
	full := calleeFull(info, call)
	if k, ok := thirdPartyMutators[full]; ok && k < len(call.Args) {
		arg := ast.Unparen(call.Args[k])
		if cv, ok := arg.(*ast.CallExpr); ok {
			if tv, ok := info.Types[cv.Fun]; ok && tv.IsType() && len(cv.Args) == 1 {
				arg = cv.Args[0]
			}
		}
		c.judge(fn, call, c.classify(fn, arg, 0), "E3.write", "in-place "+full+" of "+exprStr(arg), "in-place "+full+" of "+exprStr(arg))
		return
	}
	for _, f := range c.callees(info, call) {
		var idxs []int
		for idx := range c.writes[f] {
			idxs = append(idxs, idx)
		}
		sort.Ints(idxs)
		for _, idx := range idxs {
			pw := c.writes[f][idx]
			var arg ast.Expr
			if idx == -1 {
				if sel, ok := ast.Unparen(call.Fun).(*ast.SelectorExpr); ok {
					arg = sel.X
				}
			} else if idx < len(call.Args) {
				arg = call.Args[idx]
			}
			if arg == nil {
				continue
			}
			a := c.classify(fn, arg, 0)
			construct := "call " + funcName(f) + " arg " + exprStr(arg)
			what := fmt.Sprintf("call of %s, which writes through parameter %d (%s)", funcName(f), idx, pw.why)
			c.nWrites++
			need := oFresh
			if pw.deep {
				need = oDeep
				a = a.load() // what matters is what the argument's pointee holds
				if a.lvl == oImm {
					a.lvl = oDeep
				}
			} else {
				// a struct value argument is copied: shallow writes hit the callee's copy
				if at := info.TypeOf(arg); at != nil {
					if _, isStruct := at.Underlying().(*types.Struct); isStruct {
						continue
					}
				}
			}
			if dbg := os.Getenv("HCLVERIF_E3DEBUG"); dbg != "" && c.final && strings.Contains(fn.Name, dbg) {
				fmt.Printf("E3DEBUG %s %s: lvl=%s self=%x inner=%x holds=%x need=%s deep=%v\n", p.Pos(call), construct, a.lvl, a.self, a.inner, a.holds, need, pw.deep)
			}
			if a.worst() <= need {
				if c.final {
					c.r.Add("E3.call-write", fn.Name, construct, p.Pos(call), OK, "argument is "+a.worst().String(), true)
				}
				continue
			}
			if a.lvl <= need && fn.Obj != nil && fn.Lit == nil {
				c.recordParamWrite(fn, a.self, pw.deep, what+" at "+p.Pos(call), pw)
				c.recordParamWrite(fn, a.inner|a.holds, true, what+" at "+p.Pos(call), pw)
				if c.final {
					c.r.Add("E3.call-write", fn.Name, construct, p.Pos(call), OK, "argument derives from this function's parameter: obligation moved to its callers", true)
				}
				continue
			}
			if c.final {
				if ex, ok := e3Exceptions[fn.Name+"|"+construct]; ok {
					c.r.Add("E3.call-write", fn.Name, construct, p.Pos(call), Excepted, ex, true)
					continue
				}
				c.escapes[pw.originFn+"|"+pw.originKey] = append(c.escapes[pw.originFn+"|"+pw.originKey],
					escapeSite{pw, fmt.Sprintf("%s passes %s (%s) at %s", fn.Name, exprStr(arg), a.worst(), p.Pos(call))})
			}
		}
	}
}

func runE3(p *Prog, r *Report) {
	c := &e3{p: p, r: r, resultFields: map[*types.Func]map[string]cls{}, result: map[*types.Func][]cls{}, writes: map[*types.Func]map[int]paramWrite{}, demote: map[types.Object]map[string]cls{},
		impls: map[string][]*types.Func{}, busy: map[string]bool{}, memo: map[memoKey]cls{}, rawIdent: map[memoKey]cls{}, escapes: map[string][]escapeSite{}}
	for _, fn := range p.Funcs {
		if fn.Obj != nil && fn.Decl.Recv != nil {
			c.impls[fn.Obj.Name()] = append(c.impls[fn.Obj.Name()], fn.Obj)
		}
	}
	iters := 0
	for iter := 0; iter < 15; iter++ {
		iters++
		c.changed = false
		c.memo = map[memoKey]cls{}
		c.rawIdent = map[memoKey]cls{}
		for _, fn := range p.Funcs {
			c.analyse(fn)
		}
		if !c.changed {
			break
		}
	}
	c.final = true
	c.nWrites = 0
	c.memo = map[memoKey]cls{}
	for _, fn := range p.Funcs {
		c.analyse(fn)
	}
	var fs []*types.Func
	for f := range c.writes {
		fs = append(fs, f)
	}
	sort.Slice(fs, func(i, j int) bool { return funcName(fs[i]) < funcName(fs[j]) })
	nSum := 0
	for _, f := range fs {
		fn := p.FuncOf[f]
		var idxs []int
		for idx := range c.writes[f] {
			idxs = append(idxs, idx)
		}
		sort.Ints(idxs)
		for _, idx := range idxs {
			pw := c.writes[f][idx]
			nSum++
			if fn == nil || !f.Exported() || strings.Contains(f.Pkg().Path(), "/internal/") {
				continue
			}
			if fn.Decl.Recv != nil {
				if n := namedOf(f.Type().(*types.Signature).Recv().Type()); n == nil || !n.Obj().Exported() {
					continue
				}
			}
			key := fmt.Sprintf("parameter %d", idx)
			if ex, ok := e3Mutators[funcName(f)]; ok {
				r.Add("E3.public-mutator", funcName(f), key, p.Pos(fn.Decl), Excepted, ex, true)
				continue
			}
			if fn.Decl.Recv != nil && (fname(f) == "Swap" || fname(f) == "Less" || fname(f) == "Len") {
				r.Add("E3.public-mutator", funcName(f), key, p.Pos(fn.Decl), Excepted, "sort.Interface method: reached only through sort.* on a slice the caller owns (the sort call itself is judged as a write)", true)
				continue
			}
			c.escapes[pw.originFn+"|"+pw.originKey] = append(c.escapes[pw.originFn+"|"+pw.originKey],
				escapeSite{pw, fmt.Sprintf("public API %s (%s) may be called with caller-owned data", funcName(f), key)})
		}
	}
	// one violation per originating write, listing how caller-owned memory reaches it
	var oks []string
	for k := range c.escapes {
		oks = append(oks, k)
	}
	sort.Strings(oks)
	for _, k := range oks {
		es := c.escapes[k]
		var via []string
		seenV := map[string]bool{}
		for _, e := range es {
			if !seenV[e.via] {
				seenV[e.via] = true
				via = append(via, e.via)
			}
		}
		sort.Strings(via)
		shown := via
		if len(shown) > 6 {
			shown = append(append([]string{}, via[:6]...), fmt.Sprintf("… and %d more", len(via)-6))
		}
		r.Add("E3.escaping-write", es[0].pw.originFn, es[0].pw.originKey, es[0].pw.originPos, Violated,
			"this write goes through a parameter, and memory that exists before the query reaches it: "+strings.Join(shown, "; "), true)
	}
	r.Counts["E3.param-write-summaries"] = nSum
	r.Counts["E3.fixpoint-iterations"] = iters
	r.ExpectMin("E3.write-sites", c.nWrites, 150)
	r.Clauses = append(r.Clauses,
		"E3 every store through a pointer, map or slice, every append into an existing backing array, delete, copy and in-place sort in the module targets memory classified fresh or deep-fresh (allocated in the current call tree; deep = a Copy() result, make/new, or a literal of such parts, not demoted by storing shared pointers into it); writes through parameters and parameter-dependent results are summarised and re-judged at every call site to a fixed point; exported functions must not write through their parameters (named mutators aside)")
	r.Assume("third-party callees (hcl, cty, stdlib) do not write through their arguments except sort.*, append, copy; bytes.Trim*/Range.SliceBytes return sub-slices of their argument; Copy() methods are deep (decided by E5 under C17); cty values and types are immutable")
}

// e3Mutators: exported functions that modify their receiver / argument by design and that
// no query reaches with caller-owned data (in-module call sites are still judged).
var e3Mutators = map[string]string{
	"decoder.(*Decoder).SetContext":           "configuration setter, not reachable from a query (E3.decoder-state)",
	"lang.DiagnosticsMap.Extend":              "builder API of the diagnostics map (modifies and returns its receiver by design); no query code calls it — in-module call sites are judged",
	"reference.LocalOrigin.AppendConstraints": "value receiver: append may store into the caller's backing array when it has spare capacity; accepted under the who-may-call obligation that every in-module caller passes an origin collected in the same call (judged at the call sites, rule E3.call-write)",
	"reference.PathOrigin.AppendConstraints":  "value receiver: append may store into the caller's backing array when it has spare capacity; accepted under the who-may-call obligation that every in-module caller passes an origin collected in the same call (judged at the call sites, rule E3.call-write)",
	"schema.DependencyKeys.MarshalJSON":       "sorts the key slices of its (value) receiver in place through the shared backing arrays; schema-construction helper: every in-module caller passes keys built in the same call (judged at the call sites)",
	"schema.NewSchemaKey":                     "schema-construction helper that marshals (and thereby sorts in place) the caller's dependency keys; not reachable from a query with caller-owned keys (in-module call sites judged)",
}

var e3Exceptions = map[string]string{}

// strongFieldClass: the pointer written through is the field f of a struct *value* x that
// lives in this function (a local, a value parameter or a value receiver: nobody else sees
// it), x.f is assigned exactly once in the function, that assignment dominates the write,
// and x is never re-assigned as a whole nor has its address taken: at the write x.f is what
// that assignment stored (a strong update the flow-insensitive classes cannot express).
func (c *e3) strongFieldClass(fn *Func, ptr ast.Expr, emb string, at ast.Node) (cls, bool) {
	info := fn.Info()
	var xid *ast.Ident
	field := emb
	if emb != "" {
		xid, _ = ast.Unparen(ptr).(*ast.Ident)
	} else if sel, ok := ast.Unparen(ptr).(*ast.SelectorExpr); ok {
		xid, _ = ast.Unparen(sel.X).(*ast.Ident)
		field = sel.Sel.Name
	}
	if xid == nil || field == "" {
		return cls{}, false
	}
	xo, ok := info.ObjectOf(xid).(*types.Var)
	if !ok || xo.IsField() || xo.Parent() == fn.Pkg.Types.Scope() {
		return cls{}, false
	}
	if _, isStruct := xo.Type().Underlying().(*types.Struct); !isStruct {
		return cls{}, false
	}
	if fn.Lit != nil && (xo.Pos() < fn.Lit.Pos() || xo.Pos() > fn.Lit.End()) {
		return cls{}, false // captured from the enclosing function
	}
	// x itself: only its declaration may assign it; no &x
	for _, a := range fn.Assignments(xo) {
		if fn.isParam(xo) {
			return cls{}, false
		}
		switch a.(type) {
		case *ast.UnaryExpr, *ast.RangeStmt, *ast.IncDecStmt:
			return cls{}, false
		}
		if a.Pos() > xo.Pos()+token.Pos(len(xo.Name())) {
			return cls{}, false
		}
	}
	var store *ast.AssignStmt
	var rhs ast.Expr
	n := 0
	bad := false
	ast.Inspect(fn.Body, func(k ast.Node) bool {
		switch y := k.(type) {
		case *ast.UnaryExpr:
			if y.Op == token.AND {
				if root, _ := pathSteps(y.X); root != nil && info.ObjectOf(root) == xo {
					bad = true
				}
			}
		case *ast.AssignStmt:
			for i, l := range y.Lhs {
				sel, ok := ast.Unparen(l).(*ast.SelectorExpr)
				if !ok || sel.Sel.Name != field {
					continue
				}
				if id, ok := ast.Unparen(sel.X).(*ast.Ident); ok && info.ObjectOf(id) == xo {
					n++
					if len(y.Lhs) == len(y.Rhs) && y.Tok == token.ASSIGN {
						store, rhs = y, y.Rhs[i]
					} else {
						bad = true
					}
				}
			}
		}
		return true
	})
	if bad || n != 1 || store == nil || !fn.Dominates(store, at) || store == at {
		return cls{}, false
	}
	return c.classify(fn, rhs, 0), true
}
