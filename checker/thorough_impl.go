package main

// Thorough tier = the quick analysis, plus
//   (1) the same analysis under a second build configuration (GOARCH=386: other int width,
//       other build-constrained files) — a violation there is a violation of the tree;
//   (2) self-validation of the checker against the committed seeded changes of the property
//       (/verif/seeded/<P>-*/patch.diff): each is applied to a scratch copy of the tree under
//       the system temp dir (removed afterwards, /repo itself is never touched), re-analysed
//       in a sub-process, and the rules that fire are recorded in the evidence file.
//       Self-validation never fails the property check: a seeded change that is no longer
//       reported says the *checker* regressed, not the tree; it is printed as
//       "SELF-VALIDATION: …" and recorded under coverage.self_validation.

import (
	"fmt"
	"io"
	"io/fs"
	"os"
	"os/exec"
	"path/filepath"
	"regexp"
	"sort"
	"strings"
	"sync"
)

type seedResult struct {
	Seed     string   `json:"seed"`
	Reported bool     `json:"reported"`
	Rules    []string `json:"rules_fired"`
	Expected string   `json:"recorded_as"`
	Note     string   `json:"note,omitempty"`
}

func copyTree(src, dst string) error {
	return filepath.WalkDir(src, func(path string, d fs.DirEntry, err error) error {
		if err != nil {
			return err
		}
		rel, _ := filepath.Rel(src, path)
		if rel == ".git" || strings.HasPrefix(rel, ".git"+string(os.PathSeparator)) {
			if d.IsDir() {
				return filepath.SkipDir
			}
			return nil
		}
		target := filepath.Join(dst, rel)
		if d.IsDir() {
			return os.MkdirAll(target, 0o755)
		}
		if !d.Type().IsRegular() {
			return nil
		}
		in, err := os.Open(path)
		if err != nil {
			return err
		}
		defer in.Close()
		out, err := os.Create(target)
		if err != nil {
			return err
		}
		defer out.Close()
		_, err = io.Copy(out, in)
		return err
	})
}

var ruleRe = regexp.MustCompile(`\[(?:violated|undecided)\] ([A-Za-z0-9.\-]+)\|`)

func selfValidate(prop, repo, verif string) []seedResult {
	dirs, _ := filepath.Glob(filepath.Join(verif, "seeded", prop+"-*"))
	return runVariants(prop, repo, verif, dirs)
}

// benignValidate: every committed behaviour-preserving change must leave the check silent.
func benignValidate(prop, repo, verif string) []seedResult {
	dirs, _ := filepath.Glob(filepath.Join(verif, "benign", "*"))
	return runVariants(prop, repo, verif, dirs)
}

func runVariants(prop, repo, verif string, dirs []string) []seedResult {
	sort.Strings(dirs)
	res := make([]seedResult, len(dirs))
	var wg sync.WaitGroup
	sem := make(chan struct{}, 6)
	self, _ := os.Executable()
	for i, dir := range dirs {
		wg.Add(1)
		go func(i int, dir string) {
			defer wg.Done()
			sem <- struct{}{}
			defer func() { <-sem }()
			sr := seedResult{Seed: filepath.Base(dir)}
			if b, err := os.ReadFile(filepath.Join(dir, "meta.json")); err == nil {
				if strings.Contains(string(b), "NOT CAUGHT") {
					sr.Expected = "not caught (documented limit)"
				} else {
					sr.Expected = "caught"
				}
			}
			tmp, err := os.MkdirTemp("", "hclverif-seed-")
			if err != nil {
				sr.Note = err.Error()
				res[i] = sr
				return
			}
			defer os.RemoveAll(tmp)
			if err := copyTree(repo, tmp); err != nil {
				sr.Note = "copy: " + err.Error()
				res[i] = sr
				return
			}
			if out, err := exec.Command("patch", "-p1", "-s", "-d", tmp, "-i", filepath.Join(dir, "patch.diff")).CombinedOutput(); err != nil {
				sr.Note = "seeded patch no longer applies to the current tree: " + strings.TrimSpace(string(out))
				res[i] = sr
				return
			}
			cmd := exec.Command(self, "-property", prop, "-repo", tmp, "-verif", verif, "-no-evidence")
			if scratchGoCache != "" {
				cmd.Env = append(os.Environ(), "GOCACHE="+scratchGoCache)
			}
			out, _ := cmd.CombinedOutput()
			seen := map[string]bool{}
			for _, m := range ruleRe.FindAllStringSubmatch(string(out), -1) {
				if !seen[m[1]] {
					seen[m[1]] = true
					sr.Rules = append(sr.Rules, m[1])
				}
			}
			sort.Strings(sr.Rules)
			sr.Reported = cmd.ProcessState != nil && cmd.ProcessState.ExitCode() == 1 && strings.Contains(string(out), "VIOLATION property="+prop)
			if strings.Contains(string(out), "ANALYSIS FAILURE") {
				sr.Note = "analysis failure on the seeded tree (does not compile / type-check)"
			}
			res[i] = sr
		}(i, dir)
	}
	wg.Wait()
	return res
}

// thoroughExtras runs the second configuration and the self-validation. It returns the
// exit code of the second configuration (1 = violations there) and the extra coverage keys.
func thoroughExtras(prop, repo, verif string, noEvidence bool) (int, map[string]interface{}) {
	extra := map[string]interface{}{}
	fmt.Println("== thorough: second build configuration GOARCH=386")
	code := runProperty(prop, "thorough", repo, verif, "386", noEvidence, false, "", nil)
	extra["configurations"] = []string{"GOARCH=386", "GOARCH=(host)"}
	if code != 0 {
		return code, extra
	}
	// every scratch copy compiles the module's packages afresh for export data; with the
	// user's build cache that is ~8 MB per variant and never trimmed. The variants therefore
	// run against a throw-away copy of the build cache that is removed afterwards.
	scratchGoCache = makeScratchGoCache()
	if scratchGoCache != "" {
		defer func() { os.RemoveAll(scratchGoCache); scratchGoCache = "" }()
	}
	fmt.Println("== thorough: self-validation against the committed seeded changes")
	sv := selfValidate(prop, repo, verif)
	rep := 0
	for _, s := range sv {
		st := "reported"
		if !s.Reported {
			st = "NOT reported"
		} else {
			rep++
		}
		fmt.Printf("SELF-VALIDATION: %s %s [%s] (recorded as: %s) %s\n", s.Seed, st, strings.Join(s.Rules, ", "), s.Expected, s.Note)
	}
	extra["self_validation"] = sv
	extra["self_validation_reported"] = rep
	extra["self_validation_total"] = len(sv)
	fmt.Println("== thorough: self-validation against the committed behaviour-preserving changes (must stay silent)")
	bv := benignValidate(prop, repo, verif)
	silent := 0
	for _, b := range bv {
		if b.Reported {
			fmt.Printf("SELF-VALIDATION: benign change %s raises an alarm [%s] %s\n", b.Seed, strings.Join(b.Rules, ", "), b.Note)
		} else {
			silent++
		}
	}
	fmt.Printf("SELF-VALIDATION: %d of %d behaviour-preserving changes leave this check silent\n", silent, len(bv))
	extra["benign_changes_silent"] = silent
	extra["benign_changes_total"] = len(bv)
	var noisy []seedResult
	for _, b := range bv {
		if b.Reported {
			noisy = append(noisy, b)
		}
	}
	extra["benign_changes_alarming"] = noisy
	fmt.Println("== thorough: analysis of the current tree (host configuration)")
	return 0, extra
}

func thoroughImpl(prop, repo, verif string) int { return 0 }

var scratchGoCache string

// makeScratchGoCache: a temporary GOCACHE, seeded with a copy of the current one when that
// is small (so dependencies are not recompiled); "" if it cannot be made.
func makeScratchGoCache() string {
	tmp, err := os.MkdirTemp("", "hclverif-gocache-")
	if err != nil {
		return ""
	}
	out, err := exec.Command("go", "env", "GOCACHE").Output()
	src := strings.TrimSpace(string(out))
	if err != nil || src == "" || src == "off" {
		return tmp
	}
	// size with early stop
	var size int64
	tooBig := false
	filepath.WalkDir(src, func(path string, d fs.DirEntry, err error) error {
		if err != nil || tooBig {
			return filepath.SkipDir
		}
		if !d.IsDir() {
			if fi, err := d.Info(); err == nil {
				size += fi.Size()
				if size > 1<<30 {
					tooBig = true
				}
			}
		}
		return nil
	})
	if tooBig {
		return tmp // start cold rather than copy a huge cache
	}
	if err := copyTree(src, tmp); err != nil {
		os.RemoveAll(tmp)
		tmp2, err := os.MkdirTemp("", "hclverif-gocache-")
		if err != nil {
			return ""
		}
		return tmp2
	}
	return tmp
}
