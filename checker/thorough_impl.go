package main

func thoroughImpl(prop, repo, verif string) int { return 0 }
