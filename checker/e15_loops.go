package main

// E15 — loop discipline rules (module-wide, used by several properties).
//
//  E15.self-comparison     a comparison whose two operands are the same expression compares a
//                          value with itself and decides nothing (x == x, equal(a, a), a.Equals(a))
//  E15.collect-all         a loop that collects results from every element does not `break` on a
//                          per-element miss (!ok / err != nil / nil result of this element):
//                          the remaining elements would be dropped
//  E15.parallel-index      inside `for i := range B.f`, a sibling collection of the same owner
//                          (B.g[...]) is indexed by the loop's own index
//  E15.stale-element-state a variable that classifies the current element (assigned inside the
//                          loop from the element) is never read in an iteration that did not
//                          assign it (no value carried over from the previous element)

import (
	"fmt"
	"go/ast"
	"go/token"
	"go/types"
	"os"
	"strings"
)

func pureExpr(info *types.Info, e ast.Expr) bool {
	ok := true
	ast.Inspect(e, func(n ast.Node) bool {
		if c, isC := n.(*ast.CallExpr); isC {
			if tv, has := info.Types[c.Fun]; has && tv.IsType() {
				return true
			}
			f := calleeOf(info, c)
			if f == nil || !(pureMethods[f.Name()] || fname(f) == "String" || fname(f) == "Len") {
				ok = false
			}
		}
		return ok
	})
	return ok
}

// pureOrGetter: like pureExpr, and argument-less methods of module interfaces (accessors of
// an origin, a target, a constraint) count as reads.
func pureOrGetter(info *types.Info, e ast.Expr) bool {
	ok := true
	ast.Inspect(e, func(n ast.Node) bool {
		if c, isC := n.(*ast.CallExpr); isC {
			if tv, has := info.Types[c.Fun]; has && tv.IsType() {
				return true
			}
			f := calleeOf(info, c)
			if f == nil {
				ok = false
				return false
			}
			if pureMethods[f.Name()] || fname(f) == "String" || fname(f) == "Len" {
				return true
			}
			sig, _ := f.Type().(*types.Signature)
			if sig == nil || sig.Recv() == nil || len(c.Args) != 0 || f.Pkg() == nil || !strings.HasPrefix(f.Pkg().Path(), modPath) {
				ok = false
				return false
			}
			if _, isIface := sig.Recv().Type().Underlying().(*types.Interface); !isIface {
				ok = false
			}
		}
		return ok
	})
	return ok
}

func runSelfCompare(p *Prog, r *Report) {
	n := 0
	for _, fn := range p.Funcs {
		if fn.Body == nil {
			continue
		}
		info := fn.Info()
		ast.Inspect(fn.Body, func(m ast.Node) bool {
			if lit, ok := m.(*ast.FuncLit); ok && lit != fn.Lit {
				return false
			}
			switch x := m.(type) {
			case *ast.BinaryExpr:
				switch x.Op {
				case token.EQL, token.NEQ, token.LSS, token.GTR, token.LEQ, token.GEQ:
					if _, isLit := ast.Unparen(x.X).(*ast.BasicLit); isLit {
						return true
					}
					n++
					if exprStr(x.X) == exprStr(x.Y) && pureExpr(info, x.X) && !strings.Contains(exprStr(x.X), "…") {
						if tv, ok := info.Types[x.X]; ok && tv.Value != nil {
							return true
						}
						r.Add("E15.self-comparison", fn.Name, exprStr(x), p.Pos(x), Violated, "both operands are the same expression: the comparison is decided before it runs", true)
					}
				}
			case *ast.CallExpr:
				f := calleeOf(info, x)
				if f == nil {
					return true
				}
				sig, ok := f.Type().(*types.Signature)
				if !ok || sig.Results().Len() != 1 {
					return true
				}
				if bt, ok := sig.Results().At(0).Type().Underlying().(*types.Basic); !ok || bt.Kind() != types.Bool {
					return true
				}
				var a, b ast.Expr
				if sig.Recv() != nil && sig.Params().Len() == 1 && len(x.Args) == 1 {
					if sel, ok := ast.Unparen(x.Fun).(*ast.SelectorExpr); ok && types.Identical(derefType(sig.Recv().Type()), derefType(sig.Params().At(0).Type())) {
						a, b = sel.X, x.Args[0]
					}
				} else if sig.Recv() == nil && sig.Params().Len() == 2 && len(x.Args) == 2 && types.Identical(sig.Params().At(0).Type(), sig.Params().At(1).Type()) {
					a, b = x.Args[0], x.Args[1]
				}
				if a == nil {
					return true
				}
				// only comparison-like functions
				ln := strings.ToLower(f.Name())
				if !(strings.Contains(ln, "equal") || strings.Contains(ln, "overlap") || strings.Contains(ln, "match") || strings.Contains(ln, "less") || strings.Contains(ln, "same")) {
					return true
				}
				n++
				if exprStr(a) == exprStr(b) && pureExpr(info, a) && !strings.Contains(exprStr(a), "…") {
					r.Add("E15.self-comparison", fn.Name, exprStr(x), p.Pos(x), Violated, "both arguments are the same expression: "+f.Name()+" compares a value with itself", true)
				} else if ia, ib := fn.InlineLocals(a, 2), fn.InlineLocals(b, 2); exprStr(a) != exprStr(b) && exprStr(ia) == exprStr(ib) && pureOrGetter(info, ia) && !strings.Contains(exprStr(ia), "…") {
					r.Add("E15.self-comparison", fn.Name, exprStr(x), p.Pos(x), Violated, "both arguments are defined as the same expression ("+exprStr(ia)+"): "+f.Name()+" compares a value with itself", true)
				}
			}
			return true
		})
	}
	r.Counts["E15.comparisons-examined"] = n
	r.ExpectMin("E15.comparisons-examined", n, 500)
	r.Clauses = append(r.Clauses, "E15 no comparison (==, <, …, Equals/equal/overlap/match helpers) has the same expression on both sides")
}

// loopBodyAssigned: local variables assigned somewhere inside the loop body.
func assignedIn(fn *Func, body ast.Node) map[types.Object][]ast.Node {
	info := fn.Info()
	out := map[types.Object][]ast.Node{}
	ast.Inspect(body, func(n ast.Node) bool {
		switch s := n.(type) {
		case *ast.FuncLit:
			return false
		case *ast.AssignStmt:
			for _, l := range s.Lhs {
				if id, ok := ast.Unparen(l).(*ast.Ident); ok && id.Name != "_" {
					if o := info.ObjectOf(id); o != nil {
						out[o] = append(out[o], s)
					}
				}
			}
		case *ast.ValueSpec:
			for _, id := range s.Names {
				if o := info.ObjectOf(id); o != nil {
					out[o] = append(out[o], s)
				}
			}
		}
		return true
	})
	return out
}

func runCollectAll(p *Prog, r *Report) {
	nLoops, nBreaks := 0, 0
	for _, fn := range p.Funcs {
		if fn.Body == nil {
			continue
		}
		info := fn.Info()
		ast.Inspect(fn.Body, func(m ast.Node) bool {
			if lit, ok := m.(*ast.FuncLit); ok && lit != fn.Lit {
				return false
			}
			rs, ok := m.(*ast.RangeStmt)
			if !ok {
				fs, isFor := m.(*ast.ForStmt)
				if !isFor {
					return true
				}
				if rs = countingAsRange(fs); rs == nil {
					return true
				}
			}
			// does the loop collect into an outer slice?
			collects := ""
			ast.Inspect(rs.Body, func(k ast.Node) bool {
				as, ok := k.(*ast.AssignStmt)
				if !ok || len(as.Lhs) != 1 || len(as.Rhs) != 1 {
					return true
				}
				c, ok := ast.Unparen(as.Rhs[0]).(*ast.CallExpr)
				if !ok || !isBuiltinCall(info, c, "append") || len(c.Args) < 2 {
					return true
				}
				if pathOf(info, as.Lhs[0]) == "" || pathOf(info, as.Lhs[0]) != pathOf(info, c.Args[0]) {
					return true
				}
				if o := baseObj(info, as.Lhs[0]); o != nil && !(o.Pos() >= rs.Body.Pos() && o.Pos() < rs.Body.End()) {
					collects = exprStr(as.Lhs[0])
				}
				return true
			})
			if collects == "" {
				return true
			}
			nLoops++
			inLoop := assignedIn(fn, rs.Body)
			// breaks binding to this loop
			var visit func(n ast.Node, depthBreakable int)
			visit = func(n ast.Node, depth int) {
				ast.Inspect(n, func(k ast.Node) bool {
					switch s := k.(type) {
					case *ast.FuncLit:
						return false
					case *ast.ForStmt, *ast.RangeStmt, *ast.SwitchStmt, *ast.TypeSwitchStmt, *ast.SelectStmt:
						if k != n {
							// breaks inside bind to the inner statement; returns still leave the loop
							switch in := k.(type) {
							case *ast.SwitchStmt:
								visit(in.Body, depth+1)
							case *ast.TypeSwitchStmt:
								visit(in.Body, depth+1)
							}
							return false
						}
					case *ast.BranchStmt, *ast.ReturnStmt:
						exitKind := "break"
						if bs, ok := k.(*ast.BranchStmt); ok {
							if bs.Tok != token.BREAK || bs.Label != nil || depth > 0 {
								return true
							}
						} else {
							// returning the partial collection from inside the loop ends it like a break
							partial := false
							for _, res := range k.(*ast.ReturnStmt).Results {
								if exprStr(res) == collects {
									partial = true
								}
							}
							// … unless it reports an error next to it: the caller discards the result
							for _, res := range k.(*ast.ReturnStmt).Results {
								if tv := info.TypeOf(res); tv != nil && tv.String() == "error" && !isNilIdent(info, res) {
									partial = false
								}
							}
							if !partial {
								return true
							}
							exitKind = "return " + collects
						}
						nBreaks++
						// nearest enclosing if inside the loop
						var ifs *ast.IfStmt
						for x := p.Parent(s); x != nil && x != ast.Node(rs); x = p.Parent(x) {
							if i, ok := x.(*ast.IfStmt); ok {
								ifs = i
								break
							}
						}
						construct := fmt.Sprintf("%s in range %s collecting %s#%d", exitKind, cmpText(rs.X), collects, nBreaks)
						if exitKind != "break" {
							construct = fmt.Sprintf("%s in range %s", exitKind, cmpText(rs.X))
						}
						if ifs == nil {
							// an exit at the end of the body, reached when the guard clauses above it did not
							// `continue`: judged by the guards on the way to it
							missG := ""
							var at *Formula
							if bs, isBranch := s.(*ast.BranchStmt); isBranch {
								at = guardsAtBranch(p, fn, bs)
							} else {
								at = fn.GuardsAt(s)
							}
							for _, a := range at.AllAtoms() {
								if a == nil || a.E == nil || a.Pol {
									continue
								}
								if a.E.Pos().IsValid() && (a.E.Pos() < rs.Body.Pos() || a.E.Pos() >= rs.Body.End()) {
									continue
								}
								if id, ok := ast.Unparen(a.E).(*ast.Ident); ok {
									if o := info.ObjectOf(id); o != nil && len(inLoop[o]) > 0 && perElementResult(info, inLoop[o]) && dependsOnElement(fn, rs, inLoop[o]) {
										missG = "!" + id.Name
									}
								}
							}
							if missG != "" {
								r.Add("E15.collect-all", fn.Name, construct, p.Pos(s), Violated,
									"the loop collects "+collects+" from every element but stops at the first element for which "+missG+": everything after it is dropped", true)
							}
							return true
						}
						miss := ""
						ast.Inspect(ifs.Cond, func(c ast.Node) bool {
							switch e := c.(type) {
							case *ast.UnaryExpr:
								if e.Op == token.NOT {
									if id, ok := ast.Unparen(e.X).(*ast.Ident); ok {
										if o := info.ObjectOf(id); o != nil && len(inLoop[o]) > 0 && perElementResult(info, inLoop[o]) && dependsOnElement(fn, rs, inLoop[o]) {
											miss = "!" + id.Name
										}
									}
								}
							case *ast.BinaryExpr:
								if (e.Op == token.NEQ || e.Op == token.EQL) && (isNilIdent(info, e.Y) || isNilIdent(info, e.X)) {
									other := e.X
									if isNilIdent(info, e.X) {
										other = e.Y
									}
									if id, ok := ast.Unparen(other).(*ast.Ident); ok {
										if o := info.ObjectOf(id); o != nil && len(inLoop[o]) > 0 && perElementResult(info, inLoop[o]) && dependsOnElement(fn, rs, inLoop[o]) {
											tv := info.TypeOf(other)
											isErr := tv != nil && tv.String() == "error"
											if (isErr && e.Op == token.NEQ) || (!isErr && e.Op == token.EQL) {
												miss = exprStr(e)
											}
										}
									}
								}
							}
							return true
						})
						if miss == "" && roleOfType(info.TypeOf(rs.X)) == roleOTHER {
							// position test on a collection that spans several files (written in place or
							// in a predicate helper)
							conds := []ast.Expr{ifs.Cond}
							ast.Inspect(ifs.Cond, func(c ast.Node) bool {
								if call, ok := c.(*ast.CallExpr); ok {
									if b := fn.inlinePredicateCall(call); b != nil {
										conds = append(conds, b)
									}
								}
								return true
							})
							for _, cnd := range conds {
								ast.Inspect(cnd, func(c ast.Node) bool {
									if call, ok := c.(*ast.CallExpr); ok && lastSel(call.Fun) == "ContainsPos" {
										if vid, ok := rs.Value.(*ast.Ident); ok && vid.Name != "_" && mentionsVar(fn, call.Fun, info.ObjectOf(vid), 2) {
											miss = exprStr(ifs.Cond) + " (a position test on the element: several items of " + cmpText(rs.X) + " may contain the position, e.g. targets that share a definition range)"
										}
									}
									if sel, ok := c.(*ast.SelectorExpr); ok && (sel.Sel.Name == "Byte" || sel.Sel.Name == "Line" || sel.Sel.Name == "Column") {
										if tv := info.TypeOf(sel.X); tv != nil && isHclPos(tv) {
											miss = exprStr(ifs.Cond) + " (a position test: " + cmpText(rs.X) + " holds items of several files and is not ordered by byte offset)"
										}
									}
									return true
								})
							}
						}
						if miss != "" {
							r.Add("E15.collect-all", fn.Name, construct, p.Pos(s), Violated,
								"the loop collects "+collects+" from every element but stops at the first element for which "+miss+": everything after it is dropped", true)
						} else {
							r.Add("E15.collect-all", fn.Name, construct, p.Pos(s), OK, "break is not on a per-element miss ("+exprStr(ifs.Cond)+")", true)
						}
					}
					return true
				})
			}
			visit(rs.Body, 0)
			return true
		})
	}
	r.Counts["E15.collecting-loops"] = nLoops
	r.Counts["E15.breaks-in-collecting-loops"] = nBreaks
	r.ExpectMin("E15.collecting-loops", nLoops, 60)
	r.Clauses = append(r.Clauses, "E15 loops that collect results from every element never break on a per-element miss (!ok, err != nil, nil result)")
}

// perElementResult: the variable is assigned in the loop from a call / lookup / assertion
// (the outcome of processing this element), not a plain flag.
func perElementResult(info *types.Info, as []ast.Node) bool {
	for _, a := range as {
		if s, ok := a.(*ast.AssignStmt); ok && len(s.Rhs) == 1 {
			switch ast.Unparen(s.Rhs[0]).(type) {
			case *ast.CallExpr, *ast.IndexExpr, *ast.TypeAssertExpr:
				return true
			}
		}
	}
	return false
}

// dependsOnElement: some assignment of the variable inside the loop mentions the loop's
// value variable (directly or through locals defined in the loop). A result computed from
// the loop *index* alone (param, ok := paramAt(sig, i)) is a property of the position —
// typically monotone — not of the element.
func dependsOnElement(fn *Func, rs *ast.RangeStmt, as []ast.Node) bool {
	info := fn.Info()
	vid, ok := rs.Value.(*ast.Ident)
	if !ok || vid.Name == "_" {
		// no value variable (for i := range xs / a counting loop): the element is xs[i]
		kid, isKey := rs.Key.(*ast.Ident)
		if !isKey || kid.Name == "_" {
			return false
		}
		ko := info.ObjectOf(kid)
		coll := exprStr(rs.X)
		found := false
		for _, a := range as {
			if s, ok := a.(*ast.AssignStmt); ok {
				for _, rhs := range s.Rhs {
					ast.Inspect(rhs, func(z ast.Node) bool {
						if ix, ok := z.(*ast.IndexExpr); ok && exprStr(ix.X) == coll {
							if iid, ok := ast.Unparen(ix.Index).(*ast.Ident); ok && info.ObjectOf(iid) == ko {
								found = true
							}
						}
						return !found
					})
				}
			}
		}
		return found
	}
	vo := info.ObjectOf(vid)
	for _, a := range as {
		if s, ok := a.(*ast.AssignStmt); ok {
			for _, rhs := range s.Rhs {
				// the element is itself the handler that is called (a chain of strategies,
				// each of which may end the chain): its result is a verdict, not a miss
				if call, ok := ast.Unparen(rhs).(*ast.CallExpr); ok {
					if id, ok := ast.Unparen(call.Fun).(*ast.Ident); ok && info.ObjectOf(id) == vo {
						continue
					}
				}
				if mentionsVar(fn, rhs, vo, 3) {
					return true
				}
			}
		}
	}
	return false
}

func runParallelIndex(p *Prog, r *Report) {
	n := 0
	for _, fn := range p.Funcs {
		if fn.Body == nil {
			continue
		}
		info := fn.Info()
		ast.Inspect(fn.Body, func(m ast.Node) bool {
			if lit, ok := m.(*ast.FuncLit); ok && lit != fn.Lit {
				return false
			}
			rs, ok := m.(*ast.RangeStmt)
			if !ok {
				return true
			}
			sel, ok := ast.Unparen(rs.X).(*ast.SelectorExpr)
			if !ok {
				return true
			}
			if _, isSlice := info.TypeOf(rs.X).Underlying().(*types.Slice); !isSlice {
				return true
			}
			kid, ok := rs.Key.(*ast.Ident)
			if !ok || kid.Name == "_" {
				return true
			}
			kobj := info.ObjectOf(kid)
			owner := pathOf(info, sel.X)
			if owner == "" {
				return true
			}
			ast.Inspect(rs.Body, func(k ast.Node) bool {
				ix, ok := k.(*ast.IndexExpr)
				if !ok {
					return true
				}
				s2, ok := ast.Unparen(ix.X).(*ast.SelectorExpr)
				if !ok || s2.Sel.Name == sel.Sel.Name || pathOf(info, s2.X) != owner {
					return true
				}
				if _, isSlice := info.TypeOf(ix.X).Underlying().(*types.Slice); !isSlice {
					return true
				}
				n++
				construct := exprStr(ix) + " in range " + exprStr(rs.X)
				uses := false
				ast.Inspect(ix.Index, func(z ast.Node) bool {
					if id, ok := z.(*ast.Ident); ok && info.ObjectOf(id) == kobj {
						uses = true
					}
					return true
				})
				if !uses {
					// an index derived from the loop index through a single definition
					if id, ok := ast.Unparen(ix.Index).(*ast.Ident); ok {
						if d := fn.SingleDef(info.ObjectOf(id)); d != nil {
							ast.Inspect(d, func(z ast.Node) bool {
								if id2, ok := z.(*ast.Ident); ok && info.ObjectOf(id2) == kobj {
									uses = true
								}
								return true
							})
						}
					}
				}
				if uses {
					r.Add("E15.parallel-index", fn.Name, construct, p.Pos(ix), OK, "indexed by the loop's own index", true)
				} else {
					r.Add("E15.parallel-index", fn.Name, construct, p.Pos(ix), Violated,
						"inside the loop over "+exprStr(rs.X)+" the sibling collection "+exprStr(ix.X)+" is indexed by "+exprStr(ix.Index)+", not by the loop index "+kid.Name+": every iteration refers to the same item", true)
				}
				return true
			})
			return true
		})
	}
	r.Counts["E15.parallel-indexes"] = n
	r.ExpectMin("E15.parallel-indexes", n, 2)
	r.Clauses = append(r.Clauses, "E15 inside a loop over one collection of an owner, sibling collections of the same owner are indexed by the loop's index")
}

// runStaleElementState: per-element classification variables.
func runStaleElementState(p *Prog, r *Report) {
	n := 0
	for _, fn := range p.Funcs {
		if fn.Body == nil {
			continue
		}
		info := fn.Info()
		ast.Inspect(fn.Body, func(m ast.Node) bool {
			if lit, ok := m.(*ast.FuncLit); ok && lit != fn.Lit {
				return false
			}
			rs, ok := m.(*ast.RangeStmt)
			if !ok {
				// `for i := 0; i < len(xs); i++` read as `for i := range xs`
				fs, isFor := m.(*ast.ForStmt)
				if !isFor {
					return true
				}
				rs = countingAsRange(fs)
				if rs == nil {
					return true
				}
			}
			lv := rangeVars(info, []*ast.RangeStmt{rs})
			if len(lv) == 0 {
				return true
			}
			inLoop := assignedIn(fn, rs.Body)
			for o, asns := range inLoop {
				v, ok := o.(*types.Var)
				if !ok || (o.Pos() >= rs.Pos() && o.Pos() < rs.End()) {
					continue // declared inside the loop (or the loop's own variables)
				}
				// classification of the element: some assignment's RHS mentions the loop element
				// (directly or through locals defined in the loop) and is a lookup/call/assertion
				classifies := false
				for _, a := range asns {
					s, ok := a.(*ast.AssignStmt)
					if !ok || s.Tok != token.ASSIGN {
						continue
					}
					for _, rhs := range s.Rhs {
						switch ast.Unparen(rhs).(type) {
						case *ast.IndexExpr, *ast.CallExpr, *ast.TypeAssertExpr, *ast.SelectorExpr, *ast.Ident:
							// (an identifier: a local of this iteration that holds the looked-up value)
						default:
							continue
						}
						if id, isId := ast.Unparen(rhs).(*ast.Ident); isId {
							if ov, isVar := info.ObjectOf(id).(*types.Var); !isVar || !(ov.Pos() >= rs.Body.Pos() && ov.Pos() < rs.Body.End()) {
								continue
							}
						}
						if c, isC := ast.Unparen(rhs).(*ast.CallExpr); isC && isBuiltinCall(info, c, "append") {
							continue
						}
						if ok2, _ := derivesFromLoop(fn, rhs, lv, rs, false, 3); ok2 {
							classifies = true
						}
					}
				}
				if os.Getenv("HCLVERIF_STALEDEBUG") != "" {
					fmt.Printf("STALE %s %s classifies=%v\n", fn.Name, v.Name(), classifies)
				}
				if !classifies {
					continue
				}
				// accumulators (x = f(x, …), x += …) are carried on purpose
				acc := false
				for _, a := range asns {
					if s, ok := a.(*ast.AssignStmt); ok {
						if s.Tok != token.ASSIGN && s.Tok != token.DEFINE {
							acc = true
						}
						for _, rhs := range s.Rhs {
							if mentionsVar(fn, rhs, o, 3) {
								acc = true
							}
						}
					}
				}
				if acc {
					continue
				}
				// every read of the variable inside the loop must be dominated, within the body, by
				// an assignment of this iteration
				var reads []*ast.Ident
				lhsIdents := map[*ast.Ident]bool{}
				for _, a := range asns {
					if s, ok := a.(*ast.AssignStmt); ok {
						for _, l := range s.Lhs {
							if id, ok := ast.Unparen(l).(*ast.Ident); ok {
								lhsIdents[id] = true
							}
						}
					}
				}
				ast.Inspect(rs.Body, func(z ast.Node) bool {
					if _, isLit := z.(*ast.FuncLit); isLit {
						return false
					}
					if be, ok := z.(*ast.BinaryExpr); ok && (be.Op == token.EQL || be.Op == token.NEQ) && (isNilIdent(info, be.X) || isNilIdent(info, be.Y)) {
						other := be.X
						if isNilIdent(info, be.X) {
							other = be.Y
						}
						if id, ok := ast.Unparen(other).(*ast.Ident); ok && info.ObjectOf(id) == o {
							return false // a latch test (set once, then skip): not a use of the element's value
						}
					}
					if id, ok := z.(*ast.Ident); ok && info.ObjectOf(id) == o && !lhsIdents[id] {
						reads = append(reads, id)
					}
					return true
				})
				if len(reads) == 0 {
					continue
				}
				// a "previous element" tracker: every assignment comes after all reads of the
				// iteration (no read is reachable from an assignment without going round the
				// loop) — carrying the value over is the point
				// (within one iteration control only moves forward through the body, so a read
				// that lies textually before every assignment cannot see this iteration's value)
				sameIter := false
				for _, a := range asns {
					for _, rd := range reads {
						if rd.Pos() > a.Pos() {
							sameIter = true
						}
					}
				}
				if !sameIter {
					continue
				}
				// an assignment after which the loop is always left (return / break) hands nothing
				// to a later iteration: the value read on the other paths is the one from before the loop
				carries := false
				var firstNode ast.Node
				if len(rs.Body.List) > 0 {
					first := ast.Node(rs.Body.List[0])
					for k := 0; k < 4; k++ {
						switch x := first.(type) {
						case *ast.IfStmt:
							if x.Init != nil {
								first = x.Init
							} else {
								first = x.Cond
							}
							continue
						case *ast.SwitchStmt:
							if x.Init != nil {
								first = x.Init
							} else if x.Tag != nil {
								first = x.Tag
							} else {
								// tagless switch: control starts at the first case expression
								for _, c := range x.Body.List {
									if cc, ok := c.(*ast.CaseClause); ok && len(cc.List) > 0 {
										first = cc.List[0]
										break
									}
								}
							}
						case *ast.BlockStmt:
							if len(x.List) > 0 {
								first = x.List[0]
								continue
							}
						}
						break
					}
					firstNode = first
					for _, a := range asns {
						if reachesStmt(fn, a, first, nil) {
							carries = true
						}
					}
				}
				if !carries {
					continue
				}
				n++
				construct := "per-element variable " + v.Name() + " in range " + cmpText(rs.X)
				stale := ""
				for _, rd := range reads {
					dom := false
					for _, a := range asns {
						if fn.Dominates(a, rd) {
							dom = true
						}
					}
					// or every way from the top of the body to the read crosses one of them
					// (set in both arms of an if/else, in every case of a switch)
					if !dom && firstNode != nil && fn.BlockOf(firstNode) != nil && fn.BlockOf(rd) != nil {
						isAsn := false
						for _, a := range asns {
							if fn.CFGNodeOf(a) == fn.CFGNodeOf(firstNode) {
								isAsn = true
							}
						}
						if isAsn || (fn.CFGNodeOf(firstNode) != fn.CFGNodeOf(rd) && !reachesWithoutRedef(fn, firstNode, rd, o)) {
							dom = true
						}
					}
					if !dom {
						stale = p.Pos(rd)
						break
					}
				}
				if stale == "" {
					r.Add("E15.stale-element-state", fn.Name, construct, p.Pos(rs), OK, "every read in the loop follows an assignment of the same iteration", true)
				} else {
					r.Add("E15.stale-element-state", fn.Name, construct, p.Pos(rs), Violated,
						v.Name()+" is declared outside the loop, set from the current element only on some paths, and read at "+stale+" on a path that did not set it: the value of the previous element is used", true)
				}
			}
			return true
		})
	}
	r.Counts["E15.per-element-variables"] = n
	r.Clauses = append(r.Clauses, "E15 variables that classify the current loop element are assigned in the same iteration before they are read")
}

// mentionsVar: does e mention o, directly or through locals with a single definition?
func mentionsVar(fn *Func, e ast.Expr, o types.Object, depth int) bool {
	info := fn.Info()
	found := false
	ast.Inspect(e, func(z ast.Node) bool {
		if found {
			return false
		}
		id, ok := z.(*ast.Ident)
		if !ok {
			return true
		}
		io := info.ObjectOf(id)
		if io == o {
			found = true
			return false
		}
		if depth > 0 && io != nil {
			if v, ok := io.(*types.Var); ok && !v.IsField() {
				if d := fn.SingleDef(io); d != nil && mentionsVar(fn, d, o, depth-1) {
					found = true
				} else if as := fn.Assignments(io); len(as) == 1 {
					if s, ok := as[0].(*ast.AssignStmt); ok && len(s.Rhs) == 1 && mentionsVar(fn, s.Rhs[0], o, depth-1) {
						found = true
					}
				}
			}
		}
		return !found
	})
	return found
}

// runSiblingChildCons — E15.sibling-child-constraint: the features (completion, hover,
// semantic tokens, origins, targets) each walk the same syntax node kinds of an `Any`
// expression and hand every child expression to newExpression with a constraint. For one
// node kind and one child field, all sibling walkers must use the same constraint: a walker
// that interprets the condition of `c ? a : b` under another type than its siblings sees
// different literals/references there.
func runSiblingChildCons(p *Prog, r *Report) {
	type site struct {
		fn   *Func
		call *ast.CallExpr
		val  string
	}
	groups := map[string][]site{}
	for _, fn := range p.Funcs {
		if fn.Body == nil || fn.Lit != nil || !strings.HasSuffix(fn.Pkg.PkgPath, "hcl-lang/decoder") {
			continue
		}
		rv := recvObj(fn)
		if rv == nil {
			continue
		}
		// Any (the syntax-form walkers), and every other expression type that carries a
		// constraint (`cons` field): its feature methods walk the same children
		recvPrefix := ""
		if !typeIs(derefType(rv.Type()), "hcl-lang/decoder", "Any") {
			nt := namedOf(derefType(rv.Type()))
			st, _ := derefType(rv.Type()).Underlying().(*types.Struct)
			if nt == nil || st == nil || nt.Obj().Pkg() == nil || !strings.HasSuffix(nt.Obj().Pkg().Path(), "hcl-lang/decoder") {
				continue
			}
			hasCons := false
			for i := 0; i < st.NumFields(); i++ {
				if canonId(st.Field(i).Name()) == "cons" {
					hasCons = true
				}
			}
			if !hasCons {
				continue
			}
			switch canonId(nt.Obj().Name()) {
			case "List", "Set", "Tuple", "Map":
				// homogeneous containers: the children's constraint is a field of the receiver's constraint
			default:
				continue // Object / LiteralValue look the child's constraint up per key or per value
			}
			recvPrefix = canonId(nt.Obj().Name()) + ":"
		}
		info := fn.Info()
		var recv types.Object
		if fn.Decl.Recv != nil && len(fn.Decl.Recv.List[0].Names) == 1 {
			recv = info.ObjectOf(fn.Decl.Recv.List[0].Names[0])
		}
		ast.Inspect(fn.Body, func(m ast.Node) bool {
			call, ok := m.(*ast.CallExpr)
			if !ok {
				return true
			}
			var ex, co ast.Expr
			f := calleeOf(info, call)
			if f != nil && fname(f) == "newExpression" && len(call.Args) >= 2 {
				ex, co = call.Args[len(call.Args)-2], call.Args[len(call.Args)-1]
				// inside a wrapper (closure) whose parameters are handed on: judged at its call sites
				if id, ok := ast.Unparen(ex).(*ast.Ident); ok {
					if lit := enclosingFuncLit(p, call); lit != nil && isParamOfLit(info, lit, id) {
						return true
					}
				}
			} else if wex, wco := wrappedNewExpression(fn, call); wex != nil {
				ex, co = wex, wco
			} else {
				return true
			}
			// child: <typeswitch var>.<Field>[…]
			base := ast.Unparen(ex)
			if ix, ok := base.(*ast.IndexExpr); ok {
				base = ast.Unparen(ix.X)
			}
			if id, ok := base.(*ast.Ident); ok {
				// range element of <var>.<Field>
				o := info.ObjectOf(id)
				for _, a := range fn.Assignments(o) {
					if rs, ok := a.(*ast.RangeStmt); ok {
						base = ast.Unparen(rs.X)
					}
				}
			}
			sel, ok := base.(*ast.SelectorExpr)
			if !ok {
				return true
			}
			vt := info.TypeOf(sel.X)
			if vt == nil || roleOfType(vt) != roleAST {
				return true
			}
			key := recvPrefix + types.TypeString(derefType(vt), func(*types.Package) string { return "" }) + "." + sel.Sel.Name
			groups[key] = append(groups[key], site{fn, call, normSym(fn, co, nil, nil, recv, 3)})
			return true
		})
	}
	n := 0
	var keys []string
	for k := range groups {
		keys = append(keys, k)
	}
	sortStrings(keys)
	for _, k := range keys {
		all := groups[k]
		fns := map[string]bool{}
		for _, s := range all {
			fns[s.fn.Name] = true
		}
		if len(fns) < 2 {
			continue
		}
		// reviewed divergences are set aside; the rest must be unanimous
		var ss []site
		ord := map[string]int{}
		for _, s := range all {
			if why, ok := siblingExceptions[s.fn.Name+"|"+k]; ok {
				n++
				ord[s.fn.Name]++
				r.Add("E15.sibling-child-constraint", s.fn.Name, fmt.Sprintf("constraint for child %s#%d", k, ord[s.fn.Name]), p.Pos(s.call), Excepted, why, true)
				continue
			}
			ss = append(ss, s)
		}
		cnt := map[string]int{}
		for _, s := range ss {
			cnt[s.val]++
		}
		best, bestN := "", 0
		for v, c := range cnt {
			if c > bestN || (c == bestN && v < best) {
				best, bestN = v, c
			}
		}
		for _, s := range ss {
			n++
			ord[s.fn.Name]++
			construct := fmt.Sprintf("constraint for child %s#%d", k, ord[s.fn.Name])
			switch {
			case len(cnt) == 1:
				r.Add("E15.sibling-child-constraint", s.fn.Name, construct, p.Pos(s.call), OK, "all "+fmt.Sprint(len(ss))+" sibling walkers use "+s.val, true)
			case s.val != best || bestN*2 <= len(ss):
				r.Add("E15.sibling-child-constraint", s.fn.Name, construct, p.Pos(s.call), Violated,
					fmt.Sprintf("this walker interprets %s under %s while %d of its %d siblings use %s: the features disagree about what is written there", k, s.val, bestN, len(ss), best), true)
			default:
				r.Add("E15.sibling-child-constraint", s.fn.Name, construct, p.Pos(s.call), OK, "agrees with the other sibling walkers ("+best+")", true)
			}
		}
	}
	r.Counts["E15.sibling-child-sites"] = n
	r.ExpectMin("E15.sibling-child-sites", n, 20)
	r.Clauses = append(r.Clauses, "E15 the feature walkers of Any expressions hand each child of a syntax node kind to the same constraint")
}

func sortStrings(xs []string) {
	for i := 1; i < len(xs); i++ {
		for j := i; j > 0 && xs[j] < xs[j-1]; j-- {
			xs[j], xs[j-1] = xs[j-1], xs[j]
		}
	}
}

var siblingExceptions = map[string]string{
	"decoder.Any.completeConditionalExprAtPos|ConditionalExpr.TrueResult":  "reviewed divergence: completion and hover look at the results of a conditional under 'any type' (cty.DynamicPseudoType), tokens and origins under the attribute's own type; set aside, the two remaining walkers must agree",
	"decoder.Any.completeConditionalExprAtPos|ConditionalExpr.FalseResult": "reviewed divergence: see TrueResult",
	"decoder.Any.hoverConditionalExprAtPos|ConditionalExpr.TrueResult":     "reviewed divergence: see completeConditionalExprAtPos",
	"decoder.Any.hoverConditionalExprAtPos|ConditionalExpr.FalseResult":    "reviewed divergence: see completeConditionalExprAtPos",
	"decoder.Any.refOriginsForForExpr|ForExpr.CollExpr":                    "origins of a for-expression's collection are collected under 'any collection type' (list/set/tuple/map/object of anything) because the collection's type is unrelated to the result constraint; the other walkers pass the result constraint on. Reviewed: a superset constraint for origins cannot lose a reference that the others see",
}

// runZeroLenCopy — E15.copy-into-empty: copy(dst, src) copies min(len(dst), len(src)) elements;
// a destination made with length 0 (make(T, 0, n)) receives nothing.
func runZeroLenCopy(p *Prog, r *Report) {
	n := 0
	for _, fn := range p.Funcs {
		if fn.Body == nil {
			continue
		}
		info := fn.Info()
		ast.Inspect(fn.Body, func(m ast.Node) bool {
			if lit, ok := m.(*ast.FuncLit); ok && lit != fn.Lit {
				return false
			}
			c, ok := m.(*ast.CallExpr)
			if !ok || !isBuiltinCall(info, c, "copy") || len(c.Args) != 2 {
				return true
			}
			n++
			dst := ast.Unparen(c.Args[0])
			construct := exprStr(c)
			def := dst
			if id, ok := dst.(*ast.Ident); ok {
				if d := fn.SingleDef(info.ObjectOf(id)); d != nil {
					def = ast.Unparen(d)
				}
			} else if sel, ok := dst.(*ast.SelectorExpr); ok {
				// field of a local struct literal / assigned just before
				pth := pathOf(info, sel)
				ast.Inspect(fn.Body, func(k ast.Node) bool {
					if as, ok := k.(*ast.AssignStmt); ok && len(as.Lhs) == len(as.Rhs) {
						for i, l := range as.Lhs {
							if pathOf(info, l) == pth && fn.Dominates(as, c) {
								def = ast.Unparen(as.Rhs[i])
							}
						}
					}
					return true
				})
			}
			if mk, ok := def.(*ast.CallExpr); ok && isBuiltinCall(info, mk, "make") && len(mk.Args) >= 2 {
				if v, isConst := constInt(info, mk.Args[1]); isConst && v == 0 {
					r.Add("E15.copy-into-empty", fn.Name, construct, p.Pos(c), Violated, "the destination was made with length 0 ("+exprStr(mk)+"): copy() transfers no element", true)
					return true
				}
			}
			r.Add("E15.copy-into-empty", fn.Name, construct, p.Pos(c), OK, "destination is not a zero-length slice", false)
			return true
		})
	}
	r.Counts["E15.copy-calls"] = n
	r.ExpectMin("E15.copy-calls", n, 2)
	r.Clauses = append(r.Clauses, "E15 no copy() into a destination made with length 0")
}

// runAsymmetricNormalisation — E15.asymmetric-normalisation: in a string comparison /
// containment test exactly one side went through ToLower/ToUpper: the test is neither
// case-sensitive nor case-insensitive.
func runAsymmetricNormalisation(p *Prog, r *Report) {
	n := 0
	normalised := func(fn *Func, e ast.Expr, depth int) bool {
		info := fn.Info()
		found := false
		var rec func(e ast.Expr, d int)
		rec = func(e ast.Expr, d int) {
			ast.Inspect(e, func(z ast.Node) bool {
				if found {
					return false
				}
				switch x := z.(type) {
				case *ast.CallExpr:
					full := calleeFull(info, x)
					if full == "strings.ToLower" || full == "strings.ToUpper" || full == "strings.Title" || full == "bytes.ToLower" || full == "bytes.ToUpper" {
						found = true
					}
				case *ast.Ident:
					if d > 0 {
						o := info.ObjectOf(x)
						if v, ok := o.(*types.Var); ok && !v.IsField() {
							for f := fn; f != nil; f = f.Parent {
								as := f.Assignments(o)
								for _, a := range as {
									if s, ok := a.(*ast.AssignStmt); ok && len(s.Lhs) == len(s.Rhs) {
										for i, l := range s.Lhs {
											if id, ok := ast.Unparen(l).(*ast.Ident); ok && info.ObjectOf(id) == o {
												rec(s.Rhs[i], d-1)
											}
										}
									}
								}
								if len(as) > 0 {
									break
								}
							}
						}
					}
				}
				return !found
			})
		}
		rec(e, depth)
		return found
	}
	for _, fn := range p.Funcs {
		if fn.Body == nil {
			continue
		}
		info := fn.Info()
		ast.Inspect(fn.Body, func(m ast.Node) bool {
			if lit, ok := m.(*ast.FuncLit); ok && lit != fn.Lit {
				return false
			}
			var a, b ast.Expr
			var construct string
			switch x := m.(type) {
			case *ast.CallExpr:
				full := calleeFull(info, x)
				switch full {
				case "strings.Contains", "strings.HasPrefix", "strings.HasSuffix", "strings.Index", "strings.EqualFold", "bytes.Contains", "bytes.HasPrefix", "bytes.Equal":
					if len(x.Args) == 2 {
						a, b = x.Args[0], x.Args[1]
						construct = exprStr(x)
					}
				}
			case *ast.BinaryExpr:
				if x.Op == token.EQL || x.Op == token.NEQ {
					if bt, ok := info.TypeOf(x.X).Underlying().(*types.Basic); ok && bt.Info()&types.IsString != 0 {
						if tv, ok := info.Types[x.Y]; !ok || tv.Value == nil {
							if tv2, ok := info.Types[x.X]; !ok || tv2.Value == nil {
								a, b = x.X, x.Y
								construct = exprStr(x)
							}
						}
					}
				}
			}
			if a == nil {
				return true
			}
			n++
			na, nb := normalised(fn, a, 2), normalised(fn, b, 2)
			if na != nb {
				which := exprStr(b)
				if na {
					which = exprStr(a)
				}
				r.Add("E15.asymmetric-normalisation", fn.Name, construct, p.Pos(m), Violated,
					"only "+which+" is case-normalised: text that differs from the other side only in case matches or fails depending on which side it is", true)
			}
			return true
		})
	}
	r.Counts["E15.string-tests"] = n
	r.ExpectMin("E15.string-tests", n, 20)
	r.Clauses = append(r.Clauses, "E15 no string comparison / containment test normalises the case of only one of its operands")
}

// runParamPermutation — E14.param-position: a self-recursive call that passes one of the
// function's own parameters unchanged passes it in that parameter's own position.
func runParamPermutation(p *Prog, r *Report) {
	n := 0
	for _, fn := range p.Funcs {
		if fn.Body == nil || fn.Lit != nil || fn.Obj == nil {
			continue
		}
		sig := fn.Obj.Type().(*types.Signature)
		pos := map[types.Object]int{}
		for i := 0; i < sig.Params().Len(); i++ {
			pos[sig.Params().At(i)] = i
		}
		if len(pos) < 2 {
			continue
		}
		ord := 0
		for _, sub := range append([]*Func{fn}, litsOf(p, fn)...) {
			info := sub.Info()
			ast.Inspect(sub.Body, func(m ast.Node) bool {
				if lit, ok := m.(*ast.FuncLit); ok && lit != sub.Lit {
					return false
				}
				c, ok := m.(*ast.CallExpr)
				if !ok {
					return true
				}
				if f := calleeOf(info, c); f == nil || f != fn.Obj {
					return true
				}
				n++
				ord++
				var bad []string
				for i, a := range c.Args {
					id, ok := ast.Unparen(a).(*ast.Ident)
					if !ok {
						continue
					}
					o := info.ObjectOf(id)
					if j, isParam := pos[o]; isParam && j != i && len(fn.Assignments(o)) == 0 {
						// same type as the slot it lands in?
						if i < sig.Params().Len() && types.Identical(sig.Params().At(i).Type(), sig.Params().At(j).Type()) {
							bad = append(bad, fmt.Sprintf("parameter %s (position %d) is passed as %s (position %d)", id.Name, j+1, sig.Params().At(i).Name(), i+1))
						}
					}
				}
				construct := fmt.Sprintf("recursive call %s#%d", cmpText(c.Fun), ord)
				if len(bad) > 0 {
					r.Add("E14.param-position", fn.Name, construct, p.Pos(c), Violated, strings.Join(bad, "; ")+": the recursion continues with the roles of two same-typed parameters exchanged", true)
				} else {
					r.Add("E14.param-position", fn.Name, construct, p.Pos(c), OK, "own parameters are passed on in their own positions", false)
				}
				return true
			})
		}
	}
	r.Counts["E14.self-recursive-calls"] = n
	r.ExpectMin("E14.self-recursive-calls", n, 15)
	r.Clauses = append(r.Clauses, "E14 self-recursive calls pass the function's own parameters in their own positions")
}

func litsOf(p *Prog, fn *Func) []*Func {
	var out []*Func
	for _, f := range p.Funcs {
		if f.Lit != nil && rootOf(f) == fn {
			out = append(out, f)
		}
	}
	return out
}

// runByteTrim — E6.rune-trim: dropping "the last character" of text by slicing off one byte
// (x[:len(x)-1]) is only right when that byte is known to be ASCII (a dominating test
// x[len(x)-1] == 'c'); otherwise the width of the last rune (utf8.DecodeLastRune) is needed.
func runByteTrim(p *Prog, r *Report) {
	n := 0
	for _, fn := range p.Funcs {
		if fn.Body == nil {
			continue
		}
		info := fn.Info()
		ast.Inspect(fn.Body, func(m ast.Node) bool {
			if lit, ok := m.(*ast.FuncLit); ok && lit != fn.Lit {
				return false
			}
			se, ok := m.(*ast.SliceExpr)
			if !ok {
				return true
			}
			// x[1:] of text drops "the first character" the same way
			if se.High == nil && se.Low != nil {
				if v, isConst := constInt(info, se.Low); isConst && v == 1 {
					if t := info.TypeOf(se.X); t != nil {
						isText := false
						if sl, ok := t.Underlying().(*types.Slice); ok {
							if bt, ok := sl.Elem().Underlying().(*types.Basic); ok && bt.Kind() == types.Byte {
								isText = true
							}
						}
						if bt, ok := t.Underlying().(*types.Basic); ok && bt.Info()&types.IsString != 0 {
							isText = true
						}
						if isText {
							n++
							ascii := false
							for _, a := range fn.GuardsAt(se).AllAtoms() {
								if a == nil || a.E == nil {
									continue
								}
								ast.Inspect(a.E, func(z ast.Node) bool {
									if ix, ok := z.(*ast.IndexExpr); ok && exprStr(ix.X) == exprStr(se.X) {
										if c, isC := constInt(info, ix.Index); isC && c == 0 {
											ascii = true
										}
									}
									if c, ok := z.(*ast.CallExpr); ok && (strings.HasPrefix(calleeFull(info, c), "strings.HasPrefix") || strings.HasPrefix(calleeFull(info, c), "bytes.HasPrefix")) && len(c.Args) == 2 && exprStr(c.Args[0]) == exprStr(se.X) {
										ascii = true
									}
									return true
								})
							}
							if ascii {
								r.Add("E6.rune-trim", fn.Name, exprStr(se), p.Pos(se), OK, "the dropped first byte was tested first", true)
							} else {
								r.Add("E6.rune-trim", fn.Name, exprStr(se), p.Pos(se), Violated, "drops the first byte as if it were one character: when the first character is multi-byte the text starts inside a UTF-8 sequence and derived positions are off", true)
							}
						}
					}
				}
				return true
			}
			if se.High == nil || se.Low != nil && exprStr(se.Low) != "0" {
				return true
			}
			t := info.TypeOf(se.X)
			if t == nil {
				return true
			}
			isText := false
			if sl, ok := t.Underlying().(*types.Slice); ok {
				if bt, ok := sl.Elem().Underlying().(*types.Basic); ok && bt.Kind() == types.Byte {
					isText = true
				}
			}
			if bt, ok := t.Underlying().(*types.Basic); ok && bt.Info()&types.IsString != 0 {
				isText = true
			}
			if !isText {
				return true
			}
			be, ok := ast.Unparen(fn.InlineLocals(se.High, 2)).(*ast.BinaryExpr)
			if !ok || be.Op != token.SUB {
				return true
			}
			lc, ok := ast.Unparen(be.X).(*ast.CallExpr)
			if !ok || !isLenCall(info, lc) || exprStr(lc.Args[0]) != exprStr(se.X) {
				return true
			}
			n++
			construct := exprStr(se)
			if v, isConst := constInt(info, be.Y); !isConst || v != 1 {
				// a computed width: must come from utf8
				okw := false
				if id, ok := ast.Unparen(be.Y).(*ast.Ident); ok {
					for _, a := range fn.Assignments(info.ObjectOf(id)) {
						if s, ok := a.(*ast.AssignStmt); ok && len(s.Rhs) == 1 {
							if c, ok := ast.Unparen(s.Rhs[0]).(*ast.CallExpr); ok && strings.HasPrefix(calleeFull(info, c), "unicode/utf8.") {
								okw = true
							}
						}
					}
				}
				if okw {
					r.Add("E6.rune-trim", fn.Name, construct, p.Pos(se), OK, "trimmed by the decoded width of the last rune", true)
				} else {
					r.Add("E6.rune-trim", fn.Name, construct, p.Pos(se), OK, "trimmed by a computed width", false)
				}
				return true
			}
			// exactly one byte: needs an ASCII test of that byte
			ascii := false
			for _, a := range fn.GuardsAt(se).Atoms() {
				if a.E == nil || !a.Pol {
					continue
				}
				if cmp, ok := ast.Unparen(a.E).(*ast.BinaryExpr); ok && cmp.Op == token.EQL {
					for _, side := range []ast.Expr{cmp.X, cmp.Y} {
						if ix, ok := ast.Unparen(side).(*ast.IndexExpr); ok && exprStr(ix.X) == exprStr(se.X) && strings.Contains(exprStr(ix.Index), "len("+exprStr(se.X)+")") {
							ascii = true
						}
					}
				}
			}
			if ascii {
				r.Add("E6.rune-trim", fn.Name, construct, p.Pos(se), OK, "the dropped byte was compared with an ASCII constant first", true)
			} else {
				r.Add("E6.rune-trim", fn.Name, construct, p.Pos(se), Violated, "drops one byte as if it were one character: when the last character is multi-byte the text ends inside a UTF-8 sequence and derived positions are off", true)
			}
			return true
		})
	}
	r.Counts["E6.text-tail-trims"] = n
	r.ExpectMin("E6.text-tail-trims", n, 1)
	r.Clauses = append(r.Clauses, "E6 the last character of recovered text is dropped by its rune width, or by one byte only after that byte was compared with an ASCII constant")
}

// runSearchFlagReset — E15.search-flag-reset: a boolean that records the outcome of an inner
// search loop for the *current* element of an outer loop (set to true inside the inner loop,
// read after it in the outer loop's body) must start false in every outer iteration: declared
// inside the outer loop's body or assigned false there before the inner loop. Declared
// outside and never reset, the first hit answers for all later elements.
func runSearchFlagReset(p *Prog, r *Report) {
	n := 0
	for _, fn := range p.Funcs {
		if fn.Body == nil {
			continue
		}
		info := fn.Info()
		ast.Inspect(fn.Body, func(m ast.Node) bool {
			if lit, ok := m.(*ast.FuncLit); ok && lit != fn.Lit {
				return false
			}
			outerBody := loopBody(m)
			if outerBody == nil {
				return true
			}
			// inner loops directly or indirectly inside the outer body
			ast.Inspect(outerBody, func(k ast.Node) bool {
				if _, isLit := k.(*ast.FuncLit); isLit {
					return false
				}
				inner := loopBody(k)
				if inner == nil || k == m {
					return true
				}
				// flags set to true inside the inner loop
				ast.Inspect(inner, func(z ast.Node) bool {
					as, ok := z.(*ast.AssignStmt)
					if !ok || len(as.Lhs) != 1 || len(as.Rhs) != 1 || as.Tok != token.ASSIGN {
						return true
					}
					id, ok := ast.Unparen(as.Lhs[0]).(*ast.Ident)
					v, isTrue := ast.Unparen(as.Rhs[0]).(*ast.Ident)
					if !ok || !isTrue || v.Name != "true" {
						return true
					}
					o := info.ObjectOf(id)
					if o == nil {
						return true
					}
					// read in the outer body after the inner loop?
					readAfter := false
					ast.Inspect(outerBody, func(q ast.Node) bool {
						if rid, ok := q.(*ast.Ident); ok && info.ObjectOf(rid) == o && rid.Pos() > k.End() {
							readAfter = true
						}
						return true
					})
					if !readAfter {
						return true
					}
					n++
					construct := "search flag " + id.Name + " of the loop at " + relLine(p, k)
					declaredInOuter := o.Pos() >= outerBody.Pos() && o.Pos() < outerBody.End()
					reset := false
					ast.Inspect(outerBody, func(q ast.Node) bool {
						if ras, ok := q.(*ast.AssignStmt); ok && ras.Pos() < k.Pos() && len(ras.Lhs) == 1 && len(ras.Rhs) == 1 {
							if lid, ok := ast.Unparen(ras.Lhs[0]).(*ast.Ident); ok && info.ObjectOf(lid) == o {
								if fv, ok := ast.Unparen(ras.Rhs[0]).(*ast.Ident); ok && fv.Name == "false" {
									reset = true
								}
							}
						}
						return true
					})
					if declaredInOuter || reset {
						r.Add("E15.search-flag-reset", fn.Name, construct, p.Pos(as), OK, "starts false in every iteration of the enclosing loop", true)
					} else {
						r.Add("E15.search-flag-reset", fn.Name, construct, p.Pos(as), Violated,
							id.Name+" is set by the inner search and read for each element of the enclosing loop, but it is declared outside that loop and never reset: after the first hit every later element is treated as found", true)
					}
					return true
				})
				return true
			})
			return true
		})
	}
	r.Counts["E15.search-flags"] = n
	r.Clauses = append(r.Clauses, "E15 a flag set by an inner search loop and read per element of the enclosing loop starts false in every iteration")
}

func loopBody(n ast.Node) *ast.BlockStmt {
	switch l := n.(type) {
	case *ast.RangeStmt:
		return l.Body
	case *ast.ForStmt:
		return l.Body
	}
	return nil
}

func relLine(p *Prog, n ast.Node) string {
	s := p.Pos(n)
	if i := strings.LastIndex(s, "/"); i >= 0 {
		s = s[i+1:]
	}
	// keep the file name only (keys must not contain line numbers)
	if i := strings.Index(s, ":"); i >= 0 {
		s = s[:i]
	}
	return s
}

// runColumnOrder — E6.column-order: ordering two positions by Column alone (<, >, <=, >=) is
// only meaningful on one line; positions are ordered by Byte.
func runColumnOrder(p *Prog, r *Report) {
	n := 0
	for _, fn := range p.Funcs {
		if fn.Body == nil {
			continue
		}
		info := fn.Info()
		ast.Inspect(fn.Body, func(m ast.Node) bool {
			if lit, ok := m.(*ast.FuncLit); ok && lit != fn.Lit {
				return false
			}
			be, ok := m.(*ast.BinaryExpr)
			if !ok {
				return true
			}
			switch be.Op {
			case token.LSS, token.GTR, token.LEQ, token.GEQ:
			default:
				return true
			}
			comp := func(e ast.Expr) string {
				if sel, ok := ast.Unparen(e).(*ast.SelectorExpr); ok {
					if tv := info.TypeOf(sel.X); tv != nil && isHclPos(tv) {
						return sel.Sel.Name
					}
				}
				return ""
			}
			cx, cy := comp(be.X), comp(be.Y)
			if cx == "" || cy == "" {
				return true
			}
			n++
			if cx == "Byte" && cy == "Byte" {
				r.Add("E6.column-order", fn.Name, cmpText(be), p.Pos(be), OK, "positions ordered by byte offset", false)
			} else {
				r.Add("E6.column-order", fn.Name, cmpText(be), p.Pos(be), Violated, "positions are ordered by "+cx+"/"+cy+": on different lines a smaller column does not mean an earlier position", true)
			}
			return true
		})
	}
	r.Counts["E6.position-order-comparisons"] = n
	r.ExpectMin("E6.position-order-comparisons", n, 9)
	r.Clauses = append(r.Clauses, "E6 two positions are ordered by their byte offsets only")
}

// runCtxLeak — E15.per-body-context: a context enriched for one body (WithActiveSelfRefs)
// is not passed on to the recursive descent into nested bodies, whose own schema decides.
func runCtxLeak(p *Prog, r *Report) {
	n := 0
	for _, fn := range p.Funcs {
		if fn.Body == nil || fn.Lit != nil || fn.Obj == nil {
			continue
		}
		info := fn.Info()
		// variables assigned from WithActiveSelfRefs(...)
		enriched := map[types.Object][]ast.Node{}
		ast.Inspect(fn.Body, func(m ast.Node) bool {
			as, ok := m.(*ast.AssignStmt)
			if !ok || len(as.Lhs) != len(as.Rhs) {
				return true
			}
			for i, rhs := range as.Rhs {
				if c, ok := ast.Unparen(rhs).(*ast.CallExpr); ok {
					if f := calleeOf(info, c); f != nil && fname(f) == "WithActiveSelfRefs" {
						if id, ok := ast.Unparen(as.Lhs[i]).(*ast.Ident); ok {
							enriched[info.ObjectOf(id)] = append(enriched[info.ObjectOf(id)], as)
						}
					}
				}
			}
			return true
		})
		if len(enriched) == 0 {
			continue
		}
		ast.Inspect(fn.Body, func(m ast.Node) bool {
			c, ok := m.(*ast.CallExpr)
			if !ok {
				return true
			}
			if f := calleeOf(info, c); f == nil || f != fn.Obj {
				return true
			}
			n++
			leak := ""
			for _, a := range c.Args {
				if id, ok := ast.Unparen(a).(*ast.Ident); ok {
					for _, src := range enriched[info.ObjectOf(id)] {
						// the enriching assignment must be able to reach this call
						if reachesStmt(fn, src, c, nil) && !positionExclusiveSites(fn, src, c) {
							leak = id.Name
						}
					}
				}
			}
			construct := "recursive call " + cmpText(c.Fun)
			if leak != "" {
				r.Add("E15.per-body-context", fn.Name, construct, p.Pos(c), Violated,
					"the context enriched with WithActiveSelfRefs for this body ("+leak+") is passed to the descent into nested bodies: self.* becomes active in blocks whose own schema does not enable it", true)
			} else {
				r.Add("E15.per-body-context", fn.Name, construct, p.Pos(c), OK, "nested bodies do not inherit this body's self-reference context", true)
			}
			return true
		})
	}
	r.Counts["E15.recursions-with-selfref-context"] = n
	r.Clauses = append(r.Clauses, "E15 a context enriched with WithActiveSelfRefs is never passed to the recursive descent into nested bodies")
}

// positionExclusiveSites: a and b each run only when the cursor lies inside the range of the
// current element of two *different* loops over the items of one parsed body. Ranges of
// sibling syntax items are disjoint (stated assumption), so the two sites never run for the
// same cursor.
func positionExclusiveSites(fn *Func, a, b ast.Node) bool {
	info := fn.Info()
	loopOf := func(n ast.Node) *ast.RangeStmt {
		var out *ast.RangeStmt
		for _, at := range fn.GuardsAt(n).Atoms() {
			if at.E == nil || !at.Pol {
				continue
			}
			c, ok := ast.Unparen(at.E).(*ast.CallExpr)
			if !ok {
				continue
			}
			if f := calleeOf(info, c); f == nil || fname(f) != "ContainsPos" {
				continue
			}
			sel, ok := ast.Unparen(c.Fun).(*ast.SelectorExpr)
			if !ok {
				continue
			}
			o := baseObj(info, sel.X)
			if o == nil {
				continue
			}
			for _, asn := range fn.Assignments(o) {
				if rs, ok := asn.(*ast.RangeStmt); ok && nodeContains(rs.Body, n) {
					if id, ok := rs.Value.(*ast.Ident); ok && info.ObjectOf(id) == o {
						out = rs
					}
				}
			}
		}
		return out
	}
	la, lb := loopOf(a), loopOf(b)
	return la != nil && lb != nil && la != lb && !nodeContains(la.Body, lb) && !nodeContains(lb.Body, la)
}

func enclosingFuncLit(p *Prog, n ast.Node) *ast.FuncLit {
	for q := p.Parent(n); q != nil; q = p.Parent(q) {
		if lit, ok := q.(*ast.FuncLit); ok {
			return lit
		}
	}
	return nil
}

func isParamOfLit(info *types.Info, lit *ast.FuncLit, id *ast.Ident) bool {
	o := info.ObjectOf(id)
	for _, f := range lit.Type.Params.List {
		for _, n := range f.Names {
			if info.ObjectOf(n) == o {
				return true
			}
		}
	}
	return false
}

// wrappedNewExpression: call is `w(a, b)` where w is a local closure (single definition) whose
// body calls newExpression(…, <param i>, <param j>): the expression and constraint arguments
// the wrapper is given.
func wrappedNewExpression(fn *Func, call *ast.CallExpr) (ast.Expr, ast.Expr) {
	info := fn.Info()
	id, ok := ast.Unparen(call.Fun).(*ast.Ident)
	if !ok {
		return nil, nil
	}
	o := info.ObjectOf(id)
	if o == nil {
		return nil, nil
	}
	var def ast.Expr
	for f := fn; f != nil && def == nil; f = f.Parent {
		def = f.SingleDef(o)
	}
	lit, ok := ast.Unparen(def).(*ast.FuncLit)
	if !ok || def == nil {
		return nil, nil
	}
	var params []types.Object
	for _, f := range lit.Type.Params.List {
		for _, n := range f.Names {
			params = append(params, info.ObjectOf(n))
		}
	}
	if len(params) != len(call.Args) {
		return nil, nil
	}
	idx := func(e ast.Expr) int {
		if pid, ok := ast.Unparen(e).(*ast.Ident); ok {
			for i, po := range params {
				if info.ObjectOf(pid) == po {
					return i
				}
			}
		}
		return -1
	}
	var ex, co ast.Expr
	ast.Inspect(lit.Body, func(z ast.Node) bool {
		c, ok := z.(*ast.CallExpr)
		if !ok || len(c.Args) < 2 {
			return true
		}
		if f := calleeOf(info, c); f == nil || fname(f) != "newExpression" {
			return true
		}
		i, j := idx(c.Args[len(c.Args)-2]), idx(c.Args[len(c.Args)-1])
		if i >= 0 && j >= 0 {
			ex, co = call.Args[i], call.Args[j]
		}
		return true
	})
	return ex, co
}
