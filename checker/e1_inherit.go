package main

// Helper-tolerant row evaluation. A behaviour-preserving extraction moves an emission (or
// the literal it emits) into a same-package helper and leaves some of its guards at the call
// site. Rows therefore (1) look for their emission in the named function and in the
// same-package functions it reaches through at most two static calls, (2) accept a guard that
// holds at every call site of the unexported helper containing the emission, (3) read a
// literal through a constructor whose return statement builds it.

import (
	"go/ast"
	"go/types"
)

type inhSite struct {
	fn   *Func // function (possibly a literal) containing the call
	call *ast.CallExpr
}

type staticIdx struct {
	callers  map[*Func][]inhSite // root function -> its static call sites in the module
	callees  map[*Func][]*Func   // root function -> root functions it calls statically
	valueRef map[*Func]bool      // function referenced other than as the callee of a call
}

var staticIdxCache = map[*Prog]*staticIdx{}

func (p *Prog) staticIndex() *staticIdx {
	if s, ok := staticIdxCache[p]; ok {
		return s
	}
	s := &staticIdx{callers: map[*Func][]inhSite{}, callees: map[*Func][]*Func{}, valueRef: map[*Func]bool{}}
	for _, fn := range p.Funcs {
		if fn.Body == nil {
			continue
		}
		info := fn.Info()
		root := rootOf(fn)
		calleeIdents := map[*ast.Ident]bool{}
		ast.Inspect(fn.Body, func(n ast.Node) bool {
			if lit, ok := n.(*ast.FuncLit); ok && lit != fn.Lit {
				return false
			}
			call, ok := n.(*ast.CallExpr)
			if !ok {
				return true
			}
			switch f := ast.Unparen(call.Fun).(type) {
			case *ast.Ident:
				calleeIdents[f] = true
			case *ast.SelectorExpr:
				calleeIdents[f.Sel] = true
			}
			if f := calleeOf(info, call); f != nil {
				if tgt := p.FuncOf[f]; tgt != nil {
					s.callers[tgt] = append(s.callers[tgt], inhSite{fn, call})
					seen := false
					for _, c := range s.callees[root] {
						if c == tgt {
							seen = true
						}
					}
					if !seen {
						s.callees[root] = append(s.callees[root], tgt)
					}
				}
			}
			return true
		})
		ast.Inspect(fn.Body, func(n ast.Node) bool {
			if lit, ok := n.(*ast.FuncLit); ok && lit != fn.Lit {
				return false
			}
			if id, ok := n.(*ast.Ident); ok && !calleeIdents[id] {
				if f, ok := info.Uses[id].(*types.Func); ok {
					if tgt := p.FuncOf[f]; tgt != nil {
						s.valueRef[tgt] = true
					}
				}
			}
			return true
		})
	}
	staticIdxCache[p] = s
	return s
}

// inheritSites: the call sites a guard may be inherited from — fn (root) is an unexported,
// never-escaping function all of whose callers are therefore known.
func inheritSites(fn *Func) []inhSite {
	root := rootOf(fn)
	if root.Obj == nil || root.Obj.Exported() {
		return nil
	}
	s := root.Prog.staticIndex()
	if s.valueRef[root] {
		return nil
	}
	// a method that implements a module interface may be called dynamically
	if sig, ok := root.Obj.Type().(*types.Signature); ok && sig.Recv() != nil {
		if implementsModuleInterface(root.Prog, root.Obj) {
			return nil
		}
	}
	var out []inhSite
	for _, cs := range s.callers[root] {
		if rootOf(cs.fn) == root {
			continue // recursion: the outer call sites decide
		}
		out = append(out, cs)
	}
	return out
}

var implCacheIface = map[*types.Func]bool{}

func implementsModuleInterface(p *Prog, m *types.Func) bool {
	if v, ok := implCacheIface[m]; ok {
		return v
	}
	res := false
	sig := m.Type().(*types.Signature)
	rt := sig.Recv().Type()
	for _, pk := range p.Pkgs {
		sc := pk.Types.Scope()
		for _, nm := range sc.Names() {
			tn, ok := sc.Lookup(nm).(*types.TypeName)
			if !ok {
				continue
			}
			it, ok := tn.Type().Underlying().(*types.Interface)
			if !ok {
				continue
			}
			for i := 0; i < it.NumMethods(); i++ {
				if it.Method(i).Name() == m.Name() && (types.Implements(rt, it) || types.Implements(types.NewPointer(rt), it)) {
					res = true
				}
			}
		}
	}
	implCacheIface[m] = res
	return res
}

// guardHoldsInh: g holds at `at` in fn, or at every call site of the helper fn is (part of).
func guardHoldsInh(p5c *p5, fn *Func, at ast.Node, g guard, depth int) bool {
	if guardHolds(p5c, fn, at, g) {
		return true
	}
	if depth <= 0 {
		return false
	}
	if resultFlagHolds(p5c, fn, at, g, depth) {
		return true
	}
	// function literals: the literal's own creation point inherits from its parent
	if fn.Lit != nil && fn.Parent != nil {
		return false
	}
	sites := inheritSites(fn)
	if len(sites) == 0 {
		return false
	}
	for _, cs := range sites {
		if !guardHoldsInh(p5c, cs.fn, cs.call, g, depth-1) {
			return false
		}
	}
	return true
}

// helperClosure: roots ∪ same-package functions reached through ≤ depth static calls.
func helperClosure(p *Prog, roots []*Func, depth int) map[*Func]int {
	s := p.staticIndex()
	out := map[*Func]int{}
	frontier := roots
	for _, r := range roots {
		out[r] = 0
	}
	for d := 1; d <= depth; d++ {
		var next []*Func
		for _, f := range frontier {
			for _, c := range s.callees[f] {
				if _, seen := out[c]; seen || c.Pkg != f.Pkg || c.Body == nil {
					continue
				}
				out[c] = d
				next = append(next, c)
			}
		}
		frontier = next
	}
	return out
}

// ctorLit: e is a call of a module function whose return statements build a literal
// matching sel as first result (a constructor extracted from the emission site).
func ctorLitMatches(fn *Func, e ast.Expr, sel emitSel) bool {
	call, ok := ast.Unparen(e).(*ast.CallExpr)
	if !ok {
		// a local that holds the (first) result of the constructor: x, ok := mk(…); append(xs, x)
		if id, isID := ast.Unparen(e).(*ast.Ident); isID {
			if o := fn.Info().ObjectOf(id); o != nil {
				as := fn.Assignments(o)
				if len(as) == 1 {
					if s, isAs := as[0].(*ast.AssignStmt); isAs && len(s.Rhs) == 1 && len(s.Lhs) >= 1 {
						if lid, isL := s.Lhs[0].(*ast.Ident); isL && fn.Info().ObjectOf(lid) == o {
							call, ok = ast.Unparen(s.Rhs[0]).(*ast.CallExpr)
						}
					}
				}
			}
		}
	}
	if !ok || call == nil {
		return false
	}
	f := calleeOf(fn.Info(), call)
	if f == nil {
		return false
	}
	tgt := fn.Prog.FuncOf[f]
	if tgt == nil || tgt.Body == nil {
		return false
	}
	hit := false
	ast.Inspect(tgt.Body, func(n ast.Node) bool {
		if _, ok := n.(*ast.FuncLit); ok {
			return false
		}
		if rs, ok := n.(*ast.ReturnStmt); ok && len(rs.Results) >= 1 {
			res := ast.Unparen(rs.Results[0])
			if litMatches(tgt, res, sel) {
				hit = true
			}
			// `x := T{…}; …; return x`
			if id, ok := res.(*ast.Ident); ok {
				if def := tgt.SingleDef(tgt.Info().ObjectOf(id)); def != nil && litMatches(tgt, def, sel) {
					hit = true
				}
			}
		}
		return true
	})
	return hit
}

// resultFlagHolds: the emission is reached only under a boolean result of a module helper
// (`x, ok := h(…); if !ok {` or `if h(…) {`), and inside h every return producing that
// truth value is itself reached only under g — the decision moved into h.
func resultFlagHolds(p5c *p5, fn *Func, at ast.Node, g guard, depth int) bool {
	info := fn.Info()
	pred := func(a *Atom) bool {
		if a == nil || a.E == nil {
			return false
		}
		var call *ast.CallExpr
		idx := 0
		switch e := ast.Unparen(a.E).(type) {
		case *ast.CallExpr:
			call = e
		case *ast.Ident:
			o := info.ObjectOf(e)
			if o == nil {
				return false
			}
			asns := fn.Assignments(o)
			if len(asns) != 1 {
				return false
			}
			as, ok := asns[0].(*ast.AssignStmt)
			if !ok || len(as.Rhs) != 1 {
				return false
			}
			c, ok := ast.Unparen(as.Rhs[0]).(*ast.CallExpr)
			if !ok {
				return false
			}
			call = c
			idx = -1
			for i, l := range as.Lhs {
				if isIdentObj(info, l, o) {
					idx = i
				}
			}
			if idx < 0 {
				return false
			}
		default:
			return false
		}
		f := calleeOf(info, call)
		if f == nil {
			return false
		}
		tgt := fn.Prog.FuncOf[f]
		if tgt == nil || tgt.Body == nil || tgt == rootOf(fn) {
			return false
		}
		sig := f.Type().(*types.Signature)
		if idx >= sig.Results().Len() {
			return false
		}
		if b, ok := sig.Results().At(idx).Type().Underlying().(*types.Basic); !ok || b.Kind() != types.Bool {
			return false
		}
		okAll, some := true, false
		ast.Inspect(tgt.Body, func(n ast.Node) bool {
			if _, ok := n.(*ast.FuncLit); ok {
				return false
			}
			rs, ok := n.(*ast.ReturnStmt)
			if !ok {
				return true
			}
			if len(rs.Results) != sig.Results().Len() {
				okAll = false
				return true
			}
			id, ok := ast.Unparen(rs.Results[idx]).(*ast.Ident)
			if !ok || (id.Name != "true" && id.Name != "false") {
				okAll = false
				return true
			}
			if (id.Name == "true") != a.Pol {
				return true
			}
			some = true
			if !guardHolds(p5c, tgt, rs, g) && !resultFlagHoldsD(p5c, tgt, rs, g, depth-1) {
				okAll = false
			}
			return true
		})
		return okAll && some
	}
	if fn.GuardsAt(at).Holds(pred) {
		return true
	}
	return fn.HoldsOnAllPaths(at, pred)
}

func resultFlagHoldsD(p5c *p5, fn *Func, at ast.Node, g guard, depth int) bool {
	if depth <= 0 {
		return false
	}
	return resultFlagHolds(p5c, fn, at, g, depth)
}
