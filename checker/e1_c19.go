package main

// C19 structural rules (JSON ↔ native agreement, the part visible in the code's shape).
//
//  E13.sibling-json-template   the "is this JSON string exactly one ${traversal}" test exists in
//                              every JSON branch of the Reference expression (origins and
//                              targets) and is the same test: the expected-range literals are
//                              structurally identical and compared with the expression's range
//  E13.independent-expectation in a comparison expected-vs-actual of two ranges, no component
//                              of the expected range is taken from the actual expression itself
//                              (such a component is compared with itself and checks nothing)

import (
	"go/ast"
	"go/types"
	"sort"
	"strings"
)

func runJSONSiblings(p *Prog, r *Report) {
	type site struct {
		fn   *Func
		call *ast.CallExpr
		lit  *ast.CompositeLit
		norm string
	}
	var sites []site
	nCmp := 0
	for _, fn := range p.Funcs {
		if fn.Body == nil || fn.Lit != nil || !strings.HasSuffix(fn.Pkg.PkgPath, "hcl-lang/decoder") {
			continue
		}
		info := fn.Info()
		var recv types.Object
		if fn.Decl != nil && fn.Decl.Recv != nil && len(fn.Decl.Recv.List) == 1 && len(fn.Decl.Recv.List[0].Names) == 1 {
			recv = info.ObjectOf(fn.Decl.Recv.List[0].Names[0])
		}
		ast.Inspect(fn.Body, func(m ast.Node) bool {
			call, ok := m.(*ast.CallExpr)
			if !ok || len(call.Args) != 2 {
				return true
			}
			f := calleeOf(info, call)
			if f == nil || fname(f) != "rangesEqual" {
				return true
			}
			nCmp++
			// expected side: a local defined once by a hcl.Range literal; actual side: the other
			for side := 0; side < 2; side++ {
				id, ok := ast.Unparen(call.Args[side]).(*ast.Ident)
				if !ok {
					continue
				}
				def := fn.SingleDef(info.ObjectOf(id))
				cl, ok := ast.Unparen(def).(*ast.CompositeLit)
				if def == nil || !ok {
					continue
				}
				actual := call.Args[1-side]
				actualRoot := baseObj(info, actual)
				// E13.independent-expectation
				var self []string
				for _, el := range cl.Elts {
					kv, ok := el.(*ast.KeyValueExpr)
					if !ok {
						continue
					}
					k, _ := kv.Key.(*ast.Ident)
					if k == nil || k.Name == "Filename" {
						continue
					}
					// does the component mention the actual expression's own range?
					mentions := false
					ast.Inspect(kv.Value, func(x ast.Node) bool {
						if e, ok := x.(ast.Expr); ok {
							if sameAccess(info, e, actual) || (isRangeOfSame(info, e, actual)) {
								mentions = true
							}
						}
						return true
					})
					if mentions {
						self = append(self, k.Name+": "+exprStr(kv.Value))
					}
				}
				_ = actualRoot
				construct := "rangesEqual(" + exprStr(call.Args[0]) + ", " + exprStr(call.Args[1]) + ")"
				if len(self) > 0 {
					r.Add("E13.independent-expectation", fn.Name, construct, p.Pos(call), Violated,
						"the expected range takes "+strings.Join(self, "; ")+" from the very expression it is compared with: that end of the string is not checked at all", true)
				} else {
					r.Add("E13.independent-expectation", fn.Name, construct, p.Pos(call), OK, "both ends of the expected range are computed independently of the expression's own range", true)
				}
				if recv != nil && sameRootIs(info, actual, recv) {
					sites = append(sites, site{fn, call, cl, normSym(fn, cl, nil, nil, recv, 0) + "|" + litShape(fn, cl, recv)})
				}
			}
			return true
		})
	}
	r.Counts["E13.range-expectations"] = nCmp
	r.ExpectMin("E13.range-expectations", nCmp, 2)

	// sibling agreement: group by receiver type
	byRecv := map[string][]site{}
	for _, s := range sites {
		rt := ""
		if sig, ok := s.fn.Obj.Type().(*types.Signature); ok && sig.Recv() != nil {
			rt = types.TypeString(sig.Recv().Type(), func(*types.Package) string { return "" })
		}
		byRecv[rt] = append(byRecv[rt], s)
	}
	var keys []string
	for k := range byRecv {
		keys = append(keys, k)
	}
	sort.Strings(keys)
	nSib := 0
	for _, k := range keys {
		ss := byRecv[k]
		if len(ss) < 2 {
			r.Add("E13.sibling-json-template", ss[0].fn.Name, "single-interpolation test", p.Pos(ss[0].call), Violated,
				"only one of the JSON branches of "+k+" tests for a single-interpolation template; its sibling (origins/targets) does not", true)
			continue
		}
		ref := ss[0]
		for _, s := range ss[1:] {
			nSib++
			if s.norm == ref.norm {
				r.Add("E13.sibling-json-template", s.fn.Name, "single-interpolation test ≡ "+bareFuncName(ref.fn), p.Pos(s.call), OK,
					"same expected-range construction as "+ref.fn.Name, true)
			} else {
				r.Add("E13.sibling-json-template", s.fn.Name, "single-interpolation test ≡ "+bareFuncName(ref.fn), p.Pos(s.call), Violated,
					"the JSON single-interpolation test differs from its sibling "+ref.fn.Name+" (at "+p.Pos(ref.call)+"): one syntax path recognises templates the other does not", true)
			}
		}
	}
	r.Counts["E13.sibling-pairs"] = nSib
	r.ExpectMin("E13.sibling-pairs", nSib, 1)
	r.Clauses = append(r.Clauses, "E13 the JSON single-interpolation test is the same in the origins and targets branches and constrains both ends of the string")
}

// litShape renders a composite literal structurally with local single-def variables inlined.
func litShape(fn *Func, cl *ast.CompositeLit, recv types.Object) string {
	var parts []string
	for _, el := range cl.Elts {
		if kv, ok := el.(*ast.KeyValueExpr); ok {
			k := exprStr(kv.Key)
			if inner, ok := ast.Unparen(kv.Value).(*ast.CompositeLit); ok {
				parts = append(parts, k+":{"+litShape(fn, inner, recv)+"}")
			} else {
				parts = append(parts, k+":"+normSym(fn, kv.Value, nil, nil, recv, 2))
			}
		}
	}
	sort.Strings(parts)
	return strings.Join(parts, ",")
}

func sameAccess(info *types.Info, a, b ast.Expr) bool {
	pa, pb := pathOf(info, a), pathOf(info, b)
	return pa != "" && pa == pb
}

// isRangeOfSame: e is X.Range()/X.StartRange()/… where actual is X.Range() (same X).
func isRangeOfSame(info *types.Info, e, actual ast.Expr) bool {
	ce, ok := ast.Unparen(e).(*ast.CallExpr)
	if !ok {
		return false
	}
	ca, ok := ast.Unparen(actual).(*ast.CallExpr)
	if !ok {
		return false
	}
	se, ok1 := ast.Unparen(ce.Fun).(*ast.SelectorExpr)
	sa, ok2 := ast.Unparen(ca.Fun).(*ast.SelectorExpr)
	if !ok1 || !ok2 {
		return false
	}
	if !strings.HasSuffix(se.Sel.Name, "Range") {
		return false
	}
	return exprStr(se.X) == exprStr(sa.X)
}

func sameRootIs(info *types.Info, e ast.Expr, o types.Object) bool {
	found := false
	ast.Inspect(e, func(n ast.Node) bool {
		if id, ok := n.(*ast.Ident); ok && info.ObjectOf(id) == o {
			found = true
		}
		return true
	})
	return found
}

// runE6For runs the position-arithmetic engine and keeps the obligations located in the
// named functions only.
func runE6For(names ...string) func(p *Prog, r *Report) {
	return func(p *Prog, r *Report) {
		sub := newReport("scratch")
		runE6(p, sub)
		n := 0
		for _, o := range sub.Obligs {
			keep := false
			for _, nm := range names {
				if strings.Contains(o.Key, nm) {
					keep = true
				}
			}
			if keep {
				r.Obligs = append(r.Obligs, o)
				r.Counts[o.Rule]++
				n++
			}
		}
		r.ExpectMin("E6.obligations-in-JSON-branches", n, 4)
		r.Clauses = append(r.Clauses, "E6 (shared engine) positions hand-built in the JSON branches shift Column and Byte coherently from one base position")
	}
}
