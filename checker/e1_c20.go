package main

// C20 structural rules.
//
//  E12.visitor-stateless   the callback given to hclsyntax.VisitAll decides each node on its
//                          own: it reads no captured variable that the callback (or anything
//                          else after the walk started) writes. Then a later (inner, pre-order)
//                          match always overwrites an earlier (outer) one, and nothing computed
//                          for one call leaks into the scan of another.
//  E12.inside-parens       a signature with parameters is produced only after ContainsPos on the
//                          range between the call's own open and close parenthesis

import (
	"go/ast"
	"go/types"
	"sort"
	"strings"
)

func runVisitorStateless(p *Prog, r *Report) {
	n := 0
	for _, fn := range p.Funcs {
		if fn.Body == nil || fn.Lit != nil || !strings.HasSuffix(fn.Name, ".SignatureAtPos") {
			continue
		}
		info := fn.Info()
		ast.Inspect(fn.Body, func(m ast.Node) bool {
			call, ok := m.(*ast.CallExpr)
			if !ok {
				return true
			}
			f := calleeOf(info, call)
			if f == nil || fname(f) != "VisitAll" || len(call.Args) != 2 {
				return true
			}
			lit, ok := comparatorLit(fn, call.Args[1])
			if !ok {
				r.Add("E12.visitor-stateless", fn.Name, "VisitAll callback", p.Pos(call), Undecided, "callback is not a function literal", true)
				return true
			}
			n++
			// captured variables: objects used in lit but declared outside it (and not package-level)
			reads := map[types.Object]ast.Node{}
			writes := map[types.Object]ast.Node{}
			isCaptured := func(o types.Object) bool {
				v, ok := o.(*types.Var)
				if !ok || v.IsField() || v.Pkg() == nil || v.Parent() == v.Pkg().Scope() {
					return false
				}
				return !(v.Pos() >= lit.Pos() && v.Pos() < lit.End())
			}
			lhs := map[*ast.Ident]bool{}
			ast.Inspect(lit.Body, func(k ast.Node) bool {
				switch k := k.(type) {
				case *ast.AssignStmt:
					for _, l := range k.Lhs {
						if id, ok := ast.Unparen(l).(*ast.Ident); ok {
							if o := info.ObjectOf(id); o != nil && isCaptured(o) {
								writes[o] = k
								if k.Tok.String() == "=" {
									lhs[id] = true
								} else if k.Tok.String() != ":=" {
									reads[o] = k // op-assignment reads too
									lhs[id] = true
								}
							}
						}
					}
				case *ast.IncDecStmt:
					if id, ok := ast.Unparen(k.X).(*ast.Ident); ok {
						if o := info.ObjectOf(id); o != nil && isCaptured(o) {
							writes[o] = k
							reads[o] = k
							lhs[id] = true
						}
					}
				}
				return true
			})
			ast.Inspect(lit.Body, func(k ast.Node) bool {
				if id, ok := k.(*ast.Ident); ok && !lhs[id] {
					if o := info.ObjectOf(id); o != nil && isCaptured(o) {
						if _, seen := reads[o]; !seen {
							reads[o] = id
						}
					}
				}
				return true
			})
			var bad []string
			for o := range writes {
				if rd, ok := reads[o]; ok {
					bad = append(bad, o.Name()+" (written at "+p.Pos(writes[o])+", read at "+p.Pos(rd)+")")
				}
			}
			sort.Strings(bad)
			var ws []string
			for o := range writes {
				ws = append(ws, o.Name())
			}
			sort.Strings(ws)
			if len(bad) > 0 {
				r.Add("E12.visitor-stateless", fn.Name, "VisitAll callback", p.Pos(lit), Violated,
					"the callback both writes and reads captured state: "+strings.Join(bad, "; ")+" — the answer for one node depends on nodes visited before it (an outer call can suppress or contaminate the inner one)", true)
			} else {
				r.Add("E12.visitor-stateless", fn.Name, "VisitAll callback", p.Pos(lit), OK,
					"captured variables written by the callback ("+strings.Join(ws, ", ")+") are never read in it: each matching node overwrites the result, so the last (innermost, pre-order) match wins", true)
			}
			if len(writes) == 0 {
				r.Add("E12.visitor-stateless", fn.Name, "VisitAll callback result", p.Pos(lit), Violated, "the callback writes no captured result variable", true)
			}

			// E12.inside-parens
			ast.Inspect(lit.Body, func(k ast.Node) bool {
				cl, ok := k.(*ast.CompositeLit)
				if !ok {
					return true
				}
				tv, ok := info.Types[cl]
				if !ok || !typeIs(tv.Type, "hcl-lang/lang", "FunctionSignature") || litField(cl, "Parameters") == nil {
					return true
				}
				lf := p.LitOf[lit]
				found := false
				var walk func(f *Formula)
				g := lf.GuardsAt(cl)
				walk = func(f *Formula) {
					if f == nil {
						return
					}
					if f.Op == 1 {
						for _, s := range f.Sub {
							walk(s)
						}
						return
					}
					if f.Op != 0 || f.Atom == nil || f.Atom.E == nil || !f.Atom.Pol {
						return
					}
					c, ok := ast.Unparen(f.Atom.E).(*ast.CallExpr)
					if !ok {
						return
					}
					cf := calleeOf(info, c)
					sel, ok2 := ast.Unparen(c.Fun).(*ast.SelectorExpr)
					if cf == nil || fname(cf) != "ContainsPos" || !ok2 {
						return
					}
					recv := ast.Unparen(sel.X)
					if id, ok := recv.(*ast.Ident); ok {
						if d := lf.SingleDef(info.ObjectOf(id)); d != nil {
							recv = ast.Unparen(d)
						}
					}
					if rc, ok := recv.(*ast.CallExpr); ok && calleeFull(info, rc) == "github.com/hashicorp/hcl/v2.RangeBetween" && len(rc.Args) == 2 {
						a, b := exprStr(rc.Args[0]), exprStr(rc.Args[1])
						if strings.HasSuffix(a, ".OpenParenRange") && strings.HasSuffix(b, ".CloseParenRange") &&
							strings.TrimSuffix(a, ".OpenParenRange") == strings.TrimSuffix(b, ".CloseParenRange") {
							found = true
						}
					}
				}
				walk(g)
				if found {
					r.Add("E12.inside-parens", fn.Name, "lang.FunctionSignature{Parameters…}", p.Pos(cl), OK, "dominated by ContainsPos(pos) on the range between the call's own parentheses", true)
				} else {
					r.Add("E12.inside-parens", fn.Name, "lang.FunctionSignature{Parameters…}", p.Pos(cl), Violated, "a signature with parameters can be produced for a cursor outside the call's parentheses", true)
				}
				return true
			})
			return true
		})
	}
	r.Counts["E12.visitors"] = n
	r.ExpectMin("E12.visitors", n, 1)
	r.Clauses = append(r.Clauses, "E12 the signature visitor is stateless across nodes (innermost match wins, no leakage between calls) and parameters are reported only inside the call's own parentheses")
}
