package main

// Further structural rules of the E1/E7 family.

import (
	"go/ast"
	"go/token"
	"go/types"
	"strings"
)

// runSearchLoops: in a loop that looks for the first element passing a test and returns a
// result for it, failing the test must move on to the next element (continue), never end
// the search (break / return): otherwise the result depends on which element comes first.
// Population: range loops in methods of decoder.Reference whose body contains
// `x, ok := …; if !ok { … }` followed by a return of a non-empty result.
func runSearchLoops(recvNames ...string) func(p *Prog, r *Report) {
	return func(p *Prog, r *Report) {
		n := 0
		for _, fn := range p.Funcs {
			if fn.Obj == nil || !strings.HasSuffix(fn.Pkg.PkgPath, "hcl-lang/decoder") {
				continue
			}
			sig := fn.Obj.Type().(*types.Signature)
			if sig.Recv() == nil {
				continue
			}
			rn := namedOf(sig.Recv().Type())
			okRecv := false
			for _, w := range recvNames {
				if rn != nil && rn.Obj().Name() == w {
					okRecv = true
				}
			}
			if !okRecv {
				continue
			}
			info := fn.Info()
			ast.Inspect(fn.Body, func(x ast.Node) bool {
				rs, ok := x.(*ast.RangeStmt)
				if !ok {
					return true
				}
				// does the loop body return something?
				hasReturn := false
				for _, st := range rs.Body.List {
					if _, ok := st.(*ast.ReturnStmt); ok {
						hasReturn = true
					}
					if ifs, ok := st.(*ast.IfStmt); ok {
						ast.Inspect(ifs, func(y ast.Node) bool {
							if _, ok := y.(*ast.ReturnStmt); ok {
								// only returns on the success side count; handled below
							}
							return true
						})
					}
				}
				if !hasReturn {
					// success return may be nested under `if err == nil {…}`
					ast.Inspect(rs.Body, func(y ast.Node) bool {
						if _, ok := y.(*ast.ReturnStmt); ok {
							hasReturn = true
						}
						return true
					})
				}
				if !hasReturn {
					return true
				}
				for _, st := range rs.Body.List {
					ifs, ok := st.(*ast.IfStmt)
					if !ok {
						continue
					}
					// if !ok { … }
					ue, ok := ast.Unparen(ifs.Cond).(*ast.UnaryExpr)
					if !ok || ue.Op != token.NOT {
						continue
					}
					id, ok := ast.Unparen(ue.X).(*ast.Ident)
					if !ok || info.TypeOf(id) == nil || info.TypeOf(id).String() != "bool" {
						continue
					}
					n++
					construct := "range " + exprStr(rs.X) + ": if !" + id.Name
					bad := ""
					for _, bs := range ifs.Body.List {
						switch b := bs.(type) {
						case *ast.BranchStmt:
							if b.Tok == token.BREAK {
								bad = "break"
							}
						case *ast.ReturnStmt:
							bad = "return"
						}
					}
					if bad != "" {
						r.Add("E1.search-continues", fn.Name, construct, p.Pos(ifs), Violated,
							"an element that fails the test ends the search ("+bad+") instead of moving on to the next one: the result depends on the order of the elements", true)
					} else {
						r.Add("E1.search-continues", fn.Name, construct, p.Pos(ifs), OK, "a failing element is skipped and the search continues", true)
					}
				}
				return true
			})
		}
		r.ExpectMin("E1.search-loop-tests", n, 2)
		r.Clauses = append(r.Clauses, "in the origin/target search loops of reference expressions a non-matching element is skipped (continue), never terminates the search")
	}
}

// runTokenTable: every lang.SemanticToken literal uses a Type constant that is an element
// of lang.SupportedSemanticTokenTypes (E7 table agreement).
func runTokenTable(p *Prog, r *Report) {
	supported := map[string]bool{}
	for _, pk := range p.Pkgs {
		if !strings.HasSuffix(pk.PkgPath, "hcl-lang/lang") {
			continue
		}
		for _, f := range pk.Syntax {
			ast.Inspect(f, func(n ast.Node) bool {
				vs, ok := n.(*ast.ValueSpec)
				if !ok || len(vs.Names) != 1 || vs.Names[0].Name != "SupportedSemanticTokenTypes" || len(vs.Values) != 1 {
					return true
				}
				if cl, ok := vs.Values[0].(*ast.CompositeLit); ok {
					for _, el := range cl.Elts {
						if id, ok := el.(*ast.Ident); ok {
							supported[id.Name] = true
						}
					}
				}
				return true
			})
		}
	}
	r.ExpectMin("E7.supported-token-types", len(supported), 10)
	n := 0
	for _, fn := range p.Funcs {
		info := fn.Info()
		ast.Inspect(fn.Body, func(x ast.Node) bool {
			cl, ok := x.(*ast.CompositeLit)
			if !ok {
				return true
			}
			if t := info.TypeOf(cl); t == nil || !typeIs(t, "hcl-lang/lang", "SemanticToken") {
				return true
			}
			tv := litField(cl, "Type")
			if tv == nil {
				return true
			}
			n++
			name := lastSel(tv)
			if _, isConst := info.ObjectOf(identOfExpr(tv)).(*types.Const); !isConst {
				r.Add("E7.token-type", fn.Name, "SemanticToken{Type: "+exprStr(tv)+"}", p.Pos(cl), OK, "token type is computed; its values are constants judged where they are chosen", false)
				return true
			}
			if supported[name] {
				r.Add("E7.token-type", fn.Name, "SemanticToken{Type: "+name+"}", p.Pos(cl), OK, "advertised token type", false)
			} else {
				r.Add("E7.token-type", fn.Name, "SemanticToken{Type: "+name+"}", p.Pos(cl), Violated, "token type "+name+" is not an element of lang.SupportedSemanticTokenTypes (clients are never told about it)", true)
			}
			return true
		})
	}
	r.ExpectMin("E7.token-literals", n, 18)
	r.Clauses = append(r.Clauses, "E7 every lang.SemanticToken literal uses a token type listed in lang.SupportedSemanticTokenTypes")
}

func identOfExpr(e ast.Expr) *ast.Ident {
	switch x := ast.Unparen(e).(type) {
	case *ast.Ident:
		return x
	case *ast.SelectorExpr:
		return x.Sel
	}
	return &ast.Ident{Name: "_"}
}

// runAppendAlias: the E3 aliasing rule alone (modifier slices, addresses).
func runAppendAlias(p *Prog, r *Report) {
	sub := newReport("scratch")
	runE3(p, sub)
	n := 0
	for _, o := range sub.Obligs {
		if o.Rule == "E3.append-alias" || o.Rule == "E3.escaping-write" {
			r.Obligs = append(r.Obligs, o)
			r.Counts[o.Rule]++
			n++
		}
	}
	r.Counts["E3.write-sites-examined"] = sub.Counts["E3.write-sites"]
	r.Clauses = append(r.Clauses, "E3 (shared engine) no append result is bound to a different variable than its first argument (two live slices sharing a backing array), and no write reaches caller-owned memory")
}
