package main

// Further structural rules of the E1/E7 family.

import (
	"fmt"
	"go/ast"
	"go/token"
	"go/types"
	"strings"
)

// runSearchLoops: in a loop that looks for the first element passing a test and returns a
// result for it, failing the test must move on to the next element (continue), never end
// the search (break / return): otherwise the result depends on which element comes first.
// Population: range loops in methods of decoder.Reference whose body contains
// `x, ok := …; if !ok { … }` followed by a return of a non-empty result.
func runSearchLoops(recvNames ...string) func(p *Prog, r *Report) {
	return func(p *Prog, r *Report) {
		n := 0
		for _, fn := range p.Funcs {
			if fn.Obj == nil || !strings.HasSuffix(fn.Pkg.PkgPath, "hcl-lang/decoder") {
				continue
			}
			sig := fn.Obj.Type().(*types.Signature)
			if sig.Recv() == nil {
				continue
			}
			rn := namedOf(sig.Recv().Type())
			okRecv := false
			for _, w := range recvNames {
				if rn != nil && canonId(rn.Obj().Name()) == w {
					okRecv = true
				}
			}
			if !okRecv {
				continue
			}
			info := fn.Info()
			ast.Inspect(fn.Body, func(x ast.Node) bool {
				rs, ok := x.(*ast.RangeStmt)
				if !ok {
					return true
				}
				// does the loop body return something?
				hasReturn := false
				for _, st := range rs.Body.List {
					if _, ok := st.(*ast.ReturnStmt); ok {
						hasReturn = true
					}
					if ifs, ok := st.(*ast.IfStmt); ok {
						ast.Inspect(ifs, func(y ast.Node) bool {
							if _, ok := y.(*ast.ReturnStmt); ok {
								// only returns on the success side count; handled below
							}
							return true
						})
					}
				}
				if !hasReturn {
					// success return may be nested under `if err == nil {…}`
					ast.Inspect(rs.Body, func(y ast.Node) bool {
						if _, ok := y.(*ast.ReturnStmt); ok {
							hasReturn = true
						}
						return true
					})
				}
				if !hasReturn {
					return true
				}
				for _, st := range rs.Body.List {
					ifs, ok := st.(*ast.IfStmt)
					if !ok {
						continue
					}
					// if !ok { … }
					ue, ok := ast.Unparen(ifs.Cond).(*ast.UnaryExpr)
					if !ok || ue.Op != token.NOT {
						continue
					}
					id, ok := ast.Unparen(ue.X).(*ast.Ident)
					if !ok || info.TypeOf(id) == nil || info.TypeOf(id).String() != "bool" {
						continue
					}
					n++
					construct := "range " + exprStr(rs.X) + ": if !" + id.Name
					bad := ""
					for _, bs := range ifs.Body.List {
						switch b := bs.(type) {
						case *ast.BranchStmt:
							if b.Tok == token.BREAK {
								bad = "break"
							}
						case *ast.ReturnStmt:
							bad = "return"
						}
					}
					if bad != "" {
						r.Add("E1.search-continues", fn.Name, construct, p.Pos(ifs), Violated,
							"an element that fails the test ends the search ("+bad+") instead of moving on to the next one: the result depends on the order of the elements", true)
					} else {
						r.Add("E1.search-continues", fn.Name, construct, p.Pos(ifs), OK, "a failing element is skipped and the search continues", true)
					}
				}
				return true
			})
		}
		r.ExpectMin("E1.search-loop-tests", n, 2)
		r.Clauses = append(r.Clauses, "in the origin/target search loops of reference expressions a non-matching element is skipped (continue), never terminates the search")
	}
}

// runTokenTable: every lang.SemanticToken literal uses a Type constant that is an element
// of lang.SupportedSemanticTokenTypes (E7 table agreement).
func runTokenTable(p *Prog, r *Report) {
	supported := map[string]bool{}
	for _, pk := range p.Pkgs {
		if !strings.HasSuffix(pk.PkgPath, "hcl-lang/lang") {
			continue
		}
		for _, f := range pk.Syntax {
			ast.Inspect(f, func(n ast.Node) bool {
				vs, ok := n.(*ast.ValueSpec)
				if !ok || len(vs.Names) != 1 || vs.Names[0].Name != "SupportedSemanticTokenTypes" || len(vs.Values) != 1 {
					return true
				}
				if cl, ok := vs.Values[0].(*ast.CompositeLit); ok {
					for _, el := range cl.Elts {
						if id, ok := el.(*ast.Ident); ok {
							supported[id.Name] = true
						}
					}
				}
				return true
			})
		}
	}
	r.ExpectMin("E7.supported-token-types", len(supported), 8)
	n := 0
	for _, fn := range p.Funcs {
		info := fn.Info()
		ast.Inspect(fn.Body, func(x ast.Node) bool {
			cl, ok := x.(*ast.CompositeLit)
			if !ok {
				return true
			}
			if t := info.TypeOf(cl); t == nil || !typeIs(t, "hcl-lang/lang", "SemanticToken") {
				return true
			}
			tv := litField(cl, "Type")
			if tv == nil {
				return true
			}
			n++
			name := lastSel(tv)
			if _, isConst := info.ObjectOf(identOfExpr(tv)).(*types.Const); !isConst {
				r.Add("E7.token-type", fn.Name, "SemanticToken{Type: "+exprStr(tv)+"}", p.Pos(cl), OK, "token type is computed; its values are constants judged where they are chosen", false)
				return true
			}
			if supported[name] {
				r.Add("E7.token-type", fn.Name, "SemanticToken{Type: "+name+"}", p.Pos(cl), OK, "advertised token type", false)
			} else {
				r.Add("E7.token-type", fn.Name, "SemanticToken{Type: "+name+"}", p.Pos(cl), Violated, "token type "+name+" is not an element of lang.SupportedSemanticTokenTypes (clients are never told about it)", true)
			}
			return true
		})
	}
	r.ExpectMin("E7.token-literals", n, 14)
	r.Clauses = append(r.Clauses, "E7 every lang.SemanticToken literal uses a token type listed in lang.SupportedSemanticTokenTypes")
}

func identOfExpr(e ast.Expr) *ast.Ident {
	switch x := ast.Unparen(e).(type) {
	case *ast.Ident:
		return x
	case *ast.SelectorExpr:
		return x.Sel
	}
	return &ast.Ident{Name: "_"}
}

// runAppendAlias: the E3 aliasing rule alone (modifier slices, addresses).
func runAppendAlias(p *Prog, r *Report) {
	sub := newReport("scratch")
	runE3(p, sub)
	n := 0
	for _, o := range sub.Obligs {
		if o.Rule == "E3.append-alias" || o.Rule == "E3.escaping-write" || (strings.HasPrefix(o.Rule, "E3.") && o.Status != OK && o.Status != Excepted) {
			r.Obligs = append(r.Obligs, o)
			r.Counts[o.Rule]++
			n++
		}
	}
	r.Counts["E3.write-sites-examined"] = sub.Counts["E3.write-sites"]
	r.Clauses = append(r.Clauses, "E3 (shared engine) no append result is bound to a different variable than its first argument (two live slices sharing a backing array), and no write reaches caller-owned memory")
}

// runCrossFile: in package reference, ranges of targets and origins collected from
// different files meet. A byte-offset containment test between them (ContainsPos /
// ContainsOffset) decides nothing unless the two ranges are known to be in the same file:
// every such test needs a Filename equality on its receiver on every path.
func runCrossFile(p *Prog, r *Report) {
	n := 0
	for _, fn := range p.Funcs {
		if !strings.HasSuffix(fn.Pkg.PkgPath, "hcl-lang/reference") {
			continue
		}
		info := fn.Info()
		ast.Inspect(fn.Body, func(x ast.Node) bool {
			if lit, isLit := x.(*ast.FuncLit); isLit && lit != fn.Lit {
				return false // judged as its own function
			}
			call, ok := x.(*ast.CallExpr)
			if !ok {
				return true
			}
			sel, ok := ast.Unparen(call.Fun).(*ast.SelectorExpr)
			if !ok || (sel.Sel.Name != "ContainsPos" && sel.Sel.Name != "ContainsOffset") {
				return true
			}
			if t := info.TypeOf(sel.X); t == nil || !isHclRange(t) {
				return true
			}
			n++
			rc := fn.Canon(sel.X)
			construct := exprStr(sel.X) + "." + sel.Sel.Name
			ok2 := fn.GuardsAt(call).Holds(func(a *Atom) bool {
				if a.E == nil {
					return false
				}
				be, isBe := ast.Unparen(a.E).(*ast.BinaryExpr)
				if !isBe || (be.Op != token.EQL && be.Op != token.NEQ) {
					return false
				}
				same := (be.Op == token.EQL) == a.Pol
				if !same {
					return false
				}
				for _, side := range []ast.Expr{be.X, be.Y} {
					if s2, ok := ast.Unparen(side).(*ast.SelectorExpr); ok && s2.Sel.Name == "Filename" {
						c := fn.Canon(s2.X)
						if c == rc || c == strings.TrimSuffix(rc, ".Ptr()") {
							return true
						}
					}
				}
				return false
			})
			fileGuard := func(g *Func, at ast.Node, rc string) bool {
				return g.GuardsAt(at).Holds(func(a *Atom) bool {
					if a.E == nil {
						return false
					}
					be, isBe := ast.Unparen(a.E).(*ast.BinaryExpr)
					if !isBe || (be.Op != token.EQL && be.Op != token.NEQ) || (be.Op == token.EQL) != a.Pol {
						return false
					}
					for _, side := range []ast.Expr{be.X, be.Y} {
						if s2, ok := ast.Unparen(side).(*ast.SelectorExpr); ok && s2.Sel.Name == "Filename" {
							if c := g.Canon(s2.X); c == rc || c == strings.TrimSuffix(rc, ".Ptr()") {
								return true
							}
						}
					}
					return false
				})
			}
			if !ok2 && fn.Lit == nil && fn.Obj != nil && !fn.Obj.Exported() {
				// an unexported helper handed the range: every caller compares the Filename first
				if id, isId := ast.Unparen(sel.X).(*ast.Ident); isId {
					po := info.ObjectOf(id)
					sig := fn.Obj.Type().(*types.Signature)
					pi := -1
					for k := 0; k < sig.Params().Len(); k++ {
						if sig.Params().At(k) == po {
							pi = k
						}
					}
					if pi >= 0 && len(fn.Assignments(po)) == 0 && !sig.Variadic() {
						nSites, all, escapes := 0, true, false
						for _, g := range p.Funcs {
							if g.Body == nil || g.Pkg != fn.Pkg {
								continue
							}
							ginfo := g.Info()
							ast.Inspect(g.Body, func(n ast.Node) bool {
								if lit, ok := n.(*ast.FuncLit); ok && lit != g.Lit {
									return false
								}
								switch y := n.(type) {
								case *ast.CallExpr:
									if calleeOf(ginfo, y) == fn.Obj && pi < len(y.Args) {
										nSites++
										if arc := g.Canon(y.Args[pi]); arc == "" || !fileGuard(g, y, arc) {
											all = false
										}
									}
								case *ast.Ident:
									if ginfo.Uses[y] == types.Object(fn.Obj) {
										if cs, isCall := p.Parent(y).(*ast.CallExpr); !isCall || cs.Fun != ast.Expr(y) {
											escapes = true
										}
									}
								}
								return true
							})
						}
						if nSites > 0 && all && !escapes {
							r.Add("E6.cross-file-compare", fn.Name, construct, p.Pos(call), OK, fmt.Sprintf("every one of the %d call sites of this helper compares the range's Filename first", nSites), true)
							return true
						}
					}
				}
			}
			if ok2 {
				r.Add("E6.cross-file-compare", fn.Name, construct, p.Pos(call), OK, "byte containment is tested only after the range's Filename was compared", true)
			} else {
				r.Add("E6.cross-file-compare", fn.Name, construct, p.Pos(call), Violated,
					"byte offsets of "+exprStr(sel.X)+" are compared with a position that may belong to another file: no Filename comparison on every path to this test", true)
			}
			return true
		})
	}
	// the same for direct comparisons of byte offsets of two different ranges
	for _, fn := range p.Funcs {
		if !strings.HasSuffix(fn.Pkg.PkgPath, "hcl-lang/reference") || fn.Body == nil {
			continue
		}
		info := fn.Info()
		rangeOfByte := func(e ast.Expr) ast.Expr {
			s1, ok := ast.Unparen(e).(*ast.SelectorExpr)
			if !ok || s1.Sel.Name != "Byte" {
				return nil
			}
			s2, ok := ast.Unparen(s1.X).(*ast.SelectorExpr)
			if !ok || (s2.Sel.Name != "Start" && s2.Sel.Name != "End") {
				return nil
			}
			if t := info.TypeOf(s2.X); t == nil || !isHclRange(t) {
				return nil
			}
			return s2.X
		}
		ast.Inspect(fn.Body, func(x ast.Node) bool {
			if lit, isLit := x.(*ast.FuncLit); isLit && lit != fn.Lit {
				return false // judged as its own function
			}
			be, ok := x.(*ast.BinaryExpr)
			if !ok {
				return true
			}
			switch be.Op {
			case token.LSS, token.LEQ, token.GTR, token.GEQ, token.EQL, token.NEQ:
			default:
				return true
			}
			ra, rb := rangeOfByte(be.X), rangeOfByte(be.Y)
			if ra == nil || rb == nil || fn.Canon(ra) == fn.Canon(rb) {
				return true
			}
			n++
			ca, cb := fn.Canon(ra), fn.Canon(rb)
			construct := exprStr(be)
			ok2 := fn.GuardsAt(be).Holds(func(a *Atom) bool {
				if a.E == nil {
					return false
				}
				fe, isBe := ast.Unparen(a.E).(*ast.BinaryExpr)
				if !isBe || (fe.Op != token.EQL && fe.Op != token.NEQ) || (fe.Op == token.EQL) != a.Pol {
					return false
				}
				l, okl := ast.Unparen(fe.X).(*ast.SelectorExpr)
				rr, okr := ast.Unparen(fe.Y).(*ast.SelectorExpr)
				if !okl || !okr || l.Sel.Name != "Filename" || rr.Sel.Name != "Filename" {
					return false
				}
				x, y := fn.Canon(l.X), fn.Canon(rr.X)
				return (x == ca && y == cb) || (x == cb && y == ca)
			})
			if ok2 {
				r.Add("E6.cross-file-compare", fn.Name, construct, p.Pos(be), OK, "byte offsets of two ranges are compared only after their Filenames were found equal", true)
			} else {
				r.Add("E6.cross-file-compare", fn.Name, construct, p.Pos(be), Violated,
					"byte offsets of "+exprStr(ra)+" and "+exprStr(rb)+" are compared although the two ranges may belong to different files: no Filename equality on every path to this comparison", true)
			}
			return true
		})
	}
	r.ExpectMin("E6.containment-tests-in-reference", n, 6)
	r.Clauses = append(r.Clauses, "in package reference every byte-offset containment test on a target/origin range is preceded on every path by a Filename equality on that range (block-local names never leak across files)")
}

// runWhoMayCall: helpers that implement one constraint kind's candidates may only be
// called from that kind's decoder (sibling helpers share a signature, so a swap compiles).
var whoMayCall = map[string][]string{
	"boolLiteralTypeCandidates":  {"LiteralType"},
	"boolLiteralValueCandidates": {"LiteralValue"},
}

func runWhoMayCall(p *Prog, r *Report) {
	n := 0
	for _, fn := range p.Funcs {
		info := fn.Info()
		ast.Inspect(fn.Body, func(x ast.Node) bool {
			call, ok := x.(*ast.CallExpr)
			if !ok {
				return true
			}
			f := calleeOf(info, call)
			if f == nil {
				return true
			}
			allowed, ok := whoMayCall[f.Name()]
			if !ok || !strings.HasPrefix(f.Pkg().Path(), modPath) {
				return true
			}
			n++
			recv := ""
			root := fn
			for root.Parent != nil {
				root = root.Parent
			}
			if root.Obj != nil {
				if sig := root.Obj.Type().(*types.Signature); sig.Recv() != nil {
					if nt := namedOf(sig.Recv().Type()); nt != nil {
						recv = nt.Obj().Name()
					}
				}
			}
			okc := false
			for _, a := range allowed {
				if a == recv {
					okc = true
				}
			}
			if okc {
				r.Add("E1.who-may-call", fn.Name, "call "+f.Name(), p.Pos(call), OK, "called from its own constraint kind's decoder", false)
			} else {
				r.Add("E1.who-may-call", fn.Name, "call "+f.Name(), p.Pos(call), Violated,
					f.Name()+" produces the candidates of "+strings.Join(allowed, "/")+" and must not serve "+recv+" (same signature as its sibling helper)", true)
			}
			return true
		})
	}
	r.ExpectMin("E1.who-may-call-sites", n, 3)
	r.Clauses = append(r.Clauses, "candidate helpers of one constraint kind are called only from that kind's decoder")
}

// runDispatch (E7): every named type of package schema that implements schema.Constraint
// is a case of the type switch in the decoder's newExpression, and that function never
// returns nil.
func runDispatch(p *Prog, r *Report) {
	var schemaPkg *types.Package
	for _, pk := range p.Pkgs {
		if strings.HasSuffix(pk.PkgPath, "hcl-lang/schema") {
			schemaPkg = pk.Types
		}
	}
	if schemaPkg == nil {
		r.Add("E7.dispatch", "-", "schema package", "-", Undecided, "package schema not found", false)
		return
	}
	co, _ := scopeLookup(schemaPkg.Scope(), "Constraint").(*types.TypeName)
	if co == nil {
		r.Add("E7.dispatch", "-", "schema.Constraint", "-", Undecided, "interface schema.Constraint not found", false)
		return
	}
	iface := co.Type().Underlying().(*types.Interface)
	var impls []string
	for _, name := range schemaPkg.Scope().Names() {
		tn, ok := scopeLookup(schemaPkg.Scope(), name).(*types.TypeName)
		if !ok || tn == co {
			continue
		}
		if _, isIface := tn.Type().Underlying().(*types.Interface); isIface {
			continue
		}
		if types.Implements(tn.Type(), iface) {
			impls = append(impls, name)
		}
	}
	r.ExpectMin("E7.constraint-kinds", len(impls), 8)
	for _, fn := range p.Funcs {
		if bareFuncName(fn) != "newExpression" || fn.Decl == nil || fn.Decl.Recv != nil {
			continue
		}
		info := fn.Info()
		cases := map[string]bool{}
		ast.Inspect(fn.Body, func(x ast.Node) bool {
			ts, ok := x.(*ast.TypeSwitchStmt)
			if !ok {
				return true
			}
			for _, c := range ts.Body.List {
				for _, t := range c.(*ast.CaseClause).List {
					if tt := info.TypeOf(t); tt != nil {
						if n := namedOf(tt); n != nil {
							cases[n.Obj().Name()] = true
						}
					}
				}
			}
			return true
		})
		for _, name := range impls {
			if cases[name] {
				r.Add("E7.dispatch", fn.Name, "case schema."+name, p.Pos(fn.Decl), OK, "constraint kind is dispatched to its decoder", false)
			} else {
				r.Add("E7.dispatch", fn.Name, "case schema."+name, p.Pos(fn.Decl), Violated, "constraint kind schema."+name+" has no case in newExpression: values of that kind are treated as unknown expressions by every feature", true)
			}
		}
		ast.Inspect(fn.Body, func(x ast.Node) bool {
			if rs, ok := x.(*ast.ReturnStmt); ok {
				for _, res := range rs.Results {
					if isNilIdent(info, res) {
						r.Add("E7.dispatch", fn.Name, "return nil", p.Pos(rs), Violated, "newExpression returns nil: every caller invokes a method on the result", true)
					}
				}
			}
			return true
		})
	}
	r.Clauses = append(r.Clauses, "E7 every schema type implementing schema.Constraint has a case in newExpression, which never returns nil")
}

// runCapabilities (E7): decoder expression types whose constraint can hold a reference or
// an arbitrary expression must implement ReferenceOriginsExpression; type-aware container
// types must implement ReferenceTargetsExpression. Both interfaces are consulted by dynamic
// type assertion, so deleting a method still compiles.
func runCapabilities(p *Prog, r *Report) {
	var dec *types.Package
	for _, pk := range p.Pkgs {
		if strings.HasSuffix(pk.PkgPath, "hcl-lang/decoder") {
			dec = pk.Types
		}
	}
	if dec == nil {
		return
	}
	lookupIface := func(name string) *types.Interface {
		if tn, ok := scopeLookup(dec.Scope(), name).(*types.TypeName); ok {
			if i, ok := tn.Type().Underlying().(*types.Interface); ok {
				return i
			}
		}
		return nil
	}
	origins, targets := lookupIface("ReferenceOriginsExpression"), lookupIface("ReferenceTargetsExpression")
	if origins == nil || targets == nil {
		r.Add("E7.capability", "-", "interfaces", "-", Undecided, "capability interfaces not found in package decoder", false)
		return
	}
	wantOrigins := []string{"Any", "Reference", "List", "Set", "Tuple", "Map", "Object", "OneOf", "functionExpr"}
	wantTargets := []string{"Any", "LiteralType", "Reference", "List", "Set", "Tuple", "Map", "Object", "OneOf"}
	check := func(names []string, iface *types.Interface, what string) {
		for _, n := range names {
			tn, ok := scopeLookup(dec.Scope(), n).(*types.TypeName)
			if !ok {
				r.Add("E7.capability", "decoder."+n, what, "-", Violated, "decoder type "+n+" not found", true)
				continue
			}
			if types.Implements(tn.Type(), iface) || types.Implements(types.NewPointer(tn.Type()), iface) {
				r.Add("E7.capability", "decoder."+n, what, "-", OK, "implements the capability interface", false)
			} else {
				r.Add("E7.capability", "decoder."+n, what, "-", Violated, "decoder type "+n+" no longer implements "+what+": the collector's type assertion silently skips every value of this constraint kind", true)
			}
		}
	}
	check(wantOrigins, origins, "ReferenceOriginsExpression")
	check(wantTargets, targets, "ReferenceTargetsExpression")
	r.Clauses = append(r.Clauses, "E7 every decoder expression type whose constraint can hold references implements ReferenceOriginsExpression; every type-aware container implements ReferenceTargetsExpression")
}

// runChildCoverage (E7): in the per-feature functions over hclsyntax expression kinds (for
// origins, tokens, hover, completion in decoder.Any), every Expression-typed field of the
// hclsyntax node handled by the function is read in it (or the function falls back to
// expr.Variables()).
func runChildCoverage(feature string, known map[string]string) func(p *Prog, r *Report) {
	return func(p *Prog, r *Report) {
		n := 0
		for _, fn := range p.Funcs {
			if fn.Obj == nil || !strings.HasSuffix(fn.Pkg.PkgPath, "hcl-lang/decoder") {
				continue
			}
			name := fname(fn.Obj)
			if !strings.HasPrefix(name, feature) || !strings.HasSuffix(name, "Expr") && !strings.HasSuffix(name, "ExprAtPos") {
				continue
			}
			info := fn.Info()
			// node types asserted in this function: eType, ok := a.expr.(*hclsyntax.X)
			ast.Inspect(fn.Body, func(x ast.Node) bool {
				var tExpr ast.Expr
				switch v := x.(type) {
				case *ast.TypeAssertExpr:
					tExpr = v.Type
				case *ast.CaseClause:
					if len(v.List) == 1 {
						if _, isTS := p.Parent(p.Parent(v)).(*ast.TypeSwitchStmt); isTS {
							tExpr = v.List[0]
						}
					}
				}
				if tExpr == nil {
					return true
				}
				tt := info.TypeOf(tExpr)
				pt, ok := tt.(*types.Pointer)
				if !ok {
					return true
				}
				nt := namedOf(pt)
				if nt == nil || nt.Obj().Pkg() == nil || !strings.HasSuffix(nt.Obj().Pkg().Path(), "hclsyntax") {
					return true
				}
				st, ok := nt.Underlying().(*types.Struct)
				if !ok {
					return true
				}
				scope := ast.Node(fn.Body)
				if cc, ok := x.(*ast.CaseClause); ok {
					scope = cc
				}
				for i := 0; i < st.NumFields(); i++ {
					f := st.Field(i)
					ft := f.Type().String()
					if !strings.HasSuffix(ft, "hclsyntax.Expression") {
						continue
					}
					n++
					read := false
					ast.Inspect(scope, func(y ast.Node) bool {
						if sel, ok := y.(*ast.SelectorExpr); ok && sel.Sel.Name == f.Name() {
							if xt := info.TypeOf(sel.X); xt != nil && types.Identical(xt, tt) {
								read = true
							}
						}
						return true
					})
					key := nt.Obj().Name() + "." + f.Name()
					if read {
						r.Add("E7.child-coverage", fn.Name, key, p.Pos(x), OK, "child expression is visited", false)
					} else if why, ok := known[fname(fn.Obj)+"|"+key]; ok {
						r.Add("E7.child-coverage", fn.Name, key, p.Pos(x), Excepted, why, true)
					} else {
						r.Add("E7.child-coverage", fn.Name, key, p.Pos(x), Violated, "child expression "+key+" of the handled node is never visited by this "+feature+" function: references/tokens written there are lost", true)
					}
				}
				return true
			})
		}
		r.ExpectMin("E7.child-fields-"+feature, n, 5)
		r.Clauses = append(r.Clauses, "E7 every Expression-typed field of the hclsyntax node handled by a "+feature+"…Expr function is visited in it")
	}
}
