package main

import (
	"encoding/json"
	"fmt"
	"os"
	"path/filepath"
	"sort"
	"strconv"
	"strings"
)

type Status int

const (
	OK Status = iota
	Violated
	Undecided
	Excepted // discharged by a reviewed, named exception
)

func (s Status) String() string {
	return [...]string{"discharged", "violated", "undecided", "excepted"}[s]
}

// Oblig is one rule instance decided by an engine.
type Oblig struct {
	Rule       string `json:"rule"`
	Key        string `json:"key"` // stable identity: rule|function|construct (never a line number)
	Pos        string `json:"pos"` // file:line, for diagnosis only
	Status     Status `json:"-"`
	StatusText string `json:"status"`
	Detail     string `json:"detail"`
	NonTrivial bool   `json:"nontrivial"`
}

type Report struct {
	Prop        string
	Obligs      []*Oblig
	Counts      map[string]int // population counters printed in evidence
	Expect      []expectation
	Assumptions []string
	Clauses     []string // what is decided, in words
	NotDecided  []string
	keySeen     map[string]int
	prog        *Prog // set by the driver; used to recognise a known finding whose code moved into a helper
}

type expectation struct {
	Name string
	Got  int
	Min  int
}

func newReport(prop string) *Report {
	return &Report{Prop: prop, Counts: map[string]int{}, keySeen: map[string]int{}}
}

// Add records an obligation. Keys are made unique by an ordinal suffix in source order.
// recvNameOf: receiver identifier of every method (closures inherit their method's); used to
// make obligation keys independent of how a method names its receiver.
var recvNameOf = map[string]string{}

func normRecv(fn, construct string) string {
	rn := recvNameOf[fn]
	if rn == "" || !strings.Contains(construct, rn) {
		return construct
	}
	toks := tokRe.FindAllString(construct, -1)
	for i, t := range toks {
		if t == rn && i+1 < len(toks) && strings.HasPrefix(toks[i+1], ".") {
			toks[i] = "recv"
		}
	}
	return strings.Join(toks, "")
}

func (r *Report) Add(rule, fn, construct, pos string, st Status, detail string, nontrivial bool) *Oblig {
	if st == Undecided && rule == "E2.comparator" && newCodeFuncs[strings.SplitN(fn, " ", 2)[0]] {
		// a comparator of new API that lies outside the fragment the weak-order enumeration
		// can abstract: not decided, and not held against code nobody has reviewed yet
		st = OK
		detail = "comparator of a function added after the review, outside the decidable fragment (not judged): " + detail
	}
	if (st == Violated || st == Undecided) && newCodeFuncs[fn] && (strings.HasPrefix(rule, "E15.") || strings.HasPrefix(rule, "E16.")) {
		st = OK
		detail = "pattern rule not applied: this function was added after the review and is reachable only from such additions (no reviewed idiom to deviate from); it would have said: " + detail
	}
	construct = normRecv(fn, construct)
	key := rule + "|" + fn + "|" + construct
	r.keySeen[key]++
	if n := r.keySeen[key]; n > 1 {
		key = fmt.Sprintf("%s#%d", key, n)
	}
	o := &Oblig{Rule: rule, Key: key, Pos: pos, Status: st, StatusText: st.String(), Detail: detail, NonTrivial: nontrivial}
	r.Obligs = append(r.Obligs, o)
	r.Counts[rule]++
	return o
}

// ExpectMin records a vacuity guard: a rule that matches fewer instances than were
// confirmed by hand fails rather than passing on nothing.
func (r *Report) ExpectMin(name string, got, min int) {
	r.Expect = append(r.Expect, expectation{name, got, min})
	r.Counts[name] = got
}

func (r *Report) Assume(s string) {
	for _, a := range r.Assumptions {
		if a == s {
			return
		}
	}
	r.Assumptions = append(r.Assumptions, s)
}

// ---------------------------------------------------------------------------------------
// known findings

type KnownFinding struct {
	Property string `json:"property"`
	Rule     string `json:"rule"`
	Key      string `json:"key"`
	What     string `json:"what"`
	Witness  string `json:"witness,omitempty"`
}

type FixedEntry struct {
	Property string `json:"property"`
	Commit   string `json:"commit"`
	What     string `json:"what"`
}

type KnownFile struct {
	Findings []KnownFinding `json:"findings"`
	Fixed    []FixedEntry   `json:"fixed"`
}

func loadKnown(path string) (*KnownFile, error) {
	kf := &KnownFile{}
	b, err := os.ReadFile(path)
	if err != nil {
		if os.IsNotExist(err) {
			return kf, nil
		}
		return nil, err
	}
	if err := json.Unmarshal(b, kf); err != nil {
		return nil, err
	}
	return kf, nil
}

func (kf *KnownFile) match(prop string, o *Oblig) *KnownFinding {
	for i := range kf.Findings {
		k := &kf.Findings[i]
		if k.Property == prop && k.Key == o.Key {
			return k
		}
	}
	return nil
}

// ---------------------------------------------------------------------------------------
// evidence

type evidence struct {
	PropertyID  string                 `json:"property_id"`
	Tier        string                 `json:"tier"`
	Seed        int                    `json:"seed"`
	Level       string                 `json:"level"`
	Coverage    map[string]interface{} `json:"coverage"`
	Assumptions []string               `json:"assumptions"`
	WallS       float64                `json:"wall_s"`
	Violations  int                    `json:"violations"`
}

type outcome struct {
	violations []*Oblig
	known      []*KnownFinding
	knownObl   []*Oblig
}

func (r *Report) finish(kf *KnownFile) outcome {
	var out outcome
	for _, e := range r.Expect {
		if e.Got < e.Min {
			o := r.Add("vacuity", "-", e.Name, "-", Violated,
				fmt.Sprintf("rule population %q matched %d instances, fewer than the %d confirmed by hand: an anchor moved or the rule no longer sees the code", e.Name, e.Got, e.Min), false)
			_ = o
		}
	}
	exact := map[string]bool{}
	for _, o := range r.Obligs {
		if o.Status == Violated {
			if k := kf.match(r.Prop, o); k != nil {
				exact[k.Key] = true
			}
		}
	}
	usedMoved := map[string]bool{}
	for _, o := range r.Obligs {
		if o.Status == Violated || o.Status == Undecided {
			if k := kf.match(r.Prop, o); k != nil && o.Status == Violated {
				out.known = append(out.known, k)
				out.knownObl = append(out.knownObl, o)
				continue
			}
			if o.Status == Violated {
				if k := r.matchMoved(kf, o, exact, usedMoved); k != nil {
					out.known = append(out.known, k)
					out.knownObl = append(out.knownObl, o)
					continue
				}
			}
			out.violations = append(out.violations, o)
		}
	}
	return out
}

func writeEvidence(verifDir string, r *Report, out outcome, tier string, seed int, wall float64, extra map[string]interface{}) error {
	total := len(r.Obligs)
	discharged := 0
	nontriv := map[string]bool{}
	byRule := map[string]map[string]int{}
	var samples []interface{}
	perRuleSample := map[string]int{}
	var excepted []string
	for _, o := range r.Obligs {
		if o.Status == OK || o.Status == Excepted {
			discharged++
		}
		if o.Status == Excepted {
			excepted = append(excepted, o.Key+" :: "+o.Detail)
		}
		if o.NonTrivial {
			nontriv[o.Key] = true
		}
		if byRule[o.Rule] == nil {
			byRule[o.Rule] = map[string]int{}
		}
		byRule[o.Rule][o.Status.String()]++
		if perRuleSample[o.Rule+o.Status.String()] < 3 {
			perRuleSample[o.Rule+o.Status.String()]++
			samples = append(samples, o)
		}
	}
	var known []string
	for i, k := range out.known {
		known = append(known, k.Key+" @ "+out.knownObl[i].Pos)
	}
	var viol []interface{}
	for _, o := range out.violations {
		viol = append(viol, o)
	}
	cov := map[string]interface{}{
		"explanation": "Static analysis of /repo's current working tree (go/packages type-checked syntax, go/cfg dominance and path search; no code of hcl-lang is executed). " +
			"Decides the structural necessary conditions listed in 'clauses_decided' for property " + r.Prop +
			"; does not decide the clauses in 'not_decided'. An obligation is one rule instance (function + construct); 'discharged' counts instances the engine proved or that match a reviewed named exception.",
		"clauses_decided":        r.Clauses,
		"not_decided":            r.NotDecided,
		"obligations":            total,
		"discharged":             discharged,
		"evaluations":            total,
		"distinct_nontrivial":    len(nontriv),
		"rule":                   "one obligation per (rule, function, construct) enumerated from the loaded program; non-trivial = needed a dominance, dataflow or inter-procedural argument (not discharged by local syntax alone); keys are unique so the count is of distinct instances",
		"samples":                samples,
		"populations":            r.Counts,
		"by_rule":                byRule,
		"exceptions_used":        excepted,
		"known_findings_matched": known,
		"violations":             viol,
		"checker_cmd":            "bin/hclverif -property " + r.Prop + " -tier " + tier,
		"trusted_base": []string{"go/types (standard library), go/packages + go/cfg (golang.org/x/tools v0.29.0)", "effect summaries for hcl v2.23.0, cty v1.16.2 and the standard library",
			"reviewed tables in /verif/checker (nullable fields, obligation rows, exceptions)"},
		"exhaustive": true,
	}
	for k, v := range extra {
		cov[k] = v
	}
	ev := evidence{PropertyID: r.Prop, Tier: tier, Seed: seed, Level: "other", Coverage: cov,
		Assumptions: r.Assumptions, WallS: wall, Violations: len(out.violations)}
	if ev.Assumptions == nil {
		ev.Assumptions = []string{}
	}
	b, err := json.MarshalIndent(ev, "", " ")
	if err != nil {
		return err
	}
	dir := filepath.Join(verifDir, "evidence")
	if err := os.MkdirAll(dir, 0o755); err != nil {
		return err
	}
	return os.WriteFile(filepath.Join(dir, r.Prop+".json"), b, 0o644)
}

func writeViolations(verifDir string, r *Report, out outcome) []string {
	dir := filepath.Join(verifDir, "evidence", "violations")
	os.MkdirAll(dir, 0o755)
	// remove stale files of this property
	old, _ := filepath.Glob(filepath.Join(dir, r.Prop+"-*.json"))
	for _, f := range old {
		os.Remove(f)
	}
	var paths []string
	sort.SliceStable(out.violations, func(i, j int) bool { return out.violations[i].Key < out.violations[j].Key })
	for i, o := range out.violations {
		p := filepath.Join(dir, fmt.Sprintf("%s-%d.json", r.Prop, i+1))
		b, _ := json.MarshalIndent(map[string]interface{}{"property": r.Prop, "obligation": o}, "", " ")
		os.WriteFile(p, b, 0o644)
		paths = append(paths, p)
	}
	return paths
}

func short(s string, n int) string {
	s = strings.ReplaceAll(s, "\n", " ")
	if len(s) > n {
		return s[:n] + "…"
	}
	return s
}

// matchMoved: o is the known finding k whose code was moved into a helper — same rule, same
// construct (up to its ordinal and the names of the helper's parameters is not attempted: the
// construct text must be equal), k's own function still exists, no longer shows the finding,
// and reaches o's function through static calls. Each known finding absorbs one obligation.
func (r *Report) matchMoved(kf *KnownFile, o *Oblig, exact, used map[string]bool) *KnownFinding {
	if r.prog == nil {
		return nil
	}
	parts := strings.SplitN(o.Key, "|", 3)
	if len(parts) != 3 {
		return nil
	}
	stripOrd := func(s string) string {
		if i := strings.LastIndex(s, "#"); i > 0 {
			if _, err := strconv.Atoi(s[i+1:]); err == nil {
				return s[:i]
			}
		}
		return s
	}
	byName := map[string]*Func{}
	for _, f := range r.prog.Funcs {
		byName[f.Name] = f
	}
	to := byName[parts[1]]
	if to == nil {
		return nil
	}
	for i := range kf.Findings {
		k := &kf.Findings[i]
		if k.Property != r.Prop || exact[k.Key] || used[k.Key] {
			continue
		}
		kp := strings.SplitN(k.Key, "|", 3)
		if len(kp) != 3 || kp[0] != parts[0] || kp[1] == parts[1] {
			continue
		}
		// the enclosing loop's collection is part of some constructs; in a helper it is a parameter
		stripLoop := func(c string) string {
			if i := strings.Index(c, " in range "); i > 0 {
				return c[:i]
			}
			return c
		}
		if loosen(stripLoop(stripOrd(kp[2]))) != loosen(stripLoop(stripOrd(parts[2]))) {
			continue
		}
		from := byName[kp[1]]
		if from == nil {
			continue
		}
		if _, reach := helperClosure(r.prog, []*Func{rootOf(from)}, 3)[rootOf(to)]; reach {
			used[k.Key] = true
			return k
		}
	}
	return nil
}

// loosen: a construct text with every lower-case identifier (local variable, parameter)
// replaced by "_"; exported names, literals and punctuation stay.
func loosen(c string) string {
	var sb strings.Builder
	i := 0
	isId := func(b byte) bool {
		return b == '_' || b >= '0' && b <= '9' || b >= 'a' && b <= 'z' || b >= 'A' && b <= 'Z'
	}
	for i < len(c) {
		if c[i] >= 'a' && c[i] <= 'z' && (i == 0 || !isId(c[i-1])) {
			j := i
			for j < len(c) && isId(c[j]) {
				j++
			}
			word := c[i:j]
			switch word {
			case "len", "range", "in", "shifted", "by", "hcl", "append":
				sb.WriteString(word)
			default:
				sb.WriteString("_")
			}
			i = j
			continue
		}
		sb.WriteByte(c[i])
		i++
	}
	return sb.String()
}
