package main

import (
	"encoding/json"
	"flag"
	"fmt"
	"os"
	"path/filepath"
	"sort"
	"strconv"
	"strings"
	"time"
)

type Rule struct {
	Name string
	Run  func(p *Prog, r *Report)
	SSA  bool // needs dependencies loaded / SSA
}

// propRules maps each claimed property to its rule set.
var propRules = map[string][]Rule{}

func register(prop string, rules ...Rule) { propRules[prop] = append(propRules[prop], rules...) }

func main() {
	prop := flag.String("property", "", "property id (C01..C20)")
	tier := flag.String("tier", "quick", "quick|thorough")
	repo := flag.String("repo", "/repo", "path of the hcl-lang working tree to analyse")
	verif := flag.String("verif", "/verif", "path of the verification directory")
	list := flag.Bool("list", false, "print every obligation")
	noEvidence := flag.Bool("no-evidence", false, "do not write evidence (used for scratch variants)")
	replay := flag.String("replay", "", "violation file to re-check")
	goarch := flag.String("goarch", "", "GOARCH to analyse under")
	genSnap := flag.Bool("gen-snapshot", false, "print the function inventory of -repo as Go source (snapshot_gen.go)")
	flag.Parse()

	if *genSnap {
		pr, err := loadProg(*repo, *goarch, false)
		if err != nil {
			fmt.Println("ANALYSIS FAILURE:", err)
			os.Exit(2)
		}
		fmt.Print(genSnapshot(pr))
		return
	}

	if *replay != "" {
		b, err := os.ReadFile(*replay)
		if err != nil {
			fmt.Println("cannot read replay file:", err)
			os.Exit(2)
		}
		var v struct {
			Property   string `json:"property"`
			Obligation Oblig  `json:"obligation"`
		}
		json.Unmarshal(b, &v)
		*prop = v.Property
		code := runProperty(*prop, "quick", *repo, *verif, "", true, false, v.Obligation.Key, nil)
		os.Exit(code)
	}
	if *prop == "" {
		fmt.Println("usage: hclverif -property Cxx [-tier quick|thorough]")
		os.Exit(2)
	}
	if t := os.Getenv("VERIF_TIER"); t != "" && *tier == "" {
		*tier = t
	}
	var extra map[string]interface{}
	if *tier == "thorough" {
		if _, ok := propRules[*prop]; ok {
			c, ex := thoroughExtras(*prop, *repo, *verif, *noEvidence)
			if c != 0 {
				os.Exit(c)
			}
			extra = ex
		}
	}
	code := runProperty(*prop, *tier, *repo, *verif, *goarch, *noEvidence, *list, "", extra)
	os.Exit(code)
}

func runProperty(prop, tier, repo, verif, goarch string, noEvidence, list bool, onlyKey string, extraCov map[string]interface{}) int {
	start := time.Now()
	rules, ok := propRules[prop]
	if !ok {
		fmt.Printf("property %s is not claimed by this checker\n", prop)
		return 2
	}
	seed, _ := strconv.Atoi(os.Getenv("VERIF_SEED"))
	r := newReport(prop)
	fail := func(kind, msg string) int {
		r.Add("analysis", "-", kind, "-", Undecided, msg, false)
		out := r.finish(&KnownFile{})
		if !noEvidence {
			writeEvidence(verif, r, out, tier, seed, time.Since(start).Seconds(), nil)
			paths := writeViolations(verif, r, out)
			fmt.Printf("ANALYSIS FAILURE %s: %s\n", kind, msg)
			fmt.Printf("VIOLATION property=%s replay=%s\n", prop, paths[0])
		} else {
			fmt.Printf("ANALYSIS FAILURE %s: %s\nVIOLATION property=%s replay=-\n", kind, msg, prop)
		}
		return 1
	}
	needSSA := false
	for _, ru := range rules {
		needSSA = needSSA || ru.SSA
	}
	p, err := loadProg(repo, goarch, needSSA)
	if err != nil {
		return fail("load", err.Error())
	}
	kf, err := loadKnown(filepath.Join(verif, "known_findings.json"))
	if err != nil {
		return fail("known-findings", err.Error())
	}
	var panicMsg string
	for _, ru := range rules {
		func() {
			defer func() {
				if x := recover(); x != nil {
					panicMsg = fmt.Sprintf("rule %s panicked: %v", ru.Name, x)
					if os.Getenv("HCLVERIF_DEBUG") != "" {
						panic(x)
					}
				}
			}()
			ru.Run(p, r)
		}()
		if panicMsg != "" {
			return fail("panic", panicMsg)
		}
	}
	r.prog = p
	out := r.finish(kf)
	if onlyKey != "" {
		for _, o := range out.violations {
			if o.Key == onlyKey {
				fmt.Printf("replay: still violated: %s @ %s: %s\nVIOLATION property=%s replay=-\n", o.Key, o.Pos, o.Detail, prop)
				return 1
			}
		}
		fmt.Printf("replay: %s is no longer violated\n", onlyKey)
		return 0
	}
	wall := time.Since(start).Seconds()
	nFuncs := len(p.Funcs)
	extra := map[string]interface{}{"packages_analysed": len(p.Pkgs), "functions_analysed": nFuncs, "goarch": goarch}
	for k, v := range extraCov {
		extra[k] = v
	}
	if nd, ok := notDecided[prop]; ok {
		r.NotDecided = append(r.NotDecided, nd...)
	}
	var paths []string
	if !noEvidence {
		if err := writeEvidence(verif, r, out, tier, seed, wall, extra); err != nil {
			fmt.Println("cannot write evidence:", err)
			return 2
		}
		paths = writeViolations(verif, r, out)
	}
	// print
	if list {
		sort.SliceStable(r.Obligs, func(i, j int) bool { return r.Obligs[i].Key < r.Obligs[j].Key })
		for _, o := range r.Obligs {
			fmt.Printf("%-10s %s @ %s :: %s\n", o.Status, o.Key, o.Pos, short(o.Detail, 160))
		}
	}
	disc := 0
	for _, o := range r.Obligs {
		if o.Status == OK || o.Status == Excepted {
			disc++
		}
	}
	fmt.Printf("property %s tier=%s: %d packages, %d functions, %d obligations, %d discharged, %d known findings, %d violations (%.1fs)\n",
		prop, tier, len(p.Pkgs), nFuncs, len(r.Obligs), disc, len(out.known), len(out.violations), wall)
	var names []string
	for k := range r.Counts {
		names = append(names, k)
	}
	sort.Strings(names)
	var sb strings.Builder
	for _, k := range names {
		fmt.Fprintf(&sb, " %s=%d", k, r.Counts[k])
	}
	fmt.Println("populations:" + sb.String())
	for i, k := range out.known {
		fmt.Printf("KNOWN-FINDING: property=%s %s @ %s — %s\n", prop, k.Key, out.knownObl[i].Pos, k.What)
	}
	for i, o := range out.violations {
		path := "-"
		if i < len(paths) {
			path = paths[i]
		}
		fmt.Printf("%s: [%s] %s — %s\n", o.Pos, o.Status, o.Key, o.Detail)
		fmt.Printf("VIOLATION property=%s replay=%s\n", prop, path)
	}
	if len(out.violations) > 0 {
		return 1
	}
	return 0
}
